#!/bin/sh
# Run once after a fresh restore, offline: build everything the checks share.
set -e
cd "$(dirname "$0")"
REPO="${VERIF_REPO:-/repo}"
mkdir -p build evidence replays
python3 tools/extract_tables.py "$REPO" lean/QM/Generated/Tables.lean build/tables.json
RUSTFLAGS="--cfg quadlet_rs_verif" CARGO_NET_OFFLINE=true cargo build --offline --quiet \
  --manifest-path "$REPO/Cargo.toml" --target-dir build/target
cd lean
lake build qmodel QM 2>&1 | tail -3
