import QM.Driver

/-! `qmodel`: the model behind the same line protocol as `quadlet-rs --verif-driver`. -/

partial def loop (h : IO.FS.Stream) (out : IO.FS.Stream) : IO Unit := do
  let line ← h.getLine
  if line.isEmpty then return ()
  out.putStrLn (Drv.step (line.dropRightWhile (· == '\n')))
  loop h out

def main : IO Unit := do
  loop (← IO.getStdin) (← IO.getStdout)
