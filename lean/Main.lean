import QM.Quote
import QM.Unquote
import QM.Extract
import QM.Strv
import QM.Parser
import QM.Path
import QM.Port
import QM.ConvDrv
import QM.Proc
import QM.Fs

def hexVal (c : Char) : Nat :=
  if '0' ≤ c ∧ c ≤ '9' then c.toNat - 48 else c.toNat - 87

def hexBytes : List Char → List UInt8
  | a :: b :: r => UInt8.ofNat (hexVal a * 16 + hexVal b) :: hexBytes r
  | _ => []

def hexd (s : String) : List Char :=
  match String.fromUTF8? (ByteArray.mk (hexBytes (s.toList.drop 1)).toArray) with
  | some str => str.toList
  | none => []

def hexDigitC (n : Nat) : Char := if n < 10 then Char.ofNat (48 + n) else Char.ofNat (87 + n)
def hexe (s : List Char) : String :=
  "x" ++ String.ofList ((String.ofList s).toUTF8.toList.flatMap fun b => [hexDigitC (b.toNat / 16), hexDigitC (b.toNat % 16)])

def collectImpl (next : List Char → P.Res) : Nat → List Char → List (List Char)
  | 0, _ => []
  | fuel+1, s => match next s with
    | .word w rest => w :: collectImpl next fuel rest
    | _ => []

def env : Parse.Env :=
  { keyChar := fun c => c.isAlphanum || c == '-' || c == 'é', validRaw := fun r => (P.unquoteValue true r).isSome }

def step (line : String) : String :=
  match line.splitOn "\t" with
  | "quote_words" :: ws => "ok " ++ hexe (P.quoteWords (ws.map hexd))
  | ["unquote", a] => match P.unquoteValue true (hexd a) with
      | some s => "ok " ++ hexe s
      | none => "err"
  | ["split_word", a] => "ok " ++ " ".intercalate ((collectImpl P.Impl.next ((hexd a).length + 1) (hexd a)).map hexe)
  | ["split_strv", a] => "ok " ++ " ".intercalate ((collectImpl P.Impl.strvNext ((hexd a).length + 1) (hexd a)).map hexe)
  | ["parse", a] => match Parse.parse env (hexd a) with
      | .ok u => "ok " ++ hexe (Parse.printUnit u)
      | .error _ => "err"
  | ["convert", p, t] =>
      let path := hexd p
      match Parse.parse Cv.parseEnv (hexd t) with
      | .error _ => "load-err"
      | .ok u =>
        let name := Cv.fileName path
        let ty := Cv.extension name
        let self : Cv.Info := { serviceName := Cv.serviceNameOf path u, resourceName := if ty == Cv.s "build" then (Cv.builtImageName u).getD [] else [] }
        let E : Cv.Env := { info := fun n => if n == name then some self else none }
        let self := if ty == Cv.s "container" then
            { self with resourceName :=
                let n := Cv.containerName name u
                -- %N ↦ service name; anything else with % is unresolvable
                let r := (String.ofList n).replace "%N" (String.ofList self.serviceName) |>.toList
                if r.contains '%' then [] else r }
          else self
        let E : Cv.Env := { info := fun n => if n == name then some self else none, pathExists := fun p => p == Cv.s "/dev/null" }
        if ty == Cv.s "container" then
          match Cv.fromContainer E path u with
          | none => "out-of-model"
          | some (.ok (svc, _)) => "ok " ++ hexe (Parse.printUnit svc)
          | some (.error e) => "err " ++ Cv.errClass e
        else
        let r : Except Cv.Err MM.SUnit :=
          if ty == Cv.s "image" then (Cv.fromImage E path u).map (·.1)
          else if ty == Cv.s "volume" then (Cv.fromVolume E path u).map (·.1)
          else if ty == Cv.s "network" then (Cv.fromNetwork E path u).map (·.1)
          else if ty == Cv.s "pod" then Cv.fromPod E path u []
          else if ty == Cv.s "kube" then Cv.fromKube E path u
          else if ty == Cv.s "build" then Cv.fromBuild E path u
          else .error (.internal [] [])
        match r with
        | .ok svc => "ok " ++ hexe (Parse.printUnit svc)
        | .error e => "err " ++ Cv.errClass e
  | "tree" :: nd :: rest =>
      let n := nd.toNat!
      let dirs := (rest.take n).map hexd
      let rec pairsT : List String → List (List Char × List Char)
        | a :: b :: r => (hexd a, hexd b) :: pairsT r
        | _ => []
      let t : Cv.Tree := { searchDirs := dirs, files := pairsT (rest.drop n) }
      let r := Cv.runTree t
      s!"{r.loadErrors} {r.dropinErrors} " ++ " ".intercalate (r.services.map fun (q, o) =>
        hexe q.path ++ "=" ++ (match o with
          | .ok svc => "ok:" ++ hexe (Parse.printUnit svc)
          | .err e => "err:" ++ Cv.errClass e
          | .outOfModel => "oom"))
  | "process" :: rest =>
      let rec pairs : List String → List (String × String)
        | a :: b :: r => (a, b) :: pairs r
        | _ => []
      let qs := (pairs rest).filterMap fun (p, t) =>
        match Parse.parse Cv.parseEnv (hexd t) with
        | .ok u => some ({ path := hexd p, unit := u } : Cv.QUnit)
        | .error _ => none
      let outs := Cv.processUnits qs
      " ".intercalate (outs.map fun (q, o) =>
        hexe q.path ++ "=" ++ (match o with
          | .ok svc => "ok:" ++ hexe (Parse.printUnit svc)
          | .err e => "err:" ++ Cv.errClass e
          | .outOfModel => "oom"))
  | ["clean", a] => "ok " ++ hexe (Pth.cleaned (hexd a))
  | ["port_range", a] => "ok " ++ toString (Port.isPortRange (hexd a))
  | _ => "bad-op"

partial def loop (h : IO.FS.Stream) (out : IO.FS.Stream) : IO Unit := do
  let line ← h.getLine
  if line.isEmpty then return ()
  out.putStrLn (step (line.dropRightWhile (· == '\n')))
  loop h out

def main : IO Unit := do
  loop (← IO.getStdin) (← IO.getStdout)
