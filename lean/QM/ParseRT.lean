import QM.Parser
namespace Parse

/-- raw values the printer can emit verbatim: every backslash starts a two-character pair whose second
    character is neither a space nor a newline, and there is no newline -/
def bsOK : Str → Bool
  | [] => true
  | c :: r =>
    if c == '\\' then
      match r with
      | [] => false
      | d :: r' => d != ' ' && d != '\n' && bsOK r'
    else c != '\n' && bsOK r

theorem pv_raw (raw : Str) (h : bsOK raw = true) (acc rest : Str) :
    pv .normal 0 acc (raw ++ '\n' :: rest) = (acc.reverse ++ raw, '\n' :: rest) := by
  fun_induction bsOK raw generalizing acc with
  | case1 => simp [pv]
  | case2 c hc => simp at h
  | case3 c hc d r' ih =>
    simp only [beq_iff_eq] at hc; subst hc
    simp only [Bool.and_eq_true, bne_iff_ne, ne_eq] at h
    obtain ⟨⟨h1, h2⟩, h3⟩ := h
    have e1 : (d == ' ') = false := by simpa using h1
    have e2 : (d == '\n') = false := by simpa using h2
    simp only [List.cons_append, pv, beq_self_eq_true, if_true, e1, e2, Bool.false_eq_true, if_false,
      List.replicate_zero, List.nil_append]
    rw [ih h3]; simp
  | case4 c r hc ih =>
    simp only [Bool.and_eq_true, bne_iff_ne, ne_eq] at h
    have e1 : (c == '\\') = false := by simpa using hc
    have e2 : (c == '\n') = false := by simpa using h.1
    simp only [List.cons_append, pv, e1, e2, Bool.false_eq_true, if_false]
    rw [ih h.2]; simp

theorem takeUntil_append (p : Char → Bool) (a : Str) (c : Char) (r : Str)
    (ha : ∀ x ∈ a, p x = false) (hc : p c = true) : takeUntil p (a ++ c :: r) = (a, c :: r) := by
  induction a with
  | nil => simp [takeUntil, hc]
  | cons x xs ih =>
    have := ha x (by simp)
    simp only [List.cons_append, takeUntil, this, Bool.false_eq_true, if_false]
    rw [ih (fun y hy => ha y (by simp [hy]))]

theorem trimEnd_id (s : Str) (h : ∀ c, s.getLast? = some c → isWs c = false) : trimEnd s = s := by
  unfold trimEnd
  have : s.reverse.dropWhile isWs = s.reverse := by
    cases hs : s.reverse with
    | nil => rfl
    | cons c r =>
      have hl : s.getLast? = some c := by
        have := congrArg List.head? hs; simpa [List.head?_reverse] using this
      simp [List.dropWhile, h c hl]
  rw [this]; simp

def stopKey (c : Char) : Bool := c == '=' || c == ' ' || c == '\t' || c == '\n' || c == '\r'

structure WFEntry (env : Env) (k v : Str) : Prop where
  keyChars : k.all env.keyChar = true
  keyNoStop : ∀ c ∈ k, stopKey c = false
  bs : bsOK v = true
  noLead : ∀ c, v.head? = some c → isSpTab c = false
  noTrail : ∀ c, v.getLast? = some c → isWs c = false

theorem skipWhile_head (p : Char → Bool) (s : Str) (h : ∀ c, s.head? = some c → p c = false) : skipWhile p s = s := by
  cases s with
  | nil => rfl
  | cons c r => simp [skipWhile, h c rfl]

theorem parseEntry_line (env : Env) (k v rest : Str) (wf : WFEntry env k v) :
    parseEntry env (k ++ '=' :: v ++ '\n' :: rest) = .ok ((k, v), '\n' :: rest) := by
  unfold parseEntry
  have ht := takeUntil_append stopKey k '=' (v ++ '\n' :: rest) wf.keyNoStop (by decide)
  have : (fun c => c == '=' || c == ' ' || c == '\t' || c == '\n' || c == '\r') = stopKey := rfl
  rw [List.append_assoc, List.cons_append, this, ht]
  simp only [wf.keyChars, Bool.not_true, Bool.false_eq_true, if_false]
  have h1 : skipWhile isSpTab ('=' :: (v ++ '\n' :: rest)) = '=' :: (v ++ '\n' :: rest) := by
    simp [skipWhile, isSpTab]
  rw [h1]
  simp only
  have h2 : skipWhile isSpTab (v ++ '\n' :: rest) = v ++ '\n' :: rest := by
    apply skipWhile_head
    intro c hc
    cases v with
    | nil => simp at hc; subst hc; decide
    | cons x xs => simp at hc; subst hc; exact wf.noLead _ rfl
  rw [h2]
  simp only [parseValue, pv_raw v wf.bs, List.reverse_nil, List.nil_append, trimEnd_id v wf.noTrail]

end Parse

namespace Parse

def printEntries (es : List (Str × Str)) : Str := es.flatMap fun (k, v) => k ++ '=' :: v ++ ['\n']

structure WFLine (env : Env) (k v : Str) : Prop extends WFEntry env k v where
  keyFirst : ∀ c, k.head? = some c → (c == '#' || c == ';') = false ∧ (c == '[') = false ∧ isAsciiWs c = false

theorem parseBody_nl (env : Env) (fuel : Nat) (r : Str) :
    parseBody env (fuel + 1) ('\n' :: r) = parseBody env fuel r := by
  simp [parseBody, isAsciiWs]

theorem parseBody_entry (env : Env) (fuel : Nat) (k v rest : Str) (wf : WFLine env k v) :
    parseBody env (fuel + 1) (k ++ '=' :: v ++ '\n' :: rest) =
      (match parseBody env fuel ('\n' :: rest) with
       | .error e => .error e
       | .ok (kvs, r') => .ok ((k, v) :: kvs, r')) := by
  have hline := parseEntry_line env k v rest wf.toWFEntry
  cases k with
  | nil =>
    simp only [List.nil_append] at hline ⊢
    rw [List.cons_append, parseBody]
    simp only [show ('=' == '#' || '=' == ';') = false by decide, show ('=' == '[') = false by decide,
      show isAsciiWs '=' = false by decide, Bool.false_eq_true, if_false]
    rw [← List.cons_append, hline]
    rfl
  | cons c k' =>
    obtain ⟨h1, h2, h3⟩ := wf.keyFirst c rfl
    have e : (c :: k') ++ '=' :: v ++ '\n' :: rest = c :: (k' ++ '=' :: v ++ '\n' :: rest) := by simp
    rw [e, parseBody]
    simp only [h1, h2, h3, Bool.false_eq_true, if_false]
    rw [← e, hline]
    rfl

theorem parseBody_entries (env : Env) (es : List (Str × Str)) (wf : ∀ kv ∈ es, WFLine env kv.1 kv.2)
    (tail : Str) (htail : tail = [] ∨ ∃ t, tail = '[' :: t) :
    ∀ fuel, fuel ≥ 2 * es.length + 3 →
      parseBody env fuel ('\n' :: printEntries es ++ '\n' :: tail) = .ok (es, tail) := by
  induction es with
  | nil =>
    intro fuel hf
    obtain ⟨f, rfl⟩ : ∃ f, fuel = f + 3 := ⟨fuel - 3, by simp at hf; omega⟩
    simp only [printEntries, List.flatMap_nil, List.nil_append, List.cons_append]
    rw [show f + 3 = (f + 1 + 1) + 1 from rfl, parseBody_nl, parseBody_nl]
    rcases htail with rfl | ⟨t, rfl⟩
    · simp [parseBody]
    · simp [parseBody]
  | cons kv es ih =>
    intro fuel hf
    obtain ⟨k, v⟩ := kv
    obtain ⟨f, rfl⟩ : ∃ f, fuel = f + 2 := ⟨fuel - 2, by simp at hf; omega⟩
    have e : '\n' :: printEntries ((k, v) :: es) ++ '\n' :: tail
        = '\n' :: (k ++ '=' :: v ++ '\n' :: (printEntries es ++ '\n' :: tail)) := by
      simp [printEntries]
    rw [e, parseBody_nl, parseBody_entry env f k v _ (wf (k, v) (by simp))]
    have := ih (fun kv hkv => wf kv (by simp [hkv])) f (by simp at hf ⊢; omega)
    simp only [List.cons_append] at this
    rw [this]

end Parse

namespace Parse

structure WFSec (env : Env) (sec : Str) (es : List (Str × Str)) : Prop where
  nonempty : sec ≠ []
  nameChars : ∀ c ∈ sec, (c == ']' || c == '\n') = false
  lines : ∀ kv ∈ es, WFLine env kv.1 kv.2
  valid : es.all (fun kv => env.validRaw kv.2) = true

theorem printUnit_cons (sec : Str) (es : List (Str × Str)) (u : Unit) :
    printUnit ((sec, es) :: u) = '[' :: sec ++ ']' :: ('\n' :: printEntries es ++ '\n' :: printUnit u) := by
  simp [printUnit, printEntries]

theorem printUnit_tail (u : Unit) : printUnit u = [] ∨ ∃ t, printUnit u = '[' :: t := by
  cases u with
  | nil => left; rfl
  | cons p u => right; obtain ⟨sec, es⟩ := p; rw [printUnit_cons]; exact ⟨_, rfl⟩

theorem parseHeader_printed (sec r : Str) (hne : sec ≠ []) (hc : ∀ c ∈ sec, (c == ']' || c == '\n') = false) :
    parseHeader ('[' :: sec ++ ']' :: r) = .ok (sec, r) := by
  have := takeUntil_append (fun c => c == ']' || c == '\n') sec ']' r hc (by decide)
  simp only [List.cons_append, parseHeader, this]
  cases sec with
  | nil => exact absurd rfl hne
  | cons _ _ => simp

theorem printEntries_length (es : List (Str × Str)) : 2 * es.length ≤ (printEntries es).length := by
  induction es with
  | nil => simp [printEntries]
  | cons kv es ih =>
    obtain ⟨k, v⟩ := kv
    have : printEntries ((k, v) :: es) = k ++ '=' :: v ++ '\n' :: printEntries es := by simp [printEntries]
    rw [this]; simp; omega

theorem addEntries_fresh (u : Unit) (sec : Str) (es : List (Str × Str)) (h : u.lookup sec = none) :
    addEntries u sec es = u ++ [(sec, es)] := by simp [addEntries, h]

theorem lookup_none_of_not_mem (u : Unit) (sec : Str) (h : sec ∉ u.map Prod.fst) : u.lookup sec = none := by
  induction u with
  | nil => rfl
  | cons p u ih =>
    obtain ⟨s, es⟩ := p
    simp only [List.map_cons, List.mem_cons, not_or] at h
    have : (sec == s) = false := by simpa using h.1
    simp [List.lookup, this, ih h.2]

theorem parseUnit_printed (env : Env) (secs : Unit) (wf : ∀ p ∈ secs, WFSec env p.1 p.2) :
    ∀ (acc : Unit) (fuel : Nat), fuel ≥ secs.length + 1 → ((acc ++ secs).map Prod.fst).Nodup →
      parseUnit env fuel acc (printUnit secs) = .ok (acc ++ secs) := by
  induction secs with
  | nil =>
    intro acc fuel hf _
    cases fuel with
    | zero => simp at hf
    | succ n => simp [printUnit, parseUnit]
  | cons p secs ih =>
    intro acc fuel hf hnd
    obtain ⟨sec, es⟩ := p
    have w := wf (sec, es) (by simp)
    cases fuel with
    | zero => simp at hf
    | succ n =>
      rw [printUnit_cons, List.cons_append, parseUnit]
      simp only [show ('[' == '#' || '[' == ';') = false by decide, Bool.false_eq_true, if_false,
        beq_self_eq_true, if_true]
      rw [← List.cons_append, parseHeader_printed sec _ w.nonempty w.nameChars]
      simp only
      have hb := parseBody_entries env es w.lines (printUnit secs) (printUnit_tail secs)
        (('\n' :: printEntries es ++ '\n' :: printUnit secs).length + 1)
        (by have := printEntries_length es; simp; omega)
      rw [hb]
      simp only [w.valid, if_true]
      have hlen : (printUnit secs).length < ('[' :: (sec ++ ']' :: ('\n' :: printEntries es ++ '\n' :: printUnit secs))).length := by
        simp; omega
      simp only [List.cons_append] at hlen ⊢
      rw [if_pos hlen]
      have hfresh : acc.lookup sec = none := by
        apply lookup_none_of_not_mem
        intro hm
        simp only [List.map_append, List.map_cons] at hnd
        have := (List.nodup_append.mp hnd).2.2 sec hm sec (by simp)
        exact this rfl
      rw [addEntries_fresh acc sec es hfresh]
      have := ih (fun q hq => wf q (by simp [hq])) (acc ++ [(sec, es)]) n (by simp at hf ⊢; omega)
        (by simpa using hnd)
      simpa using this

end Parse
