import QM.ConvKeys
import QM.QuoteLemmas
/-! C01 at the level of whole converters: every Exec line a converter adds to [Service] is a rendering
    (`quote_words`) of some argument vector; the only other Exec lines in the service are the user's own. -/
namespace Cv
open MM

def execKeys : List Str := [s "ExecStart", s "ExecStartPre", s "ExecStartPost", s "ExecStop", s "ExecStopPost", s "ExecReload", s "ExecCondition"]

/-- every Exec entry of [Service] in `b` was already in `a` or is a rendering -/
def ExecRendered (a b : SUnit) : Prop :=
  ∀ e ∈ entriesOf b (s "Service"), e.1 ∈ execKeys → e ∈ entriesOf a (s "Service") ∨ ∃ cmd, e.2 = P.quoteWords cmd

theorem ExecRendered.refl (a : SUnit) : ExecRendered a a := fun e he _ => Or.inl he
theorem ExecRendered.trans {a b c : SUnit} (h1 : ExecRendered a b) (h2 : ExecRendered b c) : ExecRendered a c := by
  intro e he hk
  rcases h2 e he hk with h | h
  · exact h1 e h hk
  · exact Or.inr h

theorem xr_addEntry_other (svc : SUnit) (sec key raw : Str) (h : key ∉ execKeys) : ExecRendered svc (addEntry svc sec key raw) := by
  intro e he hk
  rw [entriesOf_addEntry] at he
  split at he
  · rcases List.mem_append.mp he with h1 | h1
    · rename_i hs; exact Or.inl (hs ▸ h1)
    · simp only [List.mem_singleton] at h1
      subst h1
      exact absurd hk h
  · exact Or.inl he

theorem xr_addS (svc : SUnit) (sec key : String) (v : Str) (h : s key ∉ execKeys := by decide) : ExecRendered svc (addS svc sec key v) :=
  xr_addEntry_other _ _ _ _ h

theorem mem_setIn (es : Entries) (key raw : Str) (e : Str × Str) (h : e ∈ setIn es key raw) : e ∈ es ∨ e = (key, raw) := by
  unfold setIn at h
  rcases List.mem_append.mp h with h | h
  · rcases List.mem_append.mp h with h | h
    · exact Or.inl (List.mem_filter.mp h).1
    · exact Or.inl (List.mem_filter.mp ((List.dropLast_sublist _).subset h)).1
  · simp only [List.mem_singleton] at h; exact Or.inr h

theorem xr_setS (svc : SUnit) (sec key : String) (v : Str) (h : s key ∉ execKeys := by decide) : ExecRendered svc (setS svc sec key v) := by
  intro e he hk
  unfold Cv.setS at he
  rw [entriesOf_setEntry] at he
  split at he
  · rename_i hs
    rcases mem_setIn _ _ _ _ he with h1 | h1
    · exact Or.inl (hs ▸ h1)
    · subst h1; exact absurd hk h
  · exact Or.inl he

theorem xr_prependS (svc : SUnit) (sec key : String) (v : Str) (h : s key ∉ execKeys := by decide) : ExecRendered svc (prependS svc sec key v) := by
  intro e he hk
  rw [entriesOf_prependS] at he
  split at he
  · rename_i hs
    rcases List.mem_cons.mp he with h1 | h1
    · subst h1; exact absurd hk h
    · exact Or.inl (hs ▸ h1)
  · exact Or.inl he

theorem xr_addRawExec (svc svc' : SUnit) (k : String) (args : List Str)
    (h : addRawExec svc k args = .ok svc') : ExecRendered svc svc' := by
  rw [addRawExec_ok _ _ _ _ h]
  intro e he _
  rw [entriesOf_addEntry, if_pos rfl] at he
  rcases List.mem_append.mp he with h1 | h1
  · exact Or.inl h1
  · simp only [List.mem_singleton] at h1
    subst h1
    exact Or.inr ⟨args, rfl⟩

theorem xr_oneShot (svc : SUnit) (b : Bool) : ExecRendered svc (oneShot svc b) := by
  unfold oneShot
  simp only
  split <;> split <;> split <;>
    first
    | exact ((xr_setS _ _ _ _).trans (xr_setS _ _ _ _)).trans (xr_setS _ _ _ _)
    | exact (xr_setS _ _ _ _).trans (xr_setS _ _ _ _)
    | exact xr_setS _ _ _ _
    | exact ExecRendered.refl _

theorem xr_killMode (u svc svc' : SUnit) (h : killMode u svc = .ok svc') : ExecRendered svc svc' := by
  unfold killMode at h
  split at h
  · simp at h; subst h; exact xr_setS _ _ _ _
  · split at h
    · simp at h; subst h; exact ExecRendered.refl _
    · simp at h

theorem xr_handleImageSource (E : Env) (name : Str) (svc : SUnit) (r : Str × SUnit)
    (h : handleImageSource E name svc = .ok r) : ExecRendered svc r.2 := by
  unfold handleImageSource at h
  split at h
  · split at h
    · simp at h
    · simp at h; subst h
      exact (xr_addS _ _ _ _).trans (xr_addS _ _ _ _)
  · simp at h; subst h; exact ExecRendered.refl _

theorem xr_handleStorageSource (E : Env) (unitPath : Str) (svc : SUnit) (source : Str) (ci : Bool) (r : Str × SUnit)
    (h : handleStorageSource E unitPath svc source ci = .ok r) : ExecRendered svc r.2 := by
  unfold handleStorageSource at h
  simp only at h
  generalize (if source.head? == some '.' then absFromUnit unitPath source else source) = src at h
  split at h
  · simp at h; subst h; exact xr_addS _ _ _ _
  · split at h
    · split at h
      · simp at h
      · simp at h; subst h
        exact (xr_addS _ _ _ _).trans (xr_addS _ _ _ _)
    · simp at h; subst h; exact ExecRendered.refl _

theorem xr_foldlM {α β : Type} (f : β × SUnit → α → R (β × SUnit))
    (hf : ∀ acc a r, f acc a = .ok r → ExecRendered acc.2 r.2) :
    ∀ (l : List α) (acc r : β × SUnit), l.foldlM f acc = .ok r → ExecRendered acc.2 r.2 := by
  intro l
  induction l with
  | nil => intro acc r h; simp [List.foldlM, pure, Except.pure] at h; subst h; exact ExecRendered.refl _
  | cons a l ih =>
    intro acc r h
    simp only [List.foldlM_cons, bind_ok] at h
    obtain ⟨x, hx, hr⟩ := h
    exact (hf acc a x hx).trans (ih x r hr)

theorem xr_volumeStep (E : Env) (unitPath : Str) (acc : List Str × SUnit) (volume : Str) (r : List Str × SUnit)
    (h : volumeStep E unitPath acc volume = .ok r) : ExecRendered acc.2 r.2 := by
  unfold volumeStep at h
  simp only at h
  split at h
  · simp at h; subst h; exact ExecRendered.refl _
  · split at h
    · simp at h
    · rename_i x hx
      have := xr_handleStorageSource _ _ _ _ _ _ hx
      split at h <;> (simp at h; subst h; exact this)

theorem xr_handleVolumes (E : Env) (unitPath : Str) (u : SUnit) (sec : Str) (svc : SUnit) (r : List Str × SUnit)
    (h : handleVolumes E unitPath u sec svc = .ok r) : ExecRendered svc r.2 :=
  xr_foldlM _ (xr_volumeStep E unitPath) _ _ _ h

theorem xr_networkRef (E : Env) (name : Str) (svc : SUnit) (r : Str × SUnit)
    (h : networkRef E name svc = .ok r) : ExecRendered svc r.2 := by
  unfold networkRef at h
  split at h
  · split at h
    · simp at h
    · split at h
      · simp at h
      · simp at h; subst h; exact (xr_addS _ _ _ _).trans (xr_addS _ _ _ _)
  · simp at h; subst h; exact ExecRendered.refl _

theorem xr_networkStep (E : Env) (acc : List Str × SUnit) (network : Str) (r : List Str × SUnit)
    (h : networkStep E acc network = .ok r) : ExecRendered acc.2 r.2 := by
  unfold networkStep at h
  split at h
  · simp at h; subst h; exact ExecRendered.refl _
  · simp only at h
    split at h
    · simp at h
    · rename_i x hx
      have := xr_networkRef _ _ _ _ hx
      split at h
      · split at h
        · simp at h
        · simp at h; subst h; exact this
      · split at h <;> (simp at h; subst h; exact this)

theorem xr_handleNetworks (E : Env) (u : SUnit) (sec : Str) (svc : SUnit) (r : List Str × SUnit)
    (h : handleNetworks E u sec svc = .ok r) : ExecRendered svc r.2 :=
  xr_foldlM _ (xr_networkStep E) _ _ _ h

theorem xr_mountTokStep (E : Env) (unitPath : Str) (acc : List Str × SUnit) (t : Str) (r : List Str × SUnit)
    (h : mountTokStep E unitPath acc t = .ok r) : ExecRendered acc.2 r.2 := by
  unfold mountTokStep at h
  split at h
  · split at h
    · split at h
      · simp at h
      · rename_i x hx
        simp at h; subst h
        exact xr_handleStorageSource _ _ _ _ _ _ hx
    · simp at h; subst h; exact ExecRendered.refl _
  · simp at h; subst h; exact ExecRendered.refl _

theorem xr_resolveMount (E : Env) (unitPath : Str) (svc : SUnit) (m : Str) (r : Str × SUnit)
    (h : resolveMount E unitPath svc m = some (.ok r)) : ExecRendered svc r.2 := by
  unfold resolveMount at h
  split at h
  · simp at h
  · simp at h
  · split at h
    · simp at h; subst h; exact ExecRendered.refl _
    · simp only [Option.some.injEq] at h
      split at h
      · simp at h
      · rename_i x hx
        simp at h; subst h
        exact xr_foldlM _ (xr_mountTokStep E unitPath) _ _ _ hx

theorem xr_mountsStep (E : Env) (unitPath : Str) (acc : List Str × SUnit) (m : Str) (r : List Str × SUnit)
    (h : mountsStep E unitPath acc m = .ok r) : ExecRendered acc.2 r.2 := by
  unfold mountsStep at h
  split at h
  · rename_i x hx
    simp at h; subst h
    exact xr_resolveMount _ _ _ _ _ hx
  · simp at h
  · simp at h

theorem xr_handlePod (E : Env) (u : SUnit) (sec : Str) (svc : SUnit) (own : Str) (r : List Str × SUnit × Option (Str × Str))
    (h : handlePod E u sec svc own = .ok r) : ExecRendered svc r.2.1 := by
  unfold handlePod at h
  split at h
  · simp at h; subst h; exact ExecRendered.refl _
  · split at h
    · simp at h; subst h; exact ExecRendered.refl _
    · split at h
      · simp at h
      · split at h
        · simp at h
        · simp at h; subst h
          exact (xr_addS _ _ _ _).trans (xr_addS _ _ _ _)

theorem xr_typeAndNotify (u : SUnit) (sec : Str) (cmd : List Str) (svc : SUnit) (r : List Str × SUnit)
    (h : typeAndNotify u sec cmd svc = .ok r) : ExecRendered svc r.2 := by
  unfold typeAndNotify at h
  simp only at h
  split at h
  · split at h
    · simp at h; subst h; exact ExecRendered.refl _
    · split at h
      · simp at h; subst h; exact (xr_setS _ _ _ _).trans (xr_setS _ _ _ _)
      · simp at h
  · simp at h; subst h; exact (xr_setS _ _ _ _).trans (xr_setS _ _ _ _)

theorem xr_applyWd (svc : SUnit) (wd : Option Str) : ExecRendered svc (applyWd svc wd) := by
  unfold applyWd; split
  · exact xr_addS _ _ _ _
  · exact ExecRendered.refl _

theorem xr_handleSetWorkingDirectory (unitPath : Str) (u svc : SUnit) (sec : Str) (r : Str × SUnit)
    (h : handleSetWorkingDirectory unitPath u svc sec = .ok r) : ExecRendered svc r.2 := by
  unfold handleSetWorkingDirectory at h
  split at h
  · simp at h
  · simp at h; subst h; exact xr_applyWd _ _

theorem xr_foldl_addS2 (cs : List Str) (svc : SUnit) :
    ExecRendered svc (cs.foldl (fun svc c => addS (addS svc "Unit" "Wants" c) "Unit" "Before" c) svc) := by
  induction cs generalizing svc with
  | nil => exact ExecRendered.refl _
  | cons c cs ih => exact ((xr_addS _ _ _ _).trans (xr_addS _ _ _ _)).trans (ih _)

theorem execs_fromVolume (E : Env) (path : Str) (u svc : SUnit) (n : Str) (h : fromVolume E path u = .ok (svc, n)) :
    ExecRendered (preService path u (s "Volume") (s "X-Volume")) svc := by
  unfold fromVolume volumeOpts at h
  simp only [bind_ok] at h
  obtain ⟨_, _, _, _, x, hx, svc1, hexec, hfin⟩ := h
  simp only [pure, Except.pure, Except.ok.injEq, Prod.mk.injEq] at hfin
  obtain ⟨rfl, _⟩ := hfin
  have h0 : ExecRendered (preService path u (s "Volume") (s "X-Volume"))
      (addS (preService path u (s "Volume") (s "X-Volume")) "Unit" "RequiresMountsFor" (s "%t/containers")) :=
    id (xr_addS _ _ _ _)
  have hx' : ExecRendered (addS (preService path u (s "Volume") (s "X-Volume")) "Unit" "RequiresMountsFor" (s "%t/containers")) x.2 := by
    split at hx
    · split at hx
      · exact absurd hx (by simp [throw, throwThe, MonadExceptOf.throw])
      · simp only [bind_ok] at hx
        obtain ⟨y, hy, hx⟩ := hx
        simp only [pure, Except.pure, Except.ok.injEq] at hx
        subst hx
        exact id (xr_handleImageSource _ _ _ _ hy)
    · split at hx
      · exact absurd hx (throw_bind_ne_ok _ _ _)
      · split at hx
        · exact absurd hx (throw_bind_ne_ok _ _ _)
        · simp only [pure, Except.pure, Except.ok.injEq] at hx
          subst hx
          exact ExecRendered.refl _
  exact (h0.trans hx').trans ((id (xr_addRawExec _ _ _ _ hexec)).trans (id (xr_oneShot _ _)))

theorem execs_fromNetwork (E : Env) (path : Str) (u svc : SUnit) (n : Str) (h : fromNetwork E path u = .ok (svc, n)) :
    ExecRendered (preService path u (s "Network") (s "X-Network")) svc := by
  unfold fromNetwork at h
  simp only [bind_ok] at h
  obtain ⟨_, _, _, _, _, _, svc1, hexec, hfin⟩ := h
  simp only [pure, Except.pure, Except.ok.injEq, Prod.mk.injEq] at hfin
  obtain ⟨rfl, _⟩ := hfin
  exact (id (xr_addS _ _ _ _)).trans ((id (xr_addRawExec _ _ _ _ hexec)).trans (id (xr_oneShot _ _)))

theorem execs_fromPod (E : Env) (path : Str) (u svc : SUnit) (cs : List Str) (h : fromPod E path u cs = .ok svc) :
    ExecRendered (preService path u (s "Pod") (s "X-Pod")) svc := by
  unfold fromPod at h
  simp only [bind_ok] at h
  obtain ⟨_, _, _, _, s1, h1, s2, h2, s3, h3, _, _, x4, h4, x5, h5, s6, h6, hfin⟩ := h
  simp only [pure, Except.pure, Except.ok.injEq] at hfin
  subst hfin
  have a0 := id (xr_addS (preService path u (s "Pod") (s "X-Pod")) "Unit" "RequiresMountsFor" (s "%t/containers"))
  have a1 := id (xr_foldl_addS2 cs (addS (preService path u (s "Pod") (s "X-Pod")) "Unit" "RequiresMountsFor" (s "%t/containers")))
  refine (a0.trans a1).trans ?_
  have a2 : ExecRendered (cs.foldl (fun svc c => addS (addS svc "Unit" "Wants" c) "Unit" "Before" c)
        (addS (preService path u (s "Pod") (s "X-Pod")) "Unit" "RequiresMountsFor" (s "%t/containers")))
      (if (lookup u (s "Service") (s "SyslogIdentifier")).isNone then
        setS (cs.foldl (fun svc c => addS (addS svc "Unit" "Wants" c) "Unit" "Before" c)
          (addS (preService path u (s "Pod") (s "X-Pod")) "Unit" "RequiresMountsFor" (s "%t/containers"))) "Service" "SyslogIdentifier" (s "%N")
       else cs.foldl (fun svc c => addS (addS svc "Unit" "Wants" c) "Unit" "Before" c)
          (addS (preService path u (s "Pod") (s "X-Pod")) "Unit" "RequiresMountsFor" (s "%t/containers"))) := by
    split
    · exact id (xr_setS _ _ _ _)
    · exact ExecRendered.refl _
  refine a2.trans ?_
  refine (id (xr_addRawExec _ _ _ _ h1)).trans ?_
  refine (id (xr_addRawExec _ _ _ _ h2)).trans ?_
  refine (id (xr_addRawExec _ _ _ _ h3)).trans ?_
  refine (id (xr_handleNetworks _ _ _ _ _ h4)).trans ?_
  refine (id (xr_handleVolumes _ _ _ _ _ _ h5)).trans ?_
  refine (id (xr_addRawExec _ _ _ _ h6)).trans ?_
  exact (id (xr_addS _ _ _ _)).trans ((id (xr_addS _ _ _ _)).trans
    ((id (xr_addS _ _ _ _)).trans (id (xr_addS _ _ _ _))))

theorem execs_fromKube (E : Env) (path : Str) (u svc : SUnit) (h : fromKube E path u = .ok svc) :
    ExecRendered (preService path u (s "Kube") (s "X-Kube")) svc := by
  unfold fromKube at h
  simp only [bind_ok] at h
  obtain ⟨_, _, _, _, h⟩ := h
  split at h
  · exact absurd h (throw_bind_ne_ok _ _ _)
  · simp only [bind_ok] at h
    obtain ⟨s1, h1, s2, h2, _, _, x3, h3, s4, h4, s5, h5, x6, h6, hfin⟩ := h
    simp only [pure, Except.pure, Except.ok.injEq] at hfin
    subst hfin
    refine (id (xr_killMode _ _ _ h1)).trans ?_
    refine (id (xr_addS s1 "Service" "Environment" (s "PODMAN_SYSTEMD_UNIT=%n"))).trans ?_
    refine (id (xr_addS (addS s1 "Service" "Environment" (s "PODMAN_SYSTEMD_UNIT=%n")) "Unit" "RequiresMountsFor" (s "%t/containers"))).trans ?_
    have a2 : ExecRendered (addS (addS s1 "Service" "Environment" (s "PODMAN_SYSTEMD_UNIT=%n")) "Unit" "RequiresMountsFor" (s "%t/containers")) s2 := by
      split at h2
      · simp [pure, Except.pure] at h2; subst h2
        exact (id (xr_addS _ _ _ _)).trans (id (xr_addS _ _ _ _))
      · split at h2 <;> (simp [pure, Except.pure] at h2; subst h2)
        · exact (id (xr_addS _ _ _ _)).trans (id (xr_addS _ _ _ _))
        · exact ExecRendered.refl _
    refine a2.trans ?_
    have a3 : ExecRendered s2
        (if !hasKey u (s "Service") (s "SyslogIdentifier") then setS s2 "Service" "SyslogIdentifier" (s "%N") else s2) := by
      split
      · exact id (xr_setS _ _ _ _)
      · exact ExecRendered.refl _
    refine a3.trans ?_
    refine (id (xr_handleNetworks _ _ _ _ _ h3)).trans ?_
    refine (id (xr_addRawExec _ _ _ _ h4)).trans ?_
    refine (id (xr_addRawExec _ _ _ _ h5)).trans ?_
    exact id (xr_handleSetWorkingDirectory _ _ _ _ _ h6)

theorem execs_fromBuild (E : Env) (path : Str) (u svc : SUnit) (h : fromBuild E path u = .ok svc) :
    ExecRendered (preOf (buildStart path u) (s "Build") (s "X-Build")) svc := by
  unfold fromBuild at h
  simp only [bind_ok] at h
  obtain ⟨_, _, h⟩ := h
  split at h
  · exact absurd h (throw_bind_ne_ok _ _ _)
  · simp only [bind_ok] at h
    obtain ⟨_, _, _, _, x1, h1, x2, h2, x3, h3, _, _, _, _, s4, h4, hfin⟩ := h
    simp only [pure, Except.pure, Except.ok.injEq] at hfin
    subst hfin
    have e : (renameSection (renameSection
        (if path.isEmpty then addS (defaultDeps (mergeFrom [] u)) "Unit" "RequiresMountsFor" (s "%t/containers")
         else addS (addS (defaultDeps (mergeFrom [] u)) "Unit" "RequiresMountsFor" (s "%t/containers")) "Unit" "SourcePath" path)
        (s "Build") (s "X-Build")) (s "Quadlet") (s "X-Quadlet")) = preOf (buildStart path u) (s "Build") (s "X-Build") := rfl
    rw [e] at h1
    refine (id (xr_handleNetworks _ _ _ _ _ h1)).trans ?_
    refine (id (xr_handleVolumes _ _ _ _ _ _ h2)).trans ?_
    refine (id (xr_handleSetWorkingDirectory _ _ _ _ _ h3)).trans ?_
    exact (id (xr_addRawExec _ _ _ _ h4)).trans (id (xr_oneShot _ _))

theorem execs_fromContainer (E : Env) (path : Str) (u svc : SUnit) (link : Option (Str × Str))
    (h : fromContainer E path u = some (.ok (svc, link))) :
    ExecRendered (preService path u (s "Container") (s "X-Container")) svc := by
  unfold fromContainer at h
  simp only at h
  split at h
  · simp at h
  · simp only [Option.some.injEq, bind_ok] at h
    obtain ⟨self, _, _, _, _, _, h⟩ := h
    split at h
    · exact absurd h (throw_bind_ne_ok _ _ _)
    · split at h
      · exact absurd h (throw_bind_ne_ok _ _ _)
      · simp only [bind_ok] at h
        obtain ⟨x1, h1, s2, h2, s3, h3, s4, h4, x5, h5, x6, h6, _, _, _, _, x7, h7, _, _, x8, h8, x9, h9, s10, h10, hfin⟩ := h
        simp only [pure, Except.pure, Except.ok.injEq, Prod.mk.injEq] at hfin
        obtain ⟨rfl, _⟩ := hfin
        have e : (renameSection (renameSection
            (if path.isEmpty then defaultDeps (mergeFrom [] u) else addS (defaultDeps (mergeFrom [] u)) "Unit" "SourcePath" path)
            (s "Container") (s "X-Container")) (s "Quadlet") (s "X-Quadlet"))
            = preService path u (s "Container") (s "X-Container") := rfl
        rw [e] at h1
        have a1 : ExecRendered (preService path u (s "Container") (s "X-Container")) x1.2 := by
          split at h1
          · exact id (xr_handleImageSource _ _ _ _ h1)
          · simp [pure, Except.pure] at h1; subst h1; exact ExecRendered.refl _
        refine a1.trans ?_
        refine (id (xr_addS x1.2 "Service" "Environment" (s "PODMAN_SYSTEMD_UNIT=%n"))).trans ?_
        refine (id (xr_killMode _ _ _ h2)).trans ?_
        refine (id (xr_addS s2 "Unit" "RequiresMountsFor" (s "%t/containers"))).trans ?_
        refine (id (xr_addRawExec _ _ _ _ h3)).trans ?_
        refine (id (xr_addRawExec _ _ _ _ h4)).trans ?_
        refine (id (xr_addS s4 "Service" "Delegate" (s "yes"))).trans ?_
        refine (id (xr_handleNetworks _ _ _ _ _ h5)).trans ?_
        refine (id (xr_typeAndNotify _ _ _ _ _ h6)).trans ?_
        have a7 : ExecRendered x6.2
            (if (lookup u (s "Service") (s "SyslogIdentifier")).isNone then setS x6.2 "Service" "SyslogIdentifier" (s "%N") else x6.2) := by
          split
          · exact id (xr_setS _ _ _ _)
          · exact ExecRendered.refl _
        refine a7.trans ?_
        refine (id (xr_handleVolumes _ _ _ _ _ _ h7)).trans ?_
        refine (id (xr_foldlM _ (xr_mountsStep E path) _ _ _ h8)).trans ?_
        refine (id (xr_handlePod _ _ _ _ _ _ h9)).trans ?_
        exact id (xr_addRawExec _ _ _ _ h10)



/-! ### from the user's unit to the service -/

theorem xr_defaultDeps (svc : SUnit) : ExecRendered svc (defaultDeps svc) := by
  unfold defaultDeps
  split
  · exact (xr_prependS _ _ _ _).trans (xr_prependS _ _ _ _)
  · exact ExecRendered.refl _

/-- every Exec line of the generated [Service] is the user's own (verbatim) or the rendering of an argument vector -/
theorem execs_of (start u svc : SUnit) (own xown : Str) (hx : own ≠ xown)
    (hstart : entriesOf start (s "Service") = entriesOf u (s "Service"))
    (hS : s "Service" ∉ [own, xown, s "Quadlet", s "X-Quadlet"])
    (h : ExecRendered (preOf start own xown) svc) :
    ∀ e ∈ entriesOf svc (s "Service"), e.1 ∈ execKeys → e ∈ entriesOf u (s "Service") ∨ ∃ cmd, e.2 = P.quoteWords cmd := by
  intro e he hk
  rcases h e he hk with h1 | h1
  · left
    simp only [List.mem_cons, List.not_mem_nil, or_false, not_or] at hS
    obtain ⟨h1', h2', h3', h4'⟩ := hS
    unfold preOf at h1
    rw [entriesOf_rename _ _ _ _ (by decide : s "Quadlet" ≠ s "X-Quadlet"), if_neg h3', if_neg h4',
      entriesOf_rename _ _ _ _ hx, if_neg h1', if_neg h2', hstart] at h1
    exact h1
  · exact Or.inr h1

end Cv
