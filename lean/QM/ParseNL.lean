import QM.ParseRT
/-! What the reader guarantees about newlines: a loaded unit has no newline in any section name, key or raw value
    (a value is one logical line; continuation lines are joined with a blank). -/
namespace Parse

theorem pv_noNL : ∀ (s : Str) (m : Mode) (ign : Nat) (acc : Str), '\n' ∉ acc → '\n' ∉ (pv m ign acc s).1 := by
  intro s
  induction s with
  | nil => intro m ign acc h; simp [pv, h]
  | cons c r ih =>
    intro m ign acc h
    cases m with
    | normal =>
      simp only [pv]
      split
      · exact ih _ _ _ h
      · split
        · simpa using h
        · rename_i h1 h2
          apply ih
          simp only [List.mem_cons, not_or]
          exact ⟨(fun e => h2 (by rw [← e]; decide)), h⟩
    | bs =>
      simp only [pv]
      split
      · exact ih _ _ _ h
      · split
        · apply ih
          simp only [List.mem_cons, not_or]
          exact ⟨by decide, h⟩
        · rename_i h1 h2
          apply ih
          simp only [List.mem_cons, List.mem_append, List.mem_replicate, not_or]
          refine ⟨(fun e => h2 (by rw [← e]; decide)), ?_, by decide, h⟩
          intro hh; exact absurd hh.2 (by decide)
    | lc =>
      simp only [pv]
      split
      · exact ih _ _ _ h
      · split
        · simpa using h
        · split
          · simpa using h
          · split
            · exact ih _ _ _ h
            · rename_i h1 h2 h3 h4
              apply ih
              simp only [List.mem_cons, not_or]
              exact ⟨(fun e => h2 (by rw [← e]; decide)), h⟩
    | lcComment =>
      simp only [pv]
      split
      · exact ih _ _ _ h
      · exact ih _ _ _ h

theorem trimEnd_noNL (v : Str) (h : '\n' ∉ v) : '\n' ∉ trimEnd v := by
  unfold trimEnd
  intro hm
  apply h
  have h1 := List.mem_reverse.mp hm
  have h2 := (List.dropWhile_sublist _).subset h1
  exact List.mem_reverse.mp h2

theorem parseValue_noNL (s : Str) : '\n' ∉ (parseValue s).1 := by
  unfold parseValue
  exact trimEnd_noNL _ (pv_noNL s .normal 0 [] (by simp))

theorem takeUntil_not (p : Char → Bool) (s : Str) : ∀ c ∈ (takeUntil p s).1, p c = false := by
  induction s with
  | nil => simp [takeUntil]
  | cons x r ih =>
    simp only [takeUntil]
    split
    · simp
    · rename_i hx
      intro c hc
      simp only [List.mem_cons] at hc
      rcases hc with rfl | hc
      · simpa using hx
      · exact ih c hc

theorem parseEntry_noNL (env : Env) (s : Str) (kv : Str × Str) (rest : Str) (h : parseEntry env s = .ok (kv, rest)) :
    '\n' ∉ kv.1 ∧ '\n' ∉ kv.2 := by
  unfold parseEntry at h
  simp only at h
  split at h
  · simp at h
  · split at h
    · simp only [Except.ok.injEq, Prod.mk.injEq] at h
      obtain ⟨rfl, _⟩ := h
      refine ⟨?_, parseValue_noNL _⟩
      intro hm
      have := takeUntil_not _ s '\n' hm
      simp at this
    · simp at h

theorem parseBody_noNL (env : Env) : ∀ (fuel : Nat) (s : Str) (es : List (Str × Str)) (rest : Str),
    parseBody env fuel s = .ok (es, rest) → ∀ kv ∈ es, '\n' ∉ kv.1 ∧ '\n' ∉ kv.2 := by
  intro fuel
  induction fuel with
  | zero => intro s es rest h; simp [parseBody] at h
  | succ n ih =>
    intro s es rest h
    cases s with
    | nil => simp [parseBody] at h; obtain ⟨rfl, _⟩ := h; simp
    | cons c r =>
      simp only [parseBody] at h
      split at h
      · exact ih _ _ _ h
      · split at h
        · simp at h; obtain ⟨rfl, _⟩ := h; simp
        · split at h
          · exact ih _ _ _ h
          · split at h
            · simp at h
            · rename_i kv rest' he
              split at h
              · simp at h
              · rename_i kvs rest'' hb
                simp only [Except.ok.injEq, Prod.mk.injEq] at h
                obtain ⟨rfl, _⟩ := h
                intro x hx
                rcases List.mem_cons.mp hx with rfl | hx
                · exact parseEntry_noNL env _ _ _ he
                · exact ih _ _ _ hb x hx

def NoNL (u : Unit) : Prop := ∀ p ∈ u, '\n' ∉ p.1 ∧ ∀ kv ∈ p.2, '\n' ∉ kv.1 ∧ '\n' ∉ kv.2

theorem addEntries_noNL (u : Unit) (sec : Str) (es : List (Str × Str)) (hu : NoNL u) (hs : '\n' ∉ sec)
    (hes : ∀ kv ∈ es, '\n' ∉ kv.1 ∧ '\n' ∉ kv.2) : NoNL (addEntries u sec es) := by
  unfold addEntries
  split
  · intro p hp
    simp only [List.mem_map] at hp
    obtain ⟨p0, hp0, rfl⟩ := hp
    split
    · refine ⟨(hu p0 hp0).1, ?_⟩
      intro kv hkv
      rcases List.mem_append.mp hkv with h | h
      · exact (hu p0 hp0).2 kv h
      · exact hes kv h
    · exact hu p0 hp0
  · intro p hp
    simp only [List.mem_append, List.mem_singleton] at hp
    rcases hp with h | rfl
    · exact hu p h
    · exact ⟨hs, hes⟩

theorem parseHeader_noNL (s name r : Str) (h : parseHeader s = .ok (name, r)) : '\n' ∉ name := by
  unfold parseHeader at h
  split at h
  · simp only at h
    split at h
    · split at h
      · simp at h
      · simp only [Except.ok.injEq, Prod.mk.injEq] at h
        obtain ⟨rfl, _⟩ := h
        intro hm
        have := takeUntil_not _ _ '\n' hm
        simp at this
    · simp at h
  · simp at h

theorem parseUnit_noNL (env : Env) : ∀ (fuel : Nat) (u : Unit) (s : Str) (r : Unit),
    NoNL u → parseUnit env fuel u s = .ok r → NoNL r := by
  intro fuel
  induction fuel with
  | zero => intro u s r _ h; simp [parseUnit] at h
  | succ n ih =>
    intro u s r hu h
    cases s with
    | nil => simp [parseUnit] at h; subst h; exact hu
    | cons c t =>
      simp only [parseUnit] at h
      split at h
      · exact ih _ _ _ hu h
      · split at h
        · split at h
          · simp at h
          · rename_i name r' hh
            split at h
            · simp at h
            · rename_i es rest hb
              split at h
              · split at h
                · exact ih _ _ _ (addEntries_noNL u _ es hu (parseHeader_noNL _ _ _ hh) (parseBody_noNL env _ _ _ _ hb)) h
                · simp at h
              · simp at h
        · split at h
          · exact ih _ _ _ hu h
          · simp at h

/-- a loaded unit has no newline in any section name, key or raw value -/
theorem parse_noNL (env : Env) (s : Str) (u : Unit) (h : parse env s = .ok u) : NoNL u :=
  parseUnit_noNL env _ [] s u (by intro p hp; simp at hp) h

end Parse
