namespace Port
abbrev Str := List Char

def isDigit (c : Char) : Bool := '0' ≤ c ∧ c ≤ '9'

/-- third loop of is_port_range: `t`/`u` counters encoded as the remaining expected suffix -/
def proto : Str → Bool
  | ['t','c','p'] => true
  | ['u','d','p'] => true
  | _ => false

/-- second loop (after '-'): d = digits read so far -/
def p2 : Nat → Str → Bool
  | d, [] => d > 0
  | d, c :: r => if isDigit c then p2 (d+1) r else if c == '/' then d > 0 && proto r else false

/-- first loop -/
def p1 : Nat → Str → Bool
  | d, [] => d > 0
  | d, c :: r =>
    if isDigit c then p1 (d+1) r
    else if c == '-' then d > 0 && p2 0 r
    else if c == '/' then d > 0 && proto r
    else false

def isPortRange (s : Str) : Bool := !s.isEmpty && p1 0 s

/-- the regular expression ^\d+(-\d+)?(/tcp|/udp)?$ -/
def Digits (d : Str) : Prop := d ≠ [] ∧ ∀ c ∈ d, isDigit c = true
def Proto (p : Str) : Prop := p = [] ∨ p = "/tcp".toList ∨ p = "/udp".toList
def Spec (s : Str) : Prop :=
  ∃ d₁ r p, s = d₁ ++ r ++ p ∧ Digits d₁ ∧ (r = [] ∨ ∃ d₂, r = '-' :: d₂ ∧ Digits d₂) ∧ Proto p

theorem proto_iff (r : Str) : proto r = true ↔ ('/' :: r = "/tcp".toList ∨ '/' :: r = "/udp".toList) := by
  constructor
  · intro h
    unfold proto at h
    split at h <;> simp_all
  · intro h
    rcases h with h | h <;> simp at h <;> subst h <;> rfl

theorem slash_not_digit : isDigit '/' = false := by decide
theorem dash_not_digit : isDigit '-' = false := by decide

/-- p2 d s accepts iff s = digits ++ optional proto, with d + #digits > 0 -/
theorem p2_iff (d : Nat) (s : Str) :
    p2 d s = true ↔ ∃ ds p, s = ds ++ p ∧ (∀ c ∈ ds, isDigit c = true) ∧ d + ds.length > 0 ∧ Proto p := by
  induction s generalizing d with
  | nil =>
    simp only [p2, decide_eq_true_eq]
    constructor
    · intro h; exact ⟨[], [], by simp, by simp, by simpa using h, Or.inl rfl⟩
    · rintro ⟨ds, p, h0, _, h, _⟩
      have : ds = [] := by cases ds <;> simp_all
      subst this; simpa using h
  | cons c r ih =>
    simp only [p2]
    by_cases hd : isDigit c = true
    · simp only [hd, if_true]
      rw [ih]
      constructor
      · rintro ⟨ds, p, rfl, h1, h2, h3⟩
        exact ⟨c :: ds, p, by simp, by simpa [hd] using h1, by simp; omega, h3⟩
      · rintro ⟨ds, p, h0, h1, h2, h3⟩
        cases ds with
        | nil =>
          simp at h0; subst h0
          rcases h3 with h | h | h <;> simp at h
          all_goals (obtain ⟨rfl, _⟩ := h; simp [slash_not_digit] at hd)
        | cons x xs =>
          simp at h0; obtain ⟨rfl, rfl⟩ := h0
          exact ⟨xs, p, rfl, fun c hc => h1 c (by simp [hc]), by simp at h2 ⊢; omega, h3⟩
    · simp only [hd, Bool.false_eq_true, if_false]
      by_cases hs : c = '/'
      · subst hs
        simp only [beq_self_eq_true, if_true, Bool.and_eq_true, decide_eq_true_eq, proto_iff]
        constructor
        · rintro ⟨h1, h2⟩
          exact ⟨[], '/' :: r, by simp, by simp, by simpa using h1, Or.inr h2⟩
        · rintro ⟨ds, p, h0, h1, h2, h3⟩
          cases ds with
          | nil =>
            simp at h0; subst h0
            refine ⟨by simpa using h2, ?_⟩
            rcases h3 with h | h | h
            · simp at h
            · exact Or.inl h
            · exact Or.inr h
          | cons x xs =>
            simp at h0; obtain ⟨rfl, rfl⟩ := h0
            have := h1 '/' (by simp); simp [slash_not_digit] at this
      · have : (c == '/') = false := by simpa using hs
        simp only [this, Bool.false_eq_true, if_false, false_iff]
        rintro ⟨ds, p, h0, h1, h2, h3⟩
        cases ds with
        | nil =>
          simp at h0; subst h0
          rcases h3 with h | h | h <;> simp at h
          all_goals (exact hs h.1)
        | cons x xs =>
          simp at h0; obtain ⟨rfl, rfl⟩ := h0
          exact hd (h1 c (by simp))


theorem p1_iff (d : Nat) (s : Str) :
    p1 d s = true ↔ ∃ ds r p, s = ds ++ r ++ p ∧ (∀ c ∈ ds, isDigit c = true) ∧ d + ds.length > 0 ∧
      (r = [] ∨ ∃ d₂, r = '-' :: d₂ ∧ Digits d₂) ∧ Proto p := by
  induction s generalizing d with
  | nil =>
    simp only [p1, decide_eq_true_eq]
    constructor
    · intro h; exact ⟨[], [], [], by simp, by simp, by simpa using h, Or.inl rfl, Or.inl rfl⟩
    · rintro ⟨ds, r, p, h0, _, h, _⟩
      have : ds = [] := by
        cases ds with
        | nil => rfl
        | cons x xs => simp at h0
      subst this; simpa using h
  | cons c t ih =>
    simp only [p1]
    by_cases hd : isDigit c = true
    · simp only [hd, if_true]
      rw [ih]
      constructor
      · rintro ⟨ds, r, p, rfl, h1, h2, h3, h4⟩
        exact ⟨c :: ds, r, p, by simp, by simpa [hd] using h1, by simp; omega, h3, h4⟩
      · rintro ⟨ds, r, p, h0, h1, h2, h3, h4⟩
        cases ds with
        | nil =>
          exfalso
          rcases h3 with rfl | ⟨d₂, rfl, _⟩
          · simp at h0; subst h0
            rcases h4 with h | h | h <;> simp at h
            all_goals (obtain ⟨rfl, _⟩ := h; simp [slash_not_digit] at hd)
          · simp at h0; obtain ⟨rfl, _⟩ := h0; simp [dash_not_digit] at hd
        | cons x xs =>
          simp at h0; obtain ⟨rfl, rfl⟩ := h0
          exact ⟨xs, r, p, by simp, fun c hc => h1 c (by simp [hc]), by simp at h2 ⊢; omega, h3, h4⟩
    · simp only [hd, Bool.false_eq_true, if_false]
      by_cases hm : c = '-'
      · subst hm
        simp only [beq_self_eq_true, if_true, Bool.and_eq_true, decide_eq_true_eq, p2_iff]
        constructor
        · rintro ⟨h1, ds, p, rfl, h2, h3, h4⟩
          refine ⟨[], '-' :: ds, p, by simp, by simp, by simpa using h1, Or.inr ⟨ds, rfl, ?_, h2⟩, h4⟩
          intro e; subst e; simp at h3
        · rintro ⟨ds, r, p, h0, h1, h2, h3, h4⟩
          cases ds with
          | nil =>
            rcases h3 with rfl | ⟨d₂, rfl, hne, hdig⟩
            · simp at h0; subst h0
              rcases h4 with h | h | h <;> simp at h
            · simp at h0; subst h0
              exact ⟨by simpa using h2, d₂, p, rfl, hdig, by cases d₂ <;> simp_all, h4⟩
          | cons x xs =>
            simp at h0; obtain ⟨rfl, _⟩ := h0
            have := h1 '-' (by simp); simp [dash_not_digit] at this
      · have hm' : (c == '-') = false := by simpa using hm
        simp only [hm', Bool.false_eq_true, if_false]
        by_cases hs : c = '/'
        · subst hs
          simp only [beq_self_eq_true, if_true, Bool.and_eq_true, decide_eq_true_eq, proto_iff]
          constructor
          · rintro ⟨h1, h2⟩
            exact ⟨[], [], '/' :: t, by simp, by simp, by simpa using h1, Or.inl rfl, Or.inr h2⟩
          · rintro ⟨ds, r, p, h0, h1, h2, h3, h4⟩
            cases ds with
            | nil =>
              rcases h3 with rfl | ⟨d₂, rfl, _⟩
              · simp at h0; subst h0
                refine ⟨by simpa using h2, ?_⟩
                rcases h4 with h | h | h
                · simp at h
                · exact Or.inl h
                · exact Or.inr h
              · simp at h0
            | cons x xs =>
              simp at h0; obtain ⟨rfl, _⟩ := h0
              have := h1 '/' (by simp); simp [slash_not_digit] at this
        · have hs' : (c == '/') = false := by simpa using hs
          simp only [hs', Bool.false_eq_true, if_false, false_iff]
          rintro ⟨ds, r, p, h0, h1, h2, h3, h4⟩
          cases ds with
          | nil =>
            rcases h3 with rfl | ⟨d₂, rfl, _⟩
            · simp at h0; subst h0
              rcases h4 with h | h | h <;> simp at h
              all_goals (exact hs h.1)
            · simp at h0; exact hm h0.1
          | cons x xs =>
            simp at h0; obtain ⟨rfl, _⟩ := h0
            exact hd (h1 c (by simp))

end Port
