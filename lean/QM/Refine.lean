namespace Refine

variable {U N V W O : Type} [DecidableEq N]

structure Sys (U N V W O : Type) where
  name : U → N
  prio : U → Nat
  prefill : U → V
  publish : U → Option V
  reads : U → List N
  out : U → (N → Option V) → List W → O
  link : U → (N → Option V) → Option (N × W)

structure St (N V W : Type) where
  tbl : N → Option V
  acc : N → List W

def upd {β : Type} (f : N → β) (n : N) (b : β) : N → β := fun m => if m = n then b else f m

variable (S : Sys U N V W O)

def findUnit (units : List U) (n : N) : Option U := units.find? (fun u => S.name u = n)

def init (units : List U) : St N V W :=
  { tbl := fun n => (findUnit S units n).map S.prefill, acc := fun _ => [] }

def fin (units : List U) (n : N) : Option V :=
  (findUnit S units n).map (fun u => (S.publish u).getD (S.prefill u))

def step (s : St N V W) (u : U) : St N V W × O :=
  let o := S.out u s.tbl (s.acc (S.name u))
  let tbl' := match S.publish u with
    | some v => upd s.tbl (S.name u) (some v)
    | none => s.tbl
  let acc' := match S.link u s.tbl with
    | some (n, w) => upd s.acc n (s.acc n ++ [w])
    | none => s.acc
  ({ tbl := tbl', acc := acc' }, o)

def run : St N V W → List U → List (U × O)
  | _, [] => []
  | s, u :: us => let (s', o) := step S s u; (u, o) :: run s' us

def linkTo (units : List U) (n : N) (c : U) : Option W :=
  match S.link c (fin S units) with
  | some (m, w) => if m = n then some w else none
  | none => none

/-- the declarative result -/
def decl (units order : List U) (u : U) : O :=
  S.out u (fin S units) (order.filterMap (linkTo S units (S.name u)))

structure Local (units : List U) : Prop where
  out_local : ∀ u t₁ t₂ a, (∀ n ∈ S.reads u, t₁ n = t₂ n) → S.out u t₁ a = S.out u t₂ a
  link_local : ∀ u t₁ t₂, (∀ n ∈ S.reads u, t₁ n = t₂ n) → S.link u t₁ = S.link u t₂
  reads_lower : ∀ u ∈ units, ∀ n ∈ S.reads u, ∀ u' ∈ units, S.name u' = n → S.prio u' < S.prio u ∨ S.publish u' = none
  link_higher : ∀ c ∈ units, ∀ t n w, S.link c t = some (n, w) → ∀ u' ∈ units, S.name u' = n → S.prio c < S.prio u'

end Refine

namespace Refine
variable {U N V W O : Type} [DecidableEq N] (S : Sys U N V W O)

theorem findUnit_of_mem (units : List U) (hd : (units.map S.name).Nodup) (u : U) (hu : u ∈ units) :
    findUnit S units (S.name u) = some u := by
  induction units with
  | nil => simp at hu
  | cons x xs ih =>
    simp only [List.map_cons, List.nodup_cons] at hd
    simp only [findUnit, List.find?_cons]
    by_cases hx : S.name x = S.name u
    · simp only [hx, decide_true]
      rcases List.mem_cons.mp hu with rfl | h
      · rfl
      · exfalso; apply hd.1; rw [hx]; exact List.mem_map_of_mem h
    · simp only [hx, decide_false]
      rcases List.mem_cons.mp hu with rfl | h
      · exact absurd rfl hx
      · exact ih hd.2 h

theorem findUnit_some_mem (units : List U) (n : N) (u : U) (h : findUnit S units n = some u) :
    u ∈ units ∧ S.name u = n := by
  unfold findUnit at h
  exact ⟨List.mem_of_find?_eq_some h, by simpa using List.find?_some h⟩

def Inv (units pre : List U) (s : St N V W) : Prop :=
  (∀ n, s.tbl n = if n ∈ pre.map S.name then fin S units n else (init S units).tbl n) ∧
  (∀ n, s.acc n = pre.filterMap (linkTo S units n))

theorem run_refines_aux (units order : List U) (hL : Local S units)
    (hd : (units.map S.name).Nodup) (hsub : ∀ u ∈ order, u ∈ units)
    (hall : ∀ u ∈ units, u ∈ order)
    (hs : order.Pairwise (fun a b => S.prio a ≤ S.prio b))
    (hnd : order.Nodup) :
    ∀ (post pre : List U) (s : St N V W), pre ++ post = order → Inv S units pre s →
      run S s post = post.map (fun u => (u, decl S units order u)) := by
  intro post
  induction post with
  | nil => intro pre s _ _; simp [run]
  | cons u post ih =>
    intro pre s hsplit hinv
    have hu_order : u ∈ order := by rw [← hsplit]; simp
    have hu : u ∈ units := hsub u hu_order
    -- sortedness facts
    have hs' : (pre ++ u :: post).Pairwise (fun a b => S.prio a ≤ S.prio b) := by rw [hsplit]; exact hs
    have hpost_ge : ∀ x ∈ post, S.prio u ≤ S.prio x := by
      have := (List.pairwise_append.mp hs').2.1
      exact fun x hx => (List.pairwise_cons.mp this).1 x hx
    have hnd' : (pre ++ u :: post).Nodup := by rw [hsplit]; exact hnd
    -- every unit of strictly lower priority is in pre
    have hlower : ∀ u' ∈ units, S.prio u' < S.prio u → u' ∈ pre := by
      intro u' hu' hlt
      have : u' ∈ pre ++ u :: post := by rw [hsplit]; exact hall u' hu'
      rcases List.mem_append.mp this with h | h
      · exact h
      · rcases List.mem_cons.mp h with rfl | h
        · omega
        · have := hpost_ge u' h; omega
    -- (A) the table agrees with the final table on everything u reads
    have hA : ∀ n ∈ S.reads u, s.tbl n = fin S units n := by
      intro n hn
      rw [hinv.1 n]
      split
      · rfl
      · rename_i hnot
        cases hf : findUnit S units n with
        | none => simp [init, fin, hf]
        | some u' =>
          obtain ⟨hu'm, hu'n⟩ := findUnit_some_mem S units n u' hf
          rcases hL.reads_lower u hu n hn u' hu'm hu'n with hlt | hnone
          · exfalso; apply hnot; rw [← hu'n]; exact List.mem_map_of_mem (hlower u' hu'm hlt)
          · simp [init, fin, hf, hnone]
    -- (B) nobody at or after u links to u
    have hB : (u :: post).filterMap (linkTo S units (S.name u)) = [] := by
      apply List.filterMap_eq_nil_iff.mpr
      intro c hc
      unfold linkTo
      cases hl : S.link c (fin S units) with
      | none => rfl
      | some p =>
        obtain ⟨m, w⟩ := p
        simp only
        split
        · rename_i hm
          exfalso
          have hc_units : c ∈ units := hsub c (by rw [← hsplit]; exact List.mem_append_right _ hc)
          have := hL.link_higher c hc_units _ m w hl u hu hm.symm
          rcases List.mem_cons.mp hc with rfl | h
          · omega
          · have := hpost_ge c h; omega
        · rfl
    have hacc : s.acc (S.name u) = order.filterMap (linkTo S units (S.name u)) := by
      rw [hinv.2, ← hsplit, List.filterMap_append, hB]; simp
    have hout : S.out u s.tbl (s.acc (S.name u)) = decl S units order u := by
      unfold decl; rw [← hacc]; exact hL.out_local u _ _ _ hA
    have hlink : S.link u s.tbl = S.link u (fin S units) := hL.link_local u _ _ hA
    simp only [run, List.map_cons, step]
    rw [hout]
    congr 1
    apply ih (pre ++ [u])
    · rw [← hsplit]; simp
    · constructor
      · intro n
        have hfu := findUnit_of_mem S units hd u hu
        by_cases hn : n = S.name u
        · subst hn
          simp only [List.map_append, List.map_cons, List.map_nil, List.mem_append, List.mem_cons,
            List.not_mem_nil, or_false, or_true, if_true]
          cases hp : S.publish u with
          | some v => simp [upd, fin, hfu, hp]
          | none =>
            simp only
            rw [hinv.1]
            split
            · rfl
            · simp [init, fin, hfu, hp]
        · have e1 : n ∈ (pre ++ [u]).map S.name ↔ n ∈ pre.map S.name := by
            simp [hn]
          simp only [e1]
          rw [← hinv.1 n]
          cases hp : S.publish u with
          | some v => simp [upd, hn]
          | none => rfl
      · intro n
        rw [List.filterMap_append]
        simp only [List.filterMap_cons, List.filterMap_nil]
        have hlt : linkTo S units n u = (match S.link u (fin S units) with
            | some (m, w) => if m = n then some w else none
            | none => none) := rfl
        cases hl : S.link u (fin S units) with
        | none =>
          rw [hl] at hlt
          simp only [hlt, hlink, hl]
          simp [hinv.2 n]
        | some p =>
          obtain ⟨m, w⟩ := p
          rw [hl] at hlt
          simp only at hlt
          by_cases hm : m = n
          · subst hm
            simp [hlt, hlink, hl, upd, hinv.2]
          · have hm' : ¬ n = m := fun e => hm e.symm
            simp [hlt, hlink, hl, upd, hm, hm', hinv.2 n]

end Refine

namespace Refine
variable {U N V W O : Type} [DecidableEq N] (S : Sys U N V W O)

/-- the processing loop started from the pre-filled table, on any priority-sorted ordering of the units,
    gives every unit exactly its declarative result -/
theorem run_refines (units order : List U) (hL : Local S units)
    (hd : (units.map S.name).Nodup) (hp : order.Perm units)
    (hs : order.Pairwise (fun a b => S.prio a ≤ S.prio b)) :
    run S (init S units) order = order.map (fun u => (u, decl S units order u)) := by
  have hndu : units.Nodup := by
    unfold List.Nodup at hd ⊢
    exact List.Pairwise.of_map S.name (fun a b h e => h (by rw [e])) hd
  apply run_refines_aux S units order hL hd (fun u hu => hp.subset hu) (fun u hu => hp.symm.subset hu) hs
    (hp.nodup_iff.mpr hndu) order [] (init S units) (by simp)
  constructor
  · intro n; simp
  · intro n; simp [init]

/-- and the result does not depend on which sorted ordering the unstable sort picked: the only
    order-dependent ingredient, the list a unit accumulated from its linkers, is the same multiset -/
theorem members_perm (units o₁ o₂ : List U) (h : o₁.Perm o₂) (n : N) :
    (o₁.filterMap (linkTo S units n)).Perm (o₂.filterMap (linkTo S units n)) :=
  h.filterMap _

end Refine
