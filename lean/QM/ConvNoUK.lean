import QM.ConvShape
/-! C16, second half: the only step of a converter that can raise `unknownKey` is the key check itself. -/
namespace Cv
open MM

def isUK : Err → Bool
  | .unknownKey _ => true
  | _ => false

/-- a computation that cannot fail with an unknown-key error -/
def NoUK {α} (r : R α) : Prop := ∀ e, r = .error e → isUK e = false

theorem NoUK.ok {α} (a : α) : NoUK (.ok a : R α) := by intro e h; cases h
theorem NoUK.pure {α} (a : α) : NoUK (pure a : R α) := NoUK.ok a
theorem NoUK.err {α} (e : Err) (h : isUK e = false) : NoUK (.error e : R α) := by
  intro e' he; cases he; exact h
theorem NoUK.throw {α} (e : Err) (h : isUK e = false) : NoUK (throw e : R α) := NoUK.err e h

theorem NoUK.bind {α β} {x : R α} {f : α → R β} (hx : NoUK x) (hf : ∀ a, NoUK (f a)) : NoUK (x >>= f) := by
  cases x with
  | error e =>
    intro e' h
    have e1 : (Except.error e >>= f) = .error e := rfl
    rw [e1] at h
    have e2 : e = e' := Except.error.inj h
    exact hx e' (by rw [e2])
  | ok a =>
    have e1 : (Except.ok a >>= f) = f a := rfl
    rw [e1]; exact hf a

theorem NoUK.ite {α} {c : Prop} [Decidable c] {a b : R α} (ha : NoUK a) (hb : NoUK b) : NoUK (if c then a else b) := by
  split <;> assumption

theorem NoUK.foldlM {α β} (f : β → α → R β) (l : List α) (init : β) (h : ∀ acc x, NoUK (f acc x)) : NoUK (l.foldlM f init) := by
  induction l generalizing init with
  | nil => exact NoUK.pure _
  | cons x xs ih =>
    simp only [List.foldlM_cons]
    exact NoUK.bind (h init x) (fun a => ih a)

theorem addRawExec_noUK (svc : SUnit) (k : String) (args : List Str) : NoUK (addRawExec svc k args) := by
  unfold addRawExec; simp only; split
  · exact NoUK.ok _
  · exact NoUK.err _ rfl

theorem handleImageSource_noUK (E : Env) (n : Str) (svc : SUnit) : NoUK (handleImageSource E n svc) := by
  unfold handleImageSource
  intro e h
  repeat' split at h
  all_goals first | (cases h; rfl) | (simp at h; done) | (simp only [Except.error.injEq] at h; subst h; rfl)

theorem handleStorageSource_noUK (E : Env) (p : Str) (svc : SUnit) (src : Str) (ci : Bool) : NoUK (handleStorageSource E p svc src ci) := by
  unfold handleStorageSource
  simp only
  intro e h
  repeat' split at h
  all_goals first | (cases h; rfl) | (simp at h; done) | (simp only [Except.error.injEq] at h; subst h; rfl)

theorem volumeStep_noUK (E : Env) (p : Str) (acc : List Str × SUnit) (v : Str) : NoUK (volumeStep E p acc v) := by
  intro e h
  unfold volumeStep at h
  simp only at h
  split at h
  · cases h
  · split at h
    · rename_i e' he
      simp only [Except.error.injEq] at h; subst h
      exact handleStorageSource_noUK E p acc.2 _ false e' he
    · split at h <;> cases h

theorem handleVolumes_noUK (E : Env) (p : Str) (u : SUnit) (sec : Str) (svc : SUnit) : NoUK (handleVolumes E p u sec svc) := by
  unfold handleVolumes
  exact NoUK.foldlM _ _ _ (fun acc x => volumeStep_noUK E p acc x)

theorem networkRef_noUK (E : Env) (n : Str) (svc : SUnit) : NoUK (networkRef E n svc) := by
  unfold networkRef
  intro e h
  repeat' split at h
  all_goals first | (cases h; rfl) | (simp at h; done) | (simp only [Except.error.injEq] at h; subst h; rfl)

theorem networkStep_noUK (E : Env) (acc : List Str × SUnit) (nw : Str) : NoUK (networkStep E acc nw) := by
  intro e h
  unfold networkStep at h
  split at h
  · cases h
  · simp only at h
    split at h
    · rename_i e' he
      simp only [Except.error.injEq] at h; subst h
      exact networkRef_noUK E _ acc.2 e' he
    · repeat' split at h
      all_goals first | (cases h; rfl) | (simp at h; done)

theorem handleNetworks_noUK (E : Env) (u : SUnit) (sec : Str) (svc : SUnit) : NoUK (handleNetworks E u sec svc) := by
  unfold handleNetworks
  exact NoUK.foldlM _ _ _ (fun acc x => networkStep_noUK E acc x)

theorem killMode_noUK (a b : SUnit) : NoUK (killMode a b) := by
  unfold killMode
  intro e h
  repeat' split at h
  all_goals first | (cases h; rfl) | (simp at h; done) | (simp only [Except.error.injEq] at h; subst h; rfl)

theorem handleSetWorkingDirectory_noUK (p : Str) (u svc : SUnit) (sec : Str) : NoUK (handleSetWorkingDirectory p u svc sec) := by
  intro e h
  unfold handleSetWorkingDirectory at h
  split at h
  · rename_i e' he
    simp only [Except.error.injEq] at h; subst h
    unfold swdPlan at he
    simp only at he
    split at he
    · simp at he
    · split at he
      · rename_i e2 he2
        simp only [Except.error.injEq] at he; subst he
        unfold swdTarget at he2
        simp only at he2
        repeat' split at he2
        all_goals first | (simp only [Except.error.injEq] at he2; subst he2; rfl) | simp at he2
      · repeat' split at he
        all_goals first | (simp only [Except.error.injEq] at he; subst he; rfl) | simp at he
  · simp at h

theorem typeAndNotify_noUK (u : SUnit) (sec : Str) (cmd : List Str) (svc : SUnit) : NoUK (typeAndNotify u sec cmd svc) := by
  unfold typeAndNotify
  simp only
  intro e h
  repeat' split at h
  all_goals first | (cases h; rfl) | (simp at h; done) | (simp only [Except.error.injEq] at h; subst h; rfl)

theorem handleUser_noUK (u : SUnit) (sec : Str) : NoUK (handleUser u sec) := by
  unfold handleUser
  intro e h
  repeat' split at h
  all_goals first | (cases h; rfl) | (simp at h; done) | (simp only [Except.error.injEq] at h; subst h; rfl)

theorem handlePod_noUK (E : Env) (u : SUnit) (sec : Str) (svc : SUnit) (own : Str) : NoUK (handlePod E u sec svc own) := by
  unfold handlePod
  intro e h
  repeat' split at h
  all_goals first | (cases h; rfl) | (simp at h; done) | (simp only [Except.error.injEq] at h; subst h; rfl)


theorem mountTokStep_noUK (E : Env) (p : Str) (acc : List Str × SUnit) (t : Str) : NoUK (mountTokStep E p acc t) := by
  intro e h
  unfold mountTokStep at h
  split at h
  · split at h
    · split at h
      · rename_i e' he
        simp only [Except.error.injEq] at h; subst h
        exact handleStorageSource_noUK E p acc.2 _ true e' he
      · cases h
    · cases h
  · cases h

theorem findMountType_err (m : Str) (e : Err) (h : findMountType m = some (.error e)) : isUK e = false := by
  unfold findMountType at h
  split at h
  · cases h
  · split at h
    · simp only [Option.some.injEq, Except.error.injEq] at h; subst h; rfl
    · simp only at h
      split at h
      · simp only [Option.some.injEq, Except.error.injEq] at h; subst h; rfl
      · simp at h

theorem mountsStep_noUK (E : Env) (p : Str) (acc : List Str × SUnit) (m : Str) : NoUK (mountsStep E p acc m) := by
  intro e h
  unfold mountsStep at h
  split at h
  · cases h
  · rename_i e' he
    simp only [Except.error.injEq] at h; subst h
    unfold resolveMount at he
    split at he
    · cases he
    · rename_i e3 hf
      simp only [Option.some.injEq, Except.error.injEq] at he; subst he
      exact findMountType_err m _ hf
    · split at he
      · cases he
      · simp only [Option.some.injEq] at he
        split at he
        · rename_i e2 he2
          simp only [Except.error.injEq] at he; subst he
          exact NoUK.foldlM _ _ _ (fun a x => mountTokStep_noUK E p a x) e2 he2
        · cases he
  · cases h; rfl

theorem throw_noUK {α} (e : Err) (h : isUK e = false) : NoUK (throw e : R α) := NoUK.err e h

theorem handleUserRemap_noUK (u : SUnit) (sec : Str) (sm : Bool) : NoUK (handleUserRemap u sec sm) := by
  intro e h
  unfold handleUserRemap at h
  simp only [bind, Except.bind, throw, throwThe, MonadExceptOf.throw, pure, Except.pure] at h
  repeat' split at h
  all_goals first | (cases h; rfl) | (simp at h; done) | (simp only [Except.error.injEq] at h; subst h; rfl)

theorem handleUserMappings_noUK (u : SUnit) (sec : Str) (sm : Bool) : NoUK (handleUserMappings u sec sm) := by
  unfold handleUserMappings
  simp only [bind, Except.bind, throw, throwThe, MonadExceptOf.throw, pure, Except.pure]
  split
  · split
    · exact NoUK.err _ rfl
    · exact NoUK.ok _
  · exact handleUserRemap_noUK u sec sm


theorem checkUnknown_noUK_of_none (u : SUnit) (sec : Str) (sup : List Str) (h : firstUnknown (entriesOf u sec) sup = none) :
    NoUK (checkUnknown u sec sup) := by
  rw [checkUnknown_ok _ _ _ h]; exact NoUK.ok _

/-- structural descent through a converter body -/
macro "nouk" : tactic => `(tactic| repeat (with_reducible first
  | exact NoUK.pure _ | exact NoUK.ok _ | exact NoUK.err _ rfl | exact NoUK.throw _ rfl | exact throw_noUK _ rfl
  | exact addRawExec_noUK _ _ _ | exact handleImageSource_noUK _ _ _ | exact handleVolumes_noUK _ _ _ _ _
  | exact handleNetworks_noUK _ _ _ _ | exact killMode_noUK _ _ | exact handleSetWorkingDirectory_noUK _ _ _ _
  | exact typeAndNotify_noUK _ _ _ _ | exact handleUser_noUK _ _ | exact handlePod_noUK _ _ _ _ _
  | exact handleUserMappings_noUK _ _ _ | exact handleUserRemap_noUK _ _ _
  | exact NoUK.foldlM _ _ _ (fun a x => mountsStep_noUK _ _ a x)
  | apply NoUK.foldlM
  | apply NoUK.bind
  | apply NoUK.ite
  | intro _
  | split))

/-- C16 (acceptance): a unit whose own section and [Quadlet] hold documented keys only is never rejected for an unknown key -/
theorem fromImage_noUK (E : Env) (path : Str) (u : SUnit)
    (h0 : firstUnknown (entriesOf u (s "Image")) supportedImage = none)
    (h1 : firstUnknown (entriesOf u (s "Quadlet")) supportedQuadlet = none) : NoUK (fromImage E path u) := by
  unfold fromImage
  simp only [checkUnknown_ok _ _ _ h0, checkUnknown_ok _ _ _ h1]
  nouk

theorem networkSubnets_noUK (u : SUnit) (sec : Str) : NoUK (networkSubnets u sec) := by
  unfold networkSubnets
  simp only []
  nouk

theorem fromNetwork_noUK (E : Env) (path : Str) (u : SUnit)
    (h0 : firstUnknown (entriesOf u (s "Network")) supportedNetwork = none)
    (h1 : firstUnknown (entriesOf u (s "Quadlet")) supportedQuadlet = none) : NoUK (fromNetwork E path u) := by
  unfold fromNetwork
  simp only [checkUnknown_ok _ _ _ h0, checkUnknown_ok _ _ _ h1]
  nouk
  · exact networkSubnets_noUK _ _
  · nouk

theorem fromVolume_noUK (E : Env) (path : Str) (u : SUnit)
    (h0 : firstUnknown (entriesOf u (s "Volume")) supportedVolume = none)
    (h1 : firstUnknown (entriesOf u (s "Quadlet")) supportedQuadlet = none) : NoUK (fromVolume E path u) := by
  unfold fromVolume volumeOpts
  simp only [checkUnknown_ok _ _ _ h0, checkUnknown_ok _ _ _ h1]
  nouk

theorem fromPod_noUK (E : Env) (path : Str) (u : SUnit) (cts : List Str)
    (h0 : firstUnknown (entriesOf u (s "Pod")) supportedPod = none)
    (h1 : firstUnknown (entriesOf u (s "Quadlet")) supportedQuadlet = none) : NoUK (fromPod E path u cts) := by
  unfold fromPod
  simp only [checkUnknown_ok _ _ _ h0, checkUnknown_ok _ _ _ h1]
  nouk

theorem fromKube_noUK (E : Env) (path : Str) (u : SUnit)
    (h0 : firstUnknown (entriesOf u (s "Kube")) supportedKube = none)
    (h1 : firstUnknown (entriesOf u (s "Quadlet")) supportedQuadlet = none) : NoUK (fromKube E path u) := by
  unfold fromKube
  simp only [checkUnknown_ok _ _ _ h0, checkUnknown_ok _ _ _ h1]
  nouk

theorem fromBuild_noUK (E : Env) (path : Str) (u : SUnit)
    (h0 : firstUnknown (entriesOf u (s "Build")) supportedBuild = none)
    (h1 : firstUnknown (entriesOf u (s "Quadlet")) supportedQuadlet = none) : NoUK (fromBuild E path u) := by
  unfold fromBuild
  simp only [checkUnknown_ok _ _ _ h0, checkUnknown_ok _ _ _ h1]
  nouk

theorem fromContainer_noUK (E : Env) (path : Str) (u : SUnit) (r : R (SUnit × Option (Str × Str)))
    (h0 : firstUnknown (entriesOf u (s "Container")) supportedContainer = none)
    (h1 : firstUnknown (entriesOf u (s "Quadlet")) supportedQuadlet = none)
    (h : fromContainer E path u = some r) : NoUK r := by
  unfold fromContainer at h
  simp only [checkUnknown_ok _ _ _ h0, checkUnknown_ok _ _ _ h1] at h
  split at h
  · cases h
  · simp only [Option.some.injEq] at h
    subst h
    nouk

end Cv
