import QM.Render
namespace Parse

structure REntry where
  indent : Str
  key : Str
  ws1 : Str
  ws2 : Str
  frags : List Frag
  lastT : Str         -- last fragment followed by optional trailing spaces/tabs

def REntry.valueWF (e : REntry) : Prop :=
  match e.frags with
  | [] => bsOK e.lastT = true
  | f :: fs' => bsOK f.text = true ∧ commentsOK f.comments ∧ contWF fs' e.lastT

def renderEntry (e : REntry) : Str :=
  e.indent ++ (e.key ++ (e.ws1 ++ '=' :: (e.ws2 ++ renderValue e.frags e.lastT)))

structure REntry.WF (env : Env) (e : REntry) : Prop where
  indent : ∀ c ∈ e.indent, isSpTab c = true
  ws1 : ∀ c ∈ e.ws1, isSpTab c = true
  ws2 : ∀ c ∈ e.ws2, isSpTab c = true
  keyNonempty : e.key ≠ []
  keyChars : e.key.all env.keyChar = true
  keyNoStop : ∀ c ∈ e.key, stopKey c = false
  keyFirst : ∀ c, e.key.head? = some c → (c == '#' || c == ';') = false ∧ (c == '[') = false ∧ isAsciiWs c = false
  value : e.valueWF
  valueHead : ∀ c, (renderValue e.frags e.lastT).head? = some c → isSpTab c = false

theorem skipWhile_all (p : Char → Bool) (a r : Str) (ha : ∀ c ∈ a, p c = true)
    (hr : ∀ c, r.head? = some c → p c = false) : skipWhile p (a ++ r) = r := by
  induction a with
  | nil => exact skipWhile_head p r hr
  | cons x xs ih =>
    simp only [List.cons_append, skipWhile, ha x (by simp), if_true]
    exact ih (fun c hc => ha c (by simp [hc]))

theorem takeUntil_stop (p : Char → Bool) (a r : Str) (ha : ∀ x ∈ a, p x = false)
    (hr : ∀ c, r.head? = some c → p c = true) (hne : r ≠ []) : takeUntil p (a ++ r) = (a, r) := by
  cases r with
  | nil => exact absurd rfl hne
  | cons c r' => exact takeUntil_append p a c r' ha (hr c rfl)

theorem sptab_stop {c : Char} (h : isSpTab c = true) : stopKey c = true := by
  simp only [isSpTab, Bool.or_eq_true, beq_iff_eq] at h
  rcases h with rfl | rfl <;> decide

/-- an entry line with any indentation and spacing around '=' and any multi-line spelling of its value -/
theorem parseEntry_rendered (env : Env) (e : REntry) (wf : e.WF env) (rest : Str) :
    parseEntry env (e.key ++ (e.ws1 ++ '=' :: (e.ws2 ++ renderValue e.frags e.lastT)) ++ '\n' :: rest)
      = .ok ((e.key, trimEnd (denote e.frags e.lastT)), '\n' :: rest) := by
  unfold parseEntry
  have hstop : ∀ c, (e.ws1 ++ '=' :: (e.ws2 ++ renderValue e.frags e.lastT) ++ '\n' :: rest).head? = some c → stopKey c = true := by
    intro c hc
    cases hw : e.ws1 with
    | nil => rw [hw] at hc; simp at hc; subst hc; decide
    | cons x xs => rw [hw] at hc; simp at hc; subst hc; exact sptab_stop (wf.ws1 x (by simp [hw]))
  have ht := takeUntil_stop stopKey e.key (e.ws1 ++ '=' :: (e.ws2 ++ renderValue e.frags e.lastT) ++ '\n' :: rest)
    wf.keyNoStop hstop (by cases e.ws1 <;> simp)
  have : (fun c => c == '=' || c == ' ' || c == '\t' || c == '\n' || c == '\r') = stopKey := rfl
  rw [this, List.append_assoc, ht]
  simp only [wf.keyChars, Bool.not_true, Bool.false_eq_true, if_false]
  have h1 : skipWhile isSpTab (e.ws1 ++ '=' :: (e.ws2 ++ renderValue e.frags e.lastT) ++ '\n' :: rest)
      = '=' :: (e.ws2 ++ renderValue e.frags e.lastT) ++ '\n' :: rest := by
    rw [List.append_assoc]
    exact skipWhile_all isSpTab e.ws1 _ wf.ws1 (by intro c hc; simp at hc; subst hc; decide)
  rw [h1]
  simp only [List.cons_append]
  have h2 : skipWhile isSpTab (e.ws2 ++ renderValue e.frags e.lastT ++ '\n' :: rest)
      = renderValue e.frags e.lastT ++ '\n' :: rest := by
    rw [List.append_assoc]
    apply skipWhile_all isSpTab e.ws2 _ wf.ws2
    intro c hc
    cases hv : renderValue e.frags e.lastT with
    | nil => rw [hv] at hc; simp at hc; subst hc; decide
    | cons x xs => rw [hv] at hc; simp at hc; subst hc; exact wf.valueHead x (by simp [hv])
  rw [h2]
  have hv := parseValue_rendered e.frags e.lastT rest (by
    have := wf.value; unfold REntry.valueWF at this; exact this)
  rw [hv]

end Parse
