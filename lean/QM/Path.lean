namespace Pth
abbrev Str := List Char

inductive Comp | root | cur | parent | normal (s : Str) deriving DecidableEq, Repr

def splitSlash : Str → List Str
  | [] => [[]]
  | c :: r =>
    if c == '/' then [] :: splitSlash r
    else match splitSlash r with
      | [] => [[c]]
      | p :: ps => (c :: p) :: ps

def isAbs (p : Str) : Bool := p.head? == some '/'

def dot : Str := ['.']
def dotdot : Str := ['.', '.']

/-- std::path::Path::components on Unix -/
def components (p : Str) : List Comp :=
  let parts := splitSlash p
  let abs := isAbs p
  let body := parts.zipIdx.filterMap fun (x, i) =>
    if x.isEmpty then none
    else if x == dot then (if i == 0 && !abs then some Comp.cur else none)
    else if x == dotdot then some Comp.parent
    else some (Comp.normal x)
  if abs then Comp.root :: body else body

/-- the buffer of `cleaned`, as a stack of components -/
def popStack (st : List Comp) : List Comp :=
  match st.getLast? with
  | some Comp.root => st
  | _ => st.dropLast

def cleanStep (st : List Comp) (c : Comp) : List Comp :=
  match c with
  | .cur => st
  | .parent => if st.length > 0 then popStack st else st ++ [c]
  | .root => [c]
  | .normal _ => st ++ [c]

def compStr : Comp → Str
  | .root => ['/'] | .cur => dot | .parent => dotdot | .normal s => s

def render : List Comp → Str
  | [] => []
  | [c] => compStr c
  | .root :: c :: cs => '/' :: render (c :: cs)
  | c :: c' :: cs => compStr c ++ '/' :: render (c' :: cs)

def cleaned (p : Str) : Str := render ((components p).foldl cleanStep [])

#eval ["../../x", "/..", "/a/../..", "a/..", "./a", "a/./b", "//a//b/", "%h/../x", "..", "../..", "/", ".", ""].map
  (fun s => (s, String.ofList (cleaned s.toList)))

/-- reference: Go filepath.Clean restricted to rooted paths, on the list of parts -/
def Spec.cleanParts (parts : List Str) : List Str :=
  parts.foldl (fun st x => if x.isEmpty || x == dot then st else if x == dotdot then st.dropLast else st ++ [x]) []

end Pth

namespace Pth

def g' (x : Str) : Option Comp :=
  if x.isEmpty then none else if x == dot then none else if x == dotdot then some Comp.parent else some (Comp.normal x)

def specStep (st : List Str) (x : Str) : List Str :=
  if x.isEmpty || x == dot then st else if x == dotdot then st.dropLast else st ++ [x]

theorem getLast?_cons_snoc {α} (a b : α) (l : List α) : (a :: (l ++ [b])).getLast? = some b := by
  rw [← List.cons_append, List.getLast?_append]; simp

theorem dropLast_cons_snoc {α} (a b : α) (l : List α) : (a :: (l ++ [b])).dropLast = a :: l := by
  rw [← List.cons_append]; exact List.dropLast_concat

theorem fold_abs (parts : List Str) (st : List Str) :
    (parts.filterMap g').foldl cleanStep (Comp.root :: st.map Comp.normal)
      = Comp.root :: (parts.foldl specStep st).map Comp.normal := by
  induction parts generalizing st with
  | nil => simp
  | cons x parts ih =>
    simp only [List.filterMap_cons, List.foldl_cons]
    by_cases h1 : x.isEmpty = true
    · simp only [g', h1, if_true, specStep, Bool.true_or]; exact ih st
    · by_cases h2 : (x == dot) = true
      · simp only [g', h1, Bool.false_eq_true, if_false, h2, if_true, specStep, Bool.or_true]; exact ih st
      · by_cases h3 : (x == dotdot) = true
        · simp only [g', h1, h2, h3, Bool.false_eq_true, if_false, if_true, specStep, Bool.or_self,
            List.foldl_cons]
          have : cleanStep (Comp.root :: st.map Comp.normal) Comp.parent
              = Comp.root :: (st.dropLast).map Comp.normal := by
            simp only [cleanStep, List.length_cons, gt_iff_lt, Nat.zero_lt_succ, if_true, popStack]
            cases hst : st.reverse with
            | nil =>
              have : st = [] := by simpa using hst
              subst this; simp
            | cons y ys =>
              have hs : st = ys.reverse ++ [y] := by
                have := congrArg List.reverse hst; simpa using this
              subst hs
              have e1 : (Comp.root :: List.map Comp.normal (ys.reverse ++ [y])).getLast? = some (Comp.normal y) := by
                rw [List.map_append]; exact getLast?_cons_snoc _ _ _
              have e2 : (Comp.root :: List.map Comp.normal (ys.reverse ++ [y])).dropLast
                  = Comp.root :: List.map Comp.normal ys.reverse := by
                rw [List.map_append]; exact dropLast_cons_snoc _ _ _
              rw [e1]; simp only [e2]; simp
          rw [this]; exact ih _
        · simp only [g', h1, h2, h3, Bool.false_eq_true, if_false, specStep, Bool.or_self, List.foldl_cons]
          have : cleanStep (Comp.root :: st.map Comp.normal) (Comp.normal x)
              = Comp.root :: (st ++ [x]).map Comp.normal := by simp [cleanStep]
          rw [this]; exact ih _

end Pth

namespace Pth

def isNormal (x : Str) : Bool := !x.isEmpty && !(x == dot) && !(x == dotdot)

/-- C12 depth arithmetic: descending through `xs` and then climbing `xs.length` times returns to the start -/
theorem down_up (xs : List Str) (hx : ∀ x ∈ xs, isNormal x = true) (st : List Str) :
    (xs ++ List.replicate xs.length dotdot).foldl specStep st = st := by
  induction xs generalizing st with
  | nil => simp
  | cons x xs ih =>
    have hn := hx x (by simp)
    simp only [isNormal, Bool.and_eq_true, Bool.not_eq_true', beq_eq_false_iff_ne, ne_eq] at hn
    obtain ⟨⟨h1, h2⟩, h3⟩ := hn
    have hstep : specStep st x = st ++ [x] := by
      have e2 : (x == dot) = false := by simpa using h2
      have e3 : (x == dotdot) = false := by simpa using h3
      simp [specStep, h1, e2, e3]
    simp only [List.length_cons, List.replicate_succ', List.cons_append, List.foldl_cons, hstep]
    rw [← List.append_assoc, List.foldl_append, ih (fun y hy => hx y (by simp [hy]))]
    simp [specStep, dotdot, dot]

end Pth
