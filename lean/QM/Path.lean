namespace Pth
abbrev Str := List Char

inductive Comp | root | cur | parent | normal (s : Str) deriving DecidableEq, Repr

def splitSlash : Str → List Str
  | [] => [[]]
  | c :: r =>
    if c == '/' then [] :: splitSlash r
    else match splitSlash r with
      | [] => [[c]]
      | p :: ps => (c :: p) :: ps

def isAbs (p : Str) : Bool := p.head? == some '/'

def dot : Str := ['.']
def dotdot : Str := ['.', '.']

/-- std::path::Path::components on Unix -/
def components (p : Str) : List Comp :=
  let parts := splitSlash p
  let abs := isAbs p
  let body := parts.zipIdx.filterMap fun (x, i) =>
    if x.isEmpty then none
    else if x == dot then (if i == 0 && !abs then some Comp.cur else none)
    else if x == dotdot then some Comp.parent
    else some (Comp.normal x)
  if abs then Comp.root :: body else body

/-- one step of `cleaned` on the buffer, as a stack of components (after the D17 repair):
    ".." removes a preceding name, never climbs above the root, and accumulates otherwise -/
def cleanStep (st : List Comp) (c : Comp) : List Comp :=
  match c with
  | .cur => st
  | .parent =>
    match st.getLast? with
    | some (Comp.normal _) => st.dropLast
    | some Comp.root => st
    | _ => st ++ [c]
  | .root => [c]
  | .normal _ => st ++ [c]

def compStr : Comp → Str
  | .root => ['/'] | .cur => dot | .parent => dotdot | .normal s => s

def render : List Comp → Str
  | [] => []
  | [c] => compStr c
  | .root :: c :: cs => '/' :: render (c :: cs)
  | c :: c' :: cs => compStr c ++ '/' :: render (c' :: cs)

def cleaned (p : Str) : Str := render ((components p).foldl cleanStep [])


/-- reference: Go filepath.Clean restricted to rooted paths, on the list of parts -/
def Spec.cleanParts (parts : List Str) : List Str :=
  parts.foldl (fun st x => if x.isEmpty || x == dot then st else if x == dotdot then st.dropLast else st ++ [x]) []


/-! ### absolute_from / absolute_from_unit (path_buf_ext.rs) -/
def startsWith (x pre : Str) : Bool := pre.isPrefixOf x

/-- PathBuf::join / push on Unix for the cases the generator uses -/
def joinPath (root p : Str) : Str :=
  if isAbs p then p else if root.isEmpty then p else if root.getLast? == some '/' then root ++ p else root ++ '/' :: p

/-- length in bytes (UTF-8), as `OsStr::len` counts -/
def byteLen (x : Str) : Nat := (x.map Char.utf8Size).sum

def firstComponentLen (p : Str) : Nat :=
  match components p with
  | [] => 0
  | c :: _ => byteLen (compStr c)

/-- starts_with_systemd_specifier -/
def startsWithSpecifier (p : Str) : Bool :=
  if byteLen p ≤ 1 then false
  else if firstComponentLen p == 2 then
    if startsWith p ['%', '%'] then false else startsWith p ['%']
  else false

/-- absolute_from: `cwd` is only consulted when `root` is empty -/
def absoluteFrom (cwd root p : Str) : Str :=
  if startsWithSpecifier p then p   -- not resolved, not even normalised: "%h/.." is not ""
  else if !isAbs p then
    (if !root.isEmpty then cleaned (joinPath root p) else cleaned (joinPath cwd p))
  else cleaned p

/-- Path::parent for paths without trailing separators: none for "/" and "" -/
def parent (path : Str) : Option Str :=
  match (components path).reverse with
  | [] => none
  | [Comp.root] => none
  | _ :: rest => some (render rest.reverse)

/-- absolute_from_unit -/
def absoluteFromUnit (cwd unitPath p : Str) : Str :=
  absoluteFrom cwd ((parent unitPath).getD cwd) p

/-- reference normaliser (Go filepath.Clean semantics) for rooted paths: split at '/', drop empty and "."
    parts, ".." removes the previous part and never climbs above the root, re-join -/
def Spec.clean (p : Str) : Str :=
  match Spec.cleanParts (splitSlash p) with
  | [] => ['/']
  | xs => xs.flatMap ('/' :: ·)

end Pth

