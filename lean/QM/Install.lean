import QM.PathLemmas
namespace Pth

/-- C12, `resolves`: a link at OUT/xs/name whose target is `..` repeated |xs| times followed by the
    service file resolves (lexically) to OUT/service, for every OUT and every nesting depth -/
theorem C12_resolves (outParts xs : List Str) (svc : Str) (hx : ∀ x ∈ xs, isNormal x = true)
    (hs : isNormal svc = true) :
    (outParts ++ (xs ++ List.replicate xs.length dotdot) ++ [svc]).foldl specStep []
      = outParts.foldl specStep [] ++ [svc] := by
  rw [List.foldl_append, List.foldl_append, down_up xs hx]
  simp only [isNormal, Bool.and_eq_true, Bool.not_eq_true', beq_eq_false_iff_ne, ne_eq] at hs
  obtain ⟨⟨h1, h2⟩, h3⟩ := hs
  have e2 : (svc == dot) = false := by simpa using h2
  have e3 : (svc == dotdot) = false := by simpa using h3
  simp [specStep, h1, e2, e3]

def isNormalC : Comp → Bool
  | .normal _ => true
  | _ => false

/-- shape of the buffer of `cleaned` on a relative path: some leading `..`, then names -/
def relShape (st : List Comp) : Prop :=
  ∃ k t, st = List.replicate k Comp.parent ++ t ∧ ∀ c ∈ t, isNormalC c = true

theorem cleanStep_relShape (st : List Comp) (c : Comp) (hc : c ≠ Comp.root) (h : relShape st) :
    relShape (cleanStep st c) := by
  obtain ⟨k, t, rfl, ht⟩ := h
  cases c with
  | root => exact absurd rfl hc
  | cur => exact ⟨k, t, rfl, ht⟩
  | normal x =>
    refine ⟨k, t ++ [Comp.normal x], by simp [cleanStep], ?_⟩
    intro d hd; simp at hd; rcases hd with hd | rfl; exact ht d hd; rfl
  | parent =>
    rcases List.eq_nil_or_concat t with rfl | ⟨t', y, rfl⟩
    · -- only leading ".." so far (or nothing): one more ".."
      refine ⟨k + 1, [], ?_, by simp⟩
      simp only [cleanStep, List.append_nil]
      cases k with
      | zero => simp
      | succ n =>
        have : (List.replicate (n + 1) Comp.parent).getLast? = some Comp.parent := by
          rw [List.replicate_succ']; simp
        rw [this]; simp [List.replicate_succ']
    · simp only [List.concat_eq_append] at ht ⊢
      have hy : isNormalC y = true := ht y (by simp)
      cases y with
      | normal z =>
        refine ⟨k, t', ?_, fun d hd => ht d (by simp [hd])⟩
        have : (List.replicate k Comp.parent ++ (t' ++ [Comp.normal z])).getLast? = some (Comp.normal z) := by
          rw [← List.append_assoc]; simp
        simp only [cleanStep, this]
        rw [← List.append_assoc, List.dropLast_concat]
      | root => simp [isNormalC] at hy
      | cur => simp [isNormalC] at hy
      | parent => simp [isNormalC] at hy

/-- the acceptance test for an alias (repaired code): relative, and after cleaning neither empty nor
    beginning with `..` — then every component is a plain name, so the link stays inside OUT -/
theorem alias_inside (comps : List Comp) (hrel : ∀ c ∈ comps, c ≠ Comp.root)
    (hhead : (comps.foldl cleanStep []).head? ≠ some Comp.parent) :
    ∀ c ∈ comps.foldl cleanStep [], isNormalC c = true := by
  have hshape : ∀ (cs : List Comp) (st : List Comp), (∀ c ∈ cs, c ≠ Comp.root) → relShape st →
      relShape (cs.foldl cleanStep st) := by
    intro cs
    induction cs with
    | nil => intro st _ h; exact h
    | cons c cs ih =>
      intro st hcs h
      exact ih _ (fun d hd => hcs d (by simp [hd])) (cleanStep_relShape st c (hcs c (by simp)) h)
  obtain ⟨k, t, he, ht⟩ := hshape comps [] hrel ⟨0, [], by simp, by simp⟩
  cases k with
  | zero => rw [he]; simpa using ht
  | succ n => rw [he] at hhead; simp [List.replicate_succ] at hhead

end Pth
