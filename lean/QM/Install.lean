import QM.PathLemmas
namespace Pth

/-- C12, `resolves`: a link at OUT/xs/name whose target is `..` repeated |xs| times followed by the
    service file resolves (lexically) to OUT/service, for every OUT and every nesting depth -/
theorem C12_resolves (outParts xs : List Str) (svc : Str) (hx : ∀ x ∈ xs, isNormal x = true)
    (hs : isNormal svc = true) :
    (outParts ++ (xs ++ List.replicate xs.length dotdot) ++ [svc]).foldl specStep []
      = outParts.foldl specStep [] ++ [svc] := by
  rw [List.foldl_append, List.foldl_append, down_up xs hx]
  simp only [isNormal, Bool.and_eq_true, Bool.not_eq_true', beq_eq_false_iff_ne, ne_eq] at hs
  obtain ⟨⟨h1, h2⟩, h3⟩ := hs
  have e2 : (svc == dot) = false := by simpa using h2
  have e3 : (svc == dotdot) = false := by simpa using h3
  simp [specStep, h1, e2, e3]

def isNormalC : Comp → Bool
  | .normal _ => true
  | _ => false

/-- shape of the buffer of `cleaned` on a relative path: at most one leading `..`, then names -/
def relShape (st : List Comp) : Prop :=
  (∀ c ∈ st, isNormalC c = true) ∨ ∃ t, st = Comp.parent :: t ∧ ∀ c ∈ t, isNormalC c = true

theorem cleanStep_relShape (st : List Comp) (c : Comp) (hc : c ≠ Comp.root) (h : relShape st) :
    relShape (cleanStep st c) := by
  cases c with
  | root => exact absurd rfl hc
  | cur => exact h
  | normal x =>
    rcases h with h | ⟨t, rfl, ht⟩
    · left; intro d hd; simp [cleanStep] at hd; rcases hd with hd | rfl; exact h d hd; rfl
    · right; refine ⟨t ++ [Comp.normal x], by simp [cleanStep], ?_⟩
      intro d hd; simp at hd; rcases hd with hd | rfl; exact ht d hd; rfl
  | parent =>
    simp only [cleanStep]
    split
    · -- pop
      rename_i hlen
      have hpop : ∀ l : List Comp, (∀ c ∈ l, c ≠ Comp.root) → popStack l = l.dropLast := by
        intro l hl
        unfold popStack
        cases hg : l.getLast? with
        | none => rfl
        | some c =>
          have hm : c ∈ l := List.mem_of_getLast? hg
          cases c with
          | root => exact absurd rfl (hl _ hm)
          | _ => rfl
      rcases h with h | ⟨t, rfl, ht⟩
      · rw [hpop st (fun c hc e => by subst e; simpa [isNormalC] using h _ hc)]
        left; intro d hd; exact h d (List.dropLast_subset _ hd)
      · rw [hpop _ (by
          intro c hc e; subst e
          simp at hc; simpa [isNormalC] using ht _ hc)]
        cases t with
        | nil => left; simp
        | cons a t' =>
          right; refine ⟨(a :: t').dropLast, by simp [List.dropLast], ?_⟩
          intro d hd; exact ht d (List.dropLast_subset _ hd)
    · rename_i hlen
      have : st = [] := by cases st <;> simp_all
      subst this
      right; exact ⟨[], by simp, by simp⟩

/-- D8's acceptance test for an alias (repaired code): relative, and after cleaning neither empty nor
    beginning with `..` — then every component is a plain name, so the link stays inside OUT -/
theorem alias_inside (comps : List Comp) (hrel : ∀ c ∈ comps, c ≠ Comp.root)
    (hhead : (comps.foldl cleanStep []).head? ≠ some Comp.parent) :
    ∀ c ∈ comps.foldl cleanStep [], isNormalC c = true := by
  have hshape : ∀ (cs : List Comp) (st : List Comp), (∀ c ∈ cs, c ≠ Comp.root) → relShape st →
      relShape (cs.foldl cleanStep st) := by
    intro cs
    induction cs with
    | nil => intro st _ h; exact h
    | cons c cs ih =>
      intro st hcs h
      exact ih _ (fun d hd => hcs d (by simp [hd])) (cleanStep_relShape st c (hcs c (by simp)) h)
  rcases hshape comps [] hrel (Or.inl (by simp)) with h | ⟨t, ht, _⟩
  · exact h
  · rw [ht] at hhead; simp at hhead

end Pth
