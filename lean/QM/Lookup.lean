import QM.MMap
import QM.Unquote
import QM.Strv
import QM.Parser
/-! Model of the lookups of `SystemdUnit` (unit.rs) on the ordered multimap model `MM.SUnit`. -/
namespace Cv
open MM
abbrev Str := List Char
def s (x : String) : Str := x.toList

/-! ### lookups -/
def assignments (u : SUnit) (sec key : Str) : List Str :=
  (entriesOf u sec).filterMap (fun kv => if kv.1 == key then some kv.2 else none)
def resetStep (res : List Str) (v : Str) : List Str := if v.isEmpty then [] else res ++ [v]
def lookupAllValues (u : SUnit) (sec key : Str) : List Str := (assignments u sec key).foldl resetStep []
def lookupLastValue (u : SUnit) (sec key : Str) : Option Str := (assignments u sec key).getLast?
def hasKey (u : SUnit) (sec key : Str) : Bool := !(assignments u sec key).isEmpty
def unq (raw : Str) : Str := (P.unquoteValue true raw).getD []
def lookup (u : SUnit) (sec key : Str) : Option Str := (lookupLastValue u sec key).map unq
def lookupAll (u : SUnit) (sec key : Str) : List Str := (lookupAllValues u sec key).map unq

def splitArgs (raw : Str) : List Str := P.splitArgs raw
def splitStrv (raw : Str) : List Str := P.splitStrv raw
def lookupAllArgs (u : SUnit) (sec key : Str) : List Str := (lookupAllValues u sec key).flatMap splitArgs
def lookupAllStrv (u : SUnit) (sec key : Str) : List Str := (lookupAllValues u sec key).flatMap splitStrv

/-- Rust `str::trim`: strips `char::is_whitespace` (Unicode White_Space) on both sides -/
def trim (x : Str) : Str := ((x.dropWhile Parse.isWs).reverse.dropWhile Parse.isWs).reverse

def parseBool (x : Str) : Option Bool :=
  if x == s "1" || x == s "yes" || x == s "true" || x == s "on" then some true
  else if x == s "0" || x == s "no" || x == s "false" || x == s "off" then some false
  else none
/-- lookup_bool (after D14): an empty last assignment means unset; an unparsable value means false -/
def lookupBool (u : SUnit) (sec key : Str) : Option Bool :=
  match lookupLastValue u sec key with
  | none => none
  | some raw => if (trim raw).isEmpty then none else some ((parseBool (trim raw)).getD false)

def splitOnce (c : Char) (x : Str) : Option (Str × Str) :=
  match x.span (· != c) with
  | (_, []) => none
  | (a, _ :: b) => some (a, b)

/-- lookup_all_key_val: last value per name; the model keeps first-insertion order of the names -/
def lookupAllKeyVal (u : SUnit) (sec key : Str) : List (Str × Str) :=
  let pairs := (lookupAllValues u sec key).flatMap fun raw => (splitArgs raw).filterMap (splitOnce '=')
  pairs.foldl (fun acc (kv : Str × Str) =>
    if acc.any (·.1 == kv.1) then acc.map (fun p => if p.1 == kv.1 then kv else p) else acc ++ [kv]) []

def parseU32 (x : Str) : Option Nat :=
  let d := match x with | '+' :: r => r | _ => x
  if d.isEmpty || !d.all (fun c => '0' ≤ c ∧ c ≤ '9') then none
  else
    let v := d.foldl (fun n c => n * 10 + (c.toNat - 48)) 0
    if v ≤ 4294967295 then some v else none

end Cv
