namespace Srch
abbrev Name := List Char
abbrev Dir := List Name          -- path as list of components below "/"

def isNumeric (n : Name) : Bool := n.all (fun c => '0' ≤ c ∧ c ≤ '9')

def admin : Dir := ["etc".toList, "containers".toList, "systemd".toList]
def users : Dir := admin ++ ["users".toList]

/-- user_level_filter: directories under users/ only when rootless -/
def userLevelFilter (rootless : Bool) (d : Dir) : Bool := if users.isPrefixOf d then rootless else true

/-- non_numeric_filter. `fixed = false`: the pinned code (looks at the LAST component);
    `fixed = true`: after D10 (looks at the component directly below users/) -/
def nonNumericFilter (fixed : Bool) (d : Dir) : Bool :=
  if users.isPrefixOf d then
    if d.length > users.length then
      match (if fixed then d[users.length]? else d.getLast?) with
      | some n => !isNumeric n
      | none => false
    else false
  else true

/-- the directories of the tree at or below `root` (the walk), in the tree's listing order -/
def walk (tree : List Dir) (root : Dir) : List Dir := tree.filter (fun d => root.isPrefixOf d)

/-- what a user generator reads below the admin tree (XDG dirs are outside it and omitted here) -/
def rootlessAdminDirs (fixed : Bool) (tree : List Dir) (uid : Name) : List Dir :=
  (walk tree users).filter (nonNumericFilter fixed) ++
  (walk tree (users ++ [uid])).filter (userLevelFilter true) ++ [users]

def rootAdminDirs (tree : List Dir) : List Dir := (walk tree admin).filter (userLevelFilter false)

/-- specification -/
def userMayRead (uid : Name) (d : Dir) : Prop :=
  d = users ∨ (users.isPrefixOf d ∧ ∃ n, d[users.length]? = some n ∧ isNumeric n = false) ∨ (users ++ [uid]).isPrefixOf d

end Srch
