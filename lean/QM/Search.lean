namespace Srch
abbrev Name := List Char
abbrev Dir := List Name          -- path as list of components below "/"

def isNumeric (n : Name) : Bool := n.all (fun c => '0' ≤ c ∧ c ≤ '9')

def admin : Dir := ["etc".toList, "containers".toList, "systemd".toList]
def users : Dir := admin ++ ["users".toList]

/-- user_level_filter: directories under users/ only when rootless -/
def userLevelFilter (rootless : Bool) (d : Dir) : Bool := if users.isPrefixOf d then rootless else true

/-- non_numeric_filter. `fixed = false`: the pinned code (looks at the LAST component);
    `fixed = true`: after D10 (looks at the component directly below users/) -/
def nonNumericFilter (fixed : Bool) (d : Dir) : Bool :=
  if users.isPrefixOf d then
    if d.length > users.length then
      match (if fixed then d[users.length]? else d.getLast?) with
      | some n => !isNumeric n
      | none => false
    else false
  else true

/-- the directories of the tree at or below `root` (the walk), in the tree's listing order -/
def walk (tree : List Dir) (root : Dir) : List Dir := tree.filter (fun d => root.isPrefixOf d)

/-- what a user generator reads below the admin tree (XDG dirs are outside it and omitted here) -/
def rootlessAdminDirs (fixed : Bool) (tree : List Dir) (uid : Name) : List Dir :=
  (walk tree users).filter (nonNumericFilter fixed) ++
  (walk tree (users ++ [uid])).filter (userLevelFilter true) ++ [users]

def rootAdminDirs (tree : List Dir) : List Dir := (walk tree admin).filter (userLevelFilter false)

/-- specification -/
def userMayRead (uid : Name) (d : Dir) : Prop :=
  d = users ∨ (users.isPrefixOf d ∧ ∃ n, d[users.length]? = some n ∧ isNumeric n = false) ∨ (users ++ [uid]).isPrefixOf d

/-- C14, root: nothing at or below users/ -/
theorem C14_root (tree : List Dir) : ∀ d ∈ rootAdminDirs tree, users.isPrefixOf d = false := by
  intro d hd
  simp only [rootAdminDirs, List.mem_filter, userLevelFilter] at hd
  cases h : users.isPrefixOf d with
  | false => rfl
  | true => simp [h] at hd

/-- D10 as a theorem about the model of the pinned code: uid 1001 is served users/2002/sub -/
theorem C14_counterexample :
    (users ++ ["2002".toList, "sub".toList]) ∈
      rootlessAdminDirs false [users, users ++ ["2002".toList], users ++ ["2002".toList, "sub".toList]] "1001".toList := by
  decide

theorem prefix_getElem (p d : Dir) (x : Name) (h : (p ++ [x]).isPrefixOf d = true) :
    p.isPrefixOf d = true ∧ d[p.length]? = some x := by
  induction p generalizing d with
  | nil =>
    cases d with
    | nil => simp [List.isPrefixOf] at h
    | cons y ys =>
      simp only [List.nil_append, List.isPrefixOf, Bool.and_eq_true, beq_iff_eq] at h
      simp [List.isPrefixOf, h.1]
  | cons a p ih =>
    cases d with
    | nil => simp [List.isPrefixOf] at h
    | cons y ys =>
      simp only [List.cons_append, List.isPrefixOf, Bool.and_eq_true, beq_iff_eq] at h
      obtain ⟨h1, h2⟩ := ih ys h.2
      simp [List.isPrefixOf, h.1, h1, h2]

/-- C14, user, soundness (repaired filter): everything read below the admin tree is permitted -/
theorem C14_user_sound (tree : List Dir) (uid : Name) (huid : isNumeric uid = true) :
    ∀ d ∈ rootlessAdminDirs true tree uid, userMayRead uid d := by
  intro d hd
  simp only [rootlessAdminDirs, List.mem_append, List.mem_filter, walk, List.mem_singleton] at hd
  rcases hd with (⟨⟨_, hp⟩, hf⟩ | ⟨⟨_, hp⟩, _⟩) | rfl
  · right; left
    refine ⟨hp, ?_⟩
    simp only [nonNumericFilter, hp, if_true] at hf
    split at hf
    · cases hn : d[users.length]? with
      | none => simp [hn] at hf
      | some n => simp [hn] at hf; exact ⟨n, rfl, hf⟩
    · simp at hf
  · right; right; exact hp
  · left; rfl

/-- C14, user, completeness (repaired filter): every permitted directory of the tree is read -/
theorem C14_user_complete (tree : List Dir) (uid : Name) (d : Dir) (hd : d ∈ tree) (h : userMayRead uid d) :
    d ∈ rootlessAdminDirs true tree uid := by
  simp only [rootlessAdminDirs, List.mem_append, List.mem_filter, walk, List.mem_singleton]
  rcases h with rfl | ⟨hp, n, hn, hnum⟩ | hp
  · right; rfl
  · left; left
    refine ⟨⟨hd, hp⟩, ?_⟩
    obtain ⟨hlen, hget⟩ := List.getElem?_eq_some_iff.mp hn
    have hlen' : d.length > users.length := hlen
    simp only [nonNumericFilter, hp, if_true, hlen', hn]
    simpa using hnum
  · left; right
    refine ⟨⟨hd, hp⟩, ?_⟩
    have := (prefix_getElem users d uid hp).1
    simp [userLevelFilter, this]

end Srch
