import QM.Extract
namespace P

def strvFlags : Flags := { unquote := true, cunescape := false, relax := false, retainEscape := true }
@[simp] theorem sf_unquote : strvFlags.unquote = true := rfl
@[simp] theorem sf_cunescape : strvFlags.cunescape = false := rfl
@[simp] theorem sf_relax : strvFlags.relax = false := rfl
@[simp] theorem sf_retain : strvFlags.retainEscape = true := rfl

namespace Impl

/-- SplitStrv::next after the D3 repair: backslashes are ordinary characters, quotes are removed
    wherever they occur, an unbalanced quote runs to the end of the value -/
def strvWord : Option Char → Str → Str → Res
  | _, acc, [] => .word acc.reverse []
  | none, acc, c :: r =>
      if isQuote c then strvWord (some c) acc r
      else if implSep c then .word acc.reverse (implDropSeps r)
      else strvWord none (c :: acc) r
  | some q, acc, c :: r =>
      if c == q then strvWord none acc r else strvWord (some q) (c :: acc) r

def strvNext (s : Str) : Res :=
  match implDropSeps s with
  | [] => .noWord
  | c :: r => strvWord none [] (c :: r)

end Impl

/-- C05 (list keys): whenever systemd's extract_first_word(UNQUOTE|RETAIN_ESCAPE) returns a word,
    SplitStrv::next returns the same word and the same rest -/
theorem impl_strv_of_spec (q acc s w rest)
    (h : Spec.word strvFlags q false acc s = .word w rest) : Impl.strvWord q acc s = .word w rest := by
  induction s generalizing q acc with
  | nil =>
    cases q with
    | none => rw [Spec.word] at h; simpa [Impl.strvWord] using h
    | some q => rw [Spec.word] at h; simp at h
  | cons c r ih =>
    cases q with
    | none =>
      rw [Spec.word] at h
      simp only [sf_unquote, Bool.and_true, sf_retain, Bool.not_true, Bool.and_false, Bool.false_eq_true,
        if_false] at h
      simp only [Impl.strvWord, implSep_eq, implDropSeps_eq]
      split
      · rename_i hq; simp only [hq, if_true] at h; exact ih _ _ h
      · rename_i hq
        simp only [hq, Bool.false_eq_true, if_false] at h
        split
        · rename_i hs; simpa [hs] using h
        · rename_i hs; simp only [hs, Bool.false_eq_true, if_false] at h; exact ih _ _ h
    | some q =>
      rw [Spec.word] at h
      simp only [sf_retain, Bool.not_true, Bool.and_false, Bool.false_eq_true, if_false] at h
      simp only [Impl.strvWord]
      split
      · rename_i hq; simp only [hq, if_true] at h; exact ih _ _ h
      · rename_i hq; simp only [hq, Bool.false_eq_true, if_false] at h; exact ih _ _ h

end P
