import QM.Extract
namespace P

def strvFlags : Flags := { unquote := true, cunescape := false, relax := false, retainEscape := true }
@[simp] theorem sf_unquote : strvFlags.unquote = true := rfl
@[simp] theorem sf_cunescape : strvFlags.cunescape = false := rfl
@[simp] theorem sf_relax : strvFlags.relax = false := rfl
@[simp] theorem sf_retain : strvFlags.retainEscape = true := rfl

namespace Impl

/-- SplitStrv::next after the D3 repair: backslashes are ordinary characters, quotes are removed
    wherever they occur, an unbalanced quote runs to the end of the value -/
def strvWord : Option Char → Str → Str → Res
  | _, acc, [] => .word acc.reverse []
  | none, acc, c :: r =>
      if isQuote c then strvWord (some c) acc r
      else if implSep c then .word acc.reverse (implDropSeps r)
      else strvWord none (c :: acc) r
  | some q, acc, c :: r =>
      if c == q then strvWord none acc r else strvWord (some q) (c :: acc) r

def strvNext (s : Str) : Res :=
  match implDropSeps s with
  | [] => .noWord
  | c :: r => strvWord none [] (c :: r)

end Impl

/-- Rust iterator semantics: iteration ends at the first `None` (no word left, or an escape error) -/
def collectImpl (next : Str → Res) : Nat → Str → List Str
  | 0, _ => []
  | fuel+1, s => match next s with
    | .word w rest => w :: collectImpl next fuel rest
    | _ => []

/-- `SplitWord::new(raw).collect()` / `SplitStrv::new(raw).collect()` -/
def splitArgs (raw : Str) : List Str := collectImpl Impl.next (raw.length + 1) raw
def splitStrv (raw : Str) : List Str := collectImpl Impl.strvNext (raw.length + 1) raw

end P
