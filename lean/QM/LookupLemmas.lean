import QM.Lookup
/-! Lemmas about the lookups: the reset fold, and the assignment history of merged files (C15). -/
namespace Cv
open MM

theorem fold_noEmpty (suf res : List Str) (h : ∀ v ∈ suf, v.isEmpty = false) :
    suf.foldl resetStep res = res ++ suf := by
  induction suf generalizing res with
  | nil => simp
  | cons v suf ih =>
    have hv := h v (by simp)
    simp only [List.foldl_cons, resetStep, hv, Bool.false_eq_true, if_false]
    rw [ih _ (fun x hx => h x (by simp [hx]))]; simp

/-- C15 (lists): the effective value is exactly what was assigned after the last empty assignment -/
theorem fold_reset_spec (pre suf res : List Str) (hsuf : ∀ v ∈ suf, v.isEmpty = false)
    (hpre : pre = [] ∧ res = [] ∨ ∃ p, pre = p ++ [[]]) :
    (pre ++ suf).foldl resetStep res = suf := by
  rw [List.foldl_append]
  rcases hpre with ⟨rfl, rfl⟩ | ⟨p, rfl⟩
  · simpa using fold_noEmpty suf [] hsuf
  · rw [List.foldl_append]
    simp only [List.foldl_cons, List.foldl_nil, resetStep, List.isEmpty_nil, if_true]
    simpa using fold_noEmpty suf [] hsuf

theorem lookupAllValues_spec (u : SUnit) (sec key : Str) (pre suf : List Str)
    (hsplit : assignments u sec key = pre ++ suf) (hsuf : ∀ v ∈ suf, v.isEmpty = false)
    (hpre : pre = [] ∨ ∃ p, pre = p ++ [[]]) : lookupAllValues u sec key = suf := by
  unfold lookupAllValues
  rw [hsplit]
  exact fold_reset_spec pre suf [] hsuf (by rcases hpre with h | h; exact Or.inl ⟨h, rfl⟩; exact Or.inr h)

/-- every history splits that way (so the theorem above is never vacuous) -/
theorem history_split (h : List Str) : ∃ pre suf, h = pre ++ suf ∧ (∀ v ∈ suf, v.isEmpty = false) ∧
    (pre = [] ∨ ∃ p, pre = p ++ [[]]) := by
  induction h with
  | nil => exact ⟨[], [], rfl, by simp, Or.inl rfl⟩
  | cons v h ih =>
    obtain ⟨pre, suf, rfl, h1, h2⟩ := ih
    rcases h2 with rfl | ⟨p, rfl⟩
    · by_cases hv : v.isEmpty = true
      · have : v = [] := by simpa using hv
        subst this
        exact ⟨[[]], suf, by simp, h1, Or.inr ⟨[], rfl⟩⟩
      · refine ⟨[], v :: suf, by simp, ?_, Or.inl rfl⟩
        intro x hx
        rcases List.mem_cons.mp hx with rfl | h
        · simpa using hv
        · exact h1 x h
    · exact ⟨v :: p ++ [[]], suf, by simp, h1, Or.inr ⟨v :: p, by simp⟩⟩

theorem assignments_addEntry (u : SUnit) (sec key raw s' k' : Str) :
    assignments (addEntry u sec key raw) s' k' =
      assignments u s' k' ++ (if s' = sec ∧ key = k' then [raw] else []) := by
  unfold assignments
  rw [entriesOf_addEntry]
  by_cases hs : s' = sec
  · subst hs
    by_cases hk : key = k'
    · subst hk; simp
    · have : (key == k') = false := by simpa using hk
      simp [hk, this]
  · simp [hs]

theorem assignments_addAll (u : SUnit) (sec : Str) (es : Entries) (s' k' : Str) :
    assignments (addAll u sec es) s' k' =
      assignments u s' k' ++ (if s' = sec then es.filterMap (fun kv => if kv.1 == k' then some kv.2 else none) else []) := by
  induction es generalizing u with
  | nil => simp [addAll]
  | cons kv es ih =>
    obtain ⟨k, v⟩ := kv
    simp only [addAll, List.foldl_cons] at ih ⊢
    rw [ih, assignments_addEntry]
    by_cases hs : s' = sec
    · subst hs
      by_cases hk : k = k'
      · subst hk; simp
      · have : (k == k') = false := by simpa using hk
        simp [hk, this]
    · simp [hs]

theorem lookup_none_of_not_mem (u : SUnit) (sec : Str) (h : sec ∉ u.map Prod.fst) : u.lookup sec = none := by
  induction u with
  | nil => rfl
  | cons p u ih =>
    obtain ⟨s, es⟩ := p
    simp only [List.map_cons, List.mem_cons, not_or] at h
    have : (sec == s) = false := by simpa using h.1
    simp [List.lookup, this, ih h.2]

/-- C15 (history): after merging drop-in `o` into `u`, the assignment history of every (section,key) is
    `u`'s history followed by `o`'s — for repeated sections and any number of files (iterate) -/
theorem assignments_mergeFrom (u o : SUnit) (hnd : (o.map Prod.fst).Nodup) (s' k' : Str) :
    assignments (mergeFrom u o) s' k' = assignments u s' k' ++ assignments o s' k' := by
  induction o generalizing u with
  | nil => simp [mergeFrom, assignments, entriesOf, List.lookup]
  | cons p o ih =>
    obtain ⟨a, es⟩ := p
    simp only [List.map_cons, List.nodup_cons] at hnd
    simp only [mergeFrom, List.foldl_cons] at ih ⊢
    rw [ih _ hnd.2, assignments_addAll]
    by_cases hs : s' = a
    · subst hs
      have h0 : assignments o s' k' = [] := by
        simp [assignments, entriesOf, lookup_none_of_not_mem o s' hnd.1]
      have h1 : assignments ((s', es) :: o) s' k' = es.filterMap (fun kv => if kv.1 == k' then some kv.2 else none) := by
        simp [assignments, entriesOf, List.lookup]
      rw [h0, h1]; simp
    · have : (s' == a) = false := by simpa using hs
      have h1 : assignments ((a, es) :: o) s' k' = assignments o s' k' := by
        simp [assignments, entriesOf, List.lookup, this]
      rw [h1]; simp [hs]

end Cv
