import QM.ConvShape
/-! Frame reasoning for the converters: which sections an operation can change.  `SameOutside T a b` says that `b`
    has the same entries as `a` in every section that is not listed in `T`. -/
namespace Cv
open MM

def SameOutside (T : List Str) (a b : SUnit) : Prop := ∀ S, S ∉ T → entriesOf b S = entriesOf a S

theorem SameOutside.refl (T : List Str) (a : SUnit) : SameOutside T a a := fun _ _ => rfl
theorem SameOutside.trans {T : List Str} {a b c : SUnit} (h1 : SameOutside T a b) (h2 : SameOutside T b c) :
    SameOutside T a c := fun S hS => (h2 S hS).trans (h1 S hS)
theorem SameOutside.mono {T T' : List Str} {a b : SUnit} (h : SameOutside T a b) (hsub : ∀ S ∈ T, S ∈ T') :
    SameOutside T' a b := fun S hS => h S (fun hm => hS (hsub S hm))

theorem so_addS (svc : SUnit) (sec key : String) (v : Str) : SameOutside [s sec] svc (addS svc sec key v) := by
  intro S hS; rw [entriesOf_addS, if_neg (by simpa using hS)]
theorem so_setS (svc : SUnit) (sec key : String) (v : Str) : SameOutside [s sec] svc (setS svc sec key v) := by
  intro S hS; exact entriesOf_setS_ne _ _ _ _ _ (by simpa using hS)
theorem so_addEntry (svc : SUnit) (sec key raw : Str) : SameOutside [sec] svc (addEntry svc sec key raw) := by
  intro S hS; rw [entriesOf_addEntry, if_neg (by simpa using hS)]
theorem so_oneShot (svc : SUnit) (b : Bool) : SameOutside [s "Service"] svc (oneShot svc b) := by
  intro S hS; exact entriesOf_oneShot_ne _ _ _ (by simpa using hS)
theorem so_addRawExec (svc svc' : SUnit) (k : String) (args : List Str) (h : addRawExec svc k args = .ok svc') :
    SameOutside [s "Service"] svc svc' := by
  rw [addRawExec_ok _ _ _ _ h]; exact so_addEntry _ _ _ _
theorem so_killMode (u svc svc' : SUnit) (h : killMode u svc = .ok svc') : SameOutside [s "Service"] svc svc' := by
  unfold killMode at h
  split at h
  · simp at h; subst h; exact so_setS _ _ _ _
  · split at h
    · simp at h; subst h; exact SameOutside.refl _ _
    · simp at h

/-- widening helpers for the two sections the generator writes to -/
theorem so_unit {a b : SUnit} (h : SameOutside [s "Unit"] a b) : SameOutside [s "Unit", s "Service"] a b :=
  h.mono (by intro S hS; simp at hS; simp [hS])
theorem so_service {a b : SUnit} (h : SameOutside [s "Service"] a b) : SameOutside [s "Unit", s "Service"] a b :=
  h.mono (by intro S hS; simp at hS; simp [hS])

theorem so_handleImageSource (E : Env) (name : Str) (svc : SUnit) (r : Str × SUnit)
    (h : handleImageSource E name svc = .ok r) : SameOutside [s "Unit"] svc r.2 := by
  unfold handleImageSource at h
  split at h
  · split at h
    · simp at h
    · simp at h; subst h
      exact (so_addS _ _ _ _).trans (so_addS _ _ _ _)
  · simp at h; subst h; exact SameOutside.refl _ _

theorem so_handleStorageSource (E : Env) (unitPath : Str) (svc : SUnit) (source : Str) (ci : Bool) (r : Str × SUnit)
    (h : handleStorageSource E unitPath svc source ci = .ok r) : SameOutside [s "Unit"] svc r.2 := by
  unfold handleStorageSource at h
  simp only at h
  generalize (if source.head? == some '.' then absFromUnit unitPath source else source) = src at h
  split at h
  · simp at h; subst h; exact so_addS _ _ _ _
  · split at h
    · split at h
      · simp at h
      · simp at h; subst h
        exact (so_addS _ _ _ _).trans (so_addS _ _ _ _)
    · simp at h; subst h; exact SameOutside.refl _ _

/-- a monadic fold whose step keeps the frame keeps the frame -/
theorem so_foldlM {α β : Type} (T : List Str) (f : β × SUnit → α → R (β × SUnit))
    (hf : ∀ acc a r, f acc a = .ok r → SameOutside T acc.2 r.2) :
    ∀ (l : List α) (acc r : β × SUnit), l.foldlM f acc = .ok r → SameOutside T acc.2 r.2 := by
  intro l
  induction l with
  | nil => intro acc r h; simp [List.foldlM, pure, Except.pure] at h; subst h; exact SameOutside.refl _ _
  | cons a l ih =>
    intro acc r h
    simp only [List.foldlM_cons, bind_ok] at h
    obtain ⟨x, hx, hr⟩ := h
    exact (hf acc a x hx).trans (ih x r hr)

end Cv

namespace Cv
open MM

theorem so_volumeStep (E : Env) (unitPath : Str) (acc : List Str × SUnit) (volume : Str) (r : List Str × SUnit)
    (h : volumeStep E unitPath acc volume = .ok r) : SameOutside [s "Unit"] acc.2 r.2 := by
  unfold volumeStep at h
  simp only at h
  split at h
  · simp at h; subst h; exact SameOutside.refl _ _
  · split at h
    · simp at h
    · rename_i x hx
      have := so_handleStorageSource _ _ _ _ _ _ hx
      split at h <;> (simp at h; subst h; exact this)

theorem so_handleVolumes (E : Env) (unitPath : Str) (u : SUnit) (sec : Str) (svc : SUnit) (r : List Str × SUnit)
    (h : handleVolumes E unitPath u sec svc = .ok r) : SameOutside [s "Unit"] svc r.2 :=
  so_foldlM [s "Unit"] _ (so_volumeStep E unitPath) _ _ _ h

theorem so_networkRef (E : Env) (name : Str) (svc : SUnit) (r : Str × SUnit)
    (h : networkRef E name svc = .ok r) : SameOutside [s "Unit"] svc r.2 := by
  unfold networkRef at h
  split at h
  · split at h
    · simp at h
    · split at h
      · simp at h
      · simp at h; subst h; exact (so_addS _ _ _ _).trans (so_addS _ _ _ _)
  · simp at h; subst h; exact SameOutside.refl _ _

theorem so_networkStep (E : Env) (acc : List Str × SUnit) (network : Str) (r : List Str × SUnit)
    (h : networkStep E acc network = .ok r) : SameOutside [s "Unit"] acc.2 r.2 := by
  unfold networkStep at h
  split at h
  · simp at h; subst h; exact SameOutside.refl _ _
  · simp only at h
    split at h
    · simp at h
    · rename_i x hx
      have := so_networkRef _ _ _ _ hx
      split at h
      · split at h
        · simp at h
        · simp at h; subst h; exact this
      · split at h <;> (simp at h; subst h; exact this)

theorem so_handleNetworks (E : Env) (u : SUnit) (sec : Str) (svc : SUnit) (r : List Str × SUnit)
    (h : handleNetworks E u sec svc = .ok r) : SameOutside [s "Unit"] svc r.2 :=
  so_foldlM [s "Unit"] _ (so_networkStep E) _ _ _ h

/-- what the converters do first: start from the merged unit, rename the unit's own section and [Quadlet] -/
def preOf (start : SUnit) (own xown : Str) : SUnit :=
  renameSection (renameSection start own xown) (s "Quadlet") (s "X-Quadlet")
def preService (path : Str) (u : SUnit) (own xown : Str) : SUnit := preOf (startService path u) own xown

/-- everything C07 says about sections, from a frame fact: if the converter starts from a unit that agrees with the
    user's unit outside [Unit], renames its own section and [Quadlet], and afterwards writes only to [Unit] and
    [Service], then every foreign section is verbatim, the own section and [Quadlet] are kept under X-…, and neither
    remains -/
theorem sections_of_frame' (start u svc : SUnit) (own xown : Str)
    (base : ∀ S, S ≠ s "Unit" → entriesOf start S = entriesOf u S)
    (hx : own ≠ xown) (ho : own ∉ [s "Unit", s "Service", s "Quadlet", s "X-Quadlet"])
    (hxo : xown ∉ [s "Unit", s "Service", s "Quadlet", s "X-Quadlet"])
    (h : SameOutside [s "Unit", s "Service"] (preOf start own xown) svc) :
    (∀ S, S ∉ [own, xown, s "Quadlet", s "X-Quadlet", s "Unit", s "Service"] → entriesOf svc S = entriesOf u S) ∧
    entriesOf svc xown = entriesOf u xown ++ entriesOf u own ∧
    entriesOf svc (s "X-Quadlet") = entriesOf u (s "X-Quadlet") ++ entriesOf u (s "Quadlet") ∧
    entriesOf svc own = [] ∧ entriesOf svc (s "Quadlet") = [] := by
  simp only [List.mem_cons, List.not_mem_nil, or_false, not_or] at ho hxo
  obtain ⟨ho1, ho2, ho3, ho4⟩ := ho
  obtain ⟨hx1, hx2, hx3, hx4⟩ := hxo
  have hq : s "Quadlet" ≠ s "X-Quadlet" := by decide
  refine ⟨?_, ?_, ?_, ?_, ?_⟩
  · intro S hS
    simp only [List.mem_cons, List.not_mem_nil, or_false, not_or] at hS
    obtain ⟨h1, h2, h3, h4, h5, h6⟩ := hS
    rw [h S (by simp [h5, h6])]
    simp only [preOf]
    rw [entriesOf_rename _ _ _ _ hq, if_neg h3, if_neg h4, entriesOf_rename _ _ _ _ hx, if_neg h1, if_neg h2]
    exact base S h5
  · rw [h xown (by simp [hx1, hx2])]
    simp only [preOf]
    rw [entriesOf_rename _ _ _ _ hq, if_neg hx3, if_neg hx4, entriesOf_rename _ _ _ _ hx, if_neg (Ne.symm hx), if_pos rfl,
      base _ hx1, base _ ho1]
  · rw [h _ (by decide)]
    simp only [preOf]
    rw [entriesOf_rename _ _ _ _ hq, if_neg (Ne.symm hq), if_pos rfl,
      entriesOf_rename _ _ _ _ hx, if_neg (Ne.symm ho4), if_neg (Ne.symm hx4),
      entriesOf_rename _ _ _ _ hx, if_neg (Ne.symm ho3), if_neg (Ne.symm hx3), base _ (by decide), base _ (by decide)]
  · rw [h own (by simp [ho1, ho2])]
    simp only [preOf]
    rw [entriesOf_rename _ _ _ _ hq, if_neg ho3, if_neg ho4, entriesOf_rename _ _ _ _ hx, if_pos rfl]
  · rw [h _ (by decide)]
    simp only [preOf]
    rw [entriesOf_rename _ _ _ _ hq, if_pos rfl]

theorem sections_of_frame (path : Str) (u svc : SUnit) (own xown : Str) (hnd : (u.map Prod.fst).Nodup)
    (hx : own ≠ xown) (ho : own ∉ [s "Unit", s "Service", s "Quadlet", s "X-Quadlet"])
    (hxo : xown ∉ [s "Unit", s "Service", s "Quadlet", s "X-Quadlet"])
    (h : SameOutside [s "Unit", s "Service"] (preService path u own xown) svc) :
    (∀ S, S ∉ [own, xown, s "Quadlet", s "X-Quadlet", s "Unit", s "Service"] → entriesOf svc S = entriesOf u S) ∧
    entriesOf svc xown = entriesOf u xown ++ entriesOf u own ∧
    entriesOf svc (s "X-Quadlet") = entriesOf u (s "X-Quadlet") ++ entriesOf u (s "Quadlet") ∧
    entriesOf svc own = [] ∧ entriesOf svc (s "Quadlet") = [] :=
  sections_of_frame' _ u svc own xown (fun S hS => entriesOf_startService_ne path u hnd S hS) hx ho hxo h

end Cv

namespace Cv
open MM

theorem throw_bind_ne_ok {α β} (e : Err) (f : α → R β) (b : β) : ((throw e : R α) >>= f) ≠ .ok b := by
  simp [throw, throwThe, MonadExceptOf.throw, bind, Except.bind]

theorem frame_fromVolume (E : Env) (path : Str) (u svc : SUnit) (n : Str) (h : fromVolume E path u = .ok (svc, n)) :
    SameOutside [s "Unit", s "Service"] (preService path u (s "Volume") (s "X-Volume")) svc := by
  unfold fromVolume volumeOpts at h
  simp only [bind_ok] at h
  obtain ⟨_, _, _, _, x, hx, svc1, hexec, hfin⟩ := h
  simp only [pure, Except.pure, Except.ok.injEq, Prod.mk.injEq] at hfin
  obtain ⟨rfl, _⟩ := hfin
  have h0 : SameOutside [s "Unit", s "Service"] (preService path u (s "Volume") (s "X-Volume"))
      (addS (preService path u (s "Volume") (s "X-Volume")) "Unit" "RequiresMountsFor" (s "%t/containers")) :=
    so_unit (so_addS _ _ _ _)
  have hx' : SameOutside [s "Unit", s "Service"]
      (addS (preService path u (s "Volume") (s "X-Volume")) "Unit" "RequiresMountsFor" (s "%t/containers")) x.2 := by
    split at hx
    · split at hx
      · exact absurd hx (by simp [throw, throwThe, MonadExceptOf.throw])
      · simp only [bind_ok] at hx
        obtain ⟨y, hy, hx⟩ := hx
        simp only [pure, Except.pure, Except.ok.injEq] at hx
        subst hx
        exact so_unit (so_handleImageSource _ _ _ _ hy)
    · split at hx
      · exact absurd hx (throw_bind_ne_ok _ _ _)
      · split at hx
        · exact absurd hx (throw_bind_ne_ok _ _ _)
        · simp only [pure, Except.pure, Except.ok.injEq] at hx
          subst hx
          exact SameOutside.refl _ _
  exact (h0.trans hx').trans ((so_service (so_addRawExec _ _ _ _ hexec)).trans (so_service (so_oneShot _ _)))

end Cv

namespace Cv
open MM

theorem frame_fromNetwork (E : Env) (path : Str) (u svc : SUnit) (n : Str) (h : fromNetwork E path u = .ok (svc, n)) :
    SameOutside [s "Unit", s "Service"] (preService path u (s "Network") (s "X-Network")) svc := by
  unfold fromNetwork at h
  simp only [bind_ok] at h
  obtain ⟨_, _, _, _, _, _, svc1, hexec, hfin⟩ := h
  simp only [pure, Except.pure, Except.ok.injEq, Prod.mk.injEq] at hfin
  obtain ⟨rfl, _⟩ := hfin
  exact (so_unit (so_addS _ _ _ _)).trans ((so_service (so_addRawExec _ _ _ _ hexec)).trans (so_service (so_oneShot _ _)))

theorem so_foldl_addS2 (cs : List Str) (svc : SUnit) :
    SameOutside [s "Unit"] svc (cs.foldl (fun svc c => addS (addS svc "Unit" "Wants" c) "Unit" "Before" c) svc) := by
  induction cs generalizing svc with
  | nil => exact SameOutside.refl _ _
  | cons c cs ih => exact ((so_addS _ _ _ _).trans (so_addS _ _ _ _)).trans (ih _)

theorem frame_fromPod (E : Env) (path : Str) (u svc : SUnit) (cs : List Str) (h : fromPod E path u cs = .ok svc) :
    SameOutside [s "Unit", s "Service"] (preService path u (s "Pod") (s "X-Pod")) svc := by
  unfold fromPod at h
  simp only [bind_ok] at h
  obtain ⟨_, _, _, _, s1, h1, s2, h2, s3, h3, _, _, x4, h4, x5, h5, s6, h6, hfin⟩ := h
  simp only [pure, Except.pure, Except.ok.injEq] at hfin
  subst hfin
  have a0 := so_unit (so_addS (preService path u (s "Pod") (s "X-Pod")) "Unit" "RequiresMountsFor" (s "%t/containers"))
  have a1 := so_unit (so_foldl_addS2 cs (addS (preService path u (s "Pod") (s "X-Pod")) "Unit" "RequiresMountsFor" (s "%t/containers")))
  refine (a0.trans a1).trans ?_
  have a2 : SameOutside [s "Unit", s "Service"]
      (cs.foldl (fun svc c => addS (addS svc "Unit" "Wants" c) "Unit" "Before" c)
        (addS (preService path u (s "Pod") (s "X-Pod")) "Unit" "RequiresMountsFor" (s "%t/containers")))
      (if (lookup u (s "Service") (s "SyslogIdentifier")).isNone then
        setS (cs.foldl (fun svc c => addS (addS svc "Unit" "Wants" c) "Unit" "Before" c)
          (addS (preService path u (s "Pod") (s "X-Pod")) "Unit" "RequiresMountsFor" (s "%t/containers"))) "Service" "SyslogIdentifier" (s "%N")
       else cs.foldl (fun svc c => addS (addS svc "Unit" "Wants" c) "Unit" "Before" c)
          (addS (preService path u (s "Pod") (s "X-Pod")) "Unit" "RequiresMountsFor" (s "%t/containers"))) := by
    split
    · exact so_service (so_setS _ _ _ _)
    · exact SameOutside.refl _ _
  refine a2.trans ?_
  refine (so_service (so_addRawExec _ _ _ _ h1)).trans ?_
  refine (so_service (so_addRawExec _ _ _ _ h2)).trans ?_
  refine (so_service (so_addRawExec _ _ _ _ h3)).trans ?_
  refine (so_unit (so_handleNetworks _ _ _ _ _ h4)).trans ?_
  refine (so_unit (so_handleVolumes _ _ _ _ _ _ h5)).trans ?_
  refine (so_service (so_addRawExec _ _ _ _ h6)).trans ?_
  exact (so_service (so_addS _ _ _ _)).trans ((so_service (so_addS _ _ _ _)).trans
    ((so_service (so_addS _ _ _ _)).trans (so_service (so_addS _ _ _ _))))

end Cv

namespace Cv
open MM

theorem so_applyWd (svc : SUnit) (wd : Option Str) : SameOutside [s "Service"] svc (applyWd svc wd) := by
  unfold applyWd; split
  · exact so_addS _ _ _ _
  · exact SameOutside.refl _ _

theorem so_handleSetWorkingDirectory (unitPath : Str) (u svc : SUnit) (sec : Str) (r : Str × SUnit)
    (h : handleSetWorkingDirectory unitPath u svc sec = .ok r) : SameOutside [s "Service"] svc r.2 := by
  unfold handleSetWorkingDirectory at h
  split at h
  · simp at h
  · simp at h; subst h; exact so_applyWd _ _

theorem frame_fromKube (E : Env) (path : Str) (u svc : SUnit) (h : fromKube E path u = .ok svc) :
    SameOutside [s "Unit", s "Service"] (preService path u (s "Kube") (s "X-Kube")) svc := by
  unfold fromKube at h
  simp only [bind_ok] at h
  obtain ⟨_, _, _, _, h⟩ := h
  split at h
  · exact absurd h (throw_bind_ne_ok _ _ _)
  · simp only [bind_ok] at h
    obtain ⟨s1, h1, s2, h2, _, _, x3, h3, s4, h4, s5, h5, x6, h6, hfin⟩ := h
    simp only [pure, Except.pure, Except.ok.injEq] at hfin
    subst hfin
    refine (so_service (so_killMode _ _ _ h1)).trans ?_
    refine (so_service (so_addS s1 "Service" "Environment" (s "PODMAN_SYSTEMD_UNIT=%n"))).trans ?_
    refine (so_unit (so_addS (addS s1 "Service" "Environment" (s "PODMAN_SYSTEMD_UNIT=%n")) "Unit" "RequiresMountsFor" (s "%t/containers"))).trans ?_
    have a2 : SameOutside [s "Unit", s "Service"]
        (addS (addS s1 "Service" "Environment" (s "PODMAN_SYSTEMD_UNIT=%n")) "Unit" "RequiresMountsFor" (s "%t/containers")) s2 := by
      split at h2
      · simp [pure, Except.pure] at h2; subst h2
        exact (so_service (so_addS _ _ _ _)).trans (so_service (so_addS _ _ _ _))
      · split at h2 <;> (simp [pure, Except.pure] at h2; subst h2)
        · exact (so_service (so_addS _ _ _ _)).trans (so_service (so_addS _ _ _ _))
        · exact SameOutside.refl _ _
    refine a2.trans ?_
    have a3 : SameOutside [s "Unit", s "Service"] s2
        (if !hasKey u (s "Service") (s "SyslogIdentifier") then setS s2 "Service" "SyslogIdentifier" (s "%N") else s2) := by
      split
      · exact so_service (so_setS _ _ _ _)
      · exact SameOutside.refl _ _
    refine a3.trans ?_
    refine (so_unit (so_handleNetworks _ _ _ _ _ h3)).trans ?_
    refine (so_service (so_addRawExec _ _ _ _ h4)).trans ?_
    refine (so_service (so_addRawExec _ _ _ _ h5)).trans ?_
    exact so_service (so_handleSetWorkingDirectory _ _ _ _ _ h6)

end Cv

namespace Cv
open MM

/-- what the .build converter starts from (the mount dependency is added before SourcePath there) -/
def buildStart (path : Str) (u : SUnit) : SUnit :=
  if path.isEmpty then addS (defaultDeps (mergeFrom [] u)) "Unit" "RequiresMountsFor" (s "%t/containers")
  else addS (addS (defaultDeps (mergeFrom [] u)) "Unit" "RequiresMountsFor" (s "%t/containers")) "Unit" "SourcePath" path

theorem entriesOf_buildStart_ne (path : Str) (u : SUnit) (hnd : (u.map Prod.fst).Nodup) (S : Str) (h : S ≠ s "Unit") :
    entriesOf (buildStart path u) S = entriesOf u S := by
  have hm : entriesOf (defaultDeps (mergeFrom [] u)) S = entriesOf u S := by
    rw [entriesOf_defaultDeps_ne _ _ h, entriesOf_mergeFrom [] u hnd]; simp [entriesOf, List.lookup]
  unfold buildStart
  split
  · rw [entriesOf_addS, if_neg h]; exact hm
  · rw [entriesOf_addS, if_neg h, entriesOf_addS, if_neg h]; exact hm

theorem frame_fromBuild (E : Env) (path : Str) (u svc : SUnit) (h : fromBuild E path u = .ok svc) :
    SameOutside [s "Unit", s "Service"] (preOf (buildStart path u) (s "Build") (s "X-Build")) svc := by
  unfold fromBuild at h
  simp only [bind_ok] at h
  obtain ⟨_, _, h⟩ := h
  split at h
  · exact absurd h (throw_bind_ne_ok _ _ _)
  · simp only [bind_ok] at h
    obtain ⟨_, _, _, _, x1, h1, x2, h2, x3, h3, _, _, _, _, s4, h4, hfin⟩ := h
    simp only [pure, Except.pure, Except.ok.injEq] at hfin
    subst hfin
    have e : (renameSection (renameSection
        (if path.isEmpty then addS (defaultDeps (mergeFrom [] u)) "Unit" "RequiresMountsFor" (s "%t/containers")
         else addS (addS (defaultDeps (mergeFrom [] u)) "Unit" "RequiresMountsFor" (s "%t/containers")) "Unit" "SourcePath" path)
        (s "Build") (s "X-Build")) (s "Quadlet") (s "X-Quadlet")) = preOf (buildStart path u) (s "Build") (s "X-Build") := rfl
    rw [e] at h1
    refine (so_unit (so_handleNetworks _ _ _ _ _ h1)).trans ?_
    refine (so_unit (so_handleVolumes _ _ _ _ _ _ h2)).trans ?_
    refine (so_service (so_handleSetWorkingDirectory _ _ _ _ _ h3)).trans ?_
    exact (so_service (so_addRawExec _ _ _ _ h4)).trans (so_service (so_oneShot _ _))

end Cv

namespace Cv
open MM

theorem so_mountTokStep (E : Env) (unitPath : Str) (acc : List Str × SUnit) (t : Str) (r : List Str × SUnit)
    (h : mountTokStep E unitPath acc t = .ok r) : SameOutside [s "Unit"] acc.2 r.2 := by
  unfold mountTokStep at h
  split at h
  · split at h
    · split at h
      · simp at h
      · rename_i x hx
        simp at h; subst h
        exact so_handleStorageSource _ _ _ _ _ _ hx
    · simp at h; subst h; exact SameOutside.refl _ _
  · simp at h; subst h; exact SameOutside.refl _ _

theorem so_resolveMount (E : Env) (unitPath : Str) (svc : SUnit) (m : Str) (r : Str × SUnit)
    (h : resolveMount E unitPath svc m = some (.ok r)) : SameOutside [s "Unit"] svc r.2 := by
  unfold resolveMount at h
  split at h
  · simp at h
  · simp at h
  · split at h
    · simp at h; subst h; exact SameOutside.refl _ _
    · simp only [Option.some.injEq] at h
      split at h
      · simp at h
      · rename_i x hx
        simp at h; subst h
        exact so_foldlM [s "Unit"] _ (so_mountTokStep E unitPath) _ _ _ hx

theorem so_mountsStep (E : Env) (unitPath : Str) (acc : List Str × SUnit) (m : Str) (r : List Str × SUnit)
    (h : mountsStep E unitPath acc m = .ok r) : SameOutside [s "Unit"] acc.2 r.2 := by
  unfold mountsStep at h
  split at h
  · rename_i x hx
    simp at h; subst h
    exact so_resolveMount _ _ _ _ _ hx
  · simp at h
  · simp at h

theorem so_handlePod (E : Env) (u : SUnit) (sec : Str) (svc : SUnit) (own : Str) (r : List Str × SUnit × Option (Str × Str))
    (h : handlePod E u sec svc own = .ok r) : SameOutside [s "Unit"] svc r.2.1 := by
  unfold handlePod at h
  split at h
  · simp at h; subst h; exact SameOutside.refl _ _
  · split at h
    · simp at h; subst h; exact SameOutside.refl _ _
    · split at h
      · simp at h
      · split at h
        · simp at h
        · simp at h; subst h
          exact (so_addS _ _ _ _).trans (so_addS _ _ _ _)

theorem so_typeAndNotify (u : SUnit) (sec : Str) (cmd : List Str) (svc : SUnit) (r : List Str × SUnit)
    (h : typeAndNotify u sec cmd svc = .ok r) : SameOutside [s "Service"] svc r.2 := by
  unfold typeAndNotify at h
  simp only at h
  split at h
  · split at h
    · simp at h; subst h; exact SameOutside.refl _ _
    · split at h
      · simp at h; subst h; exact (so_setS _ _ _ _).trans (so_setS _ _ _ _)
      · simp at h
  · simp at h; subst h; exact (so_setS _ _ _ _).trans (so_setS _ _ _ _)

end Cv

namespace Cv
open MM

theorem frame_fromContainer (E : Env) (path : Str) (u svc : SUnit) (link : Option (Str × Str))
    (h : fromContainer E path u = some (.ok (svc, link))) :
    SameOutside [s "Unit", s "Service"] (preService path u (s "Container") (s "X-Container")) svc := by
  unfold fromContainer at h
  simp only at h
  split at h
  · simp at h
  · simp only [Option.some.injEq, bind_ok] at h
    obtain ⟨self, _, _, _, _, _, h⟩ := h
    split at h
    · exact absurd h (throw_bind_ne_ok _ _ _)
    · split at h
      · exact absurd h (throw_bind_ne_ok _ _ _)
      · simp only [bind_ok] at h
        obtain ⟨x1, h1, s2, h2, s3, h3, s4, h4, x5, h5, x6, h6, _, _, _, _, x7, h7, _, _, x8, h8, x9, h9, s10, h10, hfin⟩ := h
        simp only [pure, Except.pure, Except.ok.injEq, Prod.mk.injEq] at hfin
        obtain ⟨rfl, _⟩ := hfin
        have e : (renameSection (renameSection
            (if path.isEmpty then defaultDeps (mergeFrom [] u) else addS (defaultDeps (mergeFrom [] u)) "Unit" "SourcePath" path)
            (s "Container") (s "X-Container")) (s "Quadlet") (s "X-Quadlet"))
            = preService path u (s "Container") (s "X-Container") := rfl
        rw [e] at h1
        have a1 : SameOutside [s "Unit", s "Service"] (preService path u (s "Container") (s "X-Container")) x1.2 := by
          split at h1
          · exact so_unit (so_handleImageSource _ _ _ _ h1)
          · simp [pure, Except.pure] at h1; subst h1; exact SameOutside.refl _ _
        refine a1.trans ?_
        refine (so_service (so_addS x1.2 "Service" "Environment" (s "PODMAN_SYSTEMD_UNIT=%n"))).trans ?_
        refine (so_service (so_killMode _ _ _ h2)).trans ?_
        refine (so_unit (so_addS s2 "Unit" "RequiresMountsFor" (s "%t/containers"))).trans ?_
        refine (so_service (so_addRawExec _ _ _ _ h3)).trans ?_
        refine (so_service (so_addRawExec _ _ _ _ h4)).trans ?_
        refine (so_service (so_addS s4 "Service" "Delegate" (s "yes"))).trans ?_
        refine (so_unit (so_handleNetworks _ _ _ _ _ h5)).trans ?_
        refine (so_service (so_typeAndNotify _ _ _ _ _ h6)).trans ?_
        have a7 : SameOutside [s "Unit", s "Service"] x6.2
            (if (lookup u (s "Service") (s "SyslogIdentifier")).isNone then setS x6.2 "Service" "SyslogIdentifier" (s "%N") else x6.2) := by
          split
          · exact so_service (so_setS _ _ _ _)
          · exact SameOutside.refl _ _
        refine a7.trans ?_
        refine (so_unit (so_handleVolumes _ _ _ _ _ _ h7)).trans ?_
        refine (so_unit (so_foldlM [s "Unit"] _ (so_mountsStep E path) _ _ _ h8)).trans ?_
        refine (so_unit (so_handlePod _ _ _ _ _ _ h9)).trans ?_
        exact so_service (so_addRawExec _ _ _ _ h10)

end Cv
