import QM.Path
namespace Pth

def g' (x : Str) : Option Comp :=
  if x.isEmpty then none else if x == dot then none else if x == dotdot then some Comp.parent else some (Comp.normal x)

def specStep (st : List Str) (x : Str) : List Str :=
  if x.isEmpty || x == dot then st else if x == dotdot then st.dropLast else st ++ [x]

theorem getLast?_cons_snoc {α} (a b : α) (l : List α) : (a :: (l ++ [b])).getLast? = some b := by
  rw [← List.cons_append, List.getLast?_append]; simp

theorem dropLast_cons_snoc {α} (a b : α) (l : List α) : (a :: (l ++ [b])).dropLast = a :: l := by
  rw [← List.cons_append]; exact List.dropLast_concat

theorem fold_abs (parts : List Str) (st : List Str) :
    (parts.filterMap g').foldl cleanStep (Comp.root :: st.map Comp.normal)
      = Comp.root :: (parts.foldl specStep st).map Comp.normal := by
  induction parts generalizing st with
  | nil => simp
  | cons x parts ih =>
    simp only [List.filterMap_cons, List.foldl_cons]
    by_cases h1 : x.isEmpty = true
    · simp only [g', h1, if_true, specStep, Bool.true_or]; exact ih st
    · by_cases h2 : (x == dot) = true
      · simp only [g', h1, Bool.false_eq_true, if_false, h2, if_true, specStep, Bool.or_true]; exact ih st
      · by_cases h3 : (x == dotdot) = true
        · simp only [g', h1, h2, h3, Bool.false_eq_true, if_false, if_true, specStep, Bool.or_self,
            List.foldl_cons]
          have : cleanStep (Comp.root :: st.map Comp.normal) Comp.parent
              = Comp.root :: (st.dropLast).map Comp.normal := by
            simp only [cleanStep]
            cases hst : st.reverse with
            | nil =>
              have : st = [] := by simpa using hst
              subst this; simp
            | cons y ys =>
              have hs : st = ys.reverse ++ [y] := by
                have := congrArg List.reverse hst; simpa using this
              subst hs
              have e1 : (Comp.root :: List.map Comp.normal (ys.reverse ++ [y])).getLast? = some (Comp.normal y) := by
                rw [List.map_append]; exact getLast?_cons_snoc _ _ _
              have e2 : (Comp.root :: List.map Comp.normal (ys.reverse ++ [y])).dropLast
                  = Comp.root :: List.map Comp.normal ys.reverse := by
                rw [List.map_append]; exact dropLast_cons_snoc _ _ _
              rw [e1]; simp only [e2]; simp
          rw [this]; exact ih _
        · simp only [g', h1, h2, h3, Bool.false_eq_true, if_false, specStep, Bool.or_self, List.foldl_cons]
          have : cleanStep (Comp.root :: st.map Comp.normal) (Comp.normal x)
              = Comp.root :: (st ++ [x]).map Comp.normal := by simp [cleanStep]
          rw [this]; exact ih _

end Pth

namespace Pth

def isNormal (x : Str) : Bool := !x.isEmpty && !(x == dot) && !(x == dotdot)

/-- C12 depth arithmetic: descending through `xs` and then climbing `xs.length` times returns to the start -/
theorem down_up (xs : List Str) (hx : ∀ x ∈ xs, isNormal x = true) (st : List Str) :
    (xs ++ List.replicate xs.length dotdot).foldl specStep st = st := by
  induction xs generalizing st with
  | nil => simp
  | cons x xs ih =>
    have hn := hx x (by simp)
    simp only [isNormal, Bool.and_eq_true, Bool.not_eq_true', beq_eq_false_iff_ne, ne_eq] at hn
    obtain ⟨⟨h1, h2⟩, h3⟩ := hn
    have hstep : specStep st x = st ++ [x] := by
      have e2 : (x == dot) = false := by simpa using h2
      have e3 : (x == dotdot) = false := by simpa using h3
      simp [specStep, h1, e2, e3]
    simp only [List.length_cons, List.replicate_succ', List.cons_append, List.foldl_cons, hstep]
    rw [← List.append_assoc, List.foldl_append, ih (fun y hy => hx y (by simp [hy]))]
    simp [specStep, dotdot, dot]

end Pth

namespace Pth

theorem zipIdx_filterMap_fst {α β} (g : α → Option β) (l : List α) (k : Nat) :
    (l.zipIdx k).filterMap (fun p => g p.1) = l.filterMap g := by
  induction l generalizing k with
  | nil => rfl
  | cons a l ih => simp only [List.zipIdx_cons, List.filterMap_cons]; rw [ih]

/-- components of a rooted path: RootDir followed by the non-empty, non-"." parts -/
theorem components_abs (p : Str) (h : isAbs p = true) :
    components p = Comp.root :: (splitSlash p).filterMap g' := by
  unfold components
  simp only [h, Bool.not_true, Bool.and_false, if_true]
  congr 1
  have : (fun (x : Str × Nat) =>
      if x.1.isEmpty then none
      else if x.1 == dot then (if false = true then some Comp.cur else none)
      else if x.1 == dotdot then some Comp.parent
      else some (Comp.normal x.1)) = fun x => g' x.1 := by
    funext x; simp [g']
  simp only [Bool.false_eq_true, if_false] at this ⊢
  rw [show (fun (x : Str × Nat) => match x with
        | (x, i) => if x.isEmpty = true then none else if (x == dot) = true then none
                    else if (x == dotdot) = true then some Comp.parent else some (Comp.normal x))
      = fun x => g' x.1 from by funext x; obtain ⟨a, b⟩ := x; simp [g']]
  exact zipIdx_filterMap_fst g' _ 0

theorem render_normals (x : Str) (xs : List Str) :
    render ((x :: xs).map Comp.normal) = x ++ xs.flatMap ('/' :: ·) := by
  induction xs generalizing x with
  | nil => simp [render, compStr]
  | cons y ys ih =>
    simp only [List.map_cons] at ih ⊢
    rw [render]
    · rw [ih y]; simp [compStr]
    · intro h; cases h

theorem render_root_normals (xs : List Str) :
    render (Comp.root :: xs.map Comp.normal) = match xs with
      | [] => ['/']
      | _ => xs.flatMap ('/' :: ·) := by
  cases xs with
  | nil => simp [render, compStr]
  | cons x xs =>
    simp only [List.map_cons]
    rw [render]
    have := render_normals x xs
    simp only [List.map_cons] at this
    rw [this]; simp

theorem cleanParts_eq_fold (parts : List Str) : Spec.cleanParts parts = parts.foldl specStep [] := rfl

/-- the parts that survive the reference normaliser are plain names -/
theorem specStep_normal (st : List Str) (x : Str) (h : ∀ y ∈ st, isNormal y = true) :
    ∀ y ∈ specStep st x, isNormal y = true := by
  unfold specStep
  split
  · exact h
  · split
    · intro y hy; exact h y (List.dropLast_subset _ hy)
    · rename_i h1 h2
      intro y hy
      simp only [List.mem_append, List.mem_singleton] at hy
      rcases hy with hy | rfl
      · exact h y hy
      · simp only [Bool.or_eq_true, not_or, Bool.not_eq_true] at h1
        have h2' : (y == dotdot) = false := by simpa using h2
        simp [isNormal, h1.1, h1.2, h2']

theorem fold_specStep_normal (parts st : List Str) (h : ∀ y ∈ st, isNormal y = true) :
    ∀ y ∈ parts.foldl specStep st, isNormal y = true := by
  induction parts generalizing st with
  | nil => exact h
  | cons x parts ih => exact ih _ (specStep_normal st x h)

end Pth
