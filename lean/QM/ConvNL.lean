import QM.ConvKeys
import QM.Props.C06
/-! C06 at the level of whole converters: if no key and no raw value of the unit contains a newline (what the reader
    guarantees), then no key and no raw value of the generated service does — whatever the values are, nothing the
    generator stores can start a new line of the written file. -/
namespace Cv
open MM

def AllNoNL (u : SUnit) : Prop := ∀ S, ∀ e ∈ entriesOf u S, '\n' ∉ e.1 ∧ '\n' ∉ e.2

/-- the operation keeps the unit newline-free -/
def NLfree (a b : SUnit) : Prop := AllNoNL a → AllNoNL b

theorem NLfree.refl (a : SUnit) : NLfree a a := id
theorem NLfree.trans {a b c : SUnit} (h1 : NLfree a b) (h2 : NLfree b c) : NLfree a c := fun h => h2 (h1 h)

theorem nl_addEntry (svc : SUnit) (sec key raw : Str) (hk : '\n' ∉ key) (hr : '\n' ∉ raw) : NLfree svc (addEntry svc sec key raw) := by
  intro h S e he
  rw [entriesOf_addEntry] at he
  split at he
  · rcases List.mem_append.mp he with h1 | h1
    · exact h _ e h1
    · simp only [List.mem_singleton] at h1; subst h1; exact ⟨hk, hr⟩
  · exact h S e he

theorem nl_addS (svc : SUnit) (sec key : String) (v : Str) (hk : '\n' ∉ s key := by decide) : NLfree svc (addS svc sec key v) :=
  nl_addEntry _ _ _ _ hk (P.C06_quoteValue_no_newline v)

theorem nl_setS (svc : SUnit) (sec key : String) (v : Str) (hk : '\n' ∉ s key := by decide) : NLfree svc (setS svc sec key v) := by
  intro h S e he
  unfold Cv.setS at he
  rw [entriesOf_setEntry] at he
  split at he
  · unfold setIn at he
    rcases List.mem_append.mp he with h1 | h1
    · rcases List.mem_append.mp h1 with h2 | h2
      · exact h _ e (List.mem_filter.mp h2).1
      · exact h _ e (List.mem_filter.mp ((List.dropLast_sublist _).subset h2)).1
    · simp only [List.mem_singleton] at h1; subst h1; exact ⟨hk, P.C06_quoteValue_no_newline v⟩
  · exact h S e he

theorem nl_prependS (svc : SUnit) (sec key : String) (v : Str) (hk : '\n' ∉ s key := by decide) : NLfree svc (prependS svc sec key v) := by
  intro h S e he
  rw [entriesOf_prependS] at he
  split at he
  · rcases List.mem_cons.mp he with h1 | h1
    · subst h1; exact ⟨hk, P.C06_quoteValue_no_newline v⟩
    · exact h _ e h1
  · exact h S e he

theorem nl_addRawExec (svc svc' : SUnit) (k : String) (args : List Str)
    (h : addRawExec svc k args = .ok svc') (hk : '\n' ∉ s k := by decide) : NLfree svc svc' := by
  rw [addRawExec_ok _ _ _ _ h]; exact nl_addEntry _ _ _ _ hk (P.C06_quoteWords_no_newline args)

theorem nl_oneShot (svc : SUnit) (b : Bool) : NLfree svc (oneShot svc b) := by
  unfold oneShot
  simp only
  split <;> split <;> split <;>
    first
    | exact ((nl_setS _ _ _ _).trans (nl_setS _ _ _ _)).trans (nl_setS _ _ _ _)
    | exact (nl_setS _ _ _ _).trans (nl_setS _ _ _ _)
    | exact nl_setS _ _ _ _
    | exact NLfree.refl _

theorem nl_killMode (u svc svc' : SUnit) (h : killMode u svc = .ok svc') : NLfree svc svc' := by
  unfold killMode at h
  split at h
  · simp at h; subst h; exact nl_setS _ _ _ _
  · split at h
    · simp at h; subst h; exact NLfree.refl _
    · simp at h

theorem nl_handleImageSource (E : Env) (name : Str) (svc : SUnit) (r : Str × SUnit)
    (h : handleImageSource E name svc = .ok r) : NLfree svc r.2 := by
  unfold handleImageSource at h
  split at h
  · split at h
    · simp at h
    · simp at h; subst h
      exact (nl_addS _ _ _ _).trans (nl_addS _ _ _ _)
  · simp at h; subst h; exact NLfree.refl _

theorem nl_handleStorageSource (E : Env) (unitPath : Str) (svc : SUnit) (source : Str) (ci : Bool) (r : Str × SUnit)
    (h : handleStorageSource E unitPath svc source ci = .ok r) : NLfree svc r.2 := by
  unfold handleStorageSource at h
  simp only at h
  generalize (if source.head? == some '.' then absFromUnit unitPath source else source) = src at h
  split at h
  · simp at h; subst h; exact nl_addS _ _ _ _
  · split at h
    · split at h
      · simp at h
      · simp at h; subst h
        exact (nl_addS _ _ _ _).trans (nl_addS _ _ _ _)
    · simp at h; subst h; exact NLfree.refl _

theorem nl_foldlM {α β : Type} (f : β × SUnit → α → R (β × SUnit))
    (hf : ∀ acc a r, f acc a = .ok r → NLfree acc.2 r.2) :
    ∀ (l : List α) (acc r : β × SUnit), l.foldlM f acc = .ok r → NLfree acc.2 r.2 := by
  intro l
  induction l with
  | nil => intro acc r h; simp [List.foldlM, pure, Except.pure] at h; subst h; exact NLfree.refl _
  | cons a l ih =>
    intro acc r h
    simp only [List.foldlM_cons, bind_ok] at h
    obtain ⟨x, hx, hr⟩ := h
    exact (hf acc a x hx).trans (ih x r hr)

theorem nl_volumeStep (E : Env) (unitPath : Str) (acc : List Str × SUnit) (volume : Str) (r : List Str × SUnit)
    (h : volumeStep E unitPath acc volume = .ok r) : NLfree acc.2 r.2 := by
  unfold volumeStep at h
  simp only at h
  split at h
  · simp at h; subst h; exact NLfree.refl _
  · split at h
    · simp at h
    · rename_i x hx
      have := nl_handleStorageSource _ _ _ _ _ _ hx
      split at h <;> (simp at h; subst h; exact this)

theorem nl_handleVolumes (E : Env) (unitPath : Str) (u : SUnit) (sec : Str) (svc : SUnit) (r : List Str × SUnit)
    (h : handleVolumes E unitPath u sec svc = .ok r) : NLfree svc r.2 :=
  nl_foldlM _ (nl_volumeStep E unitPath) _ _ _ h

theorem nl_networkRef (E : Env) (name : Str) (svc : SUnit) (r : Str × SUnit)
    (h : networkRef E name svc = .ok r) : NLfree svc r.2 := by
  unfold networkRef at h
  split at h
  · split at h
    · simp at h
    · split at h
      · simp at h
      · simp at h; subst h; exact (nl_addS _ _ _ _).trans (nl_addS _ _ _ _)
  · simp at h; subst h; exact NLfree.refl _

theorem nl_networkStep (E : Env) (acc : List Str × SUnit) (network : Str) (r : List Str × SUnit)
    (h : networkStep E acc network = .ok r) : NLfree acc.2 r.2 := by
  unfold networkStep at h
  split at h
  · simp at h; subst h; exact NLfree.refl _
  · simp only at h
    split at h
    · simp at h
    · rename_i x hx
      have := nl_networkRef _ _ _ _ hx
      split at h
      · split at h
        · simp at h
        · simp at h; subst h; exact this
      · split at h <;> (simp at h; subst h; exact this)

theorem nl_handleNetworks (E : Env) (u : SUnit) (sec : Str) (svc : SUnit) (r : List Str × SUnit)
    (h : handleNetworks E u sec svc = .ok r) : NLfree svc r.2 :=
  nl_foldlM _ (nl_networkStep E) _ _ _ h

theorem nl_mountTokStep (E : Env) (unitPath : Str) (acc : List Str × SUnit) (t : Str) (r : List Str × SUnit)
    (h : mountTokStep E unitPath acc t = .ok r) : NLfree acc.2 r.2 := by
  unfold mountTokStep at h
  split at h
  · split at h
    · split at h
      · simp at h
      · rename_i x hx
        simp at h; subst h
        exact nl_handleStorageSource _ _ _ _ _ _ hx
    · simp at h; subst h; exact NLfree.refl _
  · simp at h; subst h; exact NLfree.refl _

theorem nl_resolveMount (E : Env) (unitPath : Str) (svc : SUnit) (m : Str) (r : Str × SUnit)
    (h : resolveMount E unitPath svc m = some (.ok r)) : NLfree svc r.2 := by
  unfold resolveMount at h
  split at h
  · simp at h
  · simp at h
  · split at h
    · simp at h; subst h; exact NLfree.refl _
    · simp only [Option.some.injEq] at h
      split at h
      · simp at h
      · rename_i x hx
        simp at h; subst h
        exact nl_foldlM _ (nl_mountTokStep E unitPath) _ _ _ hx

theorem nl_mountsStep (E : Env) (unitPath : Str) (acc : List Str × SUnit) (m : Str) (r : List Str × SUnit)
    (h : mountsStep E unitPath acc m = .ok r) : NLfree acc.2 r.2 := by
  unfold mountsStep at h
  split at h
  · rename_i x hx
    simp at h; subst h
    exact nl_resolveMount _ _ _ _ _ hx
  · simp at h
  · simp at h

theorem nl_handlePod (E : Env) (u : SUnit) (sec : Str) (svc : SUnit) (own : Str) (r : List Str × SUnit × Option (Str × Str))
    (h : handlePod E u sec svc own = .ok r) : NLfree svc r.2.1 := by
  unfold handlePod at h
  split at h
  · simp at h; subst h; exact NLfree.refl _
  · split at h
    · simp at h; subst h; exact NLfree.refl _
    · split at h
      · simp at h
      · split at h
        · simp at h
        · simp at h; subst h
          exact (nl_addS _ _ _ _).trans (nl_addS _ _ _ _)

theorem nl_typeAndNotify (u : SUnit) (sec : Str) (cmd : List Str) (svc : SUnit) (r : List Str × SUnit)
    (h : typeAndNotify u sec cmd svc = .ok r) : NLfree svc r.2 := by
  unfold typeAndNotify at h
  simp only at h
  split at h
  · split at h
    · simp at h; subst h; exact NLfree.refl _
    · split at h
      · simp at h; subst h; exact (nl_setS _ _ _ _).trans (nl_setS _ _ _ _)
      · simp at h
  · simp at h; subst h; exact (nl_setS _ _ _ _).trans (nl_setS _ _ _ _)

theorem nl_applyWd (svc : SUnit) (wd : Option Str) : NLfree svc (applyWd svc wd) := by
  unfold applyWd; split
  · exact nl_addS _ _ _ _
  · exact NLfree.refl _

theorem nl_handleSetWorkingDirectory (unitPath : Str) (u svc : SUnit) (sec : Str) (r : Str × SUnit)
    (h : handleSetWorkingDirectory unitPath u svc sec = .ok r) : NLfree svc r.2 := by
  unfold handleSetWorkingDirectory at h
  split at h
  · simp at h
  · simp at h; subst h; exact nl_applyWd _ _

theorem nl_foldl_addS2 (cs : List Str) (svc : SUnit) :
    NLfree svc (cs.foldl (fun svc c => addS (addS svc "Unit" "Wants" c) "Unit" "Before" c) svc) := by
  induction cs generalizing svc with
  | nil => exact NLfree.refl _
  | cons c cs ih => exact ((nl_addS _ _ _ _).trans (nl_addS _ _ _ _)).trans (ih _)

theorem nl_fromVolume (E : Env) (path : Str) (u svc : SUnit) (n : Str) (h : fromVolume E path u = .ok (svc, n)) :
    NLfree (preService path u (s "Volume") (s "X-Volume")) svc := by
  unfold fromVolume volumeOpts at h
  simp only [bind_ok] at h
  obtain ⟨_, _, _, _, x, hx, svc1, hexec, hfin⟩ := h
  simp only [pure, Except.pure, Except.ok.injEq, Prod.mk.injEq] at hfin
  obtain ⟨rfl, _⟩ := hfin
  have h0 : NLfree (preService path u (s "Volume") (s "X-Volume"))
      (addS (preService path u (s "Volume") (s "X-Volume")) "Unit" "RequiresMountsFor" (s "%t/containers")) :=
    id (nl_addS _ _ _ _)
  have hx' : NLfree (addS (preService path u (s "Volume") (s "X-Volume")) "Unit" "RequiresMountsFor" (s "%t/containers")) x.2 := by
    split at hx
    · split at hx
      · exact absurd hx (by simp [throw, throwThe, MonadExceptOf.throw])
      · simp only [bind_ok] at hx
        obtain ⟨y, hy, hx⟩ := hx
        simp only [pure, Except.pure, Except.ok.injEq] at hx
        subst hx
        exact id (nl_handleImageSource _ _ _ _ hy)
    · split at hx
      · exact absurd hx (throw_bind_ne_ok _ _ _)
      · split at hx
        · exact absurd hx (throw_bind_ne_ok _ _ _)
        · simp only [pure, Except.pure, Except.ok.injEq] at hx
          subst hx
          exact NLfree.refl _
  exact (h0.trans hx').trans ((id (nl_addRawExec _ _ _ _ hexec)).trans (id (nl_oneShot _ _)))

theorem nl_fromNetwork (E : Env) (path : Str) (u svc : SUnit) (n : Str) (h : fromNetwork E path u = .ok (svc, n)) :
    NLfree (preService path u (s "Network") (s "X-Network")) svc := by
  unfold fromNetwork at h
  simp only [bind_ok] at h
  obtain ⟨_, _, _, _, _, _, svc1, hexec, hfin⟩ := h
  simp only [pure, Except.pure, Except.ok.injEq, Prod.mk.injEq] at hfin
  obtain ⟨rfl, _⟩ := hfin
  exact (id (nl_addS _ _ _ _)).trans ((id (nl_addRawExec _ _ _ _ hexec)).trans (id (nl_oneShot _ _)))

theorem nl_fromPod (E : Env) (path : Str) (u svc : SUnit) (cs : List Str) (h : fromPod E path u cs = .ok svc) :
    NLfree (preService path u (s "Pod") (s "X-Pod")) svc := by
  unfold fromPod at h
  simp only [bind_ok] at h
  obtain ⟨_, _, _, _, s1, h1, s2, h2, s3, h3, _, _, x4, h4, x5, h5, s6, h6, hfin⟩ := h
  simp only [pure, Except.pure, Except.ok.injEq] at hfin
  subst hfin
  have a0 := id (nl_addS (preService path u (s "Pod") (s "X-Pod")) "Unit" "RequiresMountsFor" (s "%t/containers"))
  have a1 := id (nl_foldl_addS2 cs (addS (preService path u (s "Pod") (s "X-Pod")) "Unit" "RequiresMountsFor" (s "%t/containers")))
  refine (a0.trans a1).trans ?_
  have a2 : NLfree (cs.foldl (fun svc c => addS (addS svc "Unit" "Wants" c) "Unit" "Before" c)
        (addS (preService path u (s "Pod") (s "X-Pod")) "Unit" "RequiresMountsFor" (s "%t/containers")))
      (if (lookup u (s "Service") (s "SyslogIdentifier")).isNone then
        setS (cs.foldl (fun svc c => addS (addS svc "Unit" "Wants" c) "Unit" "Before" c)
          (addS (preService path u (s "Pod") (s "X-Pod")) "Unit" "RequiresMountsFor" (s "%t/containers"))) "Service" "SyslogIdentifier" (s "%N")
       else cs.foldl (fun svc c => addS (addS svc "Unit" "Wants" c) "Unit" "Before" c)
          (addS (preService path u (s "Pod") (s "X-Pod")) "Unit" "RequiresMountsFor" (s "%t/containers"))) := by
    split
    · exact id (nl_setS _ _ _ _)
    · exact NLfree.refl _
  refine a2.trans ?_
  refine (id (nl_addRawExec _ _ _ _ h1)).trans ?_
  refine (id (nl_addRawExec _ _ _ _ h2)).trans ?_
  refine (id (nl_addRawExec _ _ _ _ h3)).trans ?_
  refine (id (nl_handleNetworks _ _ _ _ _ h4)).trans ?_
  refine (id (nl_handleVolumes _ _ _ _ _ _ h5)).trans ?_
  refine (id (nl_addRawExec _ _ _ _ h6)).trans ?_
  exact (id (nl_addS _ _ _ _)).trans ((id (nl_addS _ _ _ _)).trans
    ((id (nl_addS _ _ _ _)).trans (id (nl_addS _ _ _ _))))

theorem nl_fromKube (E : Env) (path : Str) (u svc : SUnit) (h : fromKube E path u = .ok svc) :
    NLfree (preService path u (s "Kube") (s "X-Kube")) svc := by
  unfold fromKube at h
  simp only [bind_ok] at h
  obtain ⟨_, _, _, _, h⟩ := h
  split at h
  · exact absurd h (throw_bind_ne_ok _ _ _)
  · simp only [bind_ok] at h
    obtain ⟨s1, h1, s2, h2, _, _, x3, h3, s4, h4, s5, h5, x6, h6, hfin⟩ := h
    simp only [pure, Except.pure, Except.ok.injEq] at hfin
    subst hfin
    refine (id (nl_killMode _ _ _ h1)).trans ?_
    refine (id (nl_addS s1 "Service" "Environment" (s "PODMAN_SYSTEMD_UNIT=%n"))).trans ?_
    refine (id (nl_addS (addS s1 "Service" "Environment" (s "PODMAN_SYSTEMD_UNIT=%n")) "Unit" "RequiresMountsFor" (s "%t/containers"))).trans ?_
    have a2 : NLfree (addS (addS s1 "Service" "Environment" (s "PODMAN_SYSTEMD_UNIT=%n")) "Unit" "RequiresMountsFor" (s "%t/containers")) s2 := by
      split at h2
      · simp [pure, Except.pure] at h2; subst h2
        exact (id (nl_addS _ _ _ _)).trans (id (nl_addS _ _ _ _))
      · split at h2 <;> (simp [pure, Except.pure] at h2; subst h2)
        · exact (id (nl_addS _ _ _ _)).trans (id (nl_addS _ _ _ _))
        · exact NLfree.refl _
    refine a2.trans ?_
    have a3 : NLfree s2
        (if !hasKey u (s "Service") (s "SyslogIdentifier") then setS s2 "Service" "SyslogIdentifier" (s "%N") else s2) := by
      split
      · exact id (nl_setS _ _ _ _)
      · exact NLfree.refl _
    refine a3.trans ?_
    refine (id (nl_handleNetworks _ _ _ _ _ h3)).trans ?_
    refine (id (nl_addRawExec _ _ _ _ h4)).trans ?_
    refine (id (nl_addRawExec _ _ _ _ h5)).trans ?_
    exact id (nl_handleSetWorkingDirectory _ _ _ _ _ h6)

theorem nl_fromBuild (E : Env) (path : Str) (u svc : SUnit) (h : fromBuild E path u = .ok svc) :
    NLfree (preOf (buildStart path u) (s "Build") (s "X-Build")) svc := by
  unfold fromBuild at h
  simp only [bind_ok] at h
  obtain ⟨_, _, h⟩ := h
  split at h
  · exact absurd h (throw_bind_ne_ok _ _ _)
  · simp only [bind_ok] at h
    obtain ⟨_, _, _, _, x1, h1, x2, h2, x3, h3, _, _, _, _, s4, h4, hfin⟩ := h
    simp only [pure, Except.pure, Except.ok.injEq] at hfin
    subst hfin
    have e : (renameSection (renameSection
        (if path.isEmpty then addS (defaultDeps (mergeFrom [] u)) "Unit" "RequiresMountsFor" (s "%t/containers")
         else addS (addS (defaultDeps (mergeFrom [] u)) "Unit" "RequiresMountsFor" (s "%t/containers")) "Unit" "SourcePath" path)
        (s "Build") (s "X-Build")) (s "Quadlet") (s "X-Quadlet")) = preOf (buildStart path u) (s "Build") (s "X-Build") := rfl
    rw [e] at h1
    refine (id (nl_handleNetworks _ _ _ _ _ h1)).trans ?_
    refine (id (nl_handleVolumes _ _ _ _ _ _ h2)).trans ?_
    refine (id (nl_handleSetWorkingDirectory _ _ _ _ _ h3)).trans ?_
    exact (id (nl_addRawExec _ _ _ _ h4)).trans (id (nl_oneShot _ _))

theorem nl_fromContainer (E : Env) (path : Str) (u svc : SUnit) (link : Option (Str × Str))
    (h : fromContainer E path u = some (.ok (svc, link))) :
    NLfree (preService path u (s "Container") (s "X-Container")) svc := by
  unfold fromContainer at h
  simp only at h
  split at h
  · simp at h
  · simp only [Option.some.injEq, bind_ok] at h
    obtain ⟨self, _, _, _, _, _, h⟩ := h
    split at h
    · exact absurd h (throw_bind_ne_ok _ _ _)
    · split at h
      · exact absurd h (throw_bind_ne_ok _ _ _)
      · simp only [bind_ok] at h
        obtain ⟨x1, h1, s2, h2, s3, h3, s4, h4, x5, h5, x6, h6, _, _, _, _, x7, h7, _, _, x8, h8, x9, h9, s10, h10, hfin⟩ := h
        simp only [pure, Except.pure, Except.ok.injEq, Prod.mk.injEq] at hfin
        obtain ⟨rfl, _⟩ := hfin
        have e : (renameSection (renameSection
            (if path.isEmpty then defaultDeps (mergeFrom [] u) else addS (defaultDeps (mergeFrom [] u)) "Unit" "SourcePath" path)
            (s "Container") (s "X-Container")) (s "Quadlet") (s "X-Quadlet"))
            = preService path u (s "Container") (s "X-Container") := rfl
        rw [e] at h1
        have a1 : NLfree (preService path u (s "Container") (s "X-Container")) x1.2 := by
          split at h1
          · exact id (nl_handleImageSource _ _ _ _ h1)
          · simp [pure, Except.pure] at h1; subst h1; exact NLfree.refl _
        refine a1.trans ?_
        refine (id (nl_addS x1.2 "Service" "Environment" (s "PODMAN_SYSTEMD_UNIT=%n"))).trans ?_
        refine (id (nl_killMode _ _ _ h2)).trans ?_
        refine (id (nl_addS s2 "Unit" "RequiresMountsFor" (s "%t/containers"))).trans ?_
        refine (id (nl_addRawExec _ _ _ _ h3)).trans ?_
        refine (id (nl_addRawExec _ _ _ _ h4)).trans ?_
        refine (id (nl_addS s4 "Service" "Delegate" (s "yes"))).trans ?_
        refine (id (nl_handleNetworks _ _ _ _ _ h5)).trans ?_
        refine (id (nl_typeAndNotify _ _ _ _ _ h6)).trans ?_
        have a7 : NLfree x6.2
            (if (lookup u (s "Service") (s "SyslogIdentifier")).isNone then setS x6.2 "Service" "SyslogIdentifier" (s "%N") else x6.2) := by
          split
          · exact id (nl_setS _ _ _ _)
          · exact NLfree.refl _
        refine a7.trans ?_
        refine (id (nl_handleVolumes _ _ _ _ _ _ h7)).trans ?_
        refine (id (nl_foldlM _ (nl_mountsStep E path) _ _ _ h8)).trans ?_
        refine (id (nl_handlePod _ _ _ _ _ _ h9)).trans ?_
        exact id (nl_addRawExec _ _ _ _ h10)



/-! ### from the user's unit to the service -/

theorem nl_defaultDeps (svc : SUnit) : NLfree svc (defaultDeps svc) := by
  unfold defaultDeps
  split
  · exact (nl_prependS _ _ _ _).trans (nl_prependS _ _ _ _)
  · exact NLfree.refl _

theorem allNoNL_mergeFrom (u : SUnit) (hnd : (u.map Prod.fst).Nodup) (h : AllNoNL u) : AllNoNL (mergeFrom [] u) := by
  intro S e he
  rw [entriesOf_mergeFrom [] u hnd] at he
  simp only [entriesOf, List.lookup, Option.getD_none, List.nil_append] at he
  exact h S e he

theorem allNoNL_rename (u : SUnit) (frm to : Str) (hne : frm ≠ to) (h : AllNoNL u) : AllNoNL (renameSection u frm to) := by
  intro S e he
  rw [entriesOf_rename _ _ _ _ hne] at he
  split at he
  · simp at he
  · split at he
    · rcases List.mem_append.mp he with h1 | h1
      · exact h _ e h1
      · exact h _ e h1
    · exact h S e he

theorem allNoNL_startService (path : Str) (u : SUnit) (hnd : (u.map Prod.fst).Nodup) (h : AllNoNL u) :
    AllNoNL (startService path u) := by
  have h1 : NLfree (mergeFrom [] u) (startService path u) := by
    unfold startService
    simp only
    split
    · exact nl_defaultDeps _
    · exact (nl_defaultDeps _).trans (nl_addS _ _ _ _)
  exact h1 (allNoNL_mergeFrom u hnd h)

theorem allNoNL_buildStart (path : Str) (u : SUnit) (hnd : (u.map Prod.fst).Nodup) (h : AllNoNL u) :
    AllNoNL (buildStart path u) := by
  have h1 : NLfree (mergeFrom [] u) (buildStart path u) := by
    unfold buildStart
    split
    · exact (nl_defaultDeps _).trans (nl_addS _ _ _ _)
    · exact ((nl_defaultDeps _).trans (nl_addS _ _ _ _)).trans (nl_addS _ _ _ _)
  exact h1 (allNoNL_mergeFrom u hnd h)

theorem allNoNL_preOf (start : SUnit) (own xown : Str) (hx : own ≠ xown) (h : AllNoNL start) : AllNoNL (preOf start own xown) := by
  unfold preOf
  exact allNoNL_rename _ _ _ (by decide) (allNoNL_rename _ _ _ hx h)

end Cv
