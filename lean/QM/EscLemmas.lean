import QM.Esc
/-! Agreement of the repository's escape decoder (table extracted from split.rs) with systemd's cunescape_one. -/
namespace P

theorem valid_impl_of_spec {k v} (h : specCfg.valid k v = true) : implCfg.valid k v = true := by
  simp only [specCfg, Bool.and_eq_true, bne_iff_ne, ne_eq] at h
  simp only [implCfg, Bool.and_eq_true, bne_iff_ne, ne_eq]
  refine ⟨h.1, ?_⟩
  cases k <;> simp at h <;> first | exact h.2 | (simp [validScalar]; omega)

/-- every single-letter escape of the specification is decoded the same way by split.rs (checked against the extracted table) -/
theorem implTbl_of_spec : ∀ p ∈ simpleTable, Gen.unescSplit.lookup p.1 = some p.2 := by decide
/-- the extracted table does not shadow the numeric escapes -/
theorem implTbl_numeric : ∀ c ∈ ['x', 'u', 'U', '0', '1', '2', '3', '4', '5', '6', '7'], Gen.unescSplit.lookup c = none := by decide

theorem lookup_mem {α β} [BEq α] [LawfulBEq α] (l : List (α × β)) (a : α) (b : β)
    (h : l.lookup a = some b) : (a, b) ∈ l := by
  induction l with
  | nil => simp at h
  | cons p l ih =>
    obtain ⟨x, y⟩ := p
    simp only [List.lookup] at h
    split at h
    · rename_i he; simp at he; simp at h; subst he; subst h; simp
    · simp [ih h]

theorem numKind_mem {c k} (h : numKindOf c = some k) : c ∈ ['x', 'u', 'U', '0', '1', '2', '3', '4', '5', '6', '7'] := by
  unfold numKindOf at h
  split at h
  · rename_i hc; simp at hc; subst hc; simp
  · split at h
    · rename_i hc; simp at hc; subst hc; simp
    · split at h
      · rename_i hc; simp at hc; subst hc; simp
      · split at h
        · rename_i hc
          have h1 : 48 ≤ c.toNat := by have := hc.1; exact this
          have h2 : c.toNat ≤ 55 := by have := hc.2; exact this
          have : c = Char.ofNat c.toNat := (Char.ofNat_toNat c).symm
          rw [this]
          have : c.toNat = 48 ∨ c.toNat = 49 ∨ c.toNat = 50 ∨ c.toNat = 51 ∨ c.toNat = 52 ∨ c.toNat = 53 ∨ c.toNat = 54 ∨ c.toNat = 55 := by omega
          rcases this with h | h | h | h | h | h | h | h <;> rw [h] <;> decide
        · simp at h

theorem decode_impl_of_spec {s d r} (h : decode specCfg s = some (d, r)) : decode implCfg s = some (d, r) := by
  cases s with
  | nil => simp [decode] at h
  | cons c t =>
    simp only [decode] at h ⊢
    cases hl : specCfg.tbl.lookup c with
    | some d' =>
      simp only [hl] at h
      have := implTbl_of_spec _ (lookup_mem _ _ _ hl)
      simp only [implCfg, this]; exact h
    | none =>
      simp only [hl] at h
      cases hk : numKindOf c with
      | none => simp [hk, specCfg, Option.map] at h
      | some k =>
        have hn' : implCfg.tbl.lookup c = none := implTbl_numeric c (numKind_mem hk)
        simp only [hk] at h
        simp only [hn', hk]
        cases hn : readNum k c t with
        | none => simp [hn] at h
        | some p =>
          obtain ⟨v, r'⟩ := p
          simp only [hn] at h ⊢
          by_cases hv : specCfg.valid k v = true
          · simp only [hv, if_true] at h
            simp only [valid_impl_of_spec hv, if_true]; exact h
          · simp [hv] at h

end P
