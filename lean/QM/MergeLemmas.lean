import QM.SplitLemmas
/-! The parser's accumulator over a list of rendered sections (`eraseSects`) is the merge (`MM.mergeFrom`) of the unit those
    sections denote on their own — as *lists* (section order and all), provided every section carries at least one entry
    (`merge_from` does not create a section for a header without entries). -/
namespace MM

def names (u : SUnit) : List Str := u.map Prod.fst

theorem names_modifySection (u : SUnit) (n : Str) (f : Entries → Entries) :
    names (modifySection u n f) = if n ∈ names u then names u else names u ++ [n] := by
  induction u with
  | nil => simp [modifySection, names]
  | cons p u ih =>
    obtain ⟨s, es⟩ := p
    by_cases h : s = n
    · subst h; simp [modifySection, names]
    · have hb : (s == n) = false := by simpa using h
      have hn : ¬ n = s := fun e => h e.symm
      simp only [modifySection, hb, Bool.false_eq_true, if_false, names, List.map_cons, List.mem_cons, hn, false_or] at ih ⊢
      by_cases hm : n ∈ u.map Prod.fst
      · simp only [hm, if_true] at ih ⊢; rw [ih]
      · simp only [hm, if_false] at ih ⊢; rw [ih]; simp

theorem mem_names_modifySection (u : SUnit) (n m : Str) (f : Entries → Entries) (h : m ∈ names u) :
    m ∈ names (modifySection u n f) := by
  rw [names_modifySection]; split <;> simp [h]

theorem self_mem_names_modifySection (u : SUnit) (n : Str) (f : Entries → Entries) : n ∈ names (modifySection u n f) := by
  rw [names_modifySection]; split
  · assumption
  · simp

theorem nodup_modifySection (u : SUnit) (n : Str) (f : Entries → Entries) (h : (names u).Nodup) :
    (names (modifySection u n f)).Nodup := by
  rw [names_modifySection]; split
  · exact h
  · rename_i hn
    rw [List.nodup_append]
    refine ⟨h, by simp, ?_⟩
    intro a ha b hb e
    simp only [List.mem_singleton] at hb
    subst hb; subst e; exact hn ha

theorem modify_modify_same (u : SUnit) (n : Str) (f g : Entries → Entries) :
    modifySection (modifySection u n f) n g = modifySection u n (g ∘ f) := by
  induction u with
  | nil => simp [modifySection]
  | cons p u ih =>
    obtain ⟨s, es⟩ := p
    by_cases h : s = n
    · subst h; simp [modifySection]
    · have hb : (s == n) = false := by simpa using h
      simp [modifySection, hb, ih]

theorem modify_comm (u : SUnit) (n m : Str) (f g : Entries → Entries) (hne : n ≠ m) (hn : n ∈ names u) :
    modifySection (modifySection u n f) m g = modifySection (modifySection u m g) n f := by
  induction u with
  | nil => simp [names] at hn
  | cons p u ih =>
    obtain ⟨s, es⟩ := p
    by_cases h1 : s = n
    · subst h1
      have hb : (s == m) = false := by simpa using hne
      simp [modifySection, hb]
    · have hb1 : (s == n) = false := by simpa using h1
      have hn' : n ∈ names u := by
        simp only [names, List.map_cons, List.mem_cons] at hn
        rcases hn with e | e
        · exact absurd e.symm h1
        · exact e
      by_cases h2 : s = m
      · subst h2; simp [modifySection, hb1]
      · have hb2 : (s == m) = false := by simpa using h2
        simp [modifySection, hb1, hb2, ih hn']

theorem addAll_eq_modify (u : SUnit) (n : Str) (es : Entries) (h : es ≠ []) :
    addAll u n es = modifySection u n (· ++ es) := by
  induction es generalizing u with
  | nil => exact absurd rfl h
  | cons e es ih =>
    cases es with
    | nil => simp [addAll, addEntry]
    | cons e' es' =>
      have := ih (addEntry u n e.1 e.2) (by simp)
      simp only [addAll, List.foldl_cons] at this ⊢
      rw [this]
      unfold addEntry
      rw [modify_modify_same]
      congr 1
      funext x; simp

end MM

namespace Parse
open MM

theorem map_noop (u : Unit) (s : Str) (es : List (Str × Str)) (h : s ∉ u.map Prod.fst) :
    u.map (fun p => if p.1 == s then (p.1, p.2 ++ es) else p) = u := by
  induction u with
  | nil => rfl
  | cons p u ih =>
    obtain ⟨a, b⟩ := p
    simp only [List.map_cons, List.mem_cons, not_or] at h
    have hb : (a == s) = false := by simpa using (fun e : a = s => h.1 e.symm)
    simp only [List.map_cons, hb, Bool.false_eq_true, if_false, ih h.2]

theorem addEntries_eq_modify (u : Unit) (n : Str) (es : List (Str × Str)) (h : (names u).Nodup) :
    addEntries u n es = modifySection u n (· ++ es) := by
  induction u with
  | nil => simp [addEntries, modifySection, List.lookup]
  | cons p u ih =>
    obtain ⟨s, xs⟩ := p
    simp only [names, List.map_cons, List.nodup_cons] at h
    by_cases hs : s = n
    · subst hs
      unfold addEntries
      simp only [List.lookup, beq_self_eq_true, modifySection, if_true, List.map_cons]
      rw [map_noop u s es h.1]
    · have hb : (s == n) = false := by simpa using hs
      have hb' : (n == s) = false := by simpa using (fun e : n = s => hs e.symm)
      have ih' := ih h.2
      unfold addEntries at ih' ⊢
      simp only [List.lookup, hb', modifySection, hb, Bool.false_eq_true, if_false]
      cases hl : u.lookup n with
      | some x =>
        simp only [hl] at ih' ⊢
        simp only [List.map_cons, hb, Bool.false_eq_true, if_false]
        rw [ih']
      | none =>
        simp only [hl] at ih' ⊢
        rw [List.cons_append, ih']

end Parse

namespace MM

/-- every section carries at least one entry -/
def NE (M : SUnit) : Prop := ∀ p ∈ M, p.2 ≠ []

def mstep (u : SUnit) (p : Str × Entries) : SUnit := addAll u p.1 p.2

theorem mergeFrom_eq (u M : SUnit) : mergeFrom u M = M.foldl mstep u := rfl

theorem foldl_push (M₀ : SUnit) (a : SUnit) (n : Str) (f : Entries → Entries)
    (hn : n ∈ names a) (hnot : n ∉ names M₀) (hne : NE M₀) :
    M₀.foldl mstep (modifySection a n f) = modifySection (M₀.foldl mstep a) n f := by
  induction M₀ generalizing a with
  | nil => rfl
  | cons p M₀ ih =>
    obtain ⟨m, fs⟩ := p
    have hfs : fs ≠ [] := hne (m, fs) (by simp)
    have hnm : n ≠ m := by
      intro e; apply hnot; simp [names, e]
    have hnot' : n ∉ names M₀ := by
      intro h; apply hnot; simp only [names, List.map_cons, List.mem_cons]; exact Or.inr h
    simp only [List.foldl_cons, mstep]
    rw [addAll_eq_modify _ m fs hfs, addAll_eq_modify _ m fs hfs, modify_comm a n m f _ hnm hn]
    exact ih _ (mem_names_modifySection a m n _ hn) hnot' (fun p hp => hne p (by simp [hp]))

theorem append_comp (as es : Entries) : (fun x : Entries => x ++ (as ++ es)) = (fun x => x ++ es) ∘ (fun x => x ++ as) := by
  funext x; simp

theorem merge_extend (M : SUnit) (u : SUnit) (n : Str) (es : Entries)
    (hnd : (names M).Nodup) (hne : NE M) (hn : n ∈ names M) (hes : es ≠ []) :
    mergeFrom u (modifySection M n (· ++ es)) = modifySection (mergeFrom u M) n (· ++ es) := by
  induction M generalizing u with
  | nil => simp [names] at hn
  | cons p M₀ ih =>
    obtain ⟨a, as⟩ := p
    have has : as ≠ [] := hne (a, as) (by simp)
    simp only [names, List.map_cons, List.nodup_cons] at hnd
    by_cases h : a = n
    · subst h
      simp only [modifySection, beq_self_eq_true, if_true, mergeFrom_eq, List.foldl_cons, mstep]
      rw [addAll_eq_modify _ a (as ++ es) (by simp [has]), addAll_eq_modify _ a as has, append_comp, ← modify_modify_same]
      exact foldl_push M₀ _ a _ (self_mem_names_modifySection u a _) hnd.1 (fun p hp => hne p (by simp [hp]))
    · have hb : (a == n) = false := by simpa using h
      have hn' : n ∈ names M₀ := by
        simp only [names, List.map_cons, List.mem_cons] at hn
        rcases hn with e | e
        · exact absurd e.symm h
        · exact e
      simp only [modifySection, hb, Bool.false_eq_true, if_false, mergeFrom_eq, List.foldl_cons]
      exact ih (mstep u (a, as)) hnd.2 (fun p hp => hne p (by simp [hp])) hn'

theorem modify_absent (M : SUnit) (n : Str) (f : Entries → Entries) (h : n ∉ names M) :
    modifySection M n f = M ++ [(n, f [])] := by
  induction M with
  | nil => rfl
  | cons p M ih =>
    obtain ⟨a, as⟩ := p
    simp only [names, List.map_cons, List.mem_cons, not_or] at h
    have hb : (a == n) = false := by simpa using (fun e : a = n => h.1 e.symm)
    simp only [modifySection, hb, Bool.false_eq_true, if_false, List.cons_append]
    rw [ih h.2]

theorem NE_modify (M : SUnit) (n : Str) (es : Entries) (hne : NE M) (hes : es ≠ []) : NE (modifySection M n (· ++ es)) := by
  induction M with
  | nil => intro p hp; simp [modifySection] at hp; subst hp; simpa using hes
  | cons q M ih =>
    obtain ⟨a, as⟩ := q
    by_cases h : a = n
    · subst h
      intro p hp
      simp only [modifySection, beq_self_eq_true, if_true, List.mem_cons] at hp
      rcases hp with e | e
      · subst e; simp [hes]
      · exact hne p (by simp [e])
    · have hb : (a == n) = false := by simpa using h
      intro p hp
      simp only [modifySection, hb, Bool.false_eq_true, if_false, List.mem_cons] at hp
      rcases hp with e | e
      · subst e; exact hne (a, as) (by simp)
      · exact ih (fun p hp => hne p (by simp [hp])) p e

theorem nodup_mergeFrom (M u : SUnit) (h : (names u).Nodup) : (names (mergeFrom u M)).Nodup := by
  induction M generalizing u with
  | nil => exact h
  | cons p M ih =>
    obtain ⟨a, as⟩ := p
    simp only [mergeFrom_eq, List.foldl_cons, mstep]
    apply ih
    by_cases has : as = []
    · subst has; simpa [addAll] using h
    · rw [addAll_eq_modify _ _ _ has]; exact nodup_modifySection u a _ h

end MM

namespace Parse
open MM

theorem eraseSects_snoc (u : Unit) (r : List RSect) (s : RSect) :
    eraseSects u (r ++ [s]) = addEntries (eraseSects u r) s.name (eraseItems s.items) := by
  simp [eraseSects, List.foldl_append]

theorem NE_eraseSects_rev (r' : List RSect) (h : ∀ s ∈ r', eraseItems s.items ≠ []) : NE (eraseSects [] r'.reverse) := by
  induction r' with
  | nil => intro p hp; simp [eraseSects] at hp
  | cons s r ih =>
    rw [List.reverse_cons, eraseSects_snoc, addEntries_eq_modify _ _ _ (nodup_eraseSects r.reverse [] (by simp))]
    exact NE_modify _ _ _ (ih (fun x hx => h x (by simp [hx]))) (h s (by simp))

theorem NE_eraseSects (r : List RSect) (h : ∀ s ∈ r, eraseItems s.items ≠ []) : NE (eraseSects [] r) := by
  have := NE_eraseSects_rev r.reverse (fun s hs => h s (by simpa using hs))
  simpa using this

/-- the accumulator of the parser, started from `u` and run over the sections `r`, is the merge of `u` with the unit that `r`
    denotes on its own — as lists: same sections in the same order, same entries in the same order -/
theorem eraseSects_eq_merge_rev (r' : List RSect) (h : ∀ s ∈ r', eraseItems s.items ≠ []) (u : Unit) (hu : (names u).Nodup) :
    eraseSects u r'.reverse = mergeFrom u (eraseSects [] r'.reverse) := by
  induction r' with
  | nil => simp [eraseSects, mergeFrom]
  | cons s r0 ih =>
    rw [List.reverse_cons]
    generalize hr0 : r0.reverse = r at ih ⊢
    have hr : ∀ x ∈ r, eraseItems x.items ≠ [] := fun x hx => h x (by subst hr0; simp at hx; simp [hx])
    have ih := ih (fun x hx => h x (by simp [hx]))
    have hes : eraseItems s.items ≠ [] := h s (by simp)
    have hM : (names (eraseSects [] r)).Nodup := nodup_eraseSects r [] (by simp)
    rw [eraseSects_snoc, eraseSects_snoc, ih,
      addEntries_eq_modify _ _ _ (nodup_mergeFrom _ u hu), addEntries_eq_modify _ _ _ hM]
    by_cases hn : s.name ∈ names (eraseSects [] r)
    · rw [merge_extend _ u _ _ hM (NE_eraseSects r hr) hn hes]
    · rw [modify_absent _ _ _ hn]
      simp only [List.nil_append, mergeFrom_eq, List.foldl_append, List.foldl_cons, List.foldl_nil, mstep]
      rw [addAll_eq_modify _ _ _ hes]

theorem eraseSects_eq_merge (r : List RSect) (h : ∀ s ∈ r, eraseItems s.items ≠ []) (u : Unit) (hu : (names u).Nodup) :
    eraseSects u r = mergeFrom u (eraseSects [] r) := by
  have := eraseSects_eq_merge_rev r.reverse (fun s hs => h s (by simpa using hs)) u hu
  simpa using this

end Parse
