import QM.Generated.Tables
import QM.Lookup
import QM.Parser
/-! Constants that are hand-written inside the model, tied to the source by T1: the value extracted from the Rust source on every
    run equals the one the model uses.  A change of the constant in the code breaks the theorem (and with it the obligation of the
    properties that rest on it) even if no generated input happens to exercise it. -/
namespace Conform

/-- `parse_bool` (systemd_unit/mod.rs): the model's spellings of true and false are exactly the ones listed in the source -/
theorem parse_bool_true : ∀ x ∈ Gen.boolTrue, Cv.parseBool x = some true := by decide
theorem parse_bool_false : ∀ x ∈ Gen.boolFalse, Cv.parseBool x = some false := by decide
theorem parse_bool_other (x : List Char) (h1 : x ∉ Gen.boolTrue) (h2 : x ∉ Gen.boolFalse) : Cv.parseBool x = none := by
  simp only [Gen.boolTrue, Gen.boolFalse, List.mem_cons, List.not_mem_nil, or_false, not_or] at h1 h2
  obtain ⟨a1, a2, a3, a4⟩ := h1
  obtain ⟨b1, b2, b3, b4⟩ := h2
  have e : ∀ (y : List Char), x ≠ y → (x == y) = false := fun y h => by simpa using h
  simp [Cv.parseBool, Cv.s, e _ a1, e _ a2, e _ a3, e _ a4, e _ b1, e _ b2, e _ b3, e _ b4]

/-- `LINE_CONTINUATION_REPLACEMENT` (parser.rs): a continued line is joined with exactly one blank, as `Parse.pv` does -/
theorem line_continuation_replacement : Gen.lineContinuationReplacement = [' '] := by decide

/-- what `pv` puts in the place of backslash-newline is that constant -/
theorem pv_joins_with_the_constant (ign : Nat) (acc r : List Char) :
    Parse.pv .bs ign acc ('\n' :: r) = Parse.pv .lc ign (Gen.lineContinuationReplacement.reverse ++ acc) r := by
  rw [line_continuation_replacement]
  simp [Parse.pv]

end Conform
