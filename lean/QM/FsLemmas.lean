import QM.Fs
/-! Discovery: first-seen-wins by file name, exactly one loaded unit per name. -/
namespace Cv

def loadedUnits (l : List Loaded) : List QUnit := l.filterMap fun | .unit q => some q | _ => none

/-- invariant of the discovery fold: the `seen` list is exactly the names of the units loaded so far, without
    repetition -/
def LoadInv (acc : List Str × List Loaded) : Prop :=
  acc.1 = (loadedUnits acc.2).map QUnit.name ∧ acc.1.Nodup

theorem loadedUnits_append (a b : List Loaded) : loadedUnits (a ++ b) = loadedUnits a ++ loadedUnits b := by
  simp [loadedUnits, List.filterMap_append]

theorem loadStep_inv (acc : List Str × List Loaded) (pc : Str × Str) (h : LoadInv acc) : LoadInv (loadStep acc pc) := by
  unfold loadStep
  simp only
  split
  · exact h
  · rename_i hc
    split
    · rename_i u hp
      constructor
      · simp [loadedUnits_append, loadedUnits, h.1, QUnit.name]
      · simp only
        rw [List.nodup_append]
        refine ⟨h.2, by simp, ?_⟩
        intro a ha b hb
        simp at hb; subst hb
        intro e; subst e
        simp at hc; exact hc ha
    · constructor
      · simp [loadedUnits_append, loadedUnits, h.1]
      · exact h.2

theorem fold_inv (cands : List (Str × Str)) (acc : List Str × List Loaded) (h : LoadInv acc) :
    LoadInv (cands.foldl loadStep acc) := by
  induction cands generalizing acc with
  | nil => exact h
  | cons pc cands ih => exact ih _ (loadStep_inv acc pc h)

/-- every loaded unit was loaded from a candidate file, parsed from its content, and every *earlier* candidate of
    the same file name failed to load -/
def FirstWins (cands : List (Str × Str)) (q : QUnit) : Prop :=
  ∃ pre c post, cands = pre ++ (q.path, c) :: post ∧ Parse.parse parseEnv c = .ok q.unit ∧
    ∀ pc ∈ pre, fileName pc.1 = q.name → ∀ u, Parse.parse parseEnv pc.2 ≠ .ok u

theorem fold_first_wins (cands done : List (Str × Str)) (acc : List Str × List Loaded)
    (hinv : LoadInv acc)
    (hacc : ∀ q ∈ loadedUnits acc.2, FirstWins done q)
    (hseen : ∀ pc ∈ done, (∃ u, Parse.parse parseEnv pc.2 = .ok u) → fileName pc.1 ∈ acc.1) :
    ∀ q ∈ loadedUnits (cands.foldl loadStep acc).2, FirstWins (done ++ cands) q := by
  induction cands generalizing done acc with
  | nil => simpa using hacc
  | cons pc cands ih =>
    have hdone : done ++ pc :: cands = (done ++ [pc]) ++ cands := by simp
    rw [hdone, List.foldl_cons]
    apply ih (done ++ [pc]) (loadStep acc pc) (loadStep_inv acc pc hinv)
    · -- units loaded so far are first winners w.r.t. done ++ [pc]
      intro q hq
      unfold loadStep at hq
      simp only at hq
      have lift : ∀ q, FirstWins done q → FirstWins (done ++ [pc]) q := by
        rintro q ⟨pre, c, post, rfl, hp, hpre⟩
        exact ⟨pre, c, post ++ [pc], by simp, hp, hpre⟩
      split at hq
      · exact lift q (hacc q hq)
      · rename_i hc
        split at hq
        · rename_i u hp
          simp only [loadedUnits_append, List.mem_append] at hq
          rcases hq with hq | hq
          · exact lift q (hacc q hq)
          · simp [loadedUnits] at hq; subst hq
            refine ⟨done, pc.2, [], by simp, hp, ?_⟩
            intro pc' hpc' hname u' hu'
            have := hseen pc' hpc' ⟨u', hu'⟩
            simp only [QUnit.name] at hname
            rw [hname] at this
            simp at hc; exact hc this
        · simp only [loadedUnits_append, List.mem_append] at hq
          rcases hq with hq | hq
          · exact lift q (hacc q hq)
          · simp [loadedUnits] at hq
    · -- every parseable candidate seen so far has its name in the seen list
      intro pc' hpc' hok
      unfold loadStep
      simp only
      rcases List.mem_append.mp hpc' with h | h
      · have := hseen pc' h hok
        split
        · exact this
        · split <;> simp [this]
      · simp at h; subst h
        split
        · rename_i hc; simpa using hc
        · split
          · simp
          · rename_i hne _ hp
            obtain ⟨u, hu⟩ := hok
            rw [hu] at hp; cases hp

end Cv
