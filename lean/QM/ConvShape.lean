import QM.EmitLemmas
import QM.ConvLemmas
import QM.MMapLemmas
import QM.UnquoteLemmas
/-! What the converters return on success, as explicit expressions (`*_ok` lemmas), and the section-level
    effect of the shared service-side helpers. -/
namespace Cv
open MM

theorem bind_ok {α β} (x : R α) (f : α → R β) (b : β) : (x >>= f) = .ok b ↔ ∃ a, x = .ok a ∧ f a = .ok b := by
  cases x with
  | error e => simp [bind, Except.bind]
  | ok a => simp [bind, Except.bind]

theorem addRawExec_ok (svc svc' : SUnit) (k : String) (args : List Str) (h : addRawExec svc k args = .ok svc') :
    svc' = addEntry svc (s "Service") (s k) (P.quoteWords args) := by
  unfold addRawExec at h
  simp only at h
  split at h <;> simp at h
  exact h.symm

def imageCmd (E : Env) (u : SUnit) : List Str :=
  baseCmd E u (s "Image") ++ [s "image", s "pull"]
    ++ addString u (s "Image") Gen.tbl_from_image_unit_string_keys
    ++ addBool u (s "Image") Gen.tbl_from_image_unit_bool_keys
    ++ podmanArgs u (s "Image") ++ [(lookup u (s "Image") (s "Image")).getD []]

def imageSvc (E : Env) (path : Str) (u : SUnit) : SUnit :=
  oneShot (addEntry
    (addS (renameSection (renameSection (startService path u) (s "Image") (s "X-Image")) (s "Quadlet") (s "X-Quadlet"))
      "Unit" "RequiresMountsFor" (s "%t/containers"))
    (s "Service") (s "ExecStart") (P.quoteWords (imageCmd E u))) true

theorem fromImage_ok (E : Env) (path : Str) (u : SUnit) (svc : SUnit) (r : Str)
    (h : fromImage E path u = .ok (svc, r)) : svc = imageSvc E path u := by
  unfold fromImage at h
  simp only [bind_ok] at h
  obtain ⟨_, _, _, _, h⟩ := h
  split at h
  · simp [bind_ok, throw, throwThe, MonadExceptOf.throw] at h
  · simp only [bind_ok] at h
    obtain ⟨svc1, hexec, hfin⟩ := h
    have := addRawExec_ok _ _ _ _ hexec
    subst this
    simp only [pure, Except.pure, Except.ok.injEq, Prod.mk.injEq] at hfin
    rw [← hfin.1]
    simp [imageSvc, imageCmd]

/-! ### section-level effect of the helpers -/

theorem entriesOf_addS (svc : SUnit) (sec key : String) (v S : Str) :
    entriesOf (addS svc sec key v) S = if S = s sec then entriesOf svc (s sec) ++ [(s key, P.quoteValue v)] else entriesOf svc S := by
  unfold addS; rw [entriesOf_addEntry]
theorem entriesOf_setS_ne (svc : SUnit) (sec key : String) (v S : Str) (h : S ≠ s sec) :
    entriesOf (setS svc sec key v) S = entriesOf svc S := by
  unfold setS; rw [entriesOf_setEntry]; simp [h]
theorem entriesOf_prependS (svc : SUnit) (sec key : String) (v S : Str) :
    entriesOf (prependS svc sec key v) S = if S = s sec then (s key, P.quoteValue v) :: entriesOf svc (s sec) else entriesOf svc S := by
  unfold prependS; rw [entriesOf_prepend]

theorem entriesOf_defaultDeps_ne (svc : SUnit) (S : Str) (h : S ≠ s "Unit") :
    entriesOf (defaultDeps svc) S = entriesOf svc S := by
  unfold defaultDeps
  split
  · rw [entriesOf_prependS, if_neg h, entriesOf_prependS, if_neg h]
  · rfl

/-- the default dependencies come *before* whatever the unit already has in [Unit] -/
theorem entriesOf_defaultDeps_unit (svc : SUnit) :
    ∃ d, entriesOf (defaultDeps svc) (s "Unit") = d ++ entriesOf svc (s "Unit") ∧
      (d = [] ∨ d = [(s "Wants", P.quoteValue (s "network-online.target")), (s "After", P.quoteValue (s "network-online.target"))]) := by
  unfold defaultDeps
  split
  · refine ⟨_, ?_, Or.inr rfl⟩
    rw [entriesOf_prependS, if_pos rfl, entriesOf_prependS, if_pos rfl]; simp
  · exact ⟨[], by simp, Or.inl rfl⟩

theorem entriesOf_startService_ne (path : Str) (u : SUnit) (hnd : (u.map Prod.fst).Nodup) (S : Str) (h : S ≠ s "Unit") :
    entriesOf (startService path u) S = entriesOf u S := by
  have hm : entriesOf (defaultDeps (mergeFrom [] u)) S = entriesOf u S := by
    rw [entriesOf_defaultDeps_ne _ _ h, entriesOf_mergeFrom [] u hnd]; simp [entriesOf, List.lookup]
  unfold startService
  simp only
  split
  · exact hm
  · rw [entriesOf_addS, if_neg h]; exact hm

theorem entriesOf_oneShot_ne (svc : SUnit) (remain : Bool) (S : Str) (h : S ≠ s "Service") :
    entriesOf (oneShot svc remain) S = entriesOf svc S := by
  unfold oneShot
  simp only
  split <;> split <;> split <;> simp only [entriesOf_setS_ne _ _ _ _ _ h]

end Cv
