import QM.ConvKeys
/-! C09 at the level of the .pod converter: the `Wants=` / `Before=` entries of the generated pod service are the ones
    the unit already had followed by exactly one per container that joined the pod, in the order they joined. -/
namespace Cv
open MM

/-- the managed pairs except the two the member loop writes: nothing after that loop touches them -/
def managedPod : List (Str × Str) := (managed.erase (s "Unit", s "Wants")).erase (s "Unit", s "Before")

def KeepsPod (a b : SUnit) : Prop := ∀ S k, (S, k) ∉ managedPod → keyEntries b S k = keyEntries a S k

theorem KeepsPod.refl (a : SUnit) : KeepsPod a a := fun _ _ _ => rfl
theorem KeepsPod.trans {a b c : SUnit} (h1 : KeepsPod a b) (h2 : KeepsPod b c) : KeepsPod a c :=
  fun S k hk => (h2 S k hk).trans (h1 S k hk)

theorem kp_addEntry (svc : SUnit) (sec key raw : Str) (h : (sec, key) ∈ managedPod := by decide) : KeepsPod svc (addEntry svc sec key raw) := by
  intro S k hk
  unfold keyEntries
  rw [entriesOf_addEntry]
  split
  · rename_i e
    subst e
    have : (key == k) = false := by
      simp only [beq_eq_false_iff_ne, ne_eq]
      intro e; subst e; exact hk h
    simp [List.filter_append, this]
  · rfl

theorem kp_addS (svc : SUnit) (sec key : String) (v : Str) (h : (s sec, s key) ∈ managedPod := by decide) : KeepsPod svc (addS svc sec key v) :=
  kp_addEntry _ _ _ _ h

theorem kp_setS (svc : SUnit) (sec key : String) (v : Str) (h : (s sec, s key) ∈ managedPod := by decide) : KeepsPod svc (setS svc sec key v) := by
  intro S k hk
  unfold keyEntries Cv.setS
  rw [entriesOf_setEntry]
  split
  · rename_i e
    subst e
    exact filter_setIn_ne _ _ _ _ (fun e => hk (e ▸ h))
  · rfl

theorem kp_prependS (svc : SUnit) (sec key : String) (v : Str) (h : (s sec, s key) ∈ managedPod := by decide) : KeepsPod svc (prependS svc sec key v) := by
  intro S k hk
  unfold keyEntries
  rw [entriesOf_prependS]
  split
  · rename_i e
    subst e
    have : (s key == k) = false := by
      simp only [beq_eq_false_iff_ne, ne_eq]
      intro e; subst e; exact hk h
    simp [List.filter_cons, this]
  · rfl

theorem kp_addRawExec (svc svc' : SUnit) (k : String) (args : List Str)
    (h : addRawExec svc k args = .ok svc') (hk : (s "Service", s k) ∈ managedPod := by decide) : KeepsPod svc svc' := by
  rw [addRawExec_ok _ _ _ _ h]; exact kp_addEntry _ _ _ _ hk

theorem kp_oneShot (svc : SUnit) (b : Bool) : KeepsPod svc (oneShot svc b) := by
  unfold oneShot
  simp only
  split <;> split <;> split <;>
    first
    | exact ((kp_setS _ _ _ _).trans (kp_setS _ _ _ _)).trans (kp_setS _ _ _ _)
    | exact (kp_setS _ _ _ _).trans (kp_setS _ _ _ _)
    | exact kp_setS _ _ _ _
    | exact KeepsPod.refl _

theorem kp_killMode (u svc svc' : SUnit) (h : killMode u svc = .ok svc') : KeepsPod svc svc' := by
  unfold killMode at h
  split at h
  · simp at h; subst h; exact kp_setS _ _ _ _
  · split at h
    · simp at h; subst h; exact KeepsPod.refl _
    · simp at h

theorem kp_handleImageSource (E : Env) (name : Str) (svc : SUnit) (r : Str × SUnit)
    (h : handleImageSource E name svc = .ok r) : KeepsPod svc r.2 := by
  unfold handleImageSource at h
  split at h
  · split at h
    · simp at h
    · simp at h; subst h
      exact (kp_addS _ _ _ _).trans (kp_addS _ _ _ _)
  · simp at h; subst h; exact KeepsPod.refl _

theorem kp_handleStorageSource (E : Env) (unitPath : Str) (svc : SUnit) (source : Str) (ci : Bool) (r : Str × SUnit)
    (h : handleStorageSource E unitPath svc source ci = .ok r) : KeepsPod svc r.2 := by
  unfold handleStorageSource at h
  simp only at h
  generalize (if source.head? == some '.' then absFromUnit unitPath source else source) = src at h
  split at h
  · simp at h; subst h; exact kp_addS _ _ _ _
  · split at h
    · split at h
      · simp at h
      · simp at h; subst h
        exact (kp_addS _ _ _ _).trans (kp_addS _ _ _ _)
    · simp at h; subst h; exact KeepsPod.refl _

theorem kp_foldlM {α β : Type} (f : β × SUnit → α → R (β × SUnit))
    (hf : ∀ acc a r, f acc a = .ok r → KeepsPod acc.2 r.2) :
    ∀ (l : List α) (acc r : β × SUnit), l.foldlM f acc = .ok r → KeepsPod acc.2 r.2 := by
  intro l
  induction l with
  | nil => intro acc r h; simp [List.foldlM, pure, Except.pure] at h; subst h; exact KeepsPod.refl _
  | cons a l ih =>
    intro acc r h
    simp only [List.foldlM_cons, bind_ok] at h
    obtain ⟨x, hx, hr⟩ := h
    exact (hf acc a x hx).trans (ih x r hr)

theorem kp_volumeStep (E : Env) (unitPath : Str) (acc : List Str × SUnit) (volume : Str) (r : List Str × SUnit)
    (h : volumeStep E unitPath acc volume = .ok r) : KeepsPod acc.2 r.2 := by
  unfold volumeStep at h
  simp only at h
  split at h
  · simp at h; subst h; exact KeepsPod.refl _
  · split at h
    · simp at h
    · rename_i x hx
      have := kp_handleStorageSource _ _ _ _ _ _ hx
      split at h <;> (simp at h; subst h; exact this)

theorem kp_handleVolumes (E : Env) (unitPath : Str) (u : SUnit) (sec : Str) (svc : SUnit) (r : List Str × SUnit)
    (h : handleVolumes E unitPath u sec svc = .ok r) : KeepsPod svc r.2 :=
  kp_foldlM _ (kp_volumeStep E unitPath) _ _ _ h

theorem kp_networkRef (E : Env) (name : Str) (svc : SUnit) (r : Str × SUnit)
    (h : networkRef E name svc = .ok r) : KeepsPod svc r.2 := by
  unfold networkRef at h
  split at h
  · split at h
    · simp at h
    · split at h
      · simp at h
      · simp at h; subst h; exact (kp_addS _ _ _ _).trans (kp_addS _ _ _ _)
  · simp at h; subst h; exact KeepsPod.refl _

theorem kp_networkStep (E : Env) (acc : List Str × SUnit) (network : Str) (r : List Str × SUnit)
    (h : networkStep E acc network = .ok r) : KeepsPod acc.2 r.2 := by
  unfold networkStep at h
  split at h
  · simp at h; subst h; exact KeepsPod.refl _
  · simp only at h
    split at h
    · simp at h
    · rename_i x hx
      have := kp_networkRef _ _ _ _ hx
      split at h
      · split at h
        · simp at h
        · simp at h; subst h; exact this
      · split at h <;> (simp at h; subst h; exact this)

theorem kp_handleNetworks (E : Env) (u : SUnit) (sec : Str) (svc : SUnit) (r : List Str × SUnit)
    (h : handleNetworks E u sec svc = .ok r) : KeepsPod svc r.2 :=
  kp_foldlM _ (kp_networkStep E) _ _ _ h


/-- the member loop: one `Wants=` and one `Before=` per container, appended in order -/
theorem keyEntries_members (cs : List Str) (svc : SUnit) (k : String) (hk : k = "Wants" ∨ k = "Before") :
    keyEntries (cs.foldl (fun svc c => addS (addS svc "Unit" "Wants" c) "Unit" "Before" c) svc) (s "Unit") (s k)
      = keyEntries svc (s "Unit") (s k) ++ cs.map (fun c => (s k, P.quoteValue c)) := by
  induction cs generalizing svc with
  | nil => simp
  | cons c cs ih =>
    simp only [List.foldl_cons, List.map_cons]
    rw [ih]
    unfold keyEntries
    rw [entriesOf_addS, if_pos rfl, entriesOf_addS, if_pos rfl]
    rcases hk with rfl | rfl
    · have e1 : (s "Wants" == s "Wants") = true := by decide
      have e2 : (s "Before" == s "Wants") = false := by decide
      simp [List.filter_append, e1, e2]
    · have e1 : (s "Wants" == s "Before") = false := by decide
      have e2 : (s "Before" == s "Before") = true := by decide
      simp [List.filter_append, e1, e2]

/-- C09, pod side: what the pod service wants and is ordered before -/
theorem pod_members (E : Env) (path : Str) (u svc : SUnit) (cs : List Str) (h : fromPod E path u cs = .ok svc)
    (k : String) (hk : k = "Wants" ∨ k = "Before") :
    keyEntries svc (s "Unit") (s k)
      = keyEntries (preService path u (s "Pod") (s "X-Pod")) (s "Unit") (s k) ++ cs.map (fun c => (s k, P.quoteValue c)) := by
  unfold fromPod at h
  simp only [bind_ok] at h
  obtain ⟨_, _, _, _, s1, h1, s2, h2, s3, h3, _, _, x4, h4, x5, h5, s6, h6, hfin⟩ := h
  simp only [pure, Except.pure, Except.ok.injEq] at hfin
  subst hfin
  have hnot : (s "Unit", s k) ∉ managedPod := by rcases hk with rfl | rfl <;> decide
  -- everything after the member loop keeps Wants / Before
  have tail : KeepsPod
      (cs.foldl (fun svc c => addS (addS svc "Unit" "Wants" c) "Unit" "Before" c)
        (addS (preService path u (s "Pod") (s "X-Pod")) "Unit" "RequiresMountsFor" (s "%t/containers")))
      (addS (addS (addS (addS s6 "Service" "Environment" (s "PODMAN_SYSTEMD_UNIT=%n")) "Service" "Type" (s "forking"))
        "Service" "Restart" (s "on-failure")) "Service" "PIDFile" (s "%t/%N.pid")) := by
    have a2 : KeepsPod
        (cs.foldl (fun svc c => addS (addS svc "Unit" "Wants" c) "Unit" "Before" c)
          (addS (preService path u (s "Pod") (s "X-Pod")) "Unit" "RequiresMountsFor" (s "%t/containers")))
        (if (lookup u (s "Service") (s "SyslogIdentifier")).isNone then
          setS (cs.foldl (fun svc c => addS (addS svc "Unit" "Wants" c) "Unit" "Before" c)
            (addS (preService path u (s "Pod") (s "X-Pod")) "Unit" "RequiresMountsFor" (s "%t/containers"))) "Service" "SyslogIdentifier" (s "%N")
         else cs.foldl (fun svc c => addS (addS svc "Unit" "Wants" c) "Unit" "Before" c)
            (addS (preService path u (s "Pod") (s "X-Pod")) "Unit" "RequiresMountsFor" (s "%t/containers"))) := by
      split
      · exact kp_setS _ _ _ _
      · exact KeepsPod.refl _
    refine a2.trans ?_
    refine (kp_addRawExec _ _ _ _ h1).trans ?_
    refine (kp_addRawExec _ _ _ _ h2).trans ?_
    refine (kp_addRawExec _ _ _ _ h3).trans ?_
    refine (kp_handleNetworks _ _ _ _ _ h4).trans ?_
    refine (kp_handleVolumes _ _ _ _ _ _ h5).trans ?_
    refine (kp_addRawExec _ _ _ _ h6).trans ?_
    exact (kp_addS _ _ _ _).trans ((kp_addS _ _ _ _).trans ((kp_addS _ _ _ _).trans (kp_addS _ _ _ _)))
  rw [tail (s "Unit") (s k) hnot, keyEntries_members cs _ k hk]
  congr 1
  -- RequiresMountsFor is another key
  unfold keyEntries
  rw [entriesOf_addS, if_pos rfl]
  rcases hk with rfl | rfl
  · have : (s "RequiresMountsFor" == s "Wants") = false := by decide
    simp [List.filter_append, this]
  · have : (s "RequiresMountsFor" == s "Before") = false := by decide
    simp [List.filter_append, this]

end Cv
