namespace Parse
abbrev Str := List Char

/-- Rust char::is_ascii_whitespace -/
def isAsciiWs (c : Char) : Bool := c == ' ' || c == '\t' || c == '\n' || c == '\x0c' || c == '\r'
/-- Rust char::is_whitespace (White_Space) -/
def isWs (c : Char) : Bool :=
  let n := c.toNat
  (9 ≤ n && n ≤ 13) || n == 0x20 || n == 0x85 || n == 0xa0 || n == 0x1680 || (0x2000 ≤ n && n ≤ 0x200a) ||
  n == 0x2028 || n == 0x2029 || n == 0x202f || n == 0x205f || n == 0x3000

def trimEnd (s : Str) : Str := (s.reverse.dropWhile isWs).reverse

def takeUntil (p : Char → Bool) : Str → Str × Str
  | [] => ([], [])
  | c :: r => if p c then ([], c :: r) else let (a, b) := takeUntil p r; (c :: a, b)

def skipWhile (p : Char → Bool) : Str → Str
  | [] => []
  | c :: r => if p c then skipWhile p r else c :: r

inductive Mode | normal | bs | lc | lcComment deriving DecidableEq

/-- parse_value, one character per step. returns (untrimmed value, rest beginning at the terminator) -/
def pv : Mode → Nat → Str → Str → Str × Str
  | _, _, acc, [] => (acc.reverse, [])
  | .normal, ign, acc, c :: r =>
      if c == '\\' then pv .bs ign acc r
      else if c == '\n' then (acc.reverse, c :: r)
      else pv .normal ign (c :: acc) r
  | .bs, ign, acc, c :: r =>
      if c == ' ' then pv .bs (ign + 1) acc r
      else if c == '\n' then pv .lc ign (' ' :: acc) r
      else pv .normal ign (c :: (List.replicate ign ' ' ++ '\\' :: acc)) r
  | .lc, _, acc, c :: r =>
      if c == '#' || c == ';' then pv .lcComment 0 acc r
      else if c == '\n' then (acc.reverse, c :: r)
      else if c == '[' then (acc.reverse, c :: r)
      else if c == '\\' then pv .bs 0 acc r
      else pv .normal 0 (c :: acc) r
  | .lcComment, ign, acc, c :: r =>
      if c == '\n' then pv .lc ign acc r else pv .lcComment ign acc r

def parseValue (s : Str) : Str × Str := let (v, r) := pv .normal 0 [] s; (trimEnd v, r)

structure Env where
  keyChar : Char → Bool          -- char::is_alphanumeric || '-'
  validRaw : Str → Bool          -- unquote_value(raw).is_ok()

inductive Err | expectedEq | invalidKey | header | emptyHeader | topLevel | badValue | fuel
  deriving DecidableEq, Repr

def isSpTab (c : Char) : Bool := c == ' ' || c == '\t'

def parseEntry (env : Env) (s : Str) : Except Err ((Str × Str) × Str) :=
  let (key, r) := takeUntil (fun c => c == '=' || c == ' ' || c == '\t' || c == '\n' || c == '\r') s
  if !key.all env.keyChar then .error .invalidKey else
  match skipWhile isSpTab r with
  | '=' :: r' =>
    let (v, rest) := parseValue (skipWhile isSpTab r')
    .ok ((key, v), rest)
  | _ => .error .expectedEq

def parseHeader (s : Str) : Except Err (Str × Str) :=
  match s with
  | '[' :: r =>
    let (name, r') := takeUntil (fun c => c == ']' || c == '\n') r
    match r' with
    | ']' :: r'' => if name.isEmpty then .error .emptyHeader else .ok (name, r'')
    | _ => .error .header
  | _ => .error .header

/-- body of parse_section after the header -/
def parseBody (env : Env) : Nat → Str → Except Err (List (Str × Str) × Str)
  | 0, _ => .error .fuel
  | _+1, [] => .ok ([], [])
  | fuel+1, c :: r =>
    if c == '#' || c == ';' then parseBody env fuel (takeUntil (· == '\n') (c :: r)).2
    else if c == '[' then .ok ([], c :: r)
    else if isAsciiWs c then parseBody env fuel r
    else match parseEntry env (c :: r) with
      | .error e => .error e
      | .ok (kv, rest) => match parseBody env fuel rest with
        | .error e => .error e
        | .ok (kvs, rest') => .ok (kv :: kvs, rest')

abbrev Unit := List (Str × List (Str × Str))

def addEntries (u : Unit) (sec : Str) (es : List (Str × Str)) : Unit :=
  match u.lookup sec with
  | some _ => u.map (fun p => if p.1 == sec then (p.1, p.2 ++ es) else p)
  | none => u ++ [(sec, es)]

def parseUnit (env : Env) : Nat → Unit → Str → Except Err Unit
  | 0, _, _ => .error .fuel
  | _+1, u, [] => .ok u
  | fuel+1, u, c :: r =>
    if c == '#' || c == ';' then parseUnit env fuel u (takeUntil (· == '\n') (c :: r)).2
    else if c == '[' then
      match parseHeader (c :: r) with
      | .error e => .error e
      | .ok (name, r') => match parseBody env (r'.length + 1) r' with
        | .error e => .error e
        | .ok (es, rest) =>
          if es.all (fun kv => env.validRaw kv.2) then
            if rest.length < (c :: r).length then parseUnit env fuel (addEntries u name es) rest else .error .fuel
          else .error .badValue
    else if isAsciiWs c then parseUnit env fuel u r
    else .error .topLevel

def parse (env : Env) (s : Str) : Except Err Unit := parseUnit env (s.length + 1) [] s

def printUnit (u : Unit) : Str :=
  u.flatMap fun (sec, es) =>
    '[' :: sec ++ ']' :: '\n' :: (es.flatMap fun (k, v) => k ++ '=' :: v ++ ['\n']) ++ ['\n']

/-- `write_to`: the pieces handed to the writer, one per `writeln!` -/
def writeChunks (u : Unit) : List Str :=
  u.flatMap fun (sec, es) =>
    ('[' :: sec ++ [']', '\n']) :: (es.map fun (k, v) => k ++ '=' :: v ++ ['\n']) ++ [['\n']]

def testEnv : Env := { keyChar := fun c => c.isAlphanum || c == '-', validRaw := fun _ => true }
def showU (r : Except Err Unit) : String := match r with
  | .ok u => toString (u.map fun (s, es) => (String.ofList s, es.map fun (k, v) => (String.ofList k, String.ofList v)))
  | .error e => "error " ++ repr e |>.pretty


end Parse
