import QM.UnquoteLemmas
/-! Documented spellings of a value (systemd.syntax) and the theorem that the unquoter model reads every one of
    them back as the string it denotes.  A spelling is a list of *segments*: a quoted run `q … q` (q one of the two
    quote characters) or a bare run; runs consist of *pieces*: a literal character or a C-style escape. -/
namespace P

inductive Piece
  | lit (c : Char)
  | esc (e : Str) (c : Char)     -- backslash followed by `e`, denoting `c`

def Piece.text : Piece → Str
  | .lit c => [c]
  | .esc e _ => '\\' :: e
def Piece.char : Piece → Char
  | .lit c => c
  | .esc _ c => c

inductive Seg
  | quoted (q : Char) (ps : List Piece)
  | bare (ps : List Piece)

def renderPieces (ps : List Piece) : Str := ps.flatMap Piece.text
def denotePieces (ps : List Piece) : Str := ps.map Piece.char

def Seg.text : Seg → Str
  | .quoted q ps => q :: (renderPieces ps ++ [q])
  | .bare ps => renderPieces ps
def Seg.denote : Seg → Str
  | .quoted _ ps => denotePieces ps
  | .bare ps => denotePieces ps

def renderSegs (segs : List Seg) : Str := segs.flatMap Seg.text
def denoteSegs (segs : List Seg) : Str := segs.flatMap Seg.denote

/-- an escape form denotes its character wherever it stands -/
def EscOK (e : Str) (c : Char) : Prop := ∀ t, decode quotedCfg (e ++ t) = some (c, t)

/-- "at the beginning of the value or after whitespace": the decoded text so far is empty or ends in
    space, tab or newline -/
def opensOK (acc : Str) : Bool := acc.isEmpty || endsWs acc

/-- inside quotes every character is literal except the closing quote and the backslash -/
def quotedWF (q : Char) : List Piece → Prop
  | [] => True
  | .lit c :: r => c ≠ q ∧ c ≠ '\\' ∧ c ≠ '\x00' ∧ quotedWF q r
  | .esc e c :: r => EscOK e c ∧ quotedWF q r

/-- outside quotes: no literal backslash or NUL, and a literal quote character only where it cannot open a quoted run
    (`acc` = decoded text so far, reversed) -/
def bareWF : Str → List Piece → Prop
  | _, [] => True
  | acc, .lit c :: r => c ≠ '\\' ∧ c ≠ '\x00' ∧ (isQuote c = true → opensOK acc = false) ∧ bareWF (c :: acc) r
  | acc, .esc e c :: r => EscOK e c ∧ bareWF (c :: acc) r

def segsWF : Str → List Seg → Prop
  | _, [] => True
  | acc, .quoted q ps :: rest => isQuote q = true ∧ opensOK acc = true ∧ quotedWF q ps ∧ segsWF ((denotePieces ps).reverse ++ acc) rest
  | acc, .bare ps :: rest => bareWF acc ps ∧ segsWF ((denotePieces ps).reverse ++ acc) rest

theorem unq_esc_piece (q : Option Char) (acc e t : Str) (c : Char) (h : EscOK e c) :
    unq true q acc ('\\' :: e ++ t) = unq true q (c :: acc) t := by
  rw [List.cons_append, unq]
  simp only [isQuote, show ('\\' == '"') = false by decide, show ('\\' == '\'') = false by decide,
    show ('\\' == '\x00') = false by decide,
    Bool.or_self, Bool.false_and, Bool.false_eq_true, if_false, beq_self_eq_true, if_true]
  split
  · rename_i d r' heq; rw [h t] at heq; simp at heq; obtain ⟨rfl, rfl⟩ := heq; rfl
  · rename_i heq; rw [h t] at heq; simp at heq

theorem unq_quoted_pieces (q : Char) (ps : List Piece) (wf : quotedWF q ps) (acc t : Str) :
    unq true (some q) acc (renderPieces ps ++ t) = unq true (some q) ((denotePieces ps).reverse ++ acc) t := by
  induction ps generalizing acc with
  | nil => simp [renderPieces, denotePieces]
  | cons p ps ih =>
    cases p with
    | lit c =>
      obtain ⟨h1, h2, h3, h4⟩ := wf
      have e : renderPieces (Piece.lit c :: ps) ++ t = c :: (renderPieces ps ++ t) := by simp [renderPieces, Piece.text]
      rw [e, unq]
      simp only [show (c == '\x00') = false by simpa using h3, Bool.false_eq_true, if_false,
        Option.isNone_some, Bool.not_true, Bool.false_or, Bool.and_false, Bool.false_and,
        show (c == '\\') = false by simpa using h2]
      have : (some q == some c) = false := by simpa using fun e => h1 e.symm
      simp only [this, Bool.false_eq_true, if_false]
      rw [ih h4]; simp [denotePieces, Piece.char]
    | esc e c =>
      obtain ⟨h1, h2⟩ := wf
      have e' : renderPieces (Piece.esc e c :: ps) ++ t = '\\' :: e ++ (renderPieces ps ++ t) := by
        simp [renderPieces, Piece.text]
      rw [e', unq_esc_piece _ _ _ _ _ h1, ih h2]; simp [denotePieces, Piece.char]

theorem unq_bare_pieces (ps : List Piece) (acc t : Str) (wf : bareWF acc ps) :
    unq true none acc (renderPieces ps ++ t) = unq true none ((denotePieces ps).reverse ++ acc) t := by
  induction ps generalizing acc with
  | nil => simp [renderPieces, denotePieces]
  | cons p ps ih =>
    cases p with
    | lit c =>
      obtain ⟨h1, h2, h3, h4⟩ := wf
      have e : renderPieces (Piece.lit c :: ps) ++ t = c :: (renderPieces ps ++ t) := by simp [renderPieces, Piece.text]
      rw [e, unq]
      have hopen : (isQuote c && (!true || (none : Option Char).isNone) && (acc.isEmpty || endsWs acc)) = false := by
        cases hq : isQuote c with
        | false => simp
        | true => have := h3 hq; simp [opensOK] at this; simp [this]
      simp only [show (c == '\x00') = false by simpa using h2, Bool.false_eq_true, if_false, hopen,
        show (c == '\\') = false by simpa using h1, show ((none : Option Char) == some c) = false by rfl]
      rw [ih _ h4]; simp [denotePieces, Piece.char]
    | esc e c =>
      obtain ⟨h1, h2⟩ := wf
      have e' : renderPieces (Piece.esc e c :: ps) ++ t = '\\' :: e ++ (renderPieces ps ++ t) := by
        simp [renderPieces, Piece.text]
      rw [e', unq_esc_piece _ _ _ _ _ h1, ih _ h2]; simp [denotePieces, Piece.char]

theorem unq_segs (segs : List Seg) (acc : Str) (wf : segsWF acc segs) :
    unq true none acc (renderSegs segs) = some ((denoteSegs segs).reverse ++ acc).reverse := by
  induction segs generalizing acc with
  | nil => simp [renderSegs, denoteSegs, unq]
  | cons sg segs ih =>
    cases sg with
    | quoted q ps =>
      obtain ⟨hq, hopen, hps, hrest⟩ := wf
      have e : renderSegs (Seg.quoted q ps :: segs) = q :: (renderPieces ps ++ (q :: renderSegs segs)) := by
        simp [renderSegs, Seg.text]
      have hq0 : (q == '\x00') = false := by
        simp only [isQuote, Bool.or_eq_true, beq_iff_eq] at hq
        rcases hq with rfl | rfl <;> decide
      have hqb : (q == '\\') = false := by
        simp only [isQuote, Bool.or_eq_true, beq_iff_eq] at hq
        rcases hq with rfl | rfl <;> decide
      simp only [opensOK] at hopen
      rw [e, unq]
      simp only [hq0, Bool.false_eq_true, if_false, hq, Bool.not_true, Option.isNone_none, Bool.or_true, Bool.true_and,
        hopen, if_true]
      rw [unq_quoted_pieces q ps hps, unq]
      simp only [hq0, Bool.false_eq_true, if_false, Option.isNone_some, Bool.not_true, Bool.false_or,
        Bool.and_false, Bool.false_and, hqb, beq_self_eq_true, if_true]
      rw [ih _ hrest]; simp [denoteSegs, Seg.denote]
    | bare ps =>
      obtain ⟨hps, hrest⟩ := wf
      have e : renderSegs (Seg.bare ps :: segs) = renderPieces ps ++ renderSegs segs := by
        simp [renderSegs, Seg.text]
      rw [e, unq_bare_pieces ps acc _ hps, ih _ hrest]; simp [denoteSegs, Seg.denote]

/-- the escape forms of the specification table and `\xHH` are escape forms in the sense of `EscOK` -/
theorem escOK_simple : ∀ p ∈ simpleTable, EscOK [p.1] p.2 := by
  intro p hp t
  have := quotedTbl_of_spec p hp
  simp [decode, quotedCfg, this]

theorem escOK_hex (c : Char) (hlt : c.toNat < 128) (hnz : c.toNat ≠ 0) :
    EscOK ['x', hexDigit (c.toNat / 16), hexDigit (c.toNat % 16)] c := by
  intro t; simpa using decode_hex_q c hlt hnz t

end P
