import QM.RenderBody
namespace Parse

structure RSect where
  name : Str
  items : List Item

def renderSect (s : RSect) : Str := '[' :: s.name ++ ']' :: '\n' :: renderItems s.items

def renderSects (secs : List RSect) : Str := secs.flatMap renderSect

/-- the plain unit a rendering denotes: repeated headers extend the same section, in file order -/
def eraseSects (u : Unit) (secs : List RSect) : Unit :=
  secs.foldl (fun u s => addEntries u s.name (eraseItems s.items)) u

structure RSect.WF (env : Env) (s : RSect) : Prop where
  nonempty : s.name ≠ []
  nameChars : ∀ c ∈ s.name, (c == ']' || c == '\n') = false
  items : ∀ it ∈ s.items, it.WF env
  valid : (eraseItems s.items).all (fun kv => env.validRaw kv.2) = true

theorem renderSects_tail (secs : List RSect) : renderSects secs = [] ∨ ∃ t, renderSects secs = '[' :: t := by
  cases secs with
  | nil => left; rfl
  | cons s secs => right; exact ⟨s.name ++ ']' :: '\n' :: (renderItems s.items ++ renderSects secs), by simp [renderSects, renderSect]⟩

/-- C03, unit level: sections in any order with repeated headers, each body any mixture of comments,
    blank lines and entries in any spelling, parse to the erased unit -/
theorem parseUnit_rendered (env : Env) (secs : List RSect) (wf : ∀ s ∈ secs, s.WF env) :
    ∀ (u : Unit) (fuel : Nat), fuel ≥ secs.length + 1 →
      parseUnit env fuel u (renderSects secs) = .ok (eraseSects u secs) := by
  induction secs with
  | nil =>
    intro u fuel hf
    obtain ⟨f, rfl⟩ : ∃ f, fuel = f + 1 := ⟨fuel - 1, by simp at hf; omega⟩
    simp [renderSects, eraseSects, parseUnit]
  | cons s secs ih =>
    intro u fuel hf
    obtain ⟨f, rfl⟩ : ∃ f, fuel = f + 1 := ⟨fuel - 1, by simp at hf; omega⟩
    have w := wf s (by simp)
    have e : renderSects (s :: secs) = '[' :: s.name ++ ']' :: ('\n' :: renderItems s.items ++ renderSects secs) := by
      simp [renderSects, renderSect]
    rw [e, List.cons_append, parseUnit]
    simp only [show ('[' == '#' || '[' == ';') = false by decide, Bool.false_eq_true, if_false,
      beq_self_eq_true, if_true]
    rw [← List.cons_append, parseHeader_printed s.name _ w.nonempty w.nameChars]
    simp only
    have hb : parseBody env (('\n' :: renderItems s.items ++ renderSects secs).length + 1)
        ('\n' :: renderItems s.items ++ renderSects secs) = .ok (eraseItems s.items, renderSects secs) := by
      rw [List.cons_append, List.length_cons, parseBody_nl]
      exact parseBody_items env s.items w.items (renderSects secs) (renderSects_tail secs) _ (by simp)
    rw [hb]
    simp only [w.valid, if_true]
    have hlen : (renderSects secs).length <
        ('[' :: (s.name ++ ']' :: ('\n' :: renderItems s.items ++ renderSects secs))).length := by
      simp; omega
    simp only [List.cons_append] at hlen ⊢
    rw [if_pos hlen]
    have := ih (fun x hx => wf x (by simp [hx])) (addEntries u s.name (eraseItems s.items)) f (by simp at hf ⊢; omega)
    rw [this]; simp [eraseSects]

end Parse
