import QM.RenderUnit
import QM.MMapLemmas
/-! A unit spelled in two pieces — a main file and a drop-in, or any cut of a file at a section boundary — and the unit
    spelled in one piece: the parser's accumulator (`addEntries`) against the merge of two parsed units (`MM.mergeFrom`). -/
namespace Parse
open MM

theorem lookup_map_snd (u : Unit) (sec s : Str) (es : List (Str × Str)) :
    (u.map (fun p => if p.1 == sec then (p.1, p.2 ++ es) else p)).lookup s =
      (u.lookup s).map (fun x => if s = sec then x ++ es else x) := by
  induction u with
  | nil => rfl
  | cons p u ih =>
    obtain ⟨a, b⟩ := p
    cases hsa : (s == a) with
    | true =>
      have e : s = a := by simpa using hsa
      subst e
      cases hss : (s == sec) with
      | true =>
        have e2 : s = sec := by simpa using hss
        simp [List.lookup, hss, e2]
      | false =>
        have e2 : s ≠ sec := by simpa using hss
        simp [List.lookup, hss, e2]
    | false =>
      cases has : (a == sec) with
      | true => simp only [List.map_cons, has, if_true, List.lookup, hsa]; exact ih
      | false => simp only [List.map_cons, has, Bool.false_eq_true, if_false, List.lookup, hsa]; exact ih

theorem lookup_append_new (u : Unit) (sec s : Str) (es : List (Str × Str)) (h : u.lookup sec = none) :
    (u ++ [(sec, es)]).lookup s = if s = sec then some es else u.lookup s := by
  induction u with
  | nil =>
    cases hss : (s == sec) with
    | true => have e : s = sec := by simpa using hss
              simp [List.lookup, hss, e]
    | false => have e : s ≠ sec := by simpa using hss
               simp [List.lookup, hss, e]
  | cons p u ih =>
    obtain ⟨a, b⟩ := p
    have ha : sec ≠ a := by
      intro e; subst e; simp [List.lookup] at h
    have hsa : (sec == a) = false := by simpa using ha
    have h' : u.lookup sec = none := by simpa [List.lookup, hsa] using h
    cases hs : (s == a) with
    | true =>
      have e : s = a := by simpa using hs
      subst e
      have : s ≠ sec := fun e => ha e.symm
      simp [List.lookup, this]
    | false =>
      simp only [List.cons_append, List.lookup, hs]
      exact ih h'

/-- the parser's accumulator step on entries: the section named `sec` gets `es` appended, nothing else changes -/
theorem entriesOf_addEntries (u : Unit) (sec : Str) (es : List (Str × Str)) (s : Str) :
    entriesOf (addEntries u sec es) s = if s = sec then entriesOf u sec ++ es else entriesOf u s := by
  unfold addEntries entriesOf
  cases h : u.lookup sec with
  | some x =>
    simp only
    rw [lookup_map_snd]
    by_cases hs : s = sec
    · subst hs; simp [h]
    · simp only [hs, if_false]
      cases u.lookup s <;> rfl
  | none =>
    simp only
    rw [lookup_append_new u sec s es h]
    by_cases hs : s = sec
    · subst hs; simp [h]
    · simp [hs]

/-- what the sections named `s` of a rendering carry, in file order -/
def entriesIn (r : List RSect) (s : Str) : List (Str × Str) :=
  r.flatMap (fun rs => if rs.name = s then eraseItems rs.items else [])

theorem entriesOf_eraseSects (r : List RSect) (u : Unit) (s : Str) :
    entriesOf (eraseSects u r) s = entriesOf u s ++ entriesIn r s := by
  induction r generalizing u with
  | nil => simp [eraseSects, entriesIn]
  | cons rs r ih =>
    have e : eraseSects u (rs :: r) = eraseSects (addEntries u rs.name (eraseItems rs.items)) r := by
      simp [eraseSects]
    rw [e, ih, entriesOf_addEntries]
    by_cases hs : s = rs.name
    · subst hs; simp [entriesIn]
    · have : ¬ rs.name = s := fun e => hs e.symm
      simp [entriesIn, hs, this]

theorem names_addEntries (u : Unit) (sec : Str) (es : List (Str × Str)) :
    (addEntries u sec es).map Prod.fst = if (u.lookup sec).isSome then u.map Prod.fst else u.map Prod.fst ++ [sec] := by
  unfold addEntries
  cases h : u.lookup sec with
  | some x =>
    simp only [Option.isSome_some, if_true, List.map_map]
    apply List.map_congr_left
    intro p _
    simp only [Function.comp]
    split <;> rfl
  | none => simp

theorem lookup_isSome_of_mem (u : Unit) (sec : Str) (h : sec ∈ u.map Prod.fst) : (u.lookup sec).isSome = true := by
  induction u with
  | nil => simp at h
  | cons p u ih =>
    obtain ⟨a, b⟩ := p
    by_cases hs : sec = a
    · subst hs; simp [List.lookup]
    · have hn : (sec == a) = false := by simpa using hs
      simp only [List.map_cons, List.mem_cons, hs, false_or] at h
      simp only [List.lookup, hn]
      exact ih h

/-- section names stay unique: a repeated header extends its section, it does not open a second one -/
theorem nodup_addEntries (u : Unit) (sec : Str) (es : List (Str × Str)) (h : (u.map Prod.fst).Nodup) :
    ((addEntries u sec es).map Prod.fst).Nodup := by
  rw [names_addEntries]
  cases hl : (u.lookup sec).isSome with
  | true => simpa using h
  | false =>
    simp only [Bool.false_eq_true, if_false]
    rw [List.nodup_append]
    refine ⟨h, by simp, ?_⟩
    intro a ha b hb
    simp only [List.mem_singleton] at hb
    subst hb
    intro e
    subst e
    have := lookup_isSome_of_mem u a ha
    simp [hl] at this

theorem nodup_eraseSects (r : List RSect) (u : Unit) (h : (u.map Prod.fst).Nodup) :
    ((eraseSects u r).map Prod.fst).Nodup := by
  induction r generalizing u with
  | nil => simpa [eraseSects] using h
  | cons rs r ih =>
    have e : eraseSects u (rs :: r) = eraseSects (addEntries u rs.name (eraseItems rs.items)) r := by
      simp [eraseSects]
    rw [e]
    exact ih _ (nodup_addEntries u _ _ h)

theorem eraseSects_append (r₁ r₂ : List RSect) (u : Unit) :
    eraseSects u (r₁ ++ r₂) = eraseSects (eraseSects u r₁) r₂ := by
  simp [eraseSects, List.foldl_append]

theorem renderSects_append (r₁ r₂ : List RSect) : renderSects (r₁ ++ r₂) = renderSects r₁ ++ renderSects r₂ := by
  simp [renderSects, List.flatMap_append]

end Parse
