import QM.Equiv
import QM.StrvLemmas
import QM.Quote
/-! Iterated splitters: what `lookup_all_args` / `lookup_all_strv` do with one raw value
    (`SplitWord::new(raw).collect()`, `SplitStrv::new(raw).collect()`), and the iterated
    simulation against systemd's `extract_first_word`. -/
namespace P

theorem collect_sim (spec impl : Str → Res)
    (hw : ∀ s w rest, spec s = .word w rest → impl s = .word w rest)
    (hn : ∀ s, spec s = .noWord → impl s = .noWord) :
    ∀ fuel s ws, collect spec fuel s = some ws → collectImpl impl fuel s = ws := by
  intro fuel
  induction fuel with
  | zero => intro s ws h; simp [collect] at h
  | succ n ih =>
    intro s ws h
    simp only [collect] at h
    cases hs : spec s with
    | einval => simp [hs] at h
    | noWord =>
      simp only [hs, Option.some.injEq] at h
      subst h
      simp [collectImpl, hn s hs]
    | word w rest =>
      simp only [hs, Option.map_eq_some_iff] at h
      obtain ⟨ws', hc, rfl⟩ := h
      simp [collectImpl, hw s w rest hs, ih rest ws' hc]

theorem strv_next_of_spec (s w rest) (h : Spec.extractFirst strvFlags s = .word w rest) :
    Impl.strvNext s = .word w rest := by
  unfold Spec.extractFirst at h
  unfold Impl.strvNext
  rw [implDropSeps_eq]
  cases hd : dropSeps s with
  | nil => simp [hd] at h
  | cons c r => simp only [hd] at h ⊢; exact impl_strv_of_spec _ _ _ _ _ h

theorem strv_next_noWord (s) (h : Spec.extractFirst strvFlags s = .noWord) : Impl.strvNext s = .noWord := by
  unfold Spec.extractFirst at h
  unfold Impl.strvNext
  rw [implDropSeps_eq]
  cases hd : dropSeps s with
  | nil => rfl
  | cons c r =>
    simp only [hd] at h
    exfalso
    revert h
    generalize (none : Option Char) = q, false = bs, ([] : Str) = acc, c :: r = s'
    intro h
    fun_induction Spec.word strvFlags q bs acc s' <;> simp_all

end P
