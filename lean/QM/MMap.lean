namespace MM
abbrev Str := List Char
abbrev Entries := List (Str × Str)
abbrev SUnit := List (Str × Entries)

def entriesOf (u : SUnit) (sec : Str) : Entries := (u.lookup sec).getD []
def hasSection (u : SUnit) (sec : Str) : Bool := (u.lookup sec).isSome

/-- apply `f` to the (unique) section `sec`; create it at the end with `f []` when absent -/
def modifySection : SUnit → Str → (Entries → Entries) → SUnit
  | [], sec, f => [(sec, f [])]
  | (s, es) :: u, sec, f => if s == sec then (s, f es) :: u else (s, es) :: modifySection u sec f

def removeSection (u : SUnit) (sec : Str) : SUnit := u.filter (fun p => !(p.1 == sec))

def setIn (es : Entries) (key raw : Str) : Entries :=
  es.filter (fun kv => !(kv.1 == key)) ++ (es.filter (fun kv => kv.1 == key)).dropLast ++ [(key, raw)]

def addEntry (u : SUnit) (sec key raw : Str) : SUnit := modifySection u sec (· ++ [(key, raw)])
def setEntry (u : SUnit) (sec key raw : Str) : SUnit := modifySection u sec (setIn · key raw)
def addAll (u : SUnit) (sec : Str) (es : Entries) : SUnit := es.foldl (fun u kv => addEntry u sec kv.1 kv.2) u
def prependEntry (u : SUnit) (sec key raw : Str) : SUnit :=
  removeSection u sec ++ [(sec, (key, raw) :: entriesOf u sec)]
def renameSection (u : SUnit) (frm to : Str) : SUnit :=
  if hasSection u frm then addAll (removeSection u frm) to (entriesOf u frm) else u
def mergeFrom (u o : SUnit) : SUnit := o.foldl (fun u p => addAll u p.1 p.2) u

theorem lookup_cons_ne (a : Str) (es : Entries) (u : SUnit) (s : Str) (h : s ≠ a) :
    ((a, es) :: u).lookup s = u.lookup s := by
  have : (s == a) = false := by simpa using h
  simp [List.lookup, this]

theorem entriesOf_modify (u : SUnit) (sec : Str) (f : Entries → Entries) (s' : Str) :
    entriesOf (modifySection u sec f) s' = if s' = sec then f (entriesOf u sec) else entriesOf u s' := by
  induction u with
  | nil =>
    by_cases hs : s' = sec
    · subst hs; simp [modifySection, entriesOf, List.lookup]
    · have : (s' == sec) = false := by simpa using hs
      simp [modifySection, entriesOf, List.lookup, this, hs]
  | cons p u ih =>
    obtain ⟨a, es⟩ := p
    simp only [modifySection]
    by_cases ha : a = sec
    · subst ha
      simp only [beq_self_eq_true, if_true]
      by_cases hs : s' = a
      · subst hs; simp [entriesOf, List.lookup]
      · simp [entriesOf, lookup_cons_ne _ _ _ _ hs, hs]
    · have hab : (a == sec) = false := by simpa using ha
      simp only [hab, Bool.false_eq_true, if_false]
      by_cases hs : s' = a
      · subst hs; simp [entriesOf, List.lookup, ha]
      · simp only [entriesOf, lookup_cons_ne _ _ _ _ hs] at ih ⊢
        rw [ih]
        by_cases hss : s' = sec
        · subst hss; simp [lookup_cons_ne _ _ _ _ hs]
        · simp [hss]

theorem entriesOf_remove (u : SUnit) (sec s' : Str) :
    entriesOf (removeSection u sec) s' = if s' = sec then [] else entriesOf u s' := by
  induction u with
  | nil => simp [removeSection, entriesOf, List.lookup]
  | cons p u ih =>
    obtain ⟨a, es⟩ := p
    simp only [removeSection, List.filter_cons]
    by_cases ha : a = sec
    · subst ha
      simp only [beq_self_eq_true, Bool.not_true, Bool.false_eq_true, if_false]
      simp only [removeSection] at ih
      rw [ih]
      by_cases hs : s' = a
      · simp [hs]
      · simp [hs, entriesOf, lookup_cons_ne _ _ _ _ hs]
    · have hab : (a == sec) = false := by simpa using ha
      simp only [hab, Bool.not_false, if_true]
      by_cases hs : s' = a
      · subst hs; simp [entriesOf, List.lookup, ha]
      · simp only [removeSection] at ih
        simp only [entriesOf, lookup_cons_ne _ _ _ _ hs] at ih ⊢
        exact ih

theorem entriesOf_addEntry (u : SUnit) (sec key raw s' : Str) :
    entriesOf (addEntry u sec key raw) s' = if s' = sec then entriesOf u sec ++ [(key, raw)] else entriesOf u s' :=
  entriesOf_modify u sec _ s'

theorem entriesOf_setEntry (u : SUnit) (sec key raw s' : Str) :
    entriesOf (setEntry u sec key raw) s' = if s' = sec then setIn (entriesOf u sec) key raw else entriesOf u s' :=
  entriesOf_modify u sec _ s'

theorem entriesOf_addAll (u : SUnit) (sec : Str) (es : Entries) (s' : Str) :
    entriesOf (addAll u sec es) s' = if s' = sec then entriesOf u sec ++ es else entriesOf u s' := by
  induction es generalizing u with
  | nil =>
    by_cases hs : s' = sec
    · subst hs; simp [addAll]
    · simp [addAll, hs]
  | cons kv es ih =>
    simp only [addAll, List.foldl_cons] at ih ⊢
    rw [ih, entriesOf_addEntry]
    by_cases hs : s' = sec
    · subst hs; simp
    · simp only [hs, if_false]
      rw [entriesOf_addEntry]; simp [hs]

theorem lookup_append_fresh (u : SUnit) (sec : Str) (es : Entries) (s' : Str) (h : u.lookup sec = none) :
    (u ++ [(sec, es)]).lookup s' = if s' = sec then some es else u.lookup s' := by
  induction u with
  | nil =>
    by_cases hs : s' = sec
    · subst hs; simp [List.lookup]
    · have : (s' == sec) = false := by simpa using hs
      simp [List.lookup, this, hs]
  | cons p u ih =>
    obtain ⟨a, fs⟩ := p
    have hne : sec ≠ a := by
      intro e; subst e; simp [List.lookup] at h
    rw [lookup_cons_ne _ _ _ _ hne] at h
    by_cases hs : s' = a
    · subst hs
      have : s' ≠ sec := fun e => hne e.symm
      simp [List.lookup, this]
    · rw [List.cons_append, lookup_cons_ne _ _ _ _ hs, lookup_cons_ne _ _ _ _ hs]
      exact ih h

theorem lookup_remove_self (u : SUnit) (sec : Str) : (removeSection u sec).lookup sec = none := by
  induction u with
  | nil => rfl
  | cons p u ih =>
    obtain ⟨a, es⟩ := p
    simp only [removeSection, List.filter_cons]
    by_cases ha : a = sec
    · subst ha; simpa [removeSection] using ih
    · have hab : (a == sec) = false := by simpa using ha
      simp only [hab, Bool.not_false, if_true]
      rw [lookup_cons_ne _ _ _ _ (fun e => ha e.symm)]
      simpa [removeSection] using ih

theorem entriesOf_prepend (u : SUnit) (sec key raw s' : Str) :
    entriesOf (prependEntry u sec key raw) s' =
      if s' = sec then (key, raw) :: entriesOf u sec else entriesOf u s' := by
  unfold prependEntry
  have := lookup_append_fresh (removeSection u sec) sec ((key, raw) :: entriesOf u sec) s' (lookup_remove_self u sec)
  simp only [entriesOf] at this ⊢
  rw [this]
  by_cases hs : s' = sec
  · simp [hs]
  · simp only [hs, if_false]
    have := entriesOf_remove u sec s'
    simp only [entriesOf, hs, if_false] at this
    exact this

theorem entriesOf_rename (u : SUnit) (frm to s' : Str) (hne : frm ≠ to) :
    entriesOf (renameSection u frm to) s' =
      if s' = frm then [] else if s' = to then entriesOf u to ++ entriesOf u frm else entriesOf u s' := by
  unfold renameSection
  by_cases hh : hasSection u frm = true
  · simp only [hh, if_true]
    rw [entriesOf_addAll, entriesOf_remove, entriesOf_remove]
    by_cases h1 : s' = frm
    · subst h1; simp [hne]
    · by_cases h2 : s' = to
      · subst h2; simp [h1, Ne.symm hne]
      · simp [h1, h2]
  · have hn : u.lookup frm = none := by
      simp only [hasSection, Bool.not_eq_true, Option.isSome_eq_false_iff, Option.isNone_iff_eq_none] at hh
      exact hh
    simp only [hh, Bool.false_eq_true, if_false]
    by_cases h1 : s' = frm
    · subst h1; simp [entriesOf, hn]
    · by_cases h2 : s' = to
      · subst h2; simp [h1, entriesOf, hn]
      · simp [h1, h2]

end MM
