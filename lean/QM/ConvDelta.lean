import QM.EmitLemmas
import QM.ConvShape
import QM.ConvCmd
/-! "Adding the key changes nothing else in the command" (C02) as a frame property of commands that are built from *segments*:
    a segment emits a block of arguments and reads the assignment histories of a fixed set of keys of the unit's section.
    Two units whose histories agree on every key except `k` get the same block from every segment that does not read `k` — so
    assigning, re-assigning, resetting or removing `k` (in the main file, a repeated section or a drop-in) changes the command
    only inside the block of the one segment that reads `k`, and moves nothing else. -/
namespace Cv
open MM

structure Seg where
  reads : List Str
  emit : SUnit → List Str

/-- the segment's block is a function of the histories of the keys it reads -/
def Seg.Local (sec : Str) (g : Seg) : Prop :=
  ∀ u u' : SUnit, (∀ k ∈ g.reads, assignments u sec k = assignments u' sec k) → g.emit u = g.emit u'

/-- the two units assign the same values, in the same order, to every key of the section other than `k` -/
def AgreeExcept (sec k : Str) (u u' : SUnit) : Prop := ∀ k', k' ≠ k → assignments u sec k' = assignments u' sec k'

theorem agreeExcept_addEntry (u : SUnit) (sec k raw : Str) : AgreeExcept sec k u (addEntry u sec k raw) := by
  intro k' hk
  rw [assignments_addEntry]
  have : ¬ k = k' := fun h => hk h.symm
  simp [this]

theorem Seg.frame {sec k : Str} {g : Seg} (hl : g.Local sec) {u u' : SUnit} (h : AgreeExcept sec k u u') (hk : k ∉ g.reads) :
    g.emit u = g.emit u' :=
  hl u u' fun k' hk' => h k' (fun e => hk (e ▸ hk'))

def cmdOf (segs : List Seg) (u : SUnit) : List Str := segs.flatMap (·.emit u)

/-- **the frame theorem**: only the reader of `k` sees a change of `k` — everything before and everything after its block is
    identical, argument for argument -/
theorem cmd_delta (sec k : Str) (A B : List Seg) (g : Seg) (hA : ∀ x ∈ A, x.Local sec ∧ k ∉ x.reads) (hB : ∀ x ∈ B, x.Local sec ∧ k ∉ x.reads)
    (u u' : SUnit) (h : AgreeExcept sec k u u') :
    cmdOf (A ++ g :: B) u = cmdOf A u ++ g.emit u ++ cmdOf B u ∧ cmdOf (A ++ g :: B) u' = cmdOf A u ++ g.emit u' ++ cmdOf B u := by
  have eA : cmdOf A u' = cmdOf A u := by
    unfold cmdOf; apply flatMap_congr'; intro x hx; exact (Seg.frame (hA x hx).1 h (hA x hx).2).symm
  have eB : cmdOf B u' = cmdOf B u := by
    unfold cmdOf; apply flatMap_congr'; intro x hx; exact (Seg.frame (hB x hx).1 h (hB x hx).2).symm
  constructor
  · simp [cmdOf]
  · rw [← eA, ← eB]; simp [cmdOf]

/-- a key that no segment reads changes nothing at all -/
theorem cmd_unread (sec k : Str) (segs : List Seg) (hl : ∀ x ∈ segs, x.Local sec ∧ k ∉ x.reads) (u u' : SUnit) (h : AgreeExcept sec k u u') :
    cmdOf segs u = cmdOf segs u' := by
  unfold cmdOf; apply flatMap_congr'; intro x hx; exact Seg.frame (hl x hx).1 h (hl x hx).2

/-- when the keys read by the segments are pairwise different, the reader of a key is unique: the list splits around it -/
theorem split_at_reader (segs : List Seg) (hnd : (segs.flatMap (·.reads)).Nodup) (g : Seg) (hg : g ∈ segs) (k : Str) (hk : k ∈ g.reads) :
    ∃ A B, segs = A ++ g :: B ∧ (∀ x ∈ A, k ∉ x.reads) ∧ (∀ x ∈ B, k ∉ x.reads) := by
  obtain ⟨A, B, rfl⟩ := List.append_of_mem hg
  refine ⟨A, B, rfl, ?_, ?_⟩
  · intro x hx hkx
    rw [List.flatMap_append, List.flatMap_cons, List.nodup_append] at hnd
    exact hnd.2.2 k (List.mem_flatMap.mpr ⟨x, hx, hkx⟩) k (List.mem_append_left _ hk) rfl
  · intro x hx hkx
    rw [List.flatMap_append, List.flatMap_cons, List.nodup_append] at hnd
    have h2 := hnd.2.1
    rw [List.nodup_append] at h2
    exact h2.2.2 k hk k (List.mem_flatMap.mpr ⟨x, hx, hkx⟩) rfl

/-! ### the kinds of segments the converters are made of -/
def segConst (ws : List Str) : Seg := ⟨[], fun _ => ws⟩
def segString (sec : Str) (r : Str × Str) : Seg := ⟨[r.1], fun u => rowString u sec r⟩
def segAll (sec : Str) (r : Str × Str) : Seg := ⟨[r.1], fun u => rowAll u sec r⟩
def segBool (sec : Str) (r : Str × Str) : Seg := ⟨[r.1], fun u => rowBool u sec r⟩
def segArgs (sec : Str) (key : String) : Seg := ⟨[s key], fun u => lookupAllArgs u sec (s key)⟩
def segKeyVal (sec : Str) (flag key : String) : Seg := ⟨[s key], fun u => addKeys flag (lookupAllKeyVal u sec (s key))⟩
/-- any block computed from the last value of one key -/
def segLast (sec : Str) (key : String) (f : Option Str → List Str) : Seg := ⟨[s key], fun u => f (lookup u sec (s key))⟩

theorem segConst_local (sec : Str) (ws : List Str) : (segConst ws).Local sec := fun _ _ _ => rfl
theorem segString_local (sec : Str) (r : Str × Str) : (segString sec r).Local sec :=
  fun _ _ h => rowString_congr (h r.1 (by simp [segString]))
theorem segAll_local (sec : Str) (r : Str × Str) : (segAll sec r).Local sec :=
  fun _ _ h => rowAll_congr (h r.1 (by simp [segAll]))
theorem segBool_local (sec : Str) (r : Str × Str) : (segBool sec r).Local sec :=
  fun _ _ h => rowBool_congr (h r.1 (by simp [segBool]))
theorem segArgs_local (sec : Str) (key : String) : (segArgs sec key).Local sec := by
  intro u u' h; simp only [segArgs]; exact lookupAllArgs_congr (h (s key) (by simp [segArgs]))
theorem segKeyVal_local (sec : Str) (flag key : String) : (segKeyVal sec flag key).Local sec := by
  intro u u' h; simp only [segKeyVal]; rw [lookupAllKeyVal_congr (h (s key) (by simp [segKeyVal]))]
theorem segLast_local (sec : Str) (key : String) (f : Option Str → List Str) : (segLast sec key f).Local sec := by
  intro u u' h; simp only [segLast]; rw [lookup_congr (h (s key) (by simp [segLast]))]

theorem cmdOf_append (a b : List Seg) (u : SUnit) : cmdOf (a ++ b) u = cmdOf a u ++ cmdOf b u := by simp [cmdOf]
theorem cmdOf_string (sec : Str) (rows : List (Str × Str)) (u : SUnit) : cmdOf (rows.map (segString sec)) u = addString u sec rows := by
  simp [cmdOf, addString_eq, List.flatMap_map, segString]
theorem cmdOf_all (sec : Str) (rows : List (Str × Str)) (u : SUnit) : cmdOf (rows.map (segAll sec)) u = addAllStrings u sec rows := by
  simp [cmdOf, addAllStrings_eq, List.flatMap_map, segAll]
theorem cmdOf_bool (sec : Str) (rows : List (Str × Str)) (u : SUnit) : cmdOf (rows.map (segBool sec)) u = addBool u sec rows := by
  simp [cmdOf, addBool_eq, List.flatMap_map, segBool]

/-! ### .image -/
def imageSegs (E : Env) : List Seg :=
  let sec := s "Image"
  [segConst [E.podman]]
    ++ Gen.tbl_get_base_podman_command_inline_lookup_and_add_all_strings.map (segAll sec)
    ++ [segArgs sec "GlobalArgs", segConst [s "image", s "pull"]]
    ++ Gen.tbl_from_image_unit_string_keys.map (segString sec)
    ++ Gen.tbl_from_image_unit_bool_keys.map (segBool sec)
    ++ [segArgs sec "PodmanArgs", segLast sec "Image" (fun o => [o.getD []])]

/-- the command of the .image converter is the concatenation of its segments' blocks -/
theorem imageCmd_segs (E : Env) (u : SUnit) : imageCmd E u = cmdOf (imageSegs E) u := by
  unfold imageSegs
  simp only [cmdOf_append, cmdOf_string, cmdOf_bool, cmdOf_all]
  simp [cmdOf, imageCmd, baseCmd, moduleArgs, addAllStrings0, addAllStrings, podmanArgs, segConst, segArgs, segLast]

theorem imageSegs_local (E : Env) : ∀ g ∈ imageSegs E, g.Local (s "Image") := by
  intro g hg
  simp only [imageSegs, List.mem_append, List.mem_map, List.mem_cons, List.mem_singleton, List.not_mem_nil, or_false] at hg
  rcases hg with ((((rfl | ⟨r, _, rfl⟩) | rfl | rfl) | ⟨r, _, rfl⟩) | ⟨r, _, rfl⟩) | rfl | rfl
  · exact segConst_local _ _
  · exact segAll_local _ _
  · exact segArgs_local _ _
  · exact segConst_local _ _
  · exact segString_local _ _
  · exact segBool_local _ _
  · exact segArgs_local _ _
  · exact segLast_local _ _ _

end Cv

namespace Cv
open MM

/-- a block computed from all the values of several keys -/
def segMulti (keys : List Str) (f : SUnit → List Str) : Seg := ⟨keys, f⟩

/-! ### .network -/
def networkSubnetBlock (u : SUnit) : List Str :=
  match networkSubnets u (s "Network") with
  | .ok l => l
  | .error _ => []

theorem networkSubnets_congr (u u' : SUnit) (sec : Str)
    (h1 : assignments u sec (s "Subnet") = assignments u' sec (s "Subnet"))
    (h2 : assignments u sec (s "Gateway") = assignments u' sec (s "Gateway"))
    (h3 : assignments u sec (s "IPRange") = assignments u' sec (s "IPRange")) :
    networkSubnets u sec = networkSubnets u' sec := by
  unfold networkSubnets
  rw [lookupAll_congr h1, lookupAll_congr h2, lookupAll_congr h3]

def networkSegs (E : Env) (path : Str) : List Seg :=
  let sec := s "Network"
  [segConst [E.podman]]
    ++ Gen.tbl_get_base_podman_command_inline_lookup_and_add_all_strings.map (segAll sec)
    ++ [segArgs sec "GlobalArgs", segConst [s "network", s "create", s "--ignore"]]
    ++ Gen.tbl_from_network_unit_bool_keys.map (segBool sec)
    ++ Gen.tbl_from_network_unit_string_keys.map (segString sec)
    ++ Gen.tbl_from_network_unit_inline_lookup_and_add_all_strings.map (segAll sec)
    ++ [segMulti [s "Subnet", s "Gateway", s "IPRange"] networkSubnetBlock,
        segKeyVal sec "--opt" "Options", segKeyVal sec "--label" "Label", segArgs sec "PodmanArgs",
        segMulti [s "NetworkName"] (fun u => [networkNameOf path u])]

theorem networkSegs_local (E : Env) (path : Str) : ∀ g ∈ networkSegs E path, g.Local (s "Network") := by
  intro g hg
  simp only [networkSegs, List.mem_append, List.mem_map, List.mem_cons, List.not_mem_nil, or_false] at hg
  rcases hg with (((((rfl | ⟨r, _, rfl⟩) | rfl | rfl) | ⟨r, _, rfl⟩) | ⟨r, _, rfl⟩) | ⟨r, _, rfl⟩) | rfl | rfl | rfl | rfl | rfl
  · exact segConst_local _ _
  · exact segAll_local _ _
  · exact segArgs_local _ _
  · exact segConst_local _ _
  · exact segBool_local _ _
  · exact segString_local _ _
  · exact segAll_local _ _
  · intro u u' h
    simp only [segMulti, networkSubnetBlock]
    rw [networkSubnets_congr u u' _ (h _ (by simp [segMulti])) (h _ (by simp [segMulti])) (h _ (by simp [segMulti]))]
  · exact segKeyVal_local _ _ _
  · exact segKeyVal_local _ _ _
  · exact segArgs_local _ _
  · intro u u' h
    simp only [segMulti, networkNameOf]
    rw [lookup_congr (h _ (by simp [segMulti]))]

/-- a `.network` unit that converts carries the Exec line that renders the concatenation of its segments' blocks -/
theorem fromNetwork_segs (E : Env) (path : Str) (u svc : SUnit) (n : Str) (h : fromNetwork E path u = .ok (svc, n)) :
    HasExec svc "ExecStart" (cmdOf (networkSegs E path) u) := by
  unfold fromNetwork at h
  simp only [bind_ok] at h
  obtain ⟨_, _, _, _, sub, hsub, svc1, hexec, hfin⟩ := h
  simp only [pure, Except.pure, Except.ok.injEq, Prod.mk.injEq] at hfin
  obtain ⟨rfl, rfl⟩ := hfin
  have hx := (HasExec.of_addRawExec hexec).oneShot true (by decide) (by decide) (by decide)
  have e : cmdOf (networkSegs E path) u =
      baseCmd E u (s "Network") ++ [s "network", s "create", s "--ignore"]
        ++ addBool u (s "Network") Gen.tbl_from_network_unit_bool_keys
        ++ addString u (s "Network") Gen.tbl_from_network_unit_string_keys
        ++ addAllStrings u (s "Network") Gen.tbl_from_network_unit_inline_lookup_and_add_all_strings
        ++ sub ++ addKeys "--opt" (lookupAllKeyVal u (s "Network") (s "Options"))
        ++ addKeys "--label" (lookupAllKeyVal u (s "Network") (s "Label")) ++ podmanArgs u (s "Network") ++ [networkNameOf path u] := by
    unfold networkSegs
    simp only [cmdOf_append, cmdOf_string, cmdOf_bool, cmdOf_all]
    simp [cmdOf, baseCmd, moduleArgs, addAllStrings0, addAllStrings, podmanArgs, segConst, segArgs, segKeyVal, segMulti,
      networkSubnetBlock, hsub]
  rw [e]
  exact hx

end Cv
