import QM.Esc
namespace P

structure Flags where
  unquote : Bool
  cunescape : Bool
  relax : Bool
  retainEscape : Bool

inductive Res
  | einval
  | noWord
  | word (w : Str) (rest : Str)
  deriving DecidableEq, Repr

def dropSeps : Str → Str
  | [] => []
  | c :: r => if isSep c then dropSeps r else c :: r

theorem dropSeps_length (s : Str) : (dropSeps s).length ≤ s.length := by
  induction s with
  | nil => simp [dropSeps]
  | cons c r ih => simp only [dropSeps]; split <;> simp <;> omega

namespace Spec

/-- inside a word. `q` open quote, `bs` = a backslash was just read -/
def word (f : Flags) (q : Option Char) (bs : Bool) (acc : Str) (s : Str) : Res :=
  match bs, q, s with
  | true, _, [] => if f.relax then .word acc.reverse [] else .einval
  | true, q, c :: r =>
      if f.cunescape then
        match h : decode specCfg (c :: r) with
        | some (d, r') => word f q false (d :: acc) r'
        | none => .einval
      else word f q false (c :: acc) r
  | false, none, [] => .word acc.reverse []
  | false, some _, [] => if f.relax then .word acc.reverse [] else .einval
  | false, none, c :: r =>
      if isQuote c && f.unquote then word f (some c) false acc r
      else if c == '\\' && !f.retainEscape then word f none true acc r
      else if isSep c then .word acc.reverse (dropSeps r)
      else word f none false (c :: acc) r
  | false, some q, c :: r =>
      if c == q then word f none false acc r
      else if c == '\\' && !f.retainEscape then word f (some q) true acc r
      else word f (some q) false (c :: acc) r
termination_by s.length
decreasing_by
  all_goals simp_wf
  all_goals first | omega | (have := decode_length h; simp at this; omega)

def extractFirst (f : Flags) (s : Str) : Res :=
  match dropSeps s with
  | [] => .noWord
  | c :: r => word f none false [] (c :: r)

end Spec

/-- the separator set of split.rs (`WHITESPACE`, extracted from the source) -/
def implSep (c : Char) : Bool := Gen.whitespace.contains c
def implDropSeps : Str → Str
  | [] => []
  | c :: r => if implSep c then implDropSeps r else c :: r

namespace Impl

/-- SplitWord::next after the D3 repair (an explicitly started word is returned even when empty).
    `.einval` stands for "next() returned None because an escape failed" (iteration stops). -/
def word (q : Option Char) (bs : Bool) (acc : Str) (s : Str) : Res :=
  match bs, q, s with
  | true, _, [] => .word acc.reverse []
  | true, q, c :: r =>
      match h : decode implCfg (c :: r) with
      | some (d, r') => word q false (d :: acc) r'
      | none => .einval
  | false, _, [] => .word acc.reverse []
  | false, none, c :: r =>
      if isQuote c then word (some c) false acc r
      else if c == '\\' then word none true acc r
      else if implSep c then .word acc.reverse (implDropSeps r)
      else word none false (c :: acc) r
  | false, some q, c :: r =>
      if c == q then word none false acc r
      else if c == '\\' then word (some q) true acc r
      else word (some q) false (c :: acc) r
termination_by s.length
decreasing_by
  all_goals simp_wf
  all_goals first | omega | (have := decode_length h; simp at this; omega)

def next (s : Str) : Res :=
  match implDropSeps s with
  | [] => .noWord
  | c :: r => word none false [] (c :: r)

end Impl

def argFlags : Flags := { unquote := true, cunescape := true, relax := true, retainEscape := false }

end P
