import QM.MMap
/-! Lemmas about the ordered-multimap model that need more than one operation. -/
namespace MM

theorem lookup_none_of_not_mem (u : SUnit) (sec : Str) (h : sec ∉ u.map Prod.fst) : u.lookup sec = none := by
  induction u with
  | nil => rfl
  | cons p u ih =>
    obtain ⟨s, es⟩ := p
    simp only [List.map_cons, List.mem_cons, not_or] at h
    rw [lookup_cons_ne _ _ _ _ h.1]; exact ih h.2

theorem entriesOf_mergeFrom (v o : SUnit) (hnd : (o.map Prod.fst).Nodup) (s : Str) :
    entriesOf (mergeFrom v o) s = entriesOf v s ++ entriesOf o s := by
  induction o generalizing v with
  | nil => simp [mergeFrom, entriesOf, List.lookup]
  | cons p o ih =>
    obtain ⟨a, es⟩ := p
    simp only [List.map_cons, List.nodup_cons] at hnd
    simp only [mergeFrom, List.foldl_cons] at ih ⊢
    rw [ih _ hnd.2, entriesOf_addAll]
    by_cases hs : s = a
    · subst hs
      have h0 : entriesOf o s = [] := by simp [entriesOf, lookup_none_of_not_mem o s hnd.1]
      have h1 : entriesOf ((s, es) :: o) s = es := by simp [entriesOf, List.lookup]
      rw [h0, h1]; simp
    · simp [hs, entriesOf, lookup_cons_ne _ _ _ _ hs]

end MM
