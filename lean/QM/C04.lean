import QM.Unquote
import QM.C01
namespace P

theorem decode_hex_q (c : Char) (hlt : c.toNat < 128) (hnz : c.toNat ≠ 0) (t : Str) :
    decode quotedCfg ('x' :: hexDigit (c.toNat / 16) :: hexDigit (c.toNat % 16) :: t) = some (c, t) := by
  have e1 := unhex_hexDigit (c.toNat / 16) (by omega)
  have e2 := unhex_hexDigit (c.toNat % 16) (by omega)
  have e3 : c.toNat / 16 * 16 + c.toNat % 16 = c.toNat := by omega
  have hl : simpleTable.lookup 'x' = none := by decide
  have hk : numKindOf 'x' = some .x := by decide
  have hv : validScalar c.toNat = true := by simp [validScalar]; omega
  simp [decode, hl, hk, readNum, readDigits, e1, e2, e3, quotedCfg, hnz, hv]

/-- inside an open double quote (repaired code) one rendered character reads back as itself -/
theorem unq_escChar (c : Char) (hc : c ≠ '\x00') (acc t : Str) :
    unq true (some '"') acc (escChar c ++ t) = unq true (some '"') (c :: acc) t := by
  unfold escChar
  by_cases hn : needsEsc c = true
  · simp only [hn, Bool.not_true, Bool.false_eq_true, if_false]
    by_cases hs : (c == ' ' || c == '\'') = true
    · simp only [hs, if_true]
      have h1 : c ≠ '"' := by intro e; subst e; simp at hs
      have h2 : c ≠ '\\' := by intro e; subst e; simp at hs
      rw [List.singleton_append, unq]; simp [h1, h2, Ne.symm h1]
    · simp only [hs, Bool.false_eq_true, if_false]
      have step : ∀ e : Str, decode quotedCfg (e ++ t) = some (c, t) →
          unq true (some '"') acc ('\\' :: e ++ t) = unq true (some '"') (c :: acc) t := by
        intro e hd
        rw [List.cons_append, unq]
        simp only [isQuote, show ('\\' == '"') = false by decide, show ('\\' == '\'') = false by decide,
          Bool.or_self, Bool.false_and, Bool.false_eq_true, if_false, beq_self_eq_true, if_true]
        split
        · rename_i d r' heq; rw [hd] at heq; simp at heq; obtain ⟨rfl, rfl⟩ := heq; rfl
        · rename_i heq; rw [hd] at heq; simp at heq
      cases hl : escTable.lookup c with
      | some e =>
        have hm := escTable_sound _ (lookup_mem _ _ _ hl)
        simp only at hm
        exact step [e] (by simp [decode, hm])
      | none =>
        have hlt : c.toNat < 128 := by
          simp [needsEsc] at hn hs
          rcases hn with ((((h | h) | h) | h) | h) | h
          · omega
          · omega
          · simp [h] at hs
          · subst h; simp [escTable, List.lookup] at hl
          · simp [h] at hs
          · subst h; simp [escTable, List.lookup] at hl
        have hnz : c.toNat ≠ 0 := by
          intro e; apply hc; apply Char.toNat_inj.mp; simpa using e
        exact step ['x', hexDigit (c.toNat / 16), hexDigit (c.toNat % 16)] (by simpa using decode_hex_q c hlt hnz t)
  · have h1 : c ≠ '"' := by intro e; subst e; simp [needsEsc] at hn
    have h2 : c ≠ '\\' := by intro e; subst e; simp [needsEsc] at hn
    have h3 : c ≠ '\'' := by intro e; subst e; simp [needsEsc] at hn
    simp only [hn, Bool.not_false, if_true, List.singleton_append]
    rw [unq]; simp [h1, h2, h3, isQuote, Ne.symm h1]

theorem unq_quoteValue (w : Str) (hw : ∀ c ∈ w, c ≠ '\x00') (acc t : Str) :
    unq true (some '"') acc (quoteValue w ++ t) = unq true (some '"') (w.reverse ++ acc) t := by
  induction w generalizing acc with
  | nil => simp [quoteValue]
  | cons c w ih =>
    have : quoteValue (c :: w) = escChar c ++ quoteValue w := by simp [quoteValue]
    rw [this, List.append_assoc, unq_escChar c (hw c (by simp)), ih (fun d hd => hw d (by simp [hd]))]
    simp

/-- C04 (wholly double-quoted spelling): every NUL-free string has the spelling "…" and it reads back -/
theorem C04_dq (s : Str) (hs : ∀ c ∈ s, c ≠ '\x00') :
    unquoteValue true ('"' :: quoteValue s ++ ['"']) = some s := by
  unfold unquoteValue
  rw [List.cons_append, unq]
  simp only [isQuote, beq_self_eq_true, Bool.true_or, Bool.not_true, Option.isNone_none, Bool.or_true,
    List.isEmpty_nil, Bool.and_self, if_true]
  rw [unq_quoteValue s hs, unq]
  simp [isQuote, unq]

end P
