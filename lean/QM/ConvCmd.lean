import QM.ConvFrame
import QM.QuoteLemmas
/-! Whole-command shapes of the converters: on success the generated service holds an Exec line that is the rendering
    (`quote_words`) of an explicit argument vector in which the table-driven options of the unit's keys appear as
    contiguous segments, in table order, between the fixed parts. -/
namespace Cv
open MM

/-- the service has an entry `key=` in [Service] that is the rendering of `cmd` -/
def HasExec (svc : SUnit) (key : String) (cmd : List Str) : Prop :=
  (s key, P.quoteWords cmd) ∈ entriesOf svc (s "Service")

theorem HasExec.of_addRawExec {svc svc' : SUnit} {k : String} {args : List Str} (h : addRawExec svc k args = .ok svc') :
    HasExec svc' k args := by
  rw [addRawExec_ok _ _ _ _ h]
  unfold HasExec
  rw [entriesOf_addEntry]
  simp

theorem HasExec.addEntry {svc : SUnit} {key : String} {cmd : List Str} (h : HasExec svc key cmd) (S k v : Str) :
    HasExec (addEntry svc S k v) key cmd := by
  unfold HasExec at *
  rw [entriesOf_addEntry]
  split
  · rename_i e; rw [← e]; exact List.mem_append_left _ h
  · exact h

theorem HasExec.addS {svc : SUnit} {key : String} {cmd : List Str} (h : HasExec svc key cmd) (S k : String) (v : Str) :
    HasExec (addS svc S k v) key cmd := h.addEntry _ _ _

theorem HasExec.addRawExec {svc svc' : SUnit} {key : String} {cmd : List Str} (h : HasExec svc key cmd) {k : String} {args : List Str}
    (h2 : Cv.addRawExec svc k args = .ok svc') : HasExec svc' key cmd := by
  rw [addRawExec_ok _ _ _ _ h2]; exact h.addEntry _ _ _

theorem mem_setIn_of_ne {es : Entries} {k v key raw : Str} (h : (k, v) ∈ es) (hne : k ≠ key) : (k, v) ∈ setIn es key raw := by
  unfold setIn
  apply List.mem_append_left
  apply List.mem_append_left
  simp [h, hne]

theorem HasExec.setS {svc : SUnit} {key : String} {cmd : List Str} (h : HasExec svc key cmd) (S k : String) (v : Str)
    (hne : s key ≠ s k) : HasExec (setS svc S k v) key cmd := by
  unfold HasExec at *
  unfold Cv.setS
  rw [entriesOf_setEntry]
  split
  · rename_i e; rw [← e]; exact mem_setIn_of_ne h hne
  · exact h

theorem HasExec.oneShot {svc : SUnit} {key : String} {cmd : List Str} (h : HasExec svc key cmd) (remain : Bool)
    (h1 : s key ≠ s "SyslogIdentifier") (h2 : s key ≠ s "Type") (h3 : s key ≠ s "RemainAfterExit") :
    HasExec (oneShot svc remain) key cmd := by
  unfold Cv.oneShot
  simp only
  split <;> split <;> split <;>
    first
    | exact ((h.setS _ _ _ h1).setS _ _ _ h2).setS _ _ _ h3
    | exact (h.setS _ _ _ h1).setS _ _ _ h2
    | exact (h.setS _ _ _ h1).setS _ _ _ h3
    | exact (h.setS _ _ _ h2).setS _ _ _ h3
    | exact h.setS _ _ _ h1
    | exact h.setS _ _ _ h2
    | exact h.setS _ _ _ h3
    | exact h

theorem HasExec.applyWd {svc : SUnit} {key : String} {cmd : List Str} (h : HasExec svc key cmd) (wd : Option Str) :
    HasExec (applyWd svc wd) key cmd := by
  unfold Cv.applyWd
  split
  · exact h.addS _ _ _
  · exact h

/-- what systemd will run: the entry splits (extract_first_word, UNQUOTE|CUNESCAPE, iterated) into exactly `cmd` -/
theorem HasExec.splits {svc : SUnit} {key : String} {cmd : List Str} (h : HasExec svc key cmd)
    (hw : ∀ w ∈ cmd, ∀ c ∈ w, c ≠ '\x00') :
    ∃ raw, (s key, raw) ∈ entriesOf svc (s "Service") ∧ P.splitAll P.execFlags raw = some cmd :=
  ⟨_, h, P.collect_quoteWords cmd hw _ (by have := P.quoteWords_length cmd; omega)⟩

end Cv

namespace Cv
open MM

/-! ### .network -/

theorem C02_network_shape (E : Env) (path : Str) (u svc : SUnit) (n : Str) (h : fromNetwork E path u = .ok (svc, n)) :
    ∃ sub, HasExec svc "ExecStart"
      (baseCmd E u (s "Network") ++ [s "network", s "create", s "--ignore"]
        ++ addBool u (s "Network") Gen.tbl_from_network_unit_bool_keys
        ++ addString u (s "Network") Gen.tbl_from_network_unit_string_keys
        ++ addAllStrings u (s "Network") Gen.tbl_from_network_unit_inline_lookup_and_add_all_strings
        ++ sub ++ addKeys "--opt" (lookupAllKeyVal u (s "Network") (s "Options"))
        ++ addKeys "--label" (lookupAllKeyVal u (s "Network") (s "Label")) ++ podmanArgs u (s "Network") ++ [n]) := by
  unfold fromNetwork at h
  simp only [bind_ok] at h
  obtain ⟨_, _, _, _, sub, _, svc1, hexec, hfin⟩ := h
  simp only [pure, Except.pure, Except.ok.injEq, Prod.mk.injEq] at hfin
  obtain ⟨rfl, rfl⟩ := hfin
  refine ⟨sub, ?_⟩
  exact (HasExec.of_addRawExec hexec).oneShot true (by decide) (by decide) (by decide)


/-! ### .pod: the create command is ExecStartPre -/

def podNameOf (path : Str) (u : SUnit) : Str :=
  if ((lookup u (s "Pod") (s "PodName")).getD []).isEmpty then s "systemd-" ++ fileStem (fileName path)
  else (lookup u (s "Pod") (s "PodName")).getD []

theorem C02_pod_shape (E : Env) (path : Str) (u svc : SUnit) (cts : List Str) (h : fromPod E path u cts = .ok svc) :
    ∃ maps nets vols, HasExec svc "ExecStartPre"
      (baseCmd E u (s "Pod") ++ [s "pod", s "create", s "--infra-conmon-pidfile=%t/%N.pid", s "--pod-id-file=%t/%N.pod-id",
          s "--exit-policy=stop", s "--replace"]
        ++ maps ++ publishPorts u (s "Pod") ++ nets
        ++ (addString u (s "Pod") Gen.tbl_from_pod_unit_string_keys ++ addAllStrings u (s "Pod") Gen.tbl_from_pod_unit_all_string_keys)
        ++ vols ++ [s "--infra-name", podNameOf path u ++ s "-infra", s "--name", podNameOf path u] ++ podmanArgs u (s "Pod")) := by
  unfold fromPod at h
  simp only [bind_ok] at h
  obtain ⟨_, _, _, _, s1, _, s2, _, s3, _, maps, _, x5, _, x6, _, s7, hexec, hfin⟩ := h
  simp only [pure, Except.pure, Except.ok.injEq] at hfin
  subst hfin
  refine ⟨maps, x5.1, x6.1, ?_⟩
  exact ((((HasExec.of_addRawExec hexec).addS _ _ _).addS _ _ _).addS _ _ _).addS _ _ _


/-! ### .kube -/

def kubeAutoUpdate (u : SUnit) : List Str :=
  (lookupAllStrv u (s "Kube") (s "AutoUpdate")).flatMap fun upd =>
    match splitOnce '/' upd with
    | some (a, t) => [s "--annotation", s "io.containers.autoupdate" ++ ('/' :: a) ++ '=' :: t]
    | none => [s "--annotation", s "io.containers.autoupdate=" ++ upd]
def kubeConfigMaps (path : Str) (u : SUnit) : List Str :=
  (lookupAllStrv u (s "Kube") (s "ConfigMap")).flatMap fun c => [s "--configmap", absFromUnit path c]

theorem C02_kube_shape (E : Env) (path : Str) (u svc : SUnit) (h : fromKube E path u = .ok svc) :
    ∃ maps nets, HasExec svc "ExecStart"
      (baseCmd E u (s "Kube") ++ [s "kube", s "play", s "--replace", s "--service-container=true"]
        ++ (match lookup u (s "Kube") (s "ExitCodePropagation") with
            | some e => if e.isEmpty then [] else [s "--service-exit-code-propagation=" ++ e] | none => [])
        ++ logDriver u (s "Kube") ++ logOpt u (s "Kube")
        ++ maps ++ nets ++ kubeAutoUpdate u ++ kubeConfigMaps path u ++ publishPorts u (s "Kube") ++ podmanArgs u (s "Kube")
        ++ [absFromUnit path ((lookup u (s "Kube") (s "Yaml")).getD [])]) := by
  unfold fromKube at h
  simp only [bind_ok] at h
  obtain ⟨_, _, _, _, h⟩ := h
  split at h
  · exact absurd h (throw_bind_ne_ok _ _ _)
  · simp only [bind_ok] at h
    obtain ⟨s1, _, s2, _, maps, _, x4, _, s5, hexec, s6, hstop, x7, hwd, hfin⟩ := h
    simp only [pure, Except.pure, Except.ok.injEq] at hfin
    subst hfin
    refine ⟨maps, x4.1, ?_⟩
    have h1 := (HasExec.of_addRawExec hexec).addRawExec hstop
    unfold handleSetWorkingDirectory at hwd
    split at hwd
    · simp at hwd
    · simp only [Except.ok.injEq] at hwd
      rw [← hwd]
      exact h1.applyWd _


/-! ### .build -/

theorem C02_build_shape (E : Env) (path : Str) (u svc : SUnit) (h : fromBuild E path u = .ok svc) :
    ∃ nets vols fileArgs tail, HasExec svc "ExecStart"
      (baseCmd E u (s "Build") ++ [s "build"]
        ++ (match lookup u (s "Build") (s "Pull") with | some p => if p.isEmpty then [] else [s "--pull=" ++ p] | none => [])
        ++ addString u (s "Build") Gen.tbl_from_build_unit_string_keys
        ++ addBool u (s "Build") Gen.tbl_from_build_unit_bool_keys
        ++ addAllStrings u (s "Build") Gen.tbl_from_build_unit_all_string_keys
        ++ addKeys "--annotation" (lookupAllKeyVal u (s "Build") (s "Annotation"))
        ++ addKeys "--env" (lookupAllKeyVal u (s "Build") (s "Environment"))
        ++ addKeys "--label" (lookupAllKeyVal u (s "Build") (s "Label"))
        ++ nets ++ ((lookupAllArgs u (s "Build") (s "Secret")).flatMap fun x => [s "--secret", x])
        ++ vols ++ fileArgs ++ podmanArgs u (s "Build") ++ tail) := by
  unfold fromBuild at h
  simp only [bind_ok] at h
  obtain ⟨self, _, h⟩ := h
  split at h
  · exact absurd h (throw_bind_ne_ok _ _ _)
  · simp only [bind_ok] at h
    obtain ⟨_, _, _, _, x3, _, x4, _, x5, _, x6, _, tail, _, s8, hexec, hfin⟩ := h
    simp only [pure, Except.pure, Except.ok.injEq] at hfin
    subst hfin
    exact ⟨x3.1, x4.1, _, tail, (HasExec.of_addRawExec hexec).oneShot false (by decide) (by decide) (by decide)⟩


/-! ### .container -/

theorem typeAndNotify_ok (u : SUnit) (sec : Str) (cmd : List Str) (svc : SUnit) (r : List Str × SUnit)
    (h : typeAndNotify u sec cmd svc = .ok r) : ∃ t, r.1 = cmd ++ t := by
  unfold typeAndNotify at h
  simp only at h
  split at h
  · split at h
    · simp only [Except.ok.injEq] at h; subst h; exact ⟨[], by simp⟩
    · split at h
      · simp only [Except.ok.injEq] at h; subst h; exact ⟨_, rfl⟩
      · simp at h
  · simp only [Except.ok.injEq] at h; subst h; exact ⟨_, rfl⟩

theorem C02_container_shape (E : Env) (path : Str) (u svc : SUnit) (link : Option (Str × Str))
    (h : fromContainer E path u = some (.ok (svc, link))) :
    ∃ mid1 mounts podArgs image, HasExec svc "ExecStart"
      (containerHead E path u (s "Container") ++ mid1 ++ containerMid path u (s "Container") ++ mounts
        ++ healthArgs u (s "Container") ++ podArgs ++ podmanArgs u (s "Container") ++ containerTail u (s "Container") image) := by
  unfold fromContainer at h
  simp only at h
  split at h
  · simp at h
  · simp only [Option.some.injEq, bind_ok] at h
    obtain ⟨self, _, _, _, _, _, h⟩ := h
    split at h
    · exact absurd h (throw_bind_ne_ok _ _ _)
    · split at h
      · exact absurd h (throw_bind_ne_ok _ _ _)
      · simp only [bind_ok] at h
        obtain ⟨x1, h1, s2, h2, s3, h3, s4, h4, x5, h5, x6, h6, usr, _, maps, _, x7, h7, ports, _, x8, h8, x9, h9, s10, h10, hfin⟩ := h
        simp only [pure, Except.pure, Except.ok.injEq, Prod.mk.injEq] at hfin
        obtain ⟨rfl, _⟩ := hfin
        obtain ⟨t, ht⟩ := typeAndNotify_ok _ _ _ _ _ h6
        have hx := HasExec.of_addRawExec h10
        rw [ht] at hx
        refine ⟨x5.1 ++ t ++ containerSecurity E u (s "Container") ++ usr ++ maps ++ x7.1 ++ containerAutoUpdate u (s "Container") ++ ports,
          x8.1, x9.1, x1.1, ?_⟩
        simpa only [List.append_assoc] using hx


/-! ### .volume -/

theorem C02_volume_shape (E : Env) (path : Str) (u svc : SUnit) (n : Str) (h : fromVolume E path u = .ok (svc, n)) :
    ∃ cmd2, HasExec svc "ExecStart"
      (cmd2 ++ addKeys "--label" (lookupAllKeyVal u (s "Volume") (s "Label")) ++ podmanArgs u (s "Volume") ++ [n]) := by
  unfold fromVolume volumeOpts at h
  simp only [bind_ok] at h
  obtain ⟨_, _, _, _, x, _, svc1, hexec, hfin⟩ := h
  simp only [pure, Except.pure, Except.ok.injEq, Prod.mk.injEq] at hfin
  obtain ⟨rfl, rfl⟩ := hfin
  exact ⟨baseCmd E u (s "Volume") ++ [s "volume", s "create", s "--ignore"] ++ x.1, (HasExec.of_addRawExec hexec).oneShot true (by decide) (by decide) (by decide)⟩

/-! ### what systemd runs: the documented option of a table key is in the argument vector -/

/-- a single-valued table key with a non-empty value: `flag value` is a contiguous part of the row block -/
theorem rowString_infix (u : SUnit) (sec : Str) (rows : List (Str × Str)) (k f v : Str) (hr : (k, f) ∈ rows)
    (hv : lookup u sec k = some v) (hne : v.isEmpty = false) : [f, v] <:+: addString u sec rows := by
  unfold addString
  obtain ⟨l₁, l₂, rfl⟩ := List.append_of_mem hr
  simp only [List.flatMap_append, List.flatMap_cons, hv, hne, Bool.false_eq_true, if_false]
  exact List.infix_append' _ _ _

end Cv
