import QM.ConvFrame
import QM.QuoteLemmas
/-! Whole-command shapes of the converters: on success the generated service holds an Exec line that is the rendering
    (`quote_words`) of an explicit argument vector in which the table-driven options of the unit's keys appear as
    contiguous segments, in table order, between the fixed parts. -/
namespace Cv
open MM

/-- the service has an entry `key=` in [Service] that is the rendering of `cmd` -/
def HasExec (svc : SUnit) (key : String) (cmd : List Str) : Prop :=
  (s key, P.quoteWords cmd) ∈ entriesOf svc (s "Service")

theorem HasExec.of_addRawExec {svc svc' : SUnit} {k : String} {args : List Str} (h : addRawExec svc k args = .ok svc') :
    HasExec svc' k args := by
  rw [addRawExec_ok _ _ _ _ h]
  unfold HasExec
  rw [entriesOf_addEntry]
  simp

theorem HasExec.addEntry {svc : SUnit} {key : String} {cmd : List Str} (h : HasExec svc key cmd) (S k v : Str) :
    HasExec (addEntry svc S k v) key cmd := by
  unfold HasExec at *
  rw [entriesOf_addEntry]
  split
  · rename_i e; rw [← e]; exact List.mem_append_left _ h
  · exact h

theorem HasExec.addS {svc : SUnit} {key : String} {cmd : List Str} (h : HasExec svc key cmd) (S k : String) (v : Str) :
    HasExec (addS svc S k v) key cmd := h.addEntry _ _ _

theorem HasExec.addRawExec {svc svc' : SUnit} {key : String} {cmd : List Str} (h : HasExec svc key cmd) {k : String} {args : List Str}
    (h2 : Cv.addRawExec svc k args = .ok svc') : HasExec svc' key cmd := by
  rw [addRawExec_ok _ _ _ _ h2]; exact h.addEntry _ _ _

theorem mem_setIn_of_ne {es : Entries} {k v key raw : Str} (h : (k, v) ∈ es) (hne : k ≠ key) : (k, v) ∈ setIn es key raw := by
  unfold setIn
  apply List.mem_append_left
  apply List.mem_append_left
  simp [h, hne]

theorem HasExec.setS {svc : SUnit} {key : String} {cmd : List Str} (h : HasExec svc key cmd) (S k : String) (v : Str)
    (hne : s key ≠ s k) : HasExec (setS svc S k v) key cmd := by
  unfold HasExec at *
  unfold Cv.setS
  rw [entriesOf_setEntry]
  split
  · rename_i e; rw [← e]; exact mem_setIn_of_ne h hne
  · exact h

theorem HasExec.oneShot {svc : SUnit} {key : String} {cmd : List Str} (h : HasExec svc key cmd) (remain : Bool)
    (h1 : s key ≠ s "SyslogIdentifier") (h2 : s key ≠ s "Type") (h3 : s key ≠ s "RemainAfterExit") :
    HasExec (oneShot svc remain) key cmd := by
  unfold Cv.oneShot
  simp only
  split <;> split <;> split <;>
    first
    | exact ((h.setS _ _ _ h1).setS _ _ _ h2).setS _ _ _ h3
    | exact (h.setS _ _ _ h1).setS _ _ _ h2
    | exact (h.setS _ _ _ h1).setS _ _ _ h3
    | exact (h.setS _ _ _ h2).setS _ _ _ h3
    | exact h.setS _ _ _ h1
    | exact h.setS _ _ _ h2
    | exact h.setS _ _ _ h3
    | exact h

theorem HasExec.applyWd {svc : SUnit} {key : String} {cmd : List Str} (h : HasExec svc key cmd) (wd : Option Str) :
    HasExec (applyWd svc wd) key cmd := by
  unfold Cv.applyWd
  split
  · exact h.addS _ _ _
  · exact h

/-- what systemd will run: the entry splits (extract_first_word, UNQUOTE|CUNESCAPE, iterated) into exactly `cmd` -/
theorem HasExec.splits {svc : SUnit} {key : String} {cmd : List Str} (h : HasExec svc key cmd)
    (hw : ∀ w ∈ cmd, ∀ c ∈ w, c ≠ '\x00') :
    ∃ raw, (s key, raw) ∈ entriesOf svc (s "Service") ∧ P.splitAll P.execFlags raw = some cmd :=
  ⟨_, h, P.collect_quoteWords cmd hw _ (by have := P.quoteWords_length cmd; omega)⟩

end Cv
