import QM.LookupLemmas
import QM.Conv
/-! Frame and add-key lemmas for the table-driven emitters of the converters
    (`lookup_and_add_string`, `lookup_and_add_all_strings`, `lookup_and_add_bool`): an emitter row reads
    only the assignment history of its own key. -/
namespace Cv
open MM

theorem lookupLastValue_congr {u u' : SUnit} {sec k : Str} (h : assignments u sec k = assignments u' sec k) :
    lookupLastValue u sec k = lookupLastValue u' sec k := by unfold lookupLastValue; rw [h]
theorem lookup_congr {u u' : SUnit} {sec k : Str} (h : assignments u sec k = assignments u' sec k) :
    lookup u sec k = lookup u' sec k := by unfold lookup; rw [lookupLastValue_congr h]
theorem lookupAllValues_congr {u u' : SUnit} {sec k : Str} (h : assignments u sec k = assignments u' sec k) :
    lookupAllValues u sec k = lookupAllValues u' sec k := by unfold lookupAllValues; rw [h]
theorem lookupAll_congr {u u' : SUnit} {sec k : Str} (h : assignments u sec k = assignments u' sec k) :
    lookupAll u sec k = lookupAll u' sec k := by unfold lookupAll; rw [lookupAllValues_congr h]
theorem lookupBool_congr {u u' : SUnit} {sec k : Str} (h : assignments u sec k = assignments u' sec k) :
    lookupBool u sec k = lookupBool u' sec k := by unfold lookupBool; rw [lookupLastValue_congr h]
theorem lookupAllArgs_congr {u u' : SUnit} {sec k : Str} (h : assignments u sec k = assignments u' sec k) :
    lookupAllArgs u sec k = lookupAllArgs u' sec k := by unfold lookupAllArgs; rw [lookupAllValues_congr h]
theorem lookupAllStrv_congr {u u' : SUnit} {sec k : Str} (h : assignments u sec k = assignments u' sec k) :
    lookupAllStrv u sec k = lookupAllStrv u' sec k := by unfold lookupAllStrv; rw [lookupAllValues_congr h]
theorem lookupAllKeyVal_congr {u u' : SUnit} {sec k : Str} (h : assignments u sec k = assignments u' sec k) :
    lookupAllKeyVal u sec k = lookupAllKeyVal u' sec k := by unfold lookupAllKeyVal; rw [lookupAllValues_congr h]

/-- what one row of each table kind emits -/
def rowString (u : SUnit) (sec : Str) (r : Str × Str) : List Str :=
  match lookup u sec r.1 with
  | some v => if v.isEmpty then [] else [r.2, v]
  | none => []
def rowAll (u : SUnit) (sec : Str) (r : Str × Str) : List Str := (lookupAll u sec r.1).flatMap fun v => [r.2, v]
def rowBool (u : SUnit) (sec : Str) (r : Str × Str) : List Str :=
  match lookupBool u sec r.1 with
  | some true => [r.2]
  | some false => [r.2 ++ s "=false"]
  | none => []

theorem addString_eq (u : SUnit) (sec : Str) (rows : List (Str × Str)) : addString u sec rows = rows.flatMap (rowString u sec) := rfl
theorem addAllStrings_eq (u : SUnit) (sec : Str) (rows : List (Str × Str)) : addAllStrings u sec rows = rows.flatMap (rowAll u sec) := rfl
theorem addBool_eq (u : SUnit) (sec : Str) (rows : List (Str × Str)) : addBool u sec rows = rows.flatMap (rowBool u sec) := rfl

theorem rowString_congr {u u' : SUnit} {sec : Str} {r : Str × Str} (h : assignments u sec r.1 = assignments u' sec r.1) :
    rowString u sec r = rowString u' sec r := by unfold rowString; rw [lookup_congr h]
theorem rowAll_congr {u u' : SUnit} {sec : Str} {r : Str × Str} (h : assignments u sec r.1 = assignments u' sec r.1) :
    rowAll u sec r = rowAll u' sec r := by unfold rowAll; rw [lookupAll_congr h]
theorem rowBool_congr {u u' : SUnit} {sec : Str} {r : Str × Str} (h : assignments u sec r.1 = assignments u' sec r.1) :
    rowBool u sec r = rowBool u' sec r := by unfold rowBool; rw [lookupBool_congr h]

theorem flatMap_congr' {α β} (f g : α → List β) (l : List α) (h : ∀ x ∈ l, f x = g x) : l.flatMap f = l.flatMap g := by
  induction l with
  | nil => rfl
  | cons x l ih => simp only [List.flatMap_cons]; rw [h x (by simp), ih (fun y hy => h y (by simp [hy]))]

/-- generic add-key lemma for a table of rows whose emission depends only on the row's own key history -/
theorem rows_add_key (row : SUnit → Str → Str × Str → List Str)
    (hcongr : ∀ (u u' : SUnit) (sec : Str) (r : Str × Str), assignments u sec r.1 = assignments u' sec r.1 → row u sec r = row u' sec r)
    (u : SUnit) (sec k raw : Str) (pre post : List (Str × Str)) (f : Str)
    (hpre : ∀ r ∈ pre, r.1 ≠ k) (hpost : ∀ r ∈ post, r.1 ≠ k) :
    (pre ++ (k, f) :: post).flatMap (row (addEntry u sec k raw) sec)
      = pre.flatMap (row u sec) ++ row (addEntry u sec k raw) sec (k, f) ++ post.flatMap (row u sec) := by
  have other : ∀ l : List (Str × Str), (∀ r ∈ l, r.1 ≠ k) →
      l.flatMap (row (addEntry u sec k raw) sec) = l.flatMap (row u sec) := by
    intro l hl
    apply flatMap_congr'
    intro r hr
    apply hcongr
    rw [assignments_addEntry]
    have : ¬ k = r.1 := fun e => hl r hr e.symm
    simp [this]
  simp only [List.flatMap_append, List.flatMap_cons]
  rw [other pre hpre, other post hpost]; simp

end Cv
