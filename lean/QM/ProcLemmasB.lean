import QM.ProcLemmasA
import QM.ConvFrame
/-! reads_lower and the link lemmas of the conversion loop -/
namespace Cv
open MM

/-- `reads_lower`: whoever a unit reads has either published before it is processed (strictly lower priority) or never publishes -/
theorem reads_lower (b : Bool) (u u' : QUnit) (n : Str) (hn : n ∈ readsOf u) (hname : u'.name = n) :
    prio u'.ty < prio u.ty ∨ publishOf b u' = none := by
  by_cases hp : isPublisher u'.ty = true
  · left
    by_cases hu : isPublisher u.ty = true
    · -- a publisher that reads: only .volume (Image= of the image driver)
      unfold readsOf at hn
      simp only [isPublisher, Bool.or_eq_true] at hu
      by_cases c1 : (u.ty == s "image") = true
      · simp [c1] at hn
      by_cases c2 : (u.ty == s "volume") = true
      · simp only [c1, c2, Bool.false_eq_true, if_false, if_true] at hn
        have hty : u.ty = s "volume" := by simpa using c2
        cases hi : lookup u.unit (s "Volume") (s "Image") with
        | none => simp [hi] at hn
        | some img =>
          simp only [hi, imageRefs] at hn
          split at hn
          · rename_i hc
            simp only [List.mem_singleton] at hn
            subst hn
            have hext : u'.ty = extension n := by unfold QUnit.ty; rw [hname]
            simp only [Bool.or_eq_true] at hc
            have : u'.ty = s "image" := by
              rcases hc with hc | hc
              · obtain ⟨pre, rfl⟩ := (endsWith_iff _ _).mp hc
                rw [extension_build] at hext
                rw [hext] at hp
                exfalso
                split at hp
                · exact absurd hp (by decide)
                · exact absurd hp (by decide)
              · obtain ⟨pre, rfl⟩ := (endsWith_iff _ _).mp hc
                rw [extension_image] at hext
                rw [hext] at hp
                split at hp
                · exact absurd hp (by decide)
                · rename_i hne; rw [hext, if_neg hne]
            rw [this, hty]
            exact prio_image_lt_volume
          · simp at hn
      · have c3 : (u.ty == s "network") = true := by
          rcases hu with (h | h) | h
          · exact absurd h c1
          · exact absurd h c2
          · exact h
        simp [c1, c2, c3] at hn
    · have h1 := prio_publisher _ hp
      have h2 := prio_nonpublisher _ (by simpa using hu)
      omega
  · right
    exact publishOf_none b u' (by simpa using hp)

theorem handlePod_link (E : Env) (u : SUnit) (sec : Str) (svc : SUnit) (own : Str) (a : List Str) (svc' : SUnit) (p c : Str)
    (h : handlePod E u sec svc own = .ok (a, svc', some (p, c))) : endsWith p (s ".pod") = true := by
  unfold handlePod at h
  split at h
  · simp at h
  · rename_i pod _
    split at h
    · simp at h
    · split at h
      · simp at h
      · rename_i hends
        split at h
        · simp at h
        · simp only [Except.ok.injEq, Prod.mk.injEq] at h
          obtain ⟨_, _, hl⟩ := h
          split at hl
          · simp only [Option.some.injEq, Prod.mk.injEq] at hl
            rw [← hl.1]; simpa using hends
          · simp at hl

theorem fromContainer_link (E : Env) (path : Str) (u svc : SUnit) (p c : Str)
    (h : fromContainer E path u = some (.ok (svc, some (p, c)))) : endsWith p (s ".pod") = true := by
  unfold fromContainer at h
  simp only at h
  split at h
  · simp at h
  · simp only [Option.some.injEq, bind_ok] at h
    obtain ⟨self, _, _, _, _, _, h⟩ := h
    split at h
    · exact absurd h (throw_bind_ne_ok _ _ _)
    · split at h
      · exact absurd h (throw_bind_ne_ok _ _ _)
      · simp only [bind_ok] at h
        obtain ⟨x1, h1, s2, h2, s3, h3, s4, h4, x5, h5, x6, h6, _, _, _, _, x7, h7, _, _, x8, h8, x9, h9, s10, h10, hfin⟩ := h
        simp only [pure, Except.pure, Except.ok.injEq, Prod.mk.injEq] at hfin
        obtain ⟨_, hl⟩ := hfin
        obtain ⟨a9, s9, l9⟩ := x9
        simp only at hl
        subst hl
        exact handlePod_link _ _ _ _ _ _ _ _ _ h9

end Cv
