import QM.MMap
namespace MM

theorem lookup_none_of_not_mem (u : SUnit) (sec : Str) (h : sec ∉ u.map Prod.fst) : u.lookup sec = none := by
  induction u with
  | nil => rfl
  | cons p u ih =>
    obtain ⟨s, es⟩ := p
    simp only [List.map_cons, List.mem_cons, not_or] at h
    rw [lookup_cons_ne _ _ _ _ h.1]; exact ih h.2

theorem entriesOf_mergeFrom (v o : SUnit) (hnd : (o.map Prod.fst).Nodup) (s : Str) :
    entriesOf (mergeFrom v o) s = entriesOf v s ++ entriesOf o s := by
  induction o generalizing v with
  | nil => simp [mergeFrom, entriesOf, List.lookup]
  | cons p o ih =>
    obtain ⟨a, es⟩ := p
    simp only [List.map_cons, List.nodup_cons] at hnd
    simp only [mergeFrom, List.foldl_cons] at ih ⊢
    rw [ih _ hnd.2, entriesOf_addAll]
    by_cases hs : s = a
    · subst hs
      have h0 : entriesOf o s = [] := by simp [entriesOf, lookup_none_of_not_mem o s hnd.1]
      have h1 : entriesOf ((s, es) :: o) s = es := by simp [entriesOf, List.lookup]
      rw [h0, h1]; simp
    · simp [hs, entriesOf, lookup_cons_ne _ _ _ _ hs]

def assignmentsOf (es : Entries) (key : Str) : List Str :=
  es.filterMap (fun kv => if kv.1 == key then some kv.2 else none)
def lastOf (es : Entries) (key : Str) : Option Str := (assignmentsOf es key).getLast?

def firstUnknown (es : Entries) (supported : List Str) : Option Str :=
  (es.find? (fun kv => !supported.contains kv.1)).map Prod.fst

structure Params where
  unq : Str → Str
  toBool : Str → Bool
  quoteValue : Str → Str
  quoteWords : List Str → Str
  splitArgs : Str → List Str
  podman : Str
  supportedImage : List Str
  supportedQuadlet : List Str

inductive Err | unknownKey (k : Str) | noImage deriving DecidableEq

def s (x : String) : Str := x.toList

def handleDefaultDeps (P : Params) (svc : SUnit) : SUnit :=
  if ((lastOf (entriesOf svc (s "Quadlet")) (s "DefaultDependencies")).map P.toBool).getD true then
    prependEntry (prependEntry svc (s "Unit") (s "After") (s "network-online.target")) (s "Unit") (s "Wants") (s "network-online.target")
  else svc

def setIfAbsent (svc : SUnit) (sec key raw : Str) : SUnit :=
  if (lastOf (entriesOf svc sec) key).isNone then setEntry svc sec key raw else svc

def oneShot (svc : SUnit) : SUnit :=
  let svc := setIfAbsent svc (s "Service") (s "SyslogIdentifier") (s "%N")
  let svc := setIfAbsent svc (s "Service") (s "Type") (s "oneshot")
  setIfAbsent svc (s "Service") (s "RemainAfterExit") (s "yes")

/-- the podman command of an .image unit (key rows abstracted into `keyOpts`) -/
def imageCmd (P : Params) (keyOpts : Entries → List Str) (es : Entries) (imageName : Str) : List Str :=
  [P.podman] ++ ((assignmentsOf es (s "ContainersConfModule")).flatMap fun r => [s "--module", P.unq r])
    ++ ((assignmentsOf es (s "GlobalArgs")).flatMap P.splitArgs)
    ++ [s "image", s "pull"] ++ keyOpts es
    ++ ((assignmentsOf es (s "PodmanArgs")).flatMap P.splitArgs) ++ [imageName]

def fromImage (P : Params) (keyOpts : Entries → List Str) (path : Str) (u : SUnit) : Except Err SUnit :=
  let svc := mergeFrom [] u
  let svc := handleDefaultDeps P svc
  let svc := if path.isEmpty then svc else addEntry svc (s "Unit") (s "SourcePath") (P.quoteValue path)
  match firstUnknown (entriesOf u (s "Image")) P.supportedImage with
  | some k => .error (.unknownKey k)
  | none =>
  match firstUnknown (entriesOf u (s "Quadlet")) P.supportedQuadlet with
  | some k => .error (.unknownKey k)
  | none =>
  let imageName := ((lastOf (entriesOf u (s "Image")) (s "Image")).map P.unq).getD []
  if imageName.isEmpty then .error .noImage else
  let svc := renameSection svc (s "Image") (s "X-Image")
  let svc := renameSection svc (s "Quadlet") (s "X-Quadlet")
  let svc := addEntry svc (s "Unit") (s "RequiresMountsFor") (s "%t/containers")
  let svc := addEntry svc (s "Service") (s "ExecStart") (P.quoteWords (imageCmd P keyOpts (entriesOf u (s "Image")) imageName))
  .ok (oneShot svc)

/-- C16 (image): a key outside the supported table always fails the unit, and names the first such key -/
theorem image_rejects_unknown (P : Params) (ko path u) (k : Str)
    (h : firstUnknown (entriesOf u (s "Image")) P.supportedImage = some k) :
    fromImage P ko path u = .error (.unknownKey k) := by
  simp [fromImage, h]

theorem firstUnknown_some_iff (es : Entries) (sup : List Str) :
    (∃ k, firstUnknown es sup = some k) ↔ ∃ kv ∈ es, kv.1 ∉ sup := by
  unfold firstUnknown
  constructor
  · rintro ⟨k, hk⟩
    cases hf : es.find? (fun kv => !sup.contains kv.1) with
    | none => rw [hf] at hk; simp at hk
    | some kv =>
      refine ⟨kv, List.mem_of_find?_eq_some hf, ?_⟩
      have := List.find?_some hf; simpa using this
  · rintro ⟨kv, hm, hn⟩
    cases hf : es.find? (fun kv => !sup.contains kv.1) with
    | none =>
      have := List.find?_eq_none.mp hf kv hm
      simp at this; exact absurd this hn
    | some kv' => exact ⟨kv'.1, rfl⟩

end MM

namespace MM

theorem entriesOf_deps (P : Params) (svc : SUnit) (S : Str) (h : S ≠ s "Unit") :
    entriesOf (handleDefaultDeps P svc) S = entriesOf svc S := by
  unfold handleDefaultDeps
  split
  · rw [entriesOf_prepend, if_neg h, entriesOf_prepend, if_neg h]
  · rfl

theorem entriesOf_deps_unit (P : Params) (svc : SUnit) :
    ∃ d, entriesOf (handleDefaultDeps P svc) (s "Unit") = d ++ entriesOf svc (s "Unit") ∧
      (d = [] ∨ d = [(s "Wants", s "network-online.target"), (s "After", s "network-online.target")]) := by
  unfold handleDefaultDeps
  split
  · refine ⟨_, ?_, Or.inr rfl⟩
    rw [entriesOf_prepend, if_pos rfl, entriesOf_prepend, if_pos rfl]; simp
  · exact ⟨[], by simp, Or.inl rfl⟩

theorem entriesOf_setIfAbsent (svc : SUnit) (sec key raw S : Str) (h : S ≠ sec) :
    entriesOf (setIfAbsent svc sec key raw) S = entriesOf svc S := by
  unfold setIfAbsent; split
  · rw [entriesOf_setEntry]; simp [h]
  · rfl

theorem entriesOf_oneShot (svc : SUnit) (S : Str) (h : S ≠ s "Service") :
    entriesOf (oneShot svc) S = entriesOf svc S := by
  simp only [oneShot]
  rw [entriesOf_setIfAbsent _ _ _ _ _ h, entriesOf_setIfAbsent _ _ _ _ _ h, entriesOf_setIfAbsent _ _ _ _ _ h]

/-- the service built by the image converter, as one expression (what `fromImage` returns on success) -/
def imageSvc (P : Params) (ko : Entries → List Str) (path : Str) (u : SUnit) (imageName : Str) : SUnit :=
  let svc := mergeFrom [] u
  let svc := handleDefaultDeps P svc
  let svc := if path.isEmpty then svc else addEntry svc (s "Unit") (s "SourcePath") (P.quoteValue path)
  let svc := renameSection svc (s "Image") (s "X-Image")
  let svc := renameSection svc (s "Quadlet") (s "X-Quadlet")
  let svc := addEntry svc (s "Unit") (s "RequiresMountsFor") (s "%t/containers")
  let svc := addEntry svc (s "Service") (s "ExecStart") (P.quoteWords (imageCmd P ko (entriesOf u (s "Image")) imageName))
  oneShot svc

theorem fromImage_ok (P : Params) (ko path u svc) (h : fromImage P ko path u = .ok svc) :
    ∃ n, svc = imageSvc P ko path u n := by
  unfold fromImage at h
  simp only at h
  split at h
  · simp at h
  · split at h
    · simp at h
    · split at h
      · simp at h
      · simp only [Except.ok.injEq] at h
        exact ⟨_, h.symm⟩

/-- C07 (image, other sections): every section the converter does not own is copied verbatim, in order -/
theorem image_passthrough (P : Params) (ko path u svc) (hnd : (u.map Prod.fst).Nodup)
    (h : fromImage P ko path u = .ok svc) (S : Str)
    (hS : S ≠ s "Image" ∧ S ≠ s "Quadlet" ∧ S ≠ s "X-Image" ∧ S ≠ s "X-Quadlet" ∧ S ≠ s "Unit" ∧ S ≠ s "Service") :
    entriesOf svc S = entriesOf u S := by
  obtain ⟨n, rfl⟩ := fromImage_ok P ko path u svc h
  obtain ⟨h1, h2, h3, h4, h5, h6⟩ := hS
  simp only [imageSvc]
  rw [entriesOf_oneShot _ _ h6, entriesOf_addEntry, if_neg h6, entriesOf_addEntry, if_neg h5,
    entriesOf_rename _ _ _ _ (by decide), if_neg h2, if_neg h4,
    entriesOf_rename _ _ _ _ (by decide), if_neg h1, if_neg h3]
  have hm : entriesOf (handleDefaultDeps P (mergeFrom [] u)) S = entriesOf u S := by
    rw [entriesOf_deps _ _ _ h5, entriesOf_mergeFrom [] u hnd]; simp [entriesOf, List.lookup]
  split
  · exact hm
  · rw [entriesOf_addEntry, if_neg h5]; exact hm

/-- C07 (image, X-section): the Image section is kept verbatim under X-Image (after whatever the user
    already had in a section of that name), and no section named Image remains -/
theorem image_xsection (P : Params) (ko path u svc) (hnd : (u.map Prod.fst).Nodup)
    (h : fromImage P ko path u = .ok svc) :
    entriesOf svc (s "X-Image") = entriesOf u (s "X-Image") ++ entriesOf u (s "Image") ∧
    entriesOf svc (s "Image") = [] := by
  obtain ⟨n, rfl⟩ := fromImage_ok P ko path u svc h
  have base : ∀ S, S ≠ s "Unit" → entriesOf
      (if path.isEmpty then handleDefaultDeps P (mergeFrom [] u)
       else addEntry (handleDefaultDeps P (mergeFrom [] u)) (s "Unit") (s "SourcePath") (P.quoteValue path)) S
      = entriesOf u S := by
    intro S hS
    have hm : entriesOf (handleDefaultDeps P (mergeFrom [] u)) S = entriesOf u S := by
      rw [entriesOf_deps _ _ _ hS, entriesOf_mergeFrom [] u hnd]; simp [entriesOf, List.lookup]
    split
    · exact hm
    · rw [entriesOf_addEntry, if_neg hS]; exact hm
  simp only [imageSvc]
  constructor
  · rw [entriesOf_oneShot _ _ (by decide), entriesOf_addEntry, if_neg (by decide), entriesOf_addEntry,
      if_neg (by decide), entriesOf_rename _ _ _ _ (by decide), if_neg (by decide), if_neg (by decide),
      entriesOf_rename _ _ _ _ (by decide), if_neg (by decide), if_pos rfl,
      base _ (by decide), base _ (by decide)]
  · rw [entriesOf_oneShot _ _ (by decide), entriesOf_addEntry, if_neg (by decide), entriesOf_addEntry,
      if_neg (by decide), entriesOf_rename _ _ _ _ (by decide), if_neg (by decide), if_neg (by decide),
      entriesOf_rename _ _ _ _ (by decide), if_pos rfl]

end MM
