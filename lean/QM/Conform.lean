import QM.Generated.Tables
import QM.Spec.Keys
/-! Conformance of the tables extracted from the source (Gen.*, regenerated on every run) with the frozen
    specification tables (Spec.*): order-insensitive equality, decided by evaluation over the finite tables. -/
namespace Conform

def sameSet (a b : List (List Char)) : Bool := a.all (b.contains ·) && b.all (a.contains ·)
def sameRows (a b : List (List Char × List Char)) : Bool := a.all (b.contains ·) && b.all (a.contains ·)

theorem supported_container : sameSet Gen.SUPPORTED_CONTAINER_KEYS Spec.documented_SUPPORTED_CONTAINER_KEYS = true := by decide +kernel
theorem supported_pod : sameSet Gen.SUPPORTED_POD_KEYS Spec.documented_SUPPORTED_POD_KEYS = true := by decide +kernel
theorem supported_volume : sameSet Gen.SUPPORTED_VOLUME_KEYS Spec.documented_SUPPORTED_VOLUME_KEYS = true := by decide +kernel
theorem supported_network : sameSet Gen.SUPPORTED_NETWORK_KEYS Spec.documented_SUPPORTED_NETWORK_KEYS = true := by decide +kernel
theorem supported_kube : sameSet Gen.SUPPORTED_KUBE_KEYS Spec.documented_SUPPORTED_KUBE_KEYS = true := by decide +kernel
theorem supported_image : sameSet Gen.SUPPORTED_IMAGE_KEYS Spec.documented_SUPPORTED_IMAGE_KEYS = true := by decide +kernel
theorem supported_build : sameSet Gen.SUPPORTED_BUILD_KEYS Spec.documented_SUPPORTED_BUILD_KEYS = true := by decide +kernel
theorem supported_quadlet : sameSet Gen.SUPPORTED_QUADLET_KEYS Spec.documented_SUPPORTED_QUADLET_KEYS = true := by decide +kernel
theorem supported_extensions : sameSet Gen.SUPPORTED_EXTENSIONS Spec.documented_SUPPORTED_EXTENSIONS = true := by decide +kernel

/-! key -> option rows of every converter and handler -/
theorem rows_from_build_unit_all_string_keys : sameRows Gen.tbl_from_build_unit_all_string_keys Spec.rows_from_build_unit_all_string_keys = true := by decide +kernel
theorem rows_from_build_unit_bool_keys : sameRows Gen.tbl_from_build_unit_bool_keys Spec.rows_from_build_unit_bool_keys = true := by decide +kernel
theorem rows_from_build_unit_string_keys : sameRows Gen.tbl_from_build_unit_string_keys Spec.rows_from_build_unit_string_keys = true := by decide +kernel
theorem rows_from_container_unit_all_string_keys : sameRows Gen.tbl_from_container_unit_all_string_keys Spec.rows_from_container_unit_all_string_keys = true := by decide +kernel
theorem rows_from_container_unit_bool_keys : sameRows Gen.tbl_from_container_unit_bool_keys Spec.rows_from_container_unit_bool_keys = true := by decide +kernel
theorem rows_from_container_unit_string_keys : sameRows Gen.tbl_from_container_unit_string_keys Spec.rows_from_container_unit_string_keys = true := by decide +kernel
theorem rows_from_image_unit_bool_keys : sameRows Gen.tbl_from_image_unit_bool_keys Spec.rows_from_image_unit_bool_keys = true := by decide +kernel
theorem rows_from_image_unit_string_keys : sameRows Gen.tbl_from_image_unit_string_keys Spec.rows_from_image_unit_string_keys = true := by decide +kernel
theorem rows_from_network_unit_bool_keys : sameRows Gen.tbl_from_network_unit_bool_keys Spec.rows_from_network_unit_bool_keys = true := by decide +kernel
theorem rows_from_network_unit_inline_lookup_and_add_all_strings : sameRows Gen.tbl_from_network_unit_inline_lookup_and_add_all_strings Spec.rows_from_network_unit_inline_lookup_and_add_all_strings = true := by decide +kernel
theorem rows_from_network_unit_string_keys : sameRows Gen.tbl_from_network_unit_string_keys Spec.rows_from_network_unit_string_keys = true := by decide +kernel
theorem rows_from_pod_unit_all_string_keys : sameRows Gen.tbl_from_pod_unit_all_string_keys Spec.rows_from_pod_unit_all_string_keys = true := by decide +kernel
theorem rows_from_pod_unit_string_keys : sameRows Gen.tbl_from_pod_unit_string_keys Spec.rows_from_pod_unit_string_keys = true := by decide +kernel
theorem rows_get_base_podman_command_inline_lookup_and_add_all_strings : sameRows Gen.tbl_get_base_podman_command_inline_lookup_and_add_all_strings Spec.rows_get_base_podman_command_inline_lookup_and_add_all_strings = true := by decide +kernel
theorem rows_handle_health_key_arg_map : sameRows Gen.tbl_handle_health_key_arg_map Spec.rows_handle_health_key_arg_map = true := by decide +kernel
theorem rows_handle_publish_ports_inline_lookup_and_add_all_strings : sameRows Gen.tbl_handle_publish_ports_inline_lookup_and_add_all_strings Spec.rows_handle_publish_ports_inline_lookup_and_add_all_strings = true := by decide +kernel

def sameKinds (a b : List (List Char × List Char × List Char × List Char)) : Bool := a.all (b.contains ·) && b.all (a.contains ·)
/-- which lookup (last / all / args / strv / key-val / bool) each key goes through -/
theorem lookup_kinds : sameKinds Gen.lookupKinds Spec.lookupKinds = true := by decide +kernel
/-- every converter checks its own section and [Quadlet] against the right table -/
theorem unknown_key_checks : Gen.unknownKeyChecks = Spec.unknownKeyChecks := by decide +kernel
theorem sorting_priority : (Gen.sortingPriority.all (Spec.sortingPriority.contains ·) && Spec.sortingPriority.all (Gen.sortingPriority.contains ·)) = true := by decide +kernel
theorem service_suffix : sameRows Gen.serviceSuffix Spec.serviceSuffix = true := by decide +kernel

end Conform
