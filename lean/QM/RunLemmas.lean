import QM.Run
/-! The loop of `Cv.process` in closed form: the effects and errors of a run are those before the loop followed by the
    contributions of the converted units, one after the other. -/
namespace Cv
open MM

/-- the effects one converted unit contributes -/
def stepEffs (cfg : Cfg) (w : World) (qo : QUnit × Out) : List Eff :=
  match qo.2 with
  | .ok svc =>
    if cfg.dryRun then [Eff.print (svcPathOf cfg qo.1) (Parse.printUnit svc)]
    else if writeOk cfg w qo.1 svc then
      [Eff.write (svcPathOf cfg qo.1) (writtenText svc), Eff.enable (svcFileOf qo.1) (Inst.planLinks (svcFileOf qo.1) svc)]
    else [Eff.writeFailed (svcPathOf cfg qo.1)]
  | _ => []

/-- the errors one converted unit contributes -/
def stepErrs (cfg : Cfg) (w : World) (qo : QUnit × Out) : List RunErr :=
  match qo.2 with
  | .err e => [RunErr.convert qo.1.path e]
  | .ok svc => if !cfg.dryRun && !writeOk cfg w qo.1 svc then [RunErr.write (svcPathOf cfg qo.1)] else []
  | .outOfModel => []

theorem emitStep_effs (cfg : Cfg) (w : World) (acc : ProcOut) (qo : QUnit × Out) :
    (emitStep cfg w acc qo).effs = acc.effs ++ stepEffs cfg w qo := by
  unfold emitStep stepEffs
  cases qo.2 with
  | err e => simp
  | outOfModel => simp
  | ok svc =>
    simp only
    unfold emitOk emitWrite
    cases cfg.dryRun
    · cases writeOk cfg w qo.1 svc <;> simp
    · simp

theorem emitStep_errs (cfg : Cfg) (w : World) (acc : ProcOut) (qo : QUnit × Out) :
    (emitStep cfg w acc qo).errs = acc.errs ++ stepErrs cfg w qo := by
  unfold emitStep stepErrs
  cases qo.2 with
  | err e => simp
  | outOfModel => simp
  | ok svc =>
    simp only
    unfold emitOk emitWrite
    cases cfg.dryRun
    · cases writeOk cfg w qo.1 svc <;> simp
    · simp

theorem loop_effs (cfg : Cfg) (w : World) (l : List (QUnit × Out)) :
    ∀ acc : ProcOut, (l.foldl (emitStep cfg w) acc).effs = acc.effs ++ l.flatMap (stepEffs cfg w) := by
  induction l with
  | nil => intro acc; simp
  | cons qo l ih => intro acc; rw [List.foldl_cons, ih, emitStep_effs, List.flatMap_cons, List.append_assoc]

theorem loop_errs (cfg : Cfg) (w : World) (l : List (QUnit × Out)) :
    ∀ acc : ProcOut, (l.foldl (emitStep cfg w) acc).errs = acc.errs ++ l.flatMap (stepErrs cfg w) := by
  induction l with
  | nil => intro acc; simp
  | cons qo l ih => intro acc; rw [List.foldl_cons, ih, emitStep_errs, List.flatMap_cons, List.append_assoc]

/-- the units of a run after their drop-ins were merged, in the order in which they are converted, each with its result -/
def converted (t : Tree) : List (QUnit × Out) := processUnits ((withDropins t (loadedUnits t)).map (·.1))

/-- the errors collected before the loop: files that could not be loaded, units whose drop-ins could not be merged -/
def earlyErrs (t : Tree) : List RunErr :=
  (loadErrPaths t).map RunErr.load ++ ((withDropins t (loadedUnits t)).filter (·.2)).map (fun p => RunErr.dropin p.1.path)

/-- a run that reaches the loop (something was loaded, and the output directory exists or is not needed), in closed form -/
theorem process_effs (cfg : Cfg) (w : World) (t : Tree) (hq : (loadedUnits t).isEmpty = false)
    (hm : cfg.dryRun = true ∨ w.mkdirOk = true) :
    (process cfg w t).effs = (if cfg.dryRun then [] else [Eff.mkdir cfg.out]) ++ (converted t).flatMap (stepEffs cfg w) := by
  unfold process
  have : (!cfg.dryRun && !w.mkdirOk) = false := by rcases hm with h | h <;> simp [h]
  simp only [hq, this, Bool.false_eq_true, if_false]
  rw [loop_effs]
  rfl

theorem process_errs (cfg : Cfg) (w : World) (t : Tree) (hq : (loadedUnits t).isEmpty = false)
    (hm : cfg.dryRun = true ∨ w.mkdirOk = true) :
    (process cfg w t).errs = earlyErrs t ++ (converted t).flatMap (stepErrs cfg w) := by
  unfold process
  have : (!cfg.dryRun && !w.mkdirOk) = false := by rcases hm with h | h <;> simp [h]
  simp only [hq, this, Bool.false_eq_true, if_false]
  rw [loop_errs]
  rfl

/-- nothing was loaded: only the load errors, no effect at all -/
theorem process_nothing_loaded (cfg : Cfg) (w : World) (t : Tree) (hq : (loadedUnits t).isEmpty = true) :
    (process cfg w t).effs = [] ∧ (process cfg w t).errs = (loadErrPaths t).map RunErr.load := by
  unfold process; simp [hq]

/-- the output directory cannot be created: that is reported, nothing is converted, nothing is written -/
theorem process_mkdir_fails (cfg : Cfg) (w : World) (t : Tree) (hq : (loadedUnits t).isEmpty = false)
    (hd : cfg.dryRun = false) (hm : w.mkdirOk = false) :
    (process cfg w t).effs = [] ∧ (process cfg w t).errs = earlyErrs t ++ [RunErr.mkdir cfg.out] := by
  unfold process; simp [hq, hd, hm, earlyErrs]

end Cv

namespace Cv
open MM

theorem dropin_fold (t : Tree) (qs : List QUnit) :
    ∀ (a : List QUnit) (n : Nat),
      qs.foldl (fun (acc : List QUnit × Nat) q =>
        (acc.1 ++ [(loadDropins t q).1], if (loadDropins t q).2 = true then acc.2 + 1 else acc.2)) (a, n)
      = (a ++ (withDropins t qs).map (·.1), n + ((withDropins t qs).filter (·.2)).length) := by
  induction qs with
  | nil => intro a n; simp [withDropins]
  | cons q qs ih =>
    intro a n
    rw [List.foldl_cons]
    simp only [withDropins, List.map_cons, List.filter_cons] at ih ⊢
    rw [ih]
    cases h : (loadDropins t q).2 <;> simp [h, withDropins] <;> omega

/-- the loop of `Cv.process` goes through exactly the converted units of `Cv.runTree` (the model compared with `--dry-run` runs for
    C10 and C13), and the early errors are the ones it counts -/
theorem run_services (t : Tree) :
    (runTree t).services = converted t ∧ (runTree t).loadErrors = (loadErrPaths t).length
      ∧ (runTree t).dropinErrors = ((withDropins t (loadedUnits t)).filter (·.2)).length := by
  unfold runTree converted loadedUnits
  simp only
  rw [dropin_fold]
  refine ⟨by simp; rfl, ?_, by simp; rfl⟩
  unfold loadErrPaths
  generalize loadAll t = l
  induction l with
  | nil => rfl
  | cons a l ih => cases a <;> simp_all

end Cv
