import QM.RenderUnit
import QM.ConformModel
/-! # C03 — unit files parse losslessly and independently of their spelling

`Parse.parse env` is the model of `SystemdUnit::load_from_str` (parser.rs + `add_raw` validation),
character level; `env.keyChar` stands for `char::is_alphanumeric() || '-'`, `env.validRaw` for
"`unquote_value` accepts the raw value" (instantiated with the unquoter model in the driver).
A *rendering* (`RSect`, `Item`, `REntry`, `Frag`) spells a unit out with arbitrary comment and blank
lines, indentation, spacing around `=`, trailing white space, continuation breaks (with spaces
between the backslash and the newline and comment lines in between) and repeated section headers;
`eraseSects` is the plain unit it denotes. -/
namespace Parse

theorem C03_parse_render (env : Env) (secs : List RSect) (wf : ∀ s ∈ secs, s.WF env) :
    parse env (renderSects secs) = .ok (eraseSects [] secs) := by
  unfold parse
  apply parseUnit_rendered env secs wf
  have : secs.length ≤ (renderSects secs).length := by
    induction secs with
    | nil => simp
    | cons s secs ih =>
      have := ih (fun x hx => wf x (by simp [hx]))
      simp [renderSects, renderSect] at this ⊢; omega
  omega

/-- two spellings of the same content parse to the same unit -/
theorem C03_spelling_independent (env : Env) (r₁ r₂ : List RSect)
    (wf₁ : ∀ s ∈ r₁, s.WF env) (wf₂ : ∀ s ∈ r₂, s.WF env) (h : eraseSects [] r₁ = eraseSects [] r₂) :
    parse env (renderSects r₁) = parse env (renderSects r₂) := by
  rw [C03_parse_render env r₁ wf₁, C03_parse_render env r₂ wf₂, h]


/-- KF-C03-1 as a theorem about the model: a continued line that starts with '[' ends the value -/
theorem C03_counterexample :
    parseValue ("a \\\n[b]\n".toList) = ("a".toList, "[b]\n".toList) := by
  simp [parseValue, pv, trimEnd, isWs]


/-- repeated section headers extend the same section (entries in file order) -/
theorem C03_repeated_headers (env : Env) (a b : RSect) (wa : a.WF env) (wb : b.WF env) (h : a.name = b.name) :
    parse env (renderSects [a, b]) = .ok [(a.name, eraseItems a.items ++ eraseItems b.items)] := by
  rw [C03_parse_render env [a, b] (by intro s hs; simp at hs; rcases hs with rfl | rfl <;> assumption)]
  simp [eraseSects, addEntries, List.lookup, h]


/-! ### before the first section header -/

/-- white space before the first header is skipped, one character at a time -/
theorem parseUnit_skip_ws (env : Env) (fuel : Nat) (u : Unit) (c : Char) (r : Str) (h : isAsciiWs c = true) :
    parseUnit env (fuel + 1) u (c :: r) = parseUnit env fuel u r := by
  have h1 : (c == '#' || c == ';') = false := by
    unfold isAsciiWs at h
    cases hc : (c == '#' || c == ';')
    · rfl
    · exfalso
      simp only [Bool.or_eq_true, beq_iff_eq] at hc h
      rcases hc with rfl | rfl <;> simp at h
  have h2 : (c == '[') = false := by
    unfold isAsciiWs at h
    cases hc : (c == '[')
    · rfl
    · exfalso
      simp only [beq_iff_eq] at hc
      subst hc; simp at h
  simp [parseUnit, h1, h2, h]

/-- a comment line before the first header is skipped up to its newline -/
theorem parseUnit_skip_comment (env : Env) (fuel : Nat) (u : Unit) (c : Char) (r : Str) (h : (c == '#' || c == ';') = true) :
    parseUnit env (fuel + 1) u (c :: r) = parseUnit env fuel u (takeUntil (· == '\n') (c :: r)).2 := by
  simp [parseUnit, h]

/-- anything else before the first header — a key, text — makes the file invalid: nothing is read from it -/
theorem C03_text_before_first_header_rejected (env : Env) (c : Char) (r : Str)
    (h1 : (c == '#' || c == ';') = false) (h2 : (c == '[') = false) (h3 : isAsciiWs c = false) :
    parse env (c :: r) = .error .topLevel := by
  unfold parse
  simp [parseUnit, h1, h2, h3]

/-! ### a backslash that continues into nothing -/

/-- the last line of a value ends in a backslash and the next line is empty: the value ends there (it gains the one blank of the
    continuation, which the final trim drops again) and the empty line is left for the section loop — what follows is an entry of its own -/
theorem C03_continuation_into_empty_line (f : Str) (h : bsOK f = true) (k : Nat) (rest : Str) :
    parseValue (f ++ '\\' :: (List.replicate k ' ' ++ '\n' :: '\n' :: rest)) = (trimEnd (f ++ [' ']), '\n' :: rest) := by
  unfold parseValue
  rw [pv_frag f h [] _ (by intro c hc; simp at hc; exact Or.inl hc.symm), pv_continuation]
  simp [pv]

/-- … also when comment lines stand between the backslash and the empty line -/
theorem C03_continuation_comment_then_empty_line (f : Str) (h : bsOK f = true) (k : Nat) (m : Char) (hm : m = '#' ∨ m = ';')
    (text : Str) (ht : ∀ c ∈ text, c ≠ '\n') (rest : Str) :
    parseValue (f ++ '\\' :: (List.replicate k ' ' ++ '\n' :: (m :: text ++ '\n' :: '\n' :: rest)))
      = (trimEnd (f ++ [' ']), '\n' :: rest) := by
  unfold parseValue
  rw [pv_frag f h [] _ (by intro c hc; simp at hc; exact Or.inl hc.symm), pv_continuation, pv_comment m hm text ht]
  simp [pv]

example : parseValue ("a b \\\n\nOther=1\n".toList) = ("a b".toList, "\nOther=1\n".toList) := by
  simp [parseValue, pv, trimEnd, isWs]

end Parse
