import QM.Search
/-! # C14 — root never reads per-user directories; a user reads only its own and shared ones

Directories are lists of path components; `Srch.users` is /etc/containers/systemd/users.  `Srch.rootAdminDirs tree`
and `Srch.rootlessAdminDirs true tree uid` model what `UnitSearchDirs` (iterators.rs, after the D10 repair) collects
below the administrator's tree for the system generator and for a user generator, over an abstract list of the
tree's directories (walkdir is third-party; no symlinks below the admin directory).  `Srch.userMayRead uid d` is
the specification.  The real directory walk with the real filters is compared with the model on staged trees, and
the whole binary is run in a private mount namespace as uid 0 and as other uids. -/
namespace Srch

/-- C14, root: nothing at or below users/ -/
theorem C14_root (tree : List Dir) : ∀ d ∈ rootAdminDirs tree, users.isPrefixOf d = false := by
  intro d hd
  simp only [rootAdminDirs, List.mem_filter, userLevelFilter] at hd
  cases h : users.isPrefixOf d with
  | false => rfl
  | true => simp [h] at hd

/-- D10 as a theorem about the model of the pinned code: uid 1001 is served users/2002/sub -/
theorem C14_pinned_counterexample :
    (users ++ ["2002".toList, "sub".toList]) ∈
      rootlessAdminDirs false [users, users ++ ["2002".toList], users ++ ["2002".toList, "sub".toList]] "1001".toList := by
  decide

theorem prefix_getElem (p d : Dir) (x : Name) (h : (p ++ [x]).isPrefixOf d = true) :
    p.isPrefixOf d = true ∧ d[p.length]? = some x := by
  induction p generalizing d with
  | nil =>
    cases d with
    | nil => simp [List.isPrefixOf] at h
    | cons y ys =>
      simp only [List.nil_append, List.isPrefixOf, Bool.and_eq_true, beq_iff_eq] at h
      simp [List.isPrefixOf, h.1]
  | cons a p ih =>
    cases d with
    | nil => simp [List.isPrefixOf] at h
    | cons y ys =>
      simp only [List.cons_append, List.isPrefixOf, Bool.and_eq_true, beq_iff_eq] at h
      obtain ⟨h1, h2⟩ := ih ys h.2
      simp [List.isPrefixOf, h.1, h1, h2]

/-- C14, user, soundness (repaired filter): everything read below the admin tree is permitted -/
theorem C14_user_sound (tree : List Dir) (uid : Name) (huid : isNumeric uid = true) :
    ∀ d ∈ rootlessAdminDirs true tree uid, userMayRead uid d := by
  intro d hd
  simp only [rootlessAdminDirs, List.mem_append, List.mem_filter, walk, List.mem_singleton] at hd
  rcases hd with (⟨⟨_, hp⟩, hf⟩ | ⟨⟨_, hp⟩, _⟩) | rfl
  · right; left
    refine ⟨hp, ?_⟩
    simp only [nonNumericFilter, hp, if_true] at hf
    split at hf
    · cases hn : d[users.length]? with
      | none => simp [hn] at hf
      | some n => simp [hn] at hf; exact ⟨n, rfl, hf⟩
    · simp at hf
  · right; right; exact hp
  · left; rfl

/-- C14, user, completeness (repaired filter): every permitted directory of the tree is read -/
theorem C14_user_complete (tree : List Dir) (uid : Name) (d : Dir) (hd : d ∈ tree) (h : userMayRead uid d) :
    d ∈ rootlessAdminDirs true tree uid := by
  simp only [rootlessAdminDirs, List.mem_append, List.mem_filter, walk, List.mem_singleton]
  rcases h with rfl | ⟨hp, n, hn, hnum⟩ | hp
  · right; rfl
  · left; left
    refine ⟨⟨hd, hp⟩, ?_⟩
    obtain ⟨hlen, hget⟩ := List.getElem?_eq_some_iff.mp hn
    have hlen' : d.length > users.length := hlen
    simp only [nonNumericFilter, hp, if_true, hlen', hn]
    simpa using hnum
  · left; right
    refine ⟨⟨hd, hp⟩, ?_⟩
    have := (prefix_getElem users d uid hp).1
    simp [userLevelFilter, this]


/-- a user never reads anything at or below a directory named after another UID -/
theorem C14_user_not_other_uid (tree : List Dir) (uid other : Name) (huid : isNumeric uid = true)
    (hother : isNumeric other = true) (hne : other ≠ uid) (d : Dir) (hd : d ∈ rootlessAdminDirs true tree uid) :
    (users ++ [other]).isPrefixOf d = false := by
  cases hp : (users ++ [other]).isPrefixOf d with
  | false => rfl
  | true =>
    exfalso
    obtain ⟨hpre, hget⟩ := prefix_getElem users d other hp
    rcases C14_user_sound tree uid huid d hd with rfl | ⟨_, n, hn, hnum⟩ | hown
    · simp at hget
    · rw [hget] at hn; cases hn; rw [hother] at hnum; cases hnum
    · have := (prefix_getElem users d uid hown).2
      rw [hget] at this; cases this; exact hne rfl

end Srch
