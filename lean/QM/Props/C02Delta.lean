import QM.ConvArgs
import QM.Props.C02
/-! # C02 — "adding the key changes nothing else in the command"

For the `.image` converter model the whole command is the concatenation of the blocks of its segments (`imageCmd_segs`), each
segment reads the history of its own key(s) only (`imageSegs_local`), and no two segments read the same key (`imageKeys_nodup`,
over the tables regenerated from the source).  Hence for any two units that differ only in what they assign to one key `k` — the
key added, assigned again, reset, or set in a drop-in — the two commands are identical before and after the block of the one
segment that reads `k` (`C02_image_delta`), and identical altogether when no segment reads `k` (`C02_image_unread`). -/
namespace Cv
open MM

/-- the keys the `.image` command reads, in command order -/
def imageKeysRead : List Str :=
  Gen.tbl_get_base_podman_command_inline_lookup_and_add_all_strings.map Prod.fst ++ [s "GlobalArgs"]
    ++ Gen.tbl_from_image_unit_string_keys.map Prod.fst ++ Gen.tbl_from_image_unit_bool_keys.map Prod.fst ++ [s "PodmanArgs", s "Image"]

theorem reads_rows (mk : Str × Str → Seg) (hmk : ∀ r, (mk r).reads = [r.1]) (rows : List (Str × Str)) :
    (rows.map mk).flatMap (·.reads) = rows.map Prod.fst := by
  induction rows with
  | nil => rfl
  | cons r rows ih => simp [hmk, ih]

theorem imageSegs_reads (E : Env) : (imageSegs E).flatMap (·.reads) = imageKeysRead := by
  unfold imageSegs imageKeysRead
  simp only [List.flatMap_append, reads_rows (segAll (s "Image")) (fun _ => rfl), reads_rows (segString (s "Image")) (fun _ => rfl),
    reads_rows (segBool (s "Image")) (fun _ => rfl)]
  simp [segConst, segArgs, segLast]

/-- no key is read twice: every documented key has one place in the command -/
theorem imageKeys_nodup : imageKeysRead.Nodup := by decide

/-- every key the command reads is a documented key of [Image] -/
theorem imageKeys_documented : ∀ k ∈ imageKeysRead, k ∈ Gen.SUPPORTED_IMAGE_KEYS := by decide

/-- **adding (changing, resetting) a key changes nothing else**: the commands generated for two units that agree on every key but
    `k` coincide argument for argument before and after the block of the single segment reading `k` -/
theorem C02_image_delta (E : Env) (k : Str) (hk : k ∈ imageKeysRead) (u u' : SUnit) (h : AgreeExcept (s "Image") k u u') :
    ∃ A g B, imageSegs E = A ++ g :: B ∧ k ∈ g.reads ∧
      imageCmd E u = cmdOf A u ++ g.emit u ++ cmdOf B u ∧ imageCmd E u' = cmdOf A u ++ g.emit u' ++ cmdOf B u := by
  rw [← imageSegs_reads E, List.mem_flatMap] at hk
  obtain ⟨g, hg, hkg⟩ := hk
  obtain ⟨A, B, hs, hA, hB⟩ := split_at_reader (imageSegs E) (by rw [imageSegs_reads]; exact imageKeys_nodup) g hg k hkg
  have hl := imageSegs_local E
  have hA' : ∀ x ∈ A, x.Local (s "Image") ∧ k ∉ x.reads := fun x hx => ⟨hl x (by rw [hs]; simp [hx]), hA x hx⟩
  have hB' : ∀ x ∈ B, x.Local (s "Image") ∧ k ∉ x.reads := fun x hx => ⟨hl x (by rw [hs]; simp [hx]), hB x hx⟩
  obtain ⟨e1, e2⟩ := cmd_delta (s "Image") k A B g hA' hB' u u' h
  exact ⟨A, g, B, hs, hkg, by rw [imageCmd_segs, hs]; exact e1, by rw [imageCmd_segs, hs]; exact e2⟩

/-- a key the command does not read (`ImageTag`, `ServiceName`, an unknown key, …) leaves the command as it is -/
theorem C02_image_unread (E : Env) (k : Str) (hk : k ∉ imageKeysRead) (u u' : SUnit) (h : AgreeExcept (s "Image") k u u') :
    imageCmd E u = imageCmd E u' := by
  rw [imageCmd_segs, imageCmd_segs]
  apply cmd_unread (s "Image") k
  · intro x hx
    refine ⟨imageSegs_local E x hx, fun hkx => hk ?_⟩
    rw [← imageSegs_reads E, List.mem_flatMap]; exact ⟨x, hx, hkx⟩
  · exact h

/-- the instance the property names: the unit with one more assignment of `k` -/
theorem C02_image_add_key (E : Env) (k raw : Str) (hk : k ∈ imageKeysRead) (u : SUnit) :
    ∃ A g B, imageSegs E = A ++ g :: B ∧ k ∈ g.reads ∧
      imageCmd E u = cmdOf A u ++ g.emit u ++ cmdOf B u ∧
      imageCmd E (addEntry u (s "Image") k raw) = cmdOf A u ++ g.emit (addEntry u (s "Image") k raw) ++ cmdOf B u :=
  C02_image_delta E k hk u _ (agreeExcept_addEntry u (s "Image") k raw)

end Cv

namespace Cv
open MM

/-- the generic form: segments that are local, with pairwise different keys; a key that is read has exactly one block -/
theorem delta_of_segs (sec : Str) (segs : List Seg) (hl : ∀ g ∈ segs, g.Local sec) (hnd : (segs.flatMap (·.reads)).Nodup)
    (k : Str) (hk : k ∈ segs.flatMap (·.reads)) (u u' : SUnit) (h : AgreeExcept sec k u u') :
    ∃ A g B, segs = A ++ g :: B ∧ k ∈ g.reads ∧
      cmdOf segs u = cmdOf A u ++ g.emit u ++ cmdOf B u ∧ cmdOf segs u' = cmdOf A u ++ g.emit u' ++ cmdOf B u := by
  rw [List.mem_flatMap] at hk
  obtain ⟨g, hg, hkg⟩ := hk
  obtain ⟨A, B, hs, hA, hB⟩ := split_at_reader segs hnd g hg k hkg
  have hA' : ∀ x ∈ A, x.Local sec ∧ k ∉ x.reads := fun x hx => ⟨hl x (by rw [hs]; simp [hx]), hA x hx⟩
  have hB' : ∀ x ∈ B, x.Local sec ∧ k ∉ x.reads := fun x hx => ⟨hl x (by rw [hs]; simp [hx]), hB x hx⟩
  obtain ⟨e1, e2⟩ := cmd_delta sec k A B g hA' hB' u u' h
  exact ⟨A, g, B, hs, hkg, by rw [hs]; exact e1, by rw [hs]; exact e2⟩

/-! ### .network -/
def networkKeysRead : List Str :=
  Gen.tbl_get_base_podman_command_inline_lookup_and_add_all_strings.map Prod.fst ++ [s "GlobalArgs"]
    ++ Gen.tbl_from_network_unit_bool_keys.map Prod.fst ++ Gen.tbl_from_network_unit_string_keys.map Prod.fst
    ++ Gen.tbl_from_network_unit_inline_lookup_and_add_all_strings.map Prod.fst
    ++ [s "Subnet", s "Gateway", s "IPRange", s "Options", s "Label", s "PodmanArgs", s "NetworkName"]

theorem networkSegs_reads (E : Env) (path : Str) : (networkSegs E path).flatMap (·.reads) = networkKeysRead := by
  unfold networkSegs networkKeysRead
  simp only [List.flatMap_append, reads_rows (segAll (s "Network")) (fun _ => rfl), reads_rows (segString (s "Network")) (fun _ => rfl),
    reads_rows (segBool (s "Network")) (fun _ => rfl)]
  simp [segConst, segArgs, segKeyVal, segMulti]

theorem networkKeys_nodup : networkKeysRead.Nodup := by decide
theorem networkKeys_documented : ∀ k ∈ networkKeysRead, k ∈ Gen.SUPPORTED_NETWORK_KEYS := by decide
/-- … and conversely every documented key of [Network] except the one that names the service has its block in the command -/
theorem networkKeys_complete : ∀ k ∈ Gen.SUPPORTED_NETWORK_KEYS, k ∈ networkKeysRead ∨ k = s "ServiceName" := by decide

/-- two `.network` units that convert and differ only in what they assign to one key: the commands systemd will run coincide,
    argument for argument, before and after the block of that key -/
theorem C02_network_delta (E : Env) (path : Str) (k : Str) (hk : k ∈ networkKeysRead) (u u' svc svc' : SUnit) (n n' : Str)
    (h : AgreeExcept (s "Network") k u u')
    (hc : fromNetwork E path u = .ok (svc, n)) (hc' : fromNetwork E path u' = .ok (svc', n')) :
    ∃ A g B, networkSegs E path = A ++ g :: B ∧ k ∈ g.reads ∧
      HasExec svc "ExecStart" (cmdOf A u ++ g.emit u ++ cmdOf B u) ∧ HasExec svc' "ExecStart" (cmdOf A u ++ g.emit u' ++ cmdOf B u) := by
  obtain ⟨A, g, B, hs, hkg, e1, e2⟩ := delta_of_segs (s "Network") (networkSegs E path) (networkSegs_local E path)
    (by rw [networkSegs_reads]; exact networkKeys_nodup) k (by rw [networkSegs_reads]; exact hk) u u' h
  refine ⟨A, g, B, hs, hkg, ?_, ?_⟩
  · rw [← e1]; exact fromNetwork_segs E path u svc n hc
  · rw [← e2]; exact fromNetwork_segs E path u' svc' n' hc'

theorem C02_network_unread (E : Env) (path : Str) (k : Str) (hk : k ∉ networkKeysRead) (u u' svc svc' : SUnit) (n n' : Str)
    (h : AgreeExcept (s "Network") k u u')
    (hc : fromNetwork E path u = .ok (svc, n)) (hc' : fromNetwork E path u' = .ok (svc', n')) :
    ∃ cmd, HasExec svc "ExecStart" cmd ∧ HasExec svc' "ExecStart" cmd := by
  refine ⟨_, fromNetwork_segs E path u svc n hc, ?_⟩
  rw [cmd_unread (s "Network") k (networkSegs E path) ?_ u u' h]
  · exact fromNetwork_segs E path u' svc' n' hc'
  · intro x hx
    refine ⟨networkSegs_local E path x hx, fun hkx => hk ?_⟩
    rw [← networkSegs_reads E path, List.mem_flatMap]; exact ⟨x, hx, hkx⟩

/-- non-vacuity: a unit with a subnet and its gateway, and the same unit with a label added -/
example : AgreeExcept (s "Network") (s "Label") [(s "Network", [(s "Subnet", s "10.0.0.0/24"), (s "Gateway", s "10.0.0.1")])]
    (addEntry [(s "Network", [(s "Subnet", s "10.0.0.0/24"), (s "Gateway", s "10.0.0.1")])] (s "Network") (s "Label") (s "a=b")) :=
  agreeExcept_addEntry _ _ _ _

end Cv

namespace Cv
/-- every documented key of [Image] has its block in the command, except the two that only name things -/
theorem imageKeys_complete : ∀ k ∈ Gen.SUPPORTED_IMAGE_KEYS, k ∈ imageKeysRead ∨ k = s "ServiceName" ∨ k = s "ImageTag" := by decide
end Cv

namespace Cv
open MM

/-! ### .pod -/
def podKeysRead : List Str :=
  Gen.tbl_get_base_podman_command_inline_lookup_and_add_all_strings.map Prod.fst ++ [s "GlobalArgs"] ++ mapKeys
    ++ Gen.tbl_handle_publish_ports_inline_lookup_and_add_all_strings.map Prod.fst ++ [s "Network"]
    ++ Gen.tbl_from_pod_unit_string_keys.map Prod.fst ++ Gen.tbl_from_pod_unit_all_string_keys.map Prod.fst
    ++ [s "Volume", s "PodName", s "PodmanArgs"]

theorem podSegs_reads (E : Env) (path : Str) : (podSegs E path).flatMap (·.reads) = podKeysRead := by
  unfold podSegs podKeysRead
  simp only [List.flatMap_append, reads_rows (segAll (s "Pod")) (fun _ => rfl), reads_rows (segString (s "Pod")) (fun _ => rfl)]
  simp [segConst, segArgs, segMulti, segMaps, segNetworks, segVolumes]

theorem podKeys_nodup : podKeysRead.Nodup := by decide
theorem podKeys_documented : ∀ k ∈ podKeysRead, k ∈ Gen.SUPPORTED_POD_KEYS := by decide
theorem podKeys_complete : ∀ k ∈ Gen.SUPPORTED_POD_KEYS, k ∈ podKeysRead ∨ k = s "ServiceName" := by decide

/-- two `.pod` units that convert (against the same name table, with the same members) and differ only in what they assign to one
    key: their `pod create` commands coincide, argument for argument, before and after the block of that key -/
theorem C02_pod_delta (E : Env) (path : Str) (cts : List Str) (k : Str) (hk : k ∈ podKeysRead) (u u' svc svc' : SUnit)
    (h : AgreeExcept (s "Pod") k u u')
    (hc : fromPod E path u cts = .ok svc) (hc' : fromPod E path u' cts = .ok svc') :
    ∃ A g B, podSegs E path = A ++ g :: B ∧ k ∈ g.reads ∧
      HasExec svc "ExecStartPre" (cmdOf A u ++ g.emit u ++ cmdOf B u) ∧ HasExec svc' "ExecStartPre" (cmdOf A u ++ g.emit u' ++ cmdOf B u) := by
  obtain ⟨A, g, B, hs, hkg, e1, e2⟩ := delta_of_segs (s "Pod") (podSegs E path) (podSegs_local E path)
    (by rw [podSegs_reads]; exact podKeys_nodup) k (by rw [podSegs_reads]; exact hk) u u' h
  refine ⟨A, g, B, hs, hkg, ?_, ?_⟩
  · rw [← e1]; exact fromPod_segs E path u svc cts hc
  · rw [← e2]; exact fromPod_segs E path u' svc' cts hc'

end Cv

namespace Cv
open MM

/-! ### .kube -/
def kubeKeysRead : List Str :=
  Gen.tbl_get_base_podman_command_inline_lookup_and_add_all_strings.map Prod.fst
    ++ [s "GlobalArgs", s "ExitCodePropagation", s "LogDriver", s "LogOpt"] ++ mapKeys ++ [s "Network", s "AutoUpdate", s "ConfigMap"]
    ++ Gen.tbl_handle_publish_ports_inline_lookup_and_add_all_strings.map Prod.fst ++ [s "PodmanArgs", s "Yaml"]

theorem kubeSegs_reads (E : Env) (path : Str) : (kubeSegs E path).flatMap (·.reads) = kubeKeysRead := by
  unfold kubeSegs kubeKeysRead
  simp only [List.flatMap_append, reads_rows (segAll (s "Kube")) (fun _ => rfl)]
  simp [segConst, segArgs, segLast, segStrv, segMaps, segNetworks]

theorem kubeKeys_nodup : kubeKeysRead.Nodup := by decide
/-- every documented key of [Kube] has its block in `kube play`, except the name of the service, the flag of `kube down` and the key that
    only chooses the working directory of the service -/
theorem kubeKeys_complete : ∀ k ∈ Gen.SUPPORTED_KUBE_KEYS,
    k ∈ kubeKeysRead ∨ k = s "ServiceName" ∨ k = s "KubeDownForce" ∨ k = s "SetWorkingDirectory" := by decide

theorem C02_kube_delta (E : Env) (path : Str) (k : Str) (hk : k ∈ kubeKeysRead) (u u' svc svc' : SUnit)
    (h : AgreeExcept (s "Kube") k u u')
    (hc : fromKube E path u = .ok svc) (hc' : fromKube E path u' = .ok svc') :
    ∃ A g B, kubeSegs E path = A ++ g :: B ∧ k ∈ g.reads ∧
      HasExec svc "ExecStart" (cmdOf A u ++ g.emit u ++ cmdOf B u) ∧ HasExec svc' "ExecStart" (cmdOf A u ++ g.emit u' ++ cmdOf B u) := by
  obtain ⟨A, g, B, hs, hkg, e1, e2⟩ := delta_of_segs (s "Kube") (kubeSegs E path) (kubeSegs_local E path)
    (by rw [kubeSegs_reads]; exact kubeKeys_nodup) k (by rw [kubeSegs_reads]; exact hk) u u' h
  refine ⟨A, g, B, hs, hkg, ?_, ?_⟩
  · rw [← e1]; exact fromKube_segs E path u svc hc
  · rw [← e2]; exact fromKube_segs E path u' svc' hc'

end Cv

namespace Cv
open MM

/-! ### .volume -/
def volumeKeysRead : List Str :=
  Gen.tbl_get_base_podman_command_inline_lookup_and_add_all_strings.map Prod.fst ++ [s "GlobalArgs"] ++ volOptKeys
    ++ [s "Label", s "PodmanArgs", s "VolumeName"]

theorem volumeSegs_reads (E : Env) (path : Str) : (volumeSegs E path).flatMap (·.reads) = volumeKeysRead := by
  unfold volumeSegs volumeKeysRead
  simp only [List.flatMap_append, reads_rows (segAll (s "Volume")) (fun _ => rfl)]
  simp [segConst, segArgs, segKeyVal, segMulti, segVolOpts]

theorem volumeKeys_nodup : volumeKeysRead.Nodup := by decide
theorem volumeKeys_documented : ∀ k ∈ volumeKeysRead, k ∈ Gen.SUPPORTED_VOLUME_KEYS := by decide
theorem volumeKeys_complete : ∀ k ∈ Gen.SUPPORTED_VOLUME_KEYS, k ∈ volumeKeysRead ∨ k = s "ServiceName" := by decide

theorem C02_volume_delta (E : Env) (path : Str) (k : Str) (hk : k ∈ volumeKeysRead) (u u' svc svc' : SUnit) (n n' : Str)
    (h : AgreeExcept (s "Volume") k u u')
    (hc : fromVolume E path u = .ok (svc, n)) (hc' : fromVolume E path u' = .ok (svc', n')) :
    ∃ A g B, volumeSegs E path = A ++ g :: B ∧ k ∈ g.reads ∧
      HasExec svc "ExecStart" (cmdOf A u ++ g.emit u ++ cmdOf B u) ∧ HasExec svc' "ExecStart" (cmdOf A u ++ g.emit u' ++ cmdOf B u) := by
  obtain ⟨A, g, B, hs, hkg, e1, e2⟩ := delta_of_segs (s "Volume") (volumeSegs E path) (volumeSegs_local E path)
    (by rw [volumeSegs_reads]; exact volumeKeys_nodup) k (by rw [volumeSegs_reads]; exact hk) u u' h
  refine ⟨A, g, B, hs, hkg, ?_, ?_⟩
  · rw [← e1]; exact fromVolume_segs E path u svc n hc
  · rw [← e2]; exact fromVolume_segs E path u' svc' n' hc'

end Cv

namespace Cv
open MM

/-! ### .container -/
def containerKeysRead : List Str :=
  Gen.tbl_get_base_podman_command_inline_lookup_and_add_all_strings.map Prod.fst
    ++ [s "GlobalArgs", s "ContainerName", s "LogDriver", s "LogOpt", s "CgroupsMode"]
    ++ Gen.tbl_from_container_unit_string_keys.map Prod.fst ++ Gen.tbl_from_container_unit_all_string_keys.map Prod.fst
    ++ Gen.tbl_from_container_unit_bool_keys.map Prod.fst
    ++ [s "Network", s "Notify", s "NoNewPrivileges", s "SecurityLabelDisable", s "SecurityLabelNested", s "SecurityLabelType",
        s "SecurityLabelFileType", s "SecurityLabelLevel", s "AddDevice", s "SeccompProfile", s "DropCapability", s "AddCapability", s "Sysctl",
        s "ReadOnly", s "VolatileTmp", s "User", s "Group"] ++ mapKeys ++ [s "Volume", s "AutoUpdate", s "ExposeHostPort"]
    ++ Gen.tbl_handle_publish_ports_inline_lookup_and_add_all_strings.map Prod.fst
    ++ [s "Environment", s "Label", s "Annotation", s "Mask", s "Unmask", s "EnvironmentFile", s "Secret", s "Mount"]
    ++ Gen.tbl_handle_health_key_arg_map.map Prod.fst ++ [s "Pod", s "PodmanArgs", s "Image", s "Rootfs", s "Exec"]

theorem containerSegs_reads (E : Env) (path : Str) (st : Option Str) : (containerSegs E path st).flatMap (·.reads) = containerKeysRead := by
  unfold containerSegs containerKeysRead
  simp only [List.flatMap_append, reads_rows (segAll (s "Container")) (fun _ => rfl), reads_rows (segString (s "Container")) (fun _ => rfl),
    reads_rows (segBool (s "Container")) (fun _ => rfl), reads_rows (segHealth (s "Container")) (fun _ => rfl)]
  simp [segConst, segArgs, segMulti, segLast, segStrv, segArgsWith, segKeyVal, segBoolOn, segMaps, segNetworks, segVolumes, segMounts, segPod]

theorem containerKeys_nodup : containerKeysRead.Nodup := by decide
theorem containerKeys_documented : ∀ k ∈ containerKeysRead, k ∈ Gen.SUPPORTED_CONTAINER_KEYS := by decide
/-- every documented key of [Container] has its block in `podman run`, except the name of the service and the flag that only decides
    whether the pod starts the container -/
theorem containerKeys_complete : ∀ k ∈ Gen.SUPPORTED_CONTAINER_KEYS, k ∈ containerKeysRead ∨ k = s "ServiceName" ∨ k = s "StartWithPod" := by
  decide

/-- two `.container` units that convert (against the same name table), have the same `[Service] Type=` and differ only in what they
    assign to one key of [Container]: the `podman run` commands coincide, argument for argument, before and after the block of that key -/
theorem C02_container_delta (E : Env) (path : Str) (k : Str) (hk : k ∈ containerKeysRead) (u u' svc svc' : SUnit)
    (link link' : Option (Str × Str))
    (h : AgreeExcept (s "Container") k u u') (ht : lookup u (s "Service") (s "Type") = lookup u' (s "Service") (s "Type"))
    (hc : fromContainer E path u = some (.ok (svc, link))) (hc' : fromContainer E path u' = some (.ok (svc', link'))) :
    ∃ A g B, containerSegs E path (lookup u (s "Service") (s "Type")) = A ++ g :: B ∧ k ∈ g.reads ∧
      HasExec svc "ExecStart" (cmdOf A u ++ g.emit u ++ cmdOf B u) ∧ HasExec svc' "ExecStart" (cmdOf A u ++ g.emit u' ++ cmdOf B u) := by
  obtain ⟨A, g, B, hs, hkg, e1, e2⟩ := delta_of_segs (s "Container") (containerSegs E path (lookup u (s "Service") (s "Type")))
    (containerSegs_local E path _) (by rw [containerSegs_reads]; exact containerKeys_nodup) k (by rw [containerSegs_reads]; exact hk) u u' h
  refine ⟨A, g, B, hs, hkg, ?_, ?_⟩
  · rw [← e1]; exact fromContainer_segs E path u svc link hc
  · rw [← e2, ht]; exact fromContainer_segs E path u' svc' link' hc'

end Cv
