import QM.ConvShape
import QM.ConvFrame
import QM.ConvKeys
import QM.ConvGrows
/-! # C07 — user sections pass through unchanged; the Quadlet section is kept as X-<name>

Statements are about the ordered-multimap model of the unit (`MM.entriesOf svc S` = the entries of section `S`
in order).  Every converter starts from `startService path u` (= `merge_from(unit)`, default dependencies
*prepended* to [Unit], SourcePath added) and then renames its own section and [Quadlet]. -/
namespace Cv
open MM

/-- what every converter starts from: all sections of the unit other than [Unit] are copied verbatim, in order -/
theorem C07_start_passthrough (path : Str) (u : SUnit) (hnd : (u.map Prod.fst).Nodup) (S : Str) (h : S ≠ s "Unit") :
    entriesOf (startService path u) S = entriesOf u S := entriesOf_startService_ne path u hnd S h

/-- the generator's default dependencies come before the user's [Unit] entries, so the user's assignments
    (including an empty one that resets a list) keep the last word -/
theorem C07_unit_defaults_first (svc : SUnit) :
    ∃ d, entriesOf (defaultDeps svc) (s "Unit") = d ++ entriesOf svc (s "Unit") ∧
      (d = [] ∨ d = [(s "Wants", P.quoteValue (s "network-online.target")), (s "After", P.quoteValue (s "network-online.target"))]) :=
  entriesOf_defaultDeps_unit svc

/-- the one-shot service settings (SyslogIdentifier, Type, RemainAfterExit) are only filled in when the user has not
    set them: a value the user wrote is never overwritten -/
theorem C07_oneshot_keeps_user_choice (svc : SUnit) (remain : Bool)
    (h1 : (lookup svc (s "Service") (s "SyslogIdentifier")).isSome)
    (h2 : (lookup svc (s "Service") (s "Type")).isSome)
    (h3 : (lookup svc (s "Service") (s "RemainAfterExit")).isSome) :
    oneShot svc remain = svc := by
  unfold oneShot
  have e1 : (lookup svc (s "Service") (s "SyslogIdentifier")).isNone = false := by cases h : lookup svc (s "Service") (s "SyslogIdentifier") <;> simp_all
  have e2 : (lookup svc (s "Service") (s "Type")).isNone = false := by cases h : lookup svc (s "Service") (s "Type") <;> simp_all
  have e3 : (lookup svc (s "Service") (s "RemainAfterExit")).isNone = false := by cases h : lookup svc (s "Service") (s "RemainAfterExit") <;> simp_all
  simp [e1, e2, e3]

/-- KillMode (D6): a user's `mixed` or `control-group` is kept as written; only an absent KillMode is filled in -/
theorem C07_killmode_kept (u svc : SUnit) (v : Str) (h : lookup u (s "Service") (s "KillMode") = some v)
    (hv : v = s "mixed" ∨ v = s "control-group") : killMode u svc = .ok svc := by
  unfold killMode
  rcases hv with rfl | rfl <;> simp [h]

/-- .image: every section the converter does not own is copied verbatim, in order -/
theorem C07_image_passthrough (E : Env) (path : Str) (u svc : SUnit) (r : Str) (hnd : (u.map Prod.fst).Nodup)
    (h : fromImage E path u = .ok (svc, r)) (S : Str)
    (hS : S ≠ s "Image" ∧ S ≠ s "Quadlet" ∧ S ≠ s "X-Image" ∧ S ≠ s "X-Quadlet" ∧ S ≠ s "Unit" ∧ S ≠ s "Service") :
    entriesOf svc S = entriesOf u S := by
  rw [fromImage_ok E path u svc r h]
  obtain ⟨h1, h2, h3, h4, h5, h6⟩ := hS
  simp only [imageSvc]
  rw [entriesOf_oneShot_ne _ _ _ h6, entriesOf_addEntry, if_neg h6, entriesOf_addS, if_neg h5,
    entriesOf_rename _ _ _ _ (by decide), if_neg h2, if_neg h4,
    entriesOf_rename _ _ _ _ (by decide), if_neg h1, if_neg h3]
  exact entriesOf_startService_ne path u hnd S h5

/-- .image: the Image section is kept verbatim under X-Image (after whatever the user already had in a section of
    that name), [Quadlet] under X-Quadlet, and no section named Image or Quadlet remains -/
theorem C07_image_xsection (E : Env) (path : Str) (u svc : SUnit) (r : Str) (hnd : (u.map Prod.fst).Nodup)
    (h : fromImage E path u = .ok (svc, r)) :
    entriesOf svc (s "X-Image") = entriesOf u (s "X-Image") ++ entriesOf u (s "Image") ∧
    entriesOf svc (s "X-Quadlet") = entriesOf u (s "X-Quadlet") ++ entriesOf u (s "Quadlet") ∧
    entriesOf svc (s "Image") = [] ∧ entriesOf svc (s "Quadlet") = [] := by
  rw [fromImage_ok E path u svc r h]
  have base : ∀ S, S ≠ s "Unit" → entriesOf (startService path u) S = entriesOf u S :=
    fun S hS => entriesOf_startService_ne path u hnd S hS
  simp only [imageSvc]
  refine ⟨?_, ?_, ?_, ?_⟩
  · rw [entriesOf_oneShot_ne _ _ _ (by decide), entriesOf_addEntry, if_neg (by decide), entriesOf_addS,
      if_neg (by decide), entriesOf_rename _ _ _ _ (by decide), if_neg (by decide), if_neg (by decide),
      entriesOf_rename _ _ _ _ (by decide), if_neg (by decide), if_pos rfl,
      base _ (by decide), base _ (by decide)]
  · rw [entriesOf_oneShot_ne _ _ _ (by decide), entriesOf_addEntry, if_neg (by decide), entriesOf_addS,
      if_neg (by decide), entriesOf_rename _ _ _ _ (by decide), if_neg (by decide), if_pos rfl,
      entriesOf_rename _ _ _ _ (by decide), if_neg (by decide), if_neg (by decide),
      entriesOf_rename _ _ _ _ (by decide), if_neg (by decide), if_neg (by decide),
      base _ (by decide), base _ (by decide)]
  · rw [entriesOf_oneShot_ne _ _ _ (by decide), entriesOf_addEntry, if_neg (by decide), entriesOf_addS,
      if_neg (by decide), entriesOf_rename _ _ _ _ (by decide), if_neg (by decide), if_neg (by decide),
      entriesOf_rename _ _ _ _ (by decide), if_pos rfl]
  · rw [entriesOf_oneShot_ne _ _ _ (by decide), entriesOf_addEntry, if_neg (by decide), entriesOf_addS,
      if_neg (by decide), entriesOf_rename _ _ _ _ (by decide), if_pos rfl]

/-- the statement about sections that every converter satisfies (`own` = the unit's Quadlet section, `xown` = "X-" ++ own):
    every section other than own, X-own, Quadlet, X-Quadlet, Unit and Service is copied verbatim and in order; the own
    section is kept verbatim under X-own after whatever the user already had there, [Quadlet] under [X-Quadlet]; no
    section named own or Quadlet remains -/
def SectionsKept (u svc : SUnit) (own xown : Str) : Prop :=
  (∀ S, S ∉ [own, xown, s "Quadlet", s "X-Quadlet", s "Unit", s "Service"] → entriesOf svc S = entriesOf u S) ∧
  entriesOf svc xown = entriesOf u xown ++ entriesOf u own ∧
  entriesOf svc (s "X-Quadlet") = entriesOf u (s "X-Quadlet") ++ entriesOf u (s "Quadlet") ∧
  entriesOf svc own = [] ∧ entriesOf svc (s "Quadlet") = []

theorem C07_volume_sections (E : Env) (path : Str) (u svc : SUnit) (n : Str) (hnd : (u.map Prod.fst).Nodup)
    (h : fromVolume E path u = .ok (svc, n)) : SectionsKept u svc (s "Volume") (s "X-Volume") :=
  sections_of_frame path u svc _ _ hnd (by decide) (by decide) (by decide) (frame_fromVolume E path u svc n h)

theorem C07_network_sections (E : Env) (path : Str) (u svc : SUnit) (n : Str) (hnd : (u.map Prod.fst).Nodup)
    (h : fromNetwork E path u = .ok (svc, n)) : SectionsKept u svc (s "Network") (s "X-Network") :=
  sections_of_frame path u svc _ _ hnd (by decide) (by decide) (by decide) (frame_fromNetwork E path u svc n h)

theorem C07_pod_sections (E : Env) (path : Str) (u svc : SUnit) (cs : List Str) (hnd : (u.map Prod.fst).Nodup)
    (h : fromPod E path u cs = .ok svc) : SectionsKept u svc (s "Pod") (s "X-Pod") :=
  sections_of_frame path u svc _ _ hnd (by decide) (by decide) (by decide) (frame_fromPod E path u svc cs h)

theorem C07_kube_sections (E : Env) (path : Str) (u svc : SUnit) (hnd : (u.map Prod.fst).Nodup)
    (h : fromKube E path u = .ok svc) : SectionsKept u svc (s "Kube") (s "X-Kube") :=
  sections_of_frame path u svc _ _ hnd (by decide) (by decide) (by decide) (frame_fromKube E path u svc h)

theorem C07_build_sections (E : Env) (path : Str) (u svc : SUnit) (hnd : (u.map Prod.fst).Nodup)
    (h : fromBuild E path u = .ok svc) : SectionsKept u svc (s "Build") (s "X-Build") :=
  sections_of_frame' (buildStart path u) u svc _ _ (fun S hS => entriesOf_buildStart_ne path u hnd S hS)
    (by decide) (by decide) (by decide) (frame_fromBuild E path u svc h)

theorem C07_container_sections (E : Env) (path : Str) (u svc : SUnit) (link : Option (Str × Str)) (hnd : (u.map Prod.fst).Nodup)
    (h : fromContainer E path u = some (.ok (svc, link))) : SectionsKept u svc (s "Container") (s "X-Container") :=
  sections_of_frame path u svc _ _ hnd (by decide) (by decide) (by decide) (frame_fromContainer E path u svc link h)


/-! ### inside [Unit] and [Service]: keys the generator does not manage

`Cv.managed` (QM/ConvKeys.lean) lists the (section, key) pairs some converter writes.  For every other pair — every
other key of [Unit], [Service] and of any foreign section — the service has **exactly** the user's entries of that key,
with their exact raw values and in their order, for every unit and every successful conversion by any of the
converter models.  Proved by a key-level frame calculus (`KeepsOther`): every primitive (`add`, `set`, `prepend`,
`add_raw`) touches one managed pair; every handler, the monadic folds and the seven converters compose them. -/

def UnmanagedKept (u svc : SUnit) (own xown : Str) : Prop :=
  ∀ S k, (S, k) ∉ managed → S ∉ [own, xown, s "Quadlet", s "X-Quadlet"] → keyEntries svc S k = keyEntries u S k

theorem C07_volume_keys (E : Env) (path : Str) (u svc : SUnit) (n : Str) (hnd : (u.map Prod.fst).Nodup)
    (h : fromVolume E path u = .ok (svc, n)) : UnmanagedKept u svc (s "Volume") (s "X-Volume") :=
  fun S k hk hS => unmanaged_of_keys (startService path u) u svc _ _ (by decide) (keys_startService path u hnd)
    (keys_fromVolume E path u svc n h) S k hk hS
theorem C07_network_keys (E : Env) (path : Str) (u svc : SUnit) (n : Str) (hnd : (u.map Prod.fst).Nodup)
    (h : fromNetwork E path u = .ok (svc, n)) : UnmanagedKept u svc (s "Network") (s "X-Network") :=
  fun S k hk hS => unmanaged_of_keys (startService path u) u svc _ _ (by decide) (keys_startService path u hnd)
    (keys_fromNetwork E path u svc n h) S k hk hS
theorem C07_pod_keys (E : Env) (path : Str) (u svc : SUnit) (cs : List Str) (hnd : (u.map Prod.fst).Nodup)
    (h : fromPod E path u cs = .ok svc) : UnmanagedKept u svc (s "Pod") (s "X-Pod") :=
  fun S k hk hS => unmanaged_of_keys (startService path u) u svc _ _ (by decide) (keys_startService path u hnd)
    (keys_fromPod E path u svc cs h) S k hk hS
theorem C07_kube_keys (E : Env) (path : Str) (u svc : SUnit) (hnd : (u.map Prod.fst).Nodup)
    (h : fromKube E path u = .ok svc) : UnmanagedKept u svc (s "Kube") (s "X-Kube") :=
  fun S k hk hS => unmanaged_of_keys (startService path u) u svc _ _ (by decide) (keys_startService path u hnd)
    (keys_fromKube E path u svc h) S k hk hS
theorem C07_build_keys (E : Env) (path : Str) (u svc : SUnit) (hnd : (u.map Prod.fst).Nodup)
    (h : fromBuild E path u = .ok svc) : UnmanagedKept u svc (s "Build") (s "X-Build") :=
  fun S k hk hS => unmanaged_of_keys (buildStart path u) u svc _ _ (by decide) (keys_buildStart path u hnd)
    (keys_fromBuild E path u svc h) S k hk hS
theorem C07_container_keys (E : Env) (path : Str) (u svc : SUnit) (link : Option (Str × Str)) (hnd : (u.map Prod.fst).Nodup)
    (h : fromContainer E path u = some (.ok (svc, link))) : UnmanagedKept u svc (s "Container") (s "X-Container") :=
  fun S k hk hS => unmanaged_of_keys (startService path u) u svc _ _ (by decide) (keys_startService path u hnd)
    (keys_fromContainer E path u svc link h) S k hk hS

theorem C07_image_keys (E : Env) (path : Str) (u svc : SUnit) (r : Str) (hnd : (u.map Prod.fst).Nodup)
    (h : fromImage E path u = .ok (svc, r)) : UnmanagedKept u svc (s "Image") (s "X-Image") := by
  have hk : KeepsOther (preOf (startService path u) (s "Image") (s "X-Image")) svc := by
    rw [fromImage_ok E path u svc r h]
    unfold imageSvc
    exact ((kk_addS _ _ _ _).trans (kk_addEntry _ _ _ _)).trans (kk_oneShot _ _)
  exact fun S k hk' hS => unmanaged_of_keys (startService path u) u svc _ _ (by decide) (keys_startService path u hnd) hk S k hk' hS

/-- T1: the managed pairs are exactly the (section, key) pairs that convert.rs writes with `add` / `set` / `prepend` /
    `add_raw` (extracted from the source on every run; a write with a non-literal key makes the extraction fail) -/
theorem C07_managed_conforms : (∀ p ∈ Gen.writtenPairs, p ∈ managed) ∧ (∀ p ∈ managed, p ∈ Gen.writtenPairs) := by decide

/-- non-vacuity: `Restart=` … no: `TimeoutStartSec`, `Description`, `Documentation`, `ExecReload`, `User` are not managed -/
example : (s "Service", s "TimeoutStartSec") ∉ managed ∧ (s "Unit", s "Description") ∉ managed ∧ (s "Unit", s "Documentation") ∉ managed
    ∧ (s "Service", s "ExecReload") ∉ managed ∧ (s "Install", s "WantedBy") ∉ managed := by decide


/-! ### managed keys: the user's entries are kept, the generator only adds

Apart from the five settings written with `set` (`Cv.setPairs`: KillMode, Type, NotifyAccess, SyslogIdentifier,
RemainAfterExit — there the generator replaces the *last* value, see `C07_oneshot_keeps_user_choice`,
`C07_killmode_kept`), the entries of every key in every section only grow: the user's entries of a key are a sublist
— same raw values, same order — of the service's entries of that key (`After=`, `Requires=`, `Environment=`,
`ExecStartPre=`, `ExecStart=`, `WorkingDirectory=` … included). -/

def UserEntriesKept (u svc : SUnit) (own xown : Str) : Prop :=
  ∀ S k, (S, k) ∉ setPairs → S ∉ [own, xown, s "Quadlet", s "X-Quadlet"] → (keyEntries u S k).Sublist (keyEntries svc S k)

theorem C07_volume_grows (E : Env) (path : Str) (u svc : SUnit) (n : Str) (hnd : (u.map Prod.fst).Nodup)
    (h : fromVolume E path u = .ok (svc, n)) : UserEntriesKept u svc (s "Volume") (s "X-Volume") :=
  fun S k hk hS => grows_of (startService path u) u svc _ _ (by decide) (grows_startService path u hnd)
    (grows_fromVolume E path u svc n h) S k hk hS
theorem C07_network_grows (E : Env) (path : Str) (u svc : SUnit) (n : Str) (hnd : (u.map Prod.fst).Nodup)
    (h : fromNetwork E path u = .ok (svc, n)) : UserEntriesKept u svc (s "Network") (s "X-Network") :=
  fun S k hk hS => grows_of (startService path u) u svc _ _ (by decide) (grows_startService path u hnd)
    (grows_fromNetwork E path u svc n h) S k hk hS
theorem C07_pod_grows (E : Env) (path : Str) (u svc : SUnit) (cs : List Str) (hnd : (u.map Prod.fst).Nodup)
    (h : fromPod E path u cs = .ok svc) : UserEntriesKept u svc (s "Pod") (s "X-Pod") :=
  fun S k hk hS => grows_of (startService path u) u svc _ _ (by decide) (grows_startService path u hnd)
    (grows_fromPod E path u svc cs h) S k hk hS
theorem C07_kube_grows (E : Env) (path : Str) (u svc : SUnit) (hnd : (u.map Prod.fst).Nodup)
    (h : fromKube E path u = .ok svc) : UserEntriesKept u svc (s "Kube") (s "X-Kube") :=
  fun S k hk hS => grows_of (startService path u) u svc _ _ (by decide) (grows_startService path u hnd)
    (grows_fromKube E path u svc h) S k hk hS
theorem C07_build_grows (E : Env) (path : Str) (u svc : SUnit) (hnd : (u.map Prod.fst).Nodup)
    (h : fromBuild E path u = .ok svc) : UserEntriesKept u svc (s "Build") (s "X-Build") :=
  fun S k hk hS => grows_of (buildStart path u) u svc _ _ (by decide) (grows_buildStart path u hnd)
    (grows_fromBuild E path u svc h) S k hk hS
theorem C07_container_grows (E : Env) (path : Str) (u svc : SUnit) (link : Option (Str × Str)) (hnd : (u.map Prod.fst).Nodup)
    (h : fromContainer E path u = some (.ok (svc, link))) : UserEntriesKept u svc (s "Container") (s "X-Container") :=
  fun S k hk hS => grows_of (startService path u) u svc _ _ (by decide) (grows_startService path u hnd)
    (grows_fromContainer E path u svc link h) S k hk hS

/-- the settings written with `set` are among the managed pairs (T1-conformant list) -/
example : ∀ p ∈ setPairs, p ∈ managed := by decide

end Cv
