import QM.Props.C08
/-! # C08 — the names in the final name table, by unit type

`C08_process_concrete` says every unit is converted against `Refine.fin (sys b) units`, the *final* name table.  These theorems
say what that table holds for a unit of the run, in terms of the unit's own (merged) keys — the "podman object name the referenced
unit actually creates" and "the referenced unit's actual service" of the statement:

* service: `ServiceName=` of the unit's own section if assigned, else `<stem><suffix>` with the suffix of its type (`C08_table_service`);
* .volume: `VolumeName=` if non-empty, else `systemd-<stem>` — as soon as its keys are documented (`C08_table_volume`);
* .network: `NetworkName=` / `systemd-<stem>`, .image: `ImageTag=` / `Image=` — when the unit converts (`C08_table_network`, `C08_table_image`);
* .build: the first non-empty `ImageTag=`; .container: `ContainerName=` with `%N` resolved, `systemd-<service name>` by default
  (`C08_table_build`, `C08_table_container`);
* a name that is no unit of the run has no entry (`C08_table_missing`): the reference handlers then fail the referring unit with the
  missing file's name (`C08_*_reference_missing`). -/
namespace Cv
open MM

theorem ty_ne : s "volume" ≠ s "image" ∧ s "network" ≠ s "image" ∧ s "network" ≠ s "volume" ∧ s "build" ≠ s "image" ∧ s "build" ≠ s "volume"
    ∧ s "build" ≠ s "network" ∧ s "container" ≠ s "image" ∧ s "container" ≠ s "volume" ∧ s "container" ≠ s "network" ∧ s "container" ≠ s "build" := by
  decide

theorem fin_of_mem (b : Bool) (units : List QUnit) (hd : (units.map QUnit.name).Nodup) (q : QUnit) (hq : q ∈ units) :
    Refine.fin (sys b) units q.name = some ((publishOf b q).getD (prefill q)) := by
  unfold Refine.fin
  rw [show q.name = (sys b).name q from rfl, Refine.findUnit_of_mem (sys b) units hd q hq]
  rfl

/-- the service every referrer depends on: the unit's `ServiceName=`, else stem + the suffix of its type -/
theorem C08_table_service (b : Bool) (units : List QUnit) (hd : (units.map QUnit.name).Nodup) (q : QUnit) (hq : q ∈ units) :
    ∃ i, Refine.fin (sys b) units q.name = some i ∧ i.serviceName = serviceNameOf q.path q.unit := by
  refine ⟨_, fin_of_mem b units hd q hq, ?_⟩
  unfold publishOf prefill
  simp only
  split
  · split <;> rfl
  · split
    · cases volumePublished q <;> rfl
    · split
      · split <;> rfl
      · rfl

/-- a name that no unit of the run has: no entry -/
theorem C08_table_missing (b : Bool) (units : List QUnit) (n : Str) (h : ∀ q ∈ units, q.name ≠ n) :
    Refine.fin (sys b) units n = none := by
  unfold Refine.fin Refine.findUnit
  have : units.find? (fun u => (sys b).name u = n) = none := by
    rw [List.find?_eq_none]
    intro q hq
    simp [sys, h q hq]
  rw [this]; rfl

/-- .volume: the object is `VolumeName=` or `systemd-<stem>`, published as soon as the unit's keys are documented ones -/
theorem C08_table_volume (b : Bool) (units : List QUnit) (hd : (units.map QUnit.name).Nodup) (q : QUnit) (hq : q ∈ units)
    (hty : q.ty = s "volume") (n : Str) (hp : volumePublished q = some n) :
    Refine.fin (sys b) units q.name = some { serviceName := serviceNameOf q.path q.unit, resourceName := n } := by
  rw [fin_of_mem b units hd q hq]
  unfold publishOf
  have h1 : (q.ty == s "image") = false := by rw [hty]; decide
  simp [hty, hp, ty_ne.1]

theorem C08_volume_published_name (q : QUnit) (n : Str) (hp : volumePublished q = some n) :
    n = (if ((lookup q.unit (s "Volume") (s "VolumeName")).getD []).isEmpty then s "systemd-" ++ fileStem q.name
         else (lookup q.unit (s "Volume") (s "VolumeName")).getD []) := by
  unfold volumePublished at hp
  split at hp
  · simp at hp
  · simp only [Option.some.injEq] at hp; exact hp.symm

/-- .network: the name the converter hands to `podman network create` -/
theorem C08_table_network (b : Bool) (units : List QUnit) (hd : (units.map QUnit.name).Nodup) (q : QUnit) (hq : q ∈ units)
    (hty : q.ty = s "network") (svc : SUnit) (r : Str) (hc : fromNetwork (envOf b (fun _ => none)) q.path q.unit = .ok (svc, r)) :
    Refine.fin (sys b) units q.name = some { serviceName := serviceNameOf q.path q.unit, resourceName := r }
      ∧ r = networkNameOf q.path q.unit := by
  constructor
  · rw [fin_of_mem b units hd q hq]
    unfold publishOf
    have h1 : (q.ty == s "image") = false := by rw [hty]; decide
    have h2 : (q.ty == s "volume") = false := by rw [hty]; decide
    simp [hty, hc, ty_ne.2.1, ty_ne.2.2.1]
  · unfold fromNetwork at hc
    simp only [bind_ok] at hc
    obtain ⟨_, _, _, _, _, _, _, _, hfin⟩ := hc
    simp only [pure, Except.pure, Except.ok.injEq, Prod.mk.injEq] at hfin
    exact hfin.2.symm

/-- .image: `ImageTag=` if non-empty, else the value of `Image=` -/
theorem C08_table_image (b : Bool) (units : List QUnit) (hd : (units.map QUnit.name).Nodup) (q : QUnit) (hq : q ∈ units)
    (hty : q.ty = s "image") (svc : SUnit) (r : Str) (hc : fromImage (envOf b (fun _ => none)) q.path q.unit = .ok (svc, r)) :
    Refine.fin (sys b) units q.name = some { serviceName := serviceNameOf q.path q.unit, resourceName := r } := by
  rw [fin_of_mem b units hd q hq]
  unfold publishOf
  simp [hty, hc]

/-- .build: the first non-empty `ImageTag=`; .container: `ContainerName=` with `%N` resolved (no name when another specifier
    remains) — both known before any unit is converted -/
theorem C08_table_build (b : Bool) (units : List QUnit) (hd : (units.map QUnit.name).Nodup) (q : QUnit) (hq : q ∈ units)
    (hty : q.ty = s "build") :
    Refine.fin (sys b) units q.name = some { serviceName := serviceNameOf q.path q.unit, resourceName := (builtImageName q.unit).getD [] } := by
  rw [fin_of_mem b units hd q hq]
  unfold publishOf prefill
  have h1 : (q.ty == s "image") = false := by rw [hty]; decide
  have h2 : (q.ty == s "volume") = false := by rw [hty]; decide
  have h3 : (q.ty == s "network") = false := by rw [hty]; decide
  simp [hty, ty_ne.2.2.2.1, ty_ne.2.2.2.2.1, ty_ne.2.2.2.2.2.1]

theorem C08_table_container (b : Bool) (units : List QUnit) (hd : (units.map QUnit.name).Nodup) (q : QUnit) (hq : q ∈ units)
    (hty : q.ty = s "container") :
    Refine.fin (sys b) units q.name
      = some (Info.mk (serviceNameOf q.path q.unit) (containerResourceName q.name q.unit (serviceNameOf q.path q.unit))) := by
  rw [fin_of_mem b units hd q hq]
  unfold publishOf prefill
  have h1 : (q.ty == s "image") = false := by rw [hty]; decide
  have h2 : (q.ty == s "volume") = false := by rw [hty]; decide
  have h3 : (q.ty == s "network") = false := by rw [hty]; decide
  have h4 : (q.ty == s "build") = false := by rw [hty]; decide
  simp [hty, ty_ne.2.2.2.2.2.2.1, ty_ne.2.2.2.2.2.2.2.1, ty_ne.2.2.2.2.2.2.2.2.1, ty_ne.2.2.2.2.2.2.2.2.2]

/-! ### the formulas behind the names (so that the statements above do not rest on what a model function happens to compute) -/

/-- the service suffix of every unit type, as the statement lists them (the table is extracted from the source, T1) -/
theorem C08_suffixes :
    suffixOf (s "container") = [] ∧ suffixOf (s "kube") = [] ∧ suffixOf (s "volume") = s "-volume" ∧ suffixOf (s "network") = s "-network"
    ∧ suffixOf (s "image") = s "-image" ∧ suffixOf (s "build") = s "-build" ∧ suffixOf (s "pod") = s "-pod" := by decide

/-- `ServiceName=` of the unit's own section if it is assigned, else file stem + suffix of the type -/
theorem C08_service_name_formula (path : Str) (u : SUnit) :
    serviceNameOf path u = match lookup u (sectionOf (extension (fileName path))) (s "ServiceName") with
      | some n => n
      | none => fileStem (fileName path) ++ suffixOf (extension (fileName path)) := rfl

/-- `NetworkName=` if it is not empty, else `systemd-<file stem>` -/
theorem C08_network_name_formula (path : Str) (u : SUnit) :
    networkNameOf path u = (if ((lookup u (s "Network") (s "NetworkName")).getD []).isEmpty then s "systemd-" ++ fileStem (fileName path)
                            else (lookup u (s "Network") (s "NetworkName")).getD []) := rfl

/-- the first `ImageTag=` that is not empty -/
theorem C08_build_name_formula (u : SUnit) (t : Str) (h : builtImageName u = some t) :
    t ∈ lookupAll u (s "Build") (s "ImageTag") ∧ t ≠ [] := by
  unfold builtImageName at h
  refine ⟨List.mem_of_find?_eq_some h, ?_⟩
  have := List.find?_some h
  intro e; subst e; simp at this

example : serviceNameOf (s "/q/data.volume") [] = s "data-volume" ∧ serviceNameOf (s "/q/web.container") [] = s "web"
    ∧ networkNameOf (s "/q/front.network") [] = s "systemd-front" := by decide

end Cv
