import QM.ConvLemmas
import QM.ConvNoUK
import QM.Conform
/-! # C16 — undocumented keys are rejected, documented keys are accepted

`Cv.from*` are the executable models of the seven converters (tied to convert.rs by the `convert`
correspondence); their key tables are the `SUPPORTED_*_KEYS` extracted from constants.rs on every run and
shown equal (as sets) to the frozen documented tables by `Conform.supported_*`.  Matching is exact
(`List.contains` on the key text), so case changes and one-character edits are covered by the same theorems. -/
namespace Cv
open MM

/-- the first undocumented key (file order) of the unit's own section fails the conversion and is the key named -/
theorem C16_image_rejects (E path u k) (h : firstUnknown (entriesOf u (s "Image")) supportedImage = some k) :
    fromImage E path u = .error (.unknownKey k) := by
  unfold fromImage; simp only [checkUnknown_err _ _ _ _ h]; rfl
theorem C16_volume_rejects (E path u k) (h : firstUnknown (entriesOf u (s "Volume")) supportedVolume = some k) :
    fromVolume E path u = .error (.unknownKey k) := by
  unfold fromVolume; simp only [checkUnknown_err _ _ _ _ h]; rfl
theorem C16_network_rejects (E path u k) (h : firstUnknown (entriesOf u (s "Network")) supportedNetwork = some k) :
    fromNetwork E path u = .error (.unknownKey k) := by
  unfold fromNetwork; simp only [checkUnknown_err _ _ _ _ h]; rfl
theorem C16_pod_rejects (E path u cs k) (h : firstUnknown (entriesOf u (s "Pod")) supportedPod = some k) :
    fromPod E path u cs = .error (.unknownKey k) := by
  unfold fromPod; simp only [checkUnknown_err _ _ _ _ h]; rfl
theorem C16_kube_rejects (E path u k) (h : firstUnknown (entriesOf u (s "Kube")) supportedKube = some k) :
    fromKube E path u = .error (.unknownKey k) := by
  unfold fromKube; simp only [checkUnknown_err _ _ _ _ h]; rfl
/-- .build: the missing-ImageTag check precedes the key check (`passesEarlierChecks`) -/
theorem C16_build_rejects (E path u k) (i : Info) (hi : E.info (fileName path) = some i) (hr : i.resourceName.isEmpty = false)
    (h : firstUnknown (entriesOf u (s "Build")) supportedBuild = some k) :
    fromBuild E path u = .error (.unknownKey k) := by
  unfold fromBuild; simp only [hi, pure_bind, hr, Bool.false_eq_true, if_false, checkUnknown_err _ _ _ _ h]; rfl
/-- .container (inside the modelled CSV subset of Mount=; the name table always holds the unit itself) -/
theorem C16_container_rejects (E path u k) (i : Info) (hi : E.info (fileName path) = some i)
    (hm : (lookupAllArgs u (s "Container") (s "Mount")).any (fun m => (findMountType m).isNone) = false)
    (h : firstUnknown (entriesOf u (s "Container")) supportedContainer = some k) :
    fromContainer E path u = some (.error (.unknownKey k)) := by
  unfold fromContainer
  simp only [hm, Bool.false_eq_true, if_false, hi, checkUnknown_err _ _ _ _ h]; rfl

/-- … and likewise an undocumented key of [Quadlet], when the unit's own section is clean -/
theorem C16_image_rejects_quadlet (E path u k) (h0 : firstUnknown (entriesOf u (s "Image")) supportedImage = none)
    (h : firstUnknown (entriesOf u (s "Quadlet")) supportedQuadlet = some k) :
    fromImage E path u = .error (.unknownKey k) := by
  unfold fromImage; simp only [checkUnknown_ok _ _ _ h0, checkUnknown_err _ _ _ _ h]; rfl
theorem C16_volume_rejects_quadlet (E path u k) (h0 : firstUnknown (entriesOf u (s "Volume")) supportedVolume = none)
    (h : firstUnknown (entriesOf u (s "Quadlet")) supportedQuadlet = some k) :
    fromVolume E path u = .error (.unknownKey k) := by
  unfold fromVolume; simp only [checkUnknown_ok _ _ _ h0, checkUnknown_err _ _ _ _ h]; rfl
theorem C16_network_rejects_quadlet (E path u k) (h0 : firstUnknown (entriesOf u (s "Network")) supportedNetwork = none)
    (h : firstUnknown (entriesOf u (s "Quadlet")) supportedQuadlet = some k) :
    fromNetwork E path u = .error (.unknownKey k) := by
  unfold fromNetwork; simp only [checkUnknown_ok _ _ _ h0, checkUnknown_err _ _ _ _ h]; rfl
theorem C16_pod_rejects_quadlet (E path u cs k) (h0 : firstUnknown (entriesOf u (s "Pod")) supportedPod = none)
    (h : firstUnknown (entriesOf u (s "Quadlet")) supportedQuadlet = some k) :
    fromPod E path u cs = .error (.unknownKey k) := by
  unfold fromPod; simp only [checkUnknown_ok _ _ _ h0, checkUnknown_err _ _ _ _ h]; rfl
theorem C16_kube_rejects_quadlet (E path u k) (h0 : firstUnknown (entriesOf u (s "Kube")) supportedKube = none)
    (h : firstUnknown (entriesOf u (s "Quadlet")) supportedQuadlet = some k) :
    fromKube E path u = .error (.unknownKey k) := by
  unfold fromKube; simp only [checkUnknown_ok _ _ _ h0, checkUnknown_err _ _ _ _ h]; rfl
theorem C16_build_rejects_quadlet (E path u k) (i : Info) (hi : E.info (fileName path) = some i) (hr : i.resourceName.isEmpty = false)
    (h0 : firstUnknown (entriesOf u (s "Build")) supportedBuild = none)
    (h : firstUnknown (entriesOf u (s "Quadlet")) supportedQuadlet = some k) :
    fromBuild E path u = .error (.unknownKey k) := by
  unfold fromBuild; simp only [hi, pure_bind, hr, Bool.false_eq_true, if_false, checkUnknown_ok _ _ _ h0, checkUnknown_err _ _ _ _ h]; rfl
theorem C16_container_rejects_quadlet (E path u k) (i : Info) (hi : E.info (fileName path) = some i)
    (hm : (lookupAllArgs u (s "Container") (s "Mount")).any (fun m => (findMountType m).isNone) = false)
    (h0 : firstUnknown (entriesOf u (s "Container")) supportedContainer = none)
    (h : firstUnknown (entriesOf u (s "Quadlet")) supportedQuadlet = some k) :
    fromContainer E path u = some (.error (.unknownKey k)) := by
  unfold fromContainer
  simp only [hm, Bool.false_eq_true, if_false, hi, checkUnknown_ok _ _ _ h0, checkUnknown_err _ _ _ _ h]; rfl

/-- which key is named: the first entry in file order whose key is not in the table -/
theorem C16_names_first (es : Entries) (sup : List Str) (k : Str) :
    firstUnknown es sup = some k ↔
      ∃ pre v post, es = pre ++ (k, v) :: post ∧ (∀ kv ∈ pre, kv.1 ∈ sup) ∧ k ∉ sup :=
  firstUnknown_some_iff es sup k

/-- no unknown-key rejection when every key is in the table -/
theorem C16_clean_passes (u : SUnit) (sec : Str) (sup : List Str) (h : ∀ kv ∈ entriesOf u sec, kv.1 ∈ sup) :
    checkUnknown u sec sup = .ok () :=
  checkUnknown_ok u sec sup ((firstUnknown_none_iff _ _).mpr h)


/-! ### acceptance: documented keys are never rejected as unknown

`NoUK r` (QM/ConvNoUK.lean): the computation `r` cannot end in an `unknownKey` error.  When the unit's own section and
[Quadlet] hold documented keys only, no step of any converter model raises one — the key check is the only source of
that error (every handler, including the monadic folds over Volume=, Network=, Mount= and ExposeHostPort=, is shown to
raise other errors only). Other errors (a missing image, a bad port …) remain possible and are not this property. -/

theorem C16_image_accepts (E : Env) (path : Str) (u : SUnit)
    (h0 : firstUnknown (entriesOf u (s "Image")) supportedImage = none)
    (h1 : firstUnknown (entriesOf u (s "Quadlet")) supportedQuadlet = none) :
    ∀ k, fromImage E path u ≠ .error (.unknownKey k) :=
  fun k h => by have := fromImage_noUK E path u h0 h1 _ h; simp [isUK] at this
theorem C16_volume_accepts (E : Env) (path : Str) (u : SUnit)
    (h0 : firstUnknown (entriesOf u (s "Volume")) supportedVolume = none)
    (h1 : firstUnknown (entriesOf u (s "Quadlet")) supportedQuadlet = none) :
    ∀ k, fromVolume E path u ≠ .error (.unknownKey k) :=
  fun k h => by have := fromVolume_noUK E path u h0 h1 _ h; simp [isUK] at this
theorem C16_network_accepts (E : Env) (path : Str) (u : SUnit)
    (h0 : firstUnknown (entriesOf u (s "Network")) supportedNetwork = none)
    (h1 : firstUnknown (entriesOf u (s "Quadlet")) supportedQuadlet = none) :
    ∀ k, fromNetwork E path u ≠ .error (.unknownKey k) :=
  fun k h => by have := fromNetwork_noUK E path u h0 h1 _ h; simp [isUK] at this
theorem C16_pod_accepts (E : Env) (path : Str) (u : SUnit) (cts : List Str)
    (h0 : firstUnknown (entriesOf u (s "Pod")) supportedPod = none)
    (h1 : firstUnknown (entriesOf u (s "Quadlet")) supportedQuadlet = none) :
    ∀ k, fromPod E path u cts ≠ .error (.unknownKey k) :=
  fun k h => by have := fromPod_noUK E path u cts h0 h1 _ h; simp [isUK] at this
theorem C16_kube_accepts (E : Env) (path : Str) (u : SUnit)
    (h0 : firstUnknown (entriesOf u (s "Kube")) supportedKube = none)
    (h1 : firstUnknown (entriesOf u (s "Quadlet")) supportedQuadlet = none) :
    ∀ k, fromKube E path u ≠ .error (.unknownKey k) :=
  fun k h => by have := fromKube_noUK E path u h0 h1 _ h; simp [isUK] at this
theorem C16_build_accepts (E : Env) (path : Str) (u : SUnit)
    (h0 : firstUnknown (entriesOf u (s "Build")) supportedBuild = none)
    (h1 : firstUnknown (entriesOf u (s "Quadlet")) supportedQuadlet = none) :
    ∀ k, fromBuild E path u ≠ .error (.unknownKey k) :=
  fun k h => by have := fromBuild_noUK E path u h0 h1 _ h; simp [isUK] at this
theorem C16_container_accepts (E : Env) (path : Str) (u : SUnit)
    (h0 : firstUnknown (entriesOf u (s "Container")) supportedContainer = none)
    (h1 : firstUnknown (entriesOf u (s "Quadlet")) supportedQuadlet = none) :
    ∀ k, fromContainer E path u ≠ some (.error (.unknownKey k)) :=
  fun k h => by have := fromContainer_noUK E path u _ h0 h1 h _ rfl; simp [isUK] at this

end Cv
