import QM.Props.C02
import QM.Props.C15
/-! # C15 at the command level — "the generated command reflects exactly that effective value"

For a single-valued table key the effective value is the last assignment (`C15_last`), wherever it was made — in the main file, a
repeated section, or a drop-in merged after it (`C15_history`) — and `C02_string_option_reaches_podman` carries it into the command.
Stated for the `.network` converter model, whose command shape is fully explicit. -/
namespace Cv
open MM

/-- the last assignment of a single-valued table key is the option's value on the command line -/
theorem C15_network_command_last (E : Env) (path : Str) (u svc : SUnit) (n k f : Str) (earlier : List Str) (raw : Str)
    (h : fromNetwork E path u = .ok (svc, n))
    (hr : (k, f) ∈ Gen.tbl_from_network_unit_string_keys)
    (hh : assignments u (s "Network") k = earlier ++ [raw]) (hne : (unq raw).isEmpty = false) :
    ∃ cmd, HasExec svc "ExecStart" cmd ∧ [f, unq raw] <:+: cmd := by
  have hv : lookup u (s "Network") k = some (unq raw) := by
    rw [(C15_last u (s "Network") k).2, hh]; simp
  obtain ⟨cmd, hx, hi, _⟩ := C02_string_option_reaches_podman E path u svc n k f (unq raw) h hr hv hne
  exact ⟨cmd, hx, hi⟩

/-- … also when it is made in a drop-in: of all assignments in the main file and the drop-ins, in merge order, the last one counts -/
theorem C15_network_command_last_dropins (E : Env) (path : Str) (main : SUnit) (dropins : List SUnit) (svc : SUnit) (n k f : Str)
    (hnd : ∀ d ∈ dropins, (d.map Prod.fst).Nodup)
    (h : fromNetwork E path (dropins.foldl mergeFrom main) = .ok (svc, n))
    (hr : (k, f) ∈ Gen.tbl_from_network_unit_string_keys) (earlier : List Str) (raw : Str)
    (hh : assignments main (s "Network") k ++ dropins.flatMap (assignments · (s "Network") k) = earlier ++ [raw])
    (hne : (unq raw).isEmpty = false) :
    ∃ cmd, HasExec svc "ExecStart" cmd ∧ [f, unq raw] <:+: cmd :=
  C15_network_command_last E path _ svc n k f earlier raw h hr (by rw [C15_history main dropins hnd]; exact hh) hne

end Cv

/-! ### the same for the single-valued table keys of the other converters -/
namespace Cv
open MM

/-- the last assignment of a single-valued table key, wherever it was made, is the value of the key's option in the block of
    options derived from the table -/
theorem string_key_last_in_block (u : SUnit) (sec : Str) (rows : List (Str × Str)) (k f : Str) (earlier : List Str) (raw : Str)
    (hr : (k, f) ∈ rows) (hh : assignments u sec k = earlier ++ [raw]) (hne : (unq raw).isEmpty = false) :
    [f, unq raw] <:+: addString u sec rows := by
  have hv : lookup u sec k = some (unq raw) := by
    rw [(C15_last u sec k).2, hh]; simp
  exact rowString_infix u sec rows k f (unq raw) hr hv hne

theorem infix_mid {α} {x b : List α} (a c : List α) (h : x <:+: b) : x <:+: a ++ b ++ c :=
  h.trans (List.infix_append a b c)

/-- .image -/
theorem C15_image_command_last (E : Env) (path : Str) (u svc : SUnit) (r k f : Str) (earlier : List Str) (raw : Str)
    (h : fromImage E path u = .ok (svc, r))
    (hr : (k, f) ∈ Gen.tbl_from_image_unit_string_keys)
    (hh : assignments u (s "Image") k = earlier ++ [raw]) (hne : (unq raw).isEmpty = false) :
    [f, unq raw] <:+: imageCmd E u := by
  rw [(C02_image_shape E path u svc r h).2]
  have hb := string_key_last_in_block u (s "Image") _ k f earlier raw hr hh hne
  have := infix_mid ([E.podman] ++ moduleArgs u (s "Image") ++ lookupAllArgs u (s "Image") (s "GlobalArgs") ++ [s "image", s "pull"])
    (addBool u (s "Image") Gen.tbl_from_image_unit_bool_keys ++ lookupAllArgs u (s "Image") (s "PodmanArgs")
      ++ [(lookup u (s "Image") (s "Image")).getD []]) hb
  simpa only [List.append_assoc] using this

/-- .pod (the create command, ExecStartPre) -/
theorem C15_pod_command_last (E : Env) (path : Str) (u svc : SUnit) (cts : List Str) (k f : Str) (earlier : List Str) (raw : Str)
    (h : fromPod E path u cts = .ok svc)
    (hr : (k, f) ∈ Gen.tbl_from_pod_unit_string_keys)
    (hh : assignments u (s "Pod") k = earlier ++ [raw]) (hne : (unq raw).isEmpty = false) :
    ∃ cmd, HasExec svc "ExecStartPre" cmd ∧ [f, unq raw] <:+: cmd := by
  obtain ⟨maps, nets, vols, hx⟩ := C02_pod_shape E path u svc cts h
  refine ⟨_, hx, ?_⟩
  have hb := string_key_last_in_block u (s "Pod") _ k f earlier raw hr hh hne
  have := infix_mid (baseCmd E u (s "Pod") ++ [s "pod", s "create", s "--infra-conmon-pidfile=%t/%N.pid", s "--pod-id-file=%t/%N.pod-id",
          s "--exit-policy=stop", s "--replace"] ++ maps ++ publishPorts u (s "Pod") ++ nets)
    (addAllStrings u (s "Pod") Gen.tbl_from_pod_unit_all_string_keys ++ vols
      ++ [s "--infra-name", podNameOf path u ++ s "-infra", s "--name", podNameOf path u] ++ podmanArgs u (s "Pod")) hb
  simpa only [List.append_assoc] using this

theorem infix_here {α} {x b : List α} (c : List α) (h : x <:+: b) : x <:+: b ++ c :=
  h.trans (List.prefix_append b c).isInfix
theorem infix_skip {α} {x r : List α} (a : List α) (h : x <:+: r) : x <:+: a ++ r :=
  h.trans (List.suffix_append a r).isInfix

/-- .build -/
theorem C15_build_command_last (E : Env) (path : Str) (u svc : SUnit) (k f : Str) (earlier : List Str) (raw : Str)
    (h : fromBuild E path u = .ok svc)
    (hr : (k, f) ∈ Gen.tbl_from_build_unit_string_keys)
    (hh : assignments u (s "Build") k = earlier ++ [raw]) (hne : (unq raw).isEmpty = false) :
    ∃ cmd, HasExec svc "ExecStart" cmd ∧ [f, unq raw] <:+: cmd := by
  obtain ⟨nets, vols, fa, tail, hx⟩ := C02_build_shape E path u svc h
  refine ⟨_, hx, ?_⟩
  have hb := string_key_last_in_block u (s "Build") _ k f earlier raw hr hh hne
  simp only [List.append_assoc]
  repeat (first | exact infix_here _ hb | apply infix_skip)

/-- .container -/
theorem C15_container_command_last (E : Env) (path : Str) (u svc : SUnit) (link : Option (Str × Str)) (k f : Str)
    (earlier : List Str) (raw : Str)
    (h : fromContainer E path u = some (.ok (svc, link)))
    (hr : (k, f) ∈ Gen.tbl_from_container_unit_string_keys)
    (hh : assignments u (s "Container") k = earlier ++ [raw]) (hne : (unq raw).isEmpty = false) :
    ∃ cmd, HasExec svc "ExecStart" cmd ∧ [f, unq raw] <:+: cmd := by
  obtain ⟨m1, mounts, podArgs, image, hx⟩ := C02_container_shape E path u svc link h
  refine ⟨_, hx, ?_⟩
  have hb := string_key_last_in_block u (s "Container") _ k f earlier raw hr hh hne
  unfold containerHead
  simp only [List.append_assoc]
  repeat (first | exact infix_here _ hb | apply infix_skip)

end Cv
