import QM.Props.C02
import QM.Props.C15
/-! # C15 at the command level — "the generated command reflects exactly that effective value"

For a single-valued table key the effective value is the last assignment (`C15_last`), wherever it was made — in the main file, a
repeated section, or a drop-in merged after it (`C15_history`) — and `C02_string_option_reaches_podman` carries it into the command.
Stated for the `.network` converter model, whose command shape is fully explicit. -/
namespace Cv
open MM

/-- the last assignment of a single-valued table key is the option's value on the command line -/
theorem C15_network_command_last (E : Env) (path : Str) (u svc : SUnit) (n k f : Str) (earlier : List Str) (raw : Str)
    (h : fromNetwork E path u = .ok (svc, n))
    (hr : (k, f) ∈ Gen.tbl_from_network_unit_string_keys)
    (hh : assignments u (s "Network") k = earlier ++ [raw]) (hne : (unq raw).isEmpty = false) :
    ∃ cmd, HasExec svc "ExecStart" cmd ∧ [f, unq raw] <:+: cmd := by
  have hv : lookup u (s "Network") k = some (unq raw) := by
    rw [(C15_last u (s "Network") k).2, hh]; simp
  obtain ⟨cmd, hx, hi, _⟩ := C02_string_option_reaches_podman E path u svc n k f (unq raw) h hr hv hne
  exact ⟨cmd, hx, hi⟩

/-- … also when it is made in a drop-in: of all assignments in the main file and the drop-ins, in merge order, the last one counts -/
theorem C15_network_command_last_dropins (E : Env) (path : Str) (main : SUnit) (dropins : List SUnit) (svc : SUnit) (n k f : Str)
    (hnd : ∀ d ∈ dropins, (d.map Prod.fst).Nodup)
    (h : fromNetwork E path (dropins.foldl mergeFrom main) = .ok (svc, n))
    (hr : (k, f) ∈ Gen.tbl_from_network_unit_string_keys) (earlier : List Str) (raw : Str)
    (hh : assignments main (s "Network") k ++ dropins.flatMap (assignments · (s "Network") k) = earlier ++ [raw])
    (hne : (unq raw).isEmpty = false) :
    ∃ cmd, HasExec svc "ExecStart" cmd ∧ [f, unq raw] <:+: cmd :=
  C15_network_command_last E path _ svc n k f earlier raw h hr (by rw [C15_history main dropins hnd]; exact hh) hne

end Cv
