import QM.FsLemmas
import QM.FsDropins
import QM.Props.C15
import QM.Props.C03
import QM.SplitLemmas
import QM.MergeLemmas
/-! # C13 — search order picks among same-named files; drop-ins come from every search dir

`Cv.candidates t` lists the unit files of an abstract tree in discovery order (every directory of the search order —
each search directory followed by its sub-directories — and within it the files with a supported extension);
`Cv.loadFrom` is the fold of `load_units_from_dir` with its `seen` set; `Cv.loadDropins` models
`load_dropins_from` (after the D9 repair).  Directory listing order inside one directory is a parameter of the
tree (readdir order is unspecified).  The model of the whole run (`Cv.runTree`) is compared with real runs of the
binary on generated trees. -/
namespace Cv

/-- exactly one unit is loaded per file name -/
theorem C13_one_per_name (cands : List (Str × Str)) : ((loadedUnits (loadFrom cands)).map QUnit.name).Nodup := by
  have h := fold_inv cands ([], []) ⟨by simp [loadedUnits], by simp⟩
  unfold loadFrom
  rw [← h.1]; exact h.2

/-- … and it is the first file of that name, in search order, that can be loaded -/
theorem C13_first_wins (cands : List (Str × Str)) :
    ∀ q ∈ loadedUnits (loadFrom cands), FirstWins cands q := by
  have := fold_first_wins cands [] ([], []) ⟨by simp [loadedUnits], by simp⟩ (by simp [loadedUnits]) (by simp)
  simpa [loadFrom] using this

/-- drop-ins are merged after the main file, one after the other: the assignment history of every key is the main
    file's followed by the drop-ins' in merge order (so C15's folds see the main file first) -/
theorem C13_merge_order (main : MM.SUnit) (dropins : List MM.SUnit) (hnd : ∀ f ∈ dropins, (f.map Prod.fst).Nodup) (sec key : Str) :
    assignments (dropins.foldl MM.mergeFrom main) sec key
      = assignments main sec key ++ dropins.flatMap (assignments · sec key) :=
  C15_history main dropins hnd sec key


/-! ### drop-ins

`loadDropins t q = (sortConfs (collectConfs t (dropinDirs (allDirs t) q.name))).foldl (mergeStep t) (q, false)`:
the statements below are about the list that is merged. -/

/-- the drop-in directories of a unit: `<dir>/<unit>.d` for every directory of the search order, in that order; for a
    template instance followed by `<dir>/<base>@.<type>.d` for every directory, the base ending at the first '@' -/
theorem C13_dropin_dirs (dirs : List Str) (n : Str) :
    dropinDirs dirs n = dirs.map (fun d => d ++ '/' :: n ++ s ".d") ++
      (match templateParts n with
       | (some b, some _) => dirs.map (fun d => d ++ '/' :: b ++ s "@." ++ extension n ++ s ".d")
       | _ => []) := rfl

/-- at most one drop-in per file name is merged -/
theorem C13_dropins_one_per_name (t : Tree) (dd : List Str) : ((sortConfs (collectConfs t dd)).map Prod.fst).Nodup :=
  ((sortConfs_perm _).map Prod.fst).nodup_iff.mpr (collect_names_nodup t dd)

/-- … it comes from the first directory, in priority order, that holds a `*.conf` of that name: a drop-in in an earlier
    directory hides the same name in every later one -/
theorem C13_dropins_first_dir_wins (t : Tree) (dd : List Str) : ∀ c ∈ sortConfs (collectConfs t dd), FromFirst t dd c :=
  fun c hc => collect_from_first t dd c ((sortConfs_perm _).subset hc)

/-- … every name found in any of the directories is merged (from some directory) -/
theorem C13_dropins_complete (t : Tree) (dd : List Str) (d n : Str) (hd : d ∈ dd) (hn : n ∈ confsIn t d) :
    n ∈ (sortConfs (collectConfs t dd)).map Prod.fst :=
  ((sortConfs_perm _).map Prod.fst).symm.subset (collect_complete t dd d n hd hn)

/-- … and they are merged in byte-wise name order, whatever directories they come from -/
theorem C13_dropins_name_order (t : Tree) (dd : List Str) : SortedByName (sortConfs (collectConfs t dd)) :=
  sortConfs_sorted _

/-! ### one file or a main file with drop-ins: the same unit

What C03 (repeated headers extend a section), C13 (drop-ins are merged after the main file) and C15 (histories) say
together, and what the file-level spelling oracle (`harness/filespell.py`) checks on the real loader: a unit spelled as one
file, cut at any section boundary into a main file and a drop-in (which re-opens whatever section it continues), reads as
the same unit — every section holds the same entries in the same order, so every lookup answers the same.  (Which
*empty* sections exist, and the order of sections that the drop-in opens first, are not part of this statement:
`merge_from` does not create a section for a header without entries.) -/

/-- the single file `r₁ ++ r₂` and the main file `r₁` merged with the drop-in `r₂` hold, section by section, the same entries -/
theorem C13_split_equiv (env : Parse.Env) (r₁ r₂ : List Parse.RSect)
    (wf₁ : ∀ s ∈ r₁, s.WF env) (wf₂ : ∀ s ∈ r₂, s.WF env) :
    ∃ whole main dropin,
      Parse.parse env (Parse.renderSects r₁ ++ Parse.renderSects r₂) = .ok whole ∧
      Parse.parse env (Parse.renderSects r₁) = .ok main ∧
      Parse.parse env (Parse.renderSects r₂) = .ok dropin ∧
      ∀ sec, MM.entriesOf whole sec = MM.entriesOf (MM.mergeFrom main dropin) sec := by
  refine ⟨Parse.eraseSects [] (r₁ ++ r₂), Parse.eraseSects [] r₁, Parse.eraseSects [] r₂, ?_, ?_, ?_, ?_⟩
  · rw [← Parse.renderSects_append]
    exact Parse.C03_parse_render env (r₁ ++ r₂) (by
      intro s hs
      rcases List.mem_append.mp hs with h | h
      · exact wf₁ s h
      · exact wf₂ s h)
  · exact Parse.C03_parse_render env r₁ wf₁
  · exact Parse.C03_parse_render env r₂ wf₂
  · intro sec
    rw [Parse.eraseSects_append, Parse.entriesOf_eraseSects,
      MM.entriesOf_mergeFrom _ _ (Parse.nodup_eraseSects r₂ [] (by simp)), Parse.entriesOf_eraseSects r₂ []]
    simp [MM.entriesOf, List.lookup]

/-- … hence the same assignment history for every key, and with it every lookup of C15 -/
theorem C13_split_histories (env : Parse.Env) (r₁ r₂ : List Parse.RSect)
    (wf₁ : ∀ s ∈ r₁, s.WF env) (wf₂ : ∀ s ∈ r₂, s.WF env) (whole main dropin : MM.SUnit)
    (hw : Parse.parse env (Parse.renderSects r₁ ++ Parse.renderSects r₂) = .ok whole)
    (hm : Parse.parse env (Parse.renderSects r₁) = .ok main) (hd : Parse.parse env (Parse.renderSects r₂) = .ok dropin)
    (sec key : Str) :
    assignments whole sec key = assignments (MM.mergeFrom main dropin) sec key ∧
    lookupAllValues whole sec key = lookupAllValues (MM.mergeFrom main dropin) sec key ∧
    lookupLastValue whole sec key = lookupLastValue (MM.mergeFrom main dropin) sec key := by
  obtain ⟨w, m, d, h1, h2, h3, h4⟩ := C13_split_equiv env r₁ r₂ wf₁ wf₂
  rw [hw] at h1; rw [hm] at h2; rw [hd] at h3
  cases h1; cases h2; cases h3
  have e : assignments whole sec key = assignments (MM.mergeFrom main dropin) sec key := by
    unfold assignments; rw [h4]
  exact ⟨e, by unfold lookupAllValues; rw [e], by unfold lookupLastValue; rw [e]⟩

/-- … and when every section of the drop-in carries at least one entry, the two are the *same unit*: same sections in the same
    order, same entries in the same order — so whatever is computed from the unit (every converter, the whole run) is the same -/
theorem C13_split_exact (env : Parse.Env) (r₁ r₂ : List Parse.RSect)
    (wf₁ : ∀ s ∈ r₁, s.WF env) (wf₂ : ∀ s ∈ r₂, s.WF env) (hne : ∀ s ∈ r₂, Parse.eraseItems s.items ≠ []) :
    ∃ main dropin,
      Parse.parse env (Parse.renderSects r₁) = .ok main ∧
      Parse.parse env (Parse.renderSects r₂) = .ok dropin ∧
      Parse.parse env (Parse.renderSects r₁ ++ Parse.renderSects r₂) = .ok (MM.mergeFrom main dropin) := by
  refine ⟨Parse.eraseSects [] r₁, Parse.eraseSects [] r₂, Parse.C03_parse_render env r₁ wf₁, Parse.C03_parse_render env r₂ wf₂, ?_⟩
  rw [← Parse.renderSects_append, Parse.C03_parse_render env (r₁ ++ r₂) (by
      intro s hs
      rcases List.mem_append.mp hs with h | h
      · exact wf₁ s h
      · exact wf₂ s h),
    Parse.eraseSects_append,
    Parse.eraseSects_eq_merge r₂ hne _ (Parse.nodup_eraseSects r₁ [] (by simp))]

/-- the loop over all units gives the same services whether a unit came from one file or from a main file and such a drop-in
    (the unit in the list is the same value; stated for the record: the run model reads nothing but the merged unit) -/
theorem C13_split_same_services (env : Parse.Env) (r₁ r₂ : List Parse.RSect)
    (wf₁ : ∀ s ∈ r₁, s.WF env) (wf₂ : ∀ s ∈ r₂, s.WF env) (hne : ∀ s ∈ r₂, Parse.eraseItems s.items ≠ [])
    (whole main dropin : MM.SUnit)
    (hw : Parse.parse env (Parse.renderSects r₁ ++ Parse.renderSects r₂) = .ok whole)
    (hm : Parse.parse env (Parse.renderSects r₁) = .ok main) (hd : Parse.parse env (Parse.renderSects r₂) = .ok dropin)
    (path : Str) (before after : List QUnit) :
    processUnits (before ++ { path := path, unit := whole } :: after)
      = processUnits (before ++ { path := path, unit := MM.mergeFrom main dropin } :: after) := by
  obtain ⟨m, d, h1, h2, h3⟩ := C13_split_exact env r₁ r₂ wf₁ wf₂ hne
  rw [hm] at h1; rw [hd] at h2; rw [hw] at h3
  cases h1; cases h2; cases h3
  rfl

def exEnv : Parse.Env := { keyChar := fun c => c.isAlphanum || c == '-', validRaw := fun _ => true }
def exItem (v : String) : Parse.Item := .entry ⟨[], "Key".toList, [], [], [], v.toList⟩
def exSect (v : String) : Parse.RSect := ⟨"A".toList, [exItem v]⟩

theorem exItem_wf₁ : (exItem "v 1").WF exEnv := by
  refine ⟨by simp, by simp, by simp, by simp, by decide, by decide, ?_, ?_, ?_⟩
  · intro c h; simp at h; subst h; decide
  · simp [Parse.REntry.valueWF]; decide
  · intro c h; simp [Parse.renderValue] at h; subst h; decide

theorem exItem_wf₂ : (exItem "w").WF exEnv := by
  refine ⟨by simp, by simp, by simp, by simp, by decide, by decide, ?_, ?_, ?_⟩
  · intro c h; simp at h; subst h; decide
  · simp [Parse.REntry.valueWF]; decide
  · intro c h; simp [Parse.renderValue] at h; subst h; decide

/-- the hypotheses of `C13_split_equiv` are met by concrete renderings with entries: `[A]\nKey=v 1\n` and `[A]\nKey=w\n` -/
example : (exSect "v 1").WF exEnv ∧ (exSect "w").WF exEnv := by
  refine ⟨⟨by decide, by decide, ?_, by rfl⟩, ⟨by decide, by decide, ?_, by rfl⟩⟩
  · intro it h; simp [exSect] at h; subst h; exact exItem_wf₁
  · intro it h; simp [exSect] at h; subst h; exact exItem_wf₂

/-! ### a drop-in that cannot be loaded is never forgotten -/

/-- does this drop-in (name, path) load? -/
def confLoads (t : Tree) (c : Str × Str) : Bool :=
  match t.files.lookup c.2 with
  | none => false
  | some content => match Parse.parse parseEnv content with
    | .ok _ => true
    | .error _ => false

theorem mergeStep_sticky (t : Tree) (cs : List (Str × Str)) (q : QUnit) : (cs.foldl (mergeStep t) (q, true)).2 = true := by
  induction cs generalizing q with
  | nil => rfl
  | cons c cs ih => simp only [List.foldl_cons, mergeStep, if_true]; exact ih q

/-- whatever else is merged before or after it — drop-ins that load, in any number — one drop-in that does not load makes the merge of
    that unit report a failure (the caller pushes the error and the exit status is 1) -/
theorem C13_dropin_failure_never_forgotten (t : Tree) (cs : List (Str × Str)) (acc : QUnit × Bool)
    (h : ∃ c ∈ cs, confLoads t c = false) : (cs.foldl (mergeStep t) acc).2 = true := by
  induction cs generalizing acc with
  | nil => obtain ⟨c, hc, _⟩ := h; simp at hc
  | cons c cs ih =>
    obtain ⟨a, b⟩ := acc
    cases b with
    | true => exact mergeStep_sticky t (c :: cs) a
    | false =>
      simp only [List.foldl_cons]
      by_cases hl : confLoads t c = false
      · have : mergeStep t (a, false) c = (a, true) := by
          unfold confLoads at hl
          unfold mergeStep
          simp only [Bool.false_eq_true, if_false]
          split <;> rename_i hx
          · rfl
          · split <;> rename_i hy
            · simp [hx, hy] at hl
            · rfl
        rw [this]; exact mergeStep_sticky t cs a
      · obtain ⟨c', hc', hf⟩ := h
        apply ih
        rcases List.mem_cons.mp hc' with e | e
        · subst e; exact absurd hf hl
        · exact ⟨c', e, hf⟩

/-- … and when every drop-in loads, no failure is reported -/
theorem C13_dropins_all_load (t : Tree) (cs : List (Str × Str)) (q : QUnit) (h : ∀ c ∈ cs, confLoads t c = true) :
    (cs.foldl (mergeStep t) (q, false)).2 = false := by
  induction cs generalizing q with
  | nil => rfl
  | cons c cs ih =>
    have hc := h c (by simp)
    simp only [List.foldl_cons]
    unfold confLoads at hc
    unfold mergeStep
    simp only [Bool.false_eq_true, if_false]
    split <;> rename_i hx
    · simp [hx] at hc
    · split <;> rename_i hy
      · exact ih _ (fun c' hc' => h c' (by simp [hc']))
      · simp [hx, hy] at hc

/-- the hypotheses are met by a concrete tree: the same name in two search directories, a second name only in the later -/
example :
    let t : Tree := { searchDirs := [s "/s1", s "/s2"],
                      files := [(s "/s1/a.container", []), (s "/s1/a.container.d/10.conf", []), (s "/s2/a.container.d/10.conf", []),
                                (s "/s2/a.container.d/05.conf", [])] }
    sortConfs (collectConfs t (dropinDirs [s "/s1", s "/s2"] (s "a.container")))
      = [(s "05.conf", s "/s2/a.container.d/05.conf"), (s "10.conf", s "/s1/a.container.d/10.conf")] := by decide

end Cv
