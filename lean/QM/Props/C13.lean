import QM.FsLemmas
import QM.FsDropins
import QM.Props.C15
/-! # C13 — search order picks among same-named files; drop-ins come from every search dir

`Cv.candidates t` lists the unit files of an abstract tree in discovery order (every directory of the search order —
each search directory followed by its sub-directories — and within it the files with a supported extension);
`Cv.loadFrom` is the fold of `load_units_from_dir` with its `seen` set; `Cv.loadDropins` models
`load_dropins_from` (after the D9 repair).  Directory listing order inside one directory is a parameter of the
tree (readdir order is unspecified).  The model of the whole run (`Cv.runTree`) is compared with real runs of the
binary on generated trees. -/
namespace Cv

/-- exactly one unit is loaded per file name -/
theorem C13_one_per_name (cands : List (Str × Str)) : ((loadedUnits (loadFrom cands)).map QUnit.name).Nodup := by
  have h := fold_inv cands ([], []) ⟨by simp [loadedUnits], by simp⟩
  unfold loadFrom
  rw [← h.1]; exact h.2

/-- … and it is the first file of that name, in search order, that can be loaded -/
theorem C13_first_wins (cands : List (Str × Str)) :
    ∀ q ∈ loadedUnits (loadFrom cands), FirstWins cands q := by
  have := fold_first_wins cands [] ([], []) ⟨by simp [loadedUnits], by simp⟩ (by simp [loadedUnits]) (by simp)
  simpa [loadFrom] using this

/-- drop-ins are merged after the main file, one after the other: the assignment history of every key is the main
    file's followed by the drop-ins' in merge order (so C15's folds see the main file first) -/
theorem C13_merge_order (main : MM.SUnit) (dropins : List MM.SUnit) (hnd : ∀ f ∈ dropins, (f.map Prod.fst).Nodup) (sec key : Str) :
    assignments (dropins.foldl MM.mergeFrom main) sec key
      = assignments main sec key ++ dropins.flatMap (assignments · sec key) :=
  C15_history main dropins hnd sec key


/-! ### drop-ins

`loadDropins t q = (sortConfs (collectConfs t (dropinDirs (allDirs t) q.name))).foldl (mergeStep t) (q, false)`:
the statements below are about the list that is merged. -/

/-- the drop-in directories of a unit: `<dir>/<unit>.d` for every directory of the search order, in that order; for a
    template instance followed by `<dir>/<base>@.<type>.d` for every directory, the base ending at the first '@' -/
theorem C13_dropin_dirs (dirs : List Str) (n : Str) :
    dropinDirs dirs n = dirs.map (fun d => d ++ '/' :: n ++ s ".d") ++
      (match templateParts n with
       | (some b, some _) => dirs.map (fun d => d ++ '/' :: b ++ s "@." ++ extension n ++ s ".d")
       | _ => []) := rfl

/-- at most one drop-in per file name is merged -/
theorem C13_dropins_one_per_name (t : Tree) (dd : List Str) : ((sortConfs (collectConfs t dd)).map Prod.fst).Nodup :=
  ((sortConfs_perm _).map Prod.fst).nodup_iff.mpr (collect_names_nodup t dd)

/-- … it comes from the first directory, in priority order, that holds a `*.conf` of that name: a drop-in in an earlier
    directory hides the same name in every later one -/
theorem C13_dropins_first_dir_wins (t : Tree) (dd : List Str) : ∀ c ∈ sortConfs (collectConfs t dd), FromFirst t dd c :=
  fun c hc => collect_from_first t dd c ((sortConfs_perm _).subset hc)

/-- … every name found in any of the directories is merged (from some directory) -/
theorem C13_dropins_complete (t : Tree) (dd : List Str) (d n : Str) (hd : d ∈ dd) (hn : n ∈ confsIn t d) :
    n ∈ (sortConfs (collectConfs t dd)).map Prod.fst :=
  ((sortConfs_perm _).map Prod.fst).symm.subset (collect_complete t dd d n hd hn)

/-- … and they are merged in byte-wise name order, whatever directories they come from -/
theorem C13_dropins_name_order (t : Tree) (dd : List Str) : SortedByName (sortConfs (collectConfs t dd)) :=
  sortConfs_sorted _

/-- the hypotheses are met by a concrete tree: the same name in two search directories, a second name only in the later -/
example :
    let t : Tree := { searchDirs := [s "/s1", s "/s2"],
                      files := [(s "/s1/a.container", []), (s "/s1/a.container.d/10.conf", []), (s "/s2/a.container.d/10.conf", []),
                                (s "/s2/a.container.d/05.conf", [])] }
    sortConfs (collectConfs t (dropinDirs [s "/s1", s "/s2"] (s "a.container")))
      = [(s "05.conf", s "/s2/a.container.d/05.conf"), (s "10.conf", s "/s1/a.container.d/10.conf")] := by decide

end Cv
