import QM.FsLemmas
import QM.Props.C15
/-! # C13 — search order picks among same-named files; drop-ins come from every search dir

`Cv.candidates t` lists the unit files of an abstract tree in discovery order (every directory of the search order —
each search directory followed by its sub-directories — and within it the files with a supported extension);
`Cv.loadFrom` is the fold of `load_units_from_dir` with its `seen` set; `Cv.loadDropins` models
`load_dropins_from` (after the D9 repair).  Directory listing order inside one directory is a parameter of the
tree (readdir order is unspecified).  The model of the whole run (`Cv.runTree`) is compared with real runs of the
binary on generated trees. -/
namespace Cv

/-- exactly one unit is loaded per file name -/
theorem C13_one_per_name (cands : List (Str × Str)) : ((loadedUnits (loadFrom cands)).map QUnit.name).Nodup := by
  have h := fold_inv cands ([], []) ⟨by simp [loadedUnits], by simp⟩
  unfold loadFrom
  rw [← h.1]; exact h.2

/-- … and it is the first file of that name, in search order, that can be loaded -/
theorem C13_first_wins (cands : List (Str × Str)) :
    ∀ q ∈ loadedUnits (loadFrom cands), FirstWins cands q := by
  have := fold_first_wins cands [] ([], []) ⟨by simp [loadedUnits], by simp⟩ (by simp [loadedUnits]) (by simp)
  simpa [loadFrom] using this

/-- drop-ins are merged after the main file, one after the other: the assignment history of every key is the main
    file's followed by the drop-ins' in merge order (so C15's folds see the main file first) -/
theorem C13_merge_order (main : MM.SUnit) (dropins : List MM.SUnit) (hnd : ∀ f ∈ dropins, (f.map Prod.fst).Nodup) (sec key : Str) :
    assignments (dropins.foldl MM.mergeFrom main) sec key
      = assignments main sec key ++ dropins.flatMap (assignments · sec key) :=
  C15_history main dropins hnd sec key

end Cv
