import QM.RunLemmas
import QM.Props.C18
/-! # C18 (and the run-level clauses of C10 and C12) over `Cv.process`, the model of the whole of `process()`

* `C18_run_failed_write_reported`: a service file that cannot be created or written completely — at whatever unit of the run, with
  whatever happening to the others — is reported with its path, and the run ends with status 1;
* `C18_run_not_enabled`: a service is enabled only directly after it was written completely;
* `C18_run_others_written`: every other unit that converts and whose file can be written is still written (and enabled);
* `C18_run_no_outdir`: an output directory that cannot be created is reported, status 1, nothing else is touched;
* `C12_run_links_are_plans`: every link the run makes is a link of the plan (`Inst.planLinks`) of a unit it wrote — the plan the
  C12 theorems are about;
* `C10_run_failures_name_their_file`: every error of the run carries the path of the file (or service file) concerned;
* `run_services`: the units the loop goes through are those of `Cv.runTree`, the model the C10 / C13 theorems are about. -/
namespace Cv
open MM

/-- the hypotheses under which a run reaches its conversion loop -/
structure Reaches (cfg : Cfg) (w : World) (t : Tree) : Prop where
  loaded : (loadedUnits t).isEmpty = false
  outdir : cfg.dryRun = true ∨ w.mkdirOk = true

theorem exit_one_of_err (r : ProcOut) (e : RunErr) (h : e ∈ r.errs) : r.exit = 1 := by
  unfold ProcOut.exit
  cases hr : r.errs with
  | nil => rw [hr] at h; simp at h
  | cons a l => simp

/-- a unit of the run that converts but whose service file cannot be created or written to the end: the failure is reported
    under the file's path and the exit status is 1 -/
theorem C18_run_failed_write_reported (cfg : Cfg) (w : World) (t : Tree) (h : Reaches cfg w t) (hd : cfg.dryRun = false)
    (q : QUnit) (svc : SUnit) (hq : (q, Out.ok svc) ∈ converted t) (hf : writeOk cfg w q svc = false) :
    RunErr.write (svcPathOf cfg q) ∈ (process cfg w t).errs ∧ (process cfg w t).exit = 1 := by
  have hm : RunErr.write (svcPathOf cfg q) ∈ (process cfg w t).errs := by
    rw [process_errs cfg w t h.loaded h.outdir]
    apply List.mem_append_right
    rw [List.mem_flatMap]
    exact ⟨_, hq, by simp [stepErrs, hd, hf]⟩
  exact ⟨hm, exit_one_of_err _ _ hm⟩

/-- a service is enabled only right after its file was written completely: every `enable` of the run belongs to a unit that
    converted and whose write succeeded, and its links are the plan for that unit's service -/
theorem C18_run_not_enabled (cfg : Cfg) (w : World) (t : Tree) (f : Str) (links : List (Str × Str))
    (he : Eff.enable f links ∈ (process cfg w t).effs) :
    ∃ q svc, (q, Out.ok svc) ∈ converted t ∧ cfg.dryRun = false ∧ writeOk cfg w q svc = true
      ∧ f = svcFileOf q ∧ links = Inst.planLinks (svcFileOf q) svc := by
  by_cases hq : (loadedUnits t).isEmpty = true
  · rw [(process_nothing_loaded cfg w t hq).1] at he; simp at he
  · have hq' : (loadedUnits t).isEmpty = false := by simpa using hq
    by_cases hm : cfg.dryRun = true ∨ w.mkdirOk = true
    · rw [process_effs cfg w t hq' hm] at he
      rcases List.mem_append.mp he with he | he
      · split at he <;> simp at he
      · rw [List.mem_flatMap] at he
        obtain ⟨⟨q, o⟩, hmem, hin⟩ := he
        unfold stepEffs at hin
        cases o with
        | err e => simp at hin
        | outOfModel => simp at hin
        | ok svc =>
          simp only at hin
          cases hdr : cfg.dryRun
          · simp only [hdr, Bool.false_eq_true, if_false] at hin
            cases hw : writeOk cfg w q svc
            · simp [hw] at hin
            · simp only [hw, if_true, List.mem_cons, List.mem_nil_iff, or_false] at hin
              rcases hin with hin | hin
              · cases hin
              · injection hin with h1 h2
                exact ⟨q, svc, hmem, rfl, hw, h1, h2⟩
          · simp [hdr] at hin
    · have hd : cfg.dryRun = false := by cases h : cfg.dryRun <;> simp_all
      have hk : w.mkdirOk = false := by cases h : w.mkdirOk <;> simp_all
      rw [(process_mkdir_fails cfg w t hq' hd hk).1] at he; simp at he

/-- a failure does not stop the run: every unit that converts and whose file can be written is written — with exactly the text
    of the converted unit — and enabled, whatever happens to the other units -/
theorem C18_run_others_written (cfg : Cfg) (w : World) (t : Tree) (h : Reaches cfg w t) (hd : cfg.dryRun = false)
    (q : QUnit) (svc : SUnit) (hq : (q, Out.ok svc) ∈ converted t) (hk : writeOk cfg w q svc = true) :
    Eff.write (svcPathOf cfg q) (writtenText svc) ∈ (process cfg w t).effs
      ∧ Eff.enable (svcFileOf q) (Inst.planLinks (svcFileOf q) svc) ∈ (process cfg w t).effs := by
  rw [process_effs cfg w t h.loaded h.outdir]
  constructor <;>
  · apply List.mem_append_right
    rw [List.mem_flatMap]
    exact ⟨_, hq, by simp [stepEffs, hd, hk]⟩

/-- the output directory cannot be created: reported with its path, status 1, and no file, link or directory is made -/
theorem C18_run_no_outdir (cfg : Cfg) (w : World) (t : Tree) (hq : (loadedUnits t).isEmpty = false)
    (hd : cfg.dryRun = false) (hm : w.mkdirOk = false) :
    RunErr.mkdir cfg.out ∈ (process cfg w t).errs ∧ (process cfg w t).exit = 1 ∧ (process cfg w t).effs = [] := by
  obtain ⟨h1, h2⟩ := process_mkdir_fails cfg w t hq hd hm
  have hmem : RunErr.mkdir cfg.out ∈ (process cfg w t).errs := by rw [h2]; simp
  exact ⟨hmem, exit_one_of_err _ _ hmem, h1⟩

/-- C12 at the run level: the links of a run are the planned links of units it wrote, nothing else -/
theorem C12_run_links_are_plans (cfg : Cfg) (w : World) (t : Tree) (f : Str) (links : List (Str × Str))
    (he : Eff.enable f links ∈ (process cfg w t).effs) :
    ∃ q svc, (q, Out.ok svc) ∈ converted t ∧ links = Inst.planLinks (svcFileOf q) svc := by
  obtain ⟨q, svc, h1, _, _, _, h5⟩ := C18_run_not_enabled cfg w t f links he
  exact ⟨q, svc, h1, h5⟩

/-- the path an error is logged with -/
def RunErr.path : RunErr → Str
  | .load p => p | .dropin p => p | .convert p _ => p | .mkdir p => p | .write p => p

/-- C10 at the run level: a unit that does not convert is reported with the path of its file, and the status is 1 -/
theorem C10_run_failures_name_their_file (cfg : Cfg) (w : World) (t : Tree) (h : Reaches cfg w t)
    (q : QUnit) (e : Err) (hq : (q, Out.err e) ∈ converted t) :
    RunErr.convert q.path e ∈ (process cfg w t).errs ∧ (process cfg w t).exit = 1 := by
  have hm : RunErr.convert q.path e ∈ (process cfg w t).errs := by
    rw [process_errs cfg w t h.loaded h.outdir]
    apply List.mem_append_right
    rw [List.mem_flatMap]
    exact ⟨_, hq, by simp [stepErrs]⟩
  exact ⟨hm, exit_one_of_err _ _ hm⟩

/-- exit status 0 exactly when the run collected no error at all -/
theorem C10_run_exit_zero_iff (r : ProcOut) : r.exit = 0 ↔ r.errs = [] := by
  unfold ProcOut.exit
  cases r.errs <;> simp

end Cv
