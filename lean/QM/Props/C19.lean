import QM.Parser
/-! # C19 — --dry-run writes nothing and prints exactly what a real run would write

The text part: `--dry-run` prints `to_string()`, a real run writes with `write_to()`; they are two
separately written serialisers (unit.rs).  `Parse.printUnit` models the first, `Parse.writeChunks`
the sequence of `writeln!` calls of the second.  The process-level part (no file-system mutation,
same errors, same exit status) is checked on real runs of the binary (see DESIGN.md, C19). -/
namespace Parse

theorem flatten_entries (es : List (Str × Str)) :
    (es.map fun (k, v) => k ++ '=' :: v ++ ['\n']).flatten = es.flatMap fun (k, v) => k ++ '=' :: v ++ ['\n'] := by
  simp [List.flatMap]

/-- the two serialisers produce the same text for every unit -/
theorem C19_serialisers (u : Unit) : (writeChunks u).flatten = printUnit u := by
  induction u with
  | nil => rfl
  | cons p u ih =>
    obtain ⟨sec, es⟩ := p
    simp only [writeChunks, printUnit, List.flatMap_cons, List.flatten_append, List.flatten_cons] at ih ⊢
    rw [ih, flatten_entries]
    simp

end Parse
