import QM.Props.C06
import QM.ConvNL
import QM.ParseNL
/-! # C06, converter level — values cannot forge lines

`Cv.AllNoNL u`: no key and no raw value of `u` contains a newline (the reader's guarantee for a loaded unit: a value is
one logical line).  For every converter model and every successful conversion the generated service is newline-free
as well, so `to_string` / `write_to` emit exactly one line per entry (`Parse.printUnit`): whatever the values, paths and
names are, nothing the generator stores can start a line of its own.  (`NLfree` calculus, QM/ConvNL.lean: `add` / `set` /
`prepend` store `quote_value` output with literal keys, `add_raw` stores `quote_words` output — both newline-free by
`C06_quoteValue_no_newline` / `C06_quoteWords_no_newline` over the extracted escape tables — `merge_from` and
`rename_section` copy entries.) -/
namespace Cv
open MM

theorem C06_container_no_forged_lines (E : Env) (path : Str) (u svc : SUnit) (link : Option (Str × Str)) (hnd : (u.map Prod.fst).Nodup)
    (hu : AllNoNL u) (h : fromContainer E path u = some (.ok (svc, link))) : AllNoNL svc :=
  nl_fromContainer E path u svc link h (allNoNL_preOf _ _ _ (by decide) (allNoNL_startService path u hnd hu))
theorem C06_pod_no_forged_lines (E : Env) (path : Str) (u svc : SUnit) (cs : List Str) (hnd : (u.map Prod.fst).Nodup)
    (hu : AllNoNL u) (h : fromPod E path u cs = .ok svc) : AllNoNL svc :=
  nl_fromPod E path u svc cs h (allNoNL_preOf _ _ _ (by decide) (allNoNL_startService path u hnd hu))
theorem C06_kube_no_forged_lines (E : Env) (path : Str) (u svc : SUnit) (hnd : (u.map Prod.fst).Nodup)
    (hu : AllNoNL u) (h : fromKube E path u = .ok svc) : AllNoNL svc :=
  nl_fromKube E path u svc h (allNoNL_preOf _ _ _ (by decide) (allNoNL_startService path u hnd hu))
theorem C06_volume_no_forged_lines (E : Env) (path : Str) (u svc : SUnit) (n : Str) (hnd : (u.map Prod.fst).Nodup)
    (hu : AllNoNL u) (h : fromVolume E path u = .ok (svc, n)) : AllNoNL svc :=
  nl_fromVolume E path u svc n h (allNoNL_preOf _ _ _ (by decide) (allNoNL_startService path u hnd hu))
theorem C06_network_no_forged_lines (E : Env) (path : Str) (u svc : SUnit) (n : Str) (hnd : (u.map Prod.fst).Nodup)
    (hu : AllNoNL u) (h : fromNetwork E path u = .ok (svc, n)) : AllNoNL svc :=
  nl_fromNetwork E path u svc n h (allNoNL_preOf _ _ _ (by decide) (allNoNL_startService path u hnd hu))
theorem C06_build_no_forged_lines (E : Env) (path : Str) (u svc : SUnit) (hnd : (u.map Prod.fst).Nodup)
    (hu : AllNoNL u) (h : fromBuild E path u = .ok svc) : AllNoNL svc :=
  nl_fromBuild E path u svc h (allNoNL_preOf _ _ _ (by decide) (allNoNL_buildStart path u hnd hu))

/-- the premise holds for every unit the reader accepts (model of the parser: `Parse.parse_noNL`, by induction over the
    character-level value state machine and the section / unit loops) -/
theorem C06_loaded_unit_newline_free (env : Parse.Env) (text : Str) (u : SUnit) (h : Parse.parse env text = .ok u) : AllNoNL u := by
  intro S e he
  have hn := Parse.parse_noNL env text u h
  unfold entriesOf at he
  cases hl : u.lookup S with
  | none => simp [hl] at he
  | some es =>
    simp only [hl, Option.getD_some] at he
    have hm : (S, es) ∈ u := by
      clear hn he h
      induction u with
      | nil => simp [List.lookup] at hl
      | cons p t ih =>
        obtain ⟨a, b⟩ := p
        simp only [List.lookup] at hl
        split at hl
        · rename_i hb
          simp only [Option.some.injEq] at hl
          have : S = a := by simpa using hb
          subst this; subst hl; simp
        · exact List.mem_cons_of_mem _ (ih hl)
    exact (hn _ hm).2 e he

/-- … so: load a unit, convert it, write it — every entry is one line, whatever the text was (here for `.container`) -/
theorem C06_container_end_to_end (env : Parse.Env) (text : Str) (E : Env) (path : Str) (u svc : SUnit) (link : Option (Str × Str))
    (hp : Parse.parse env text = .ok u) (hnd : (u.map Prod.fst).Nodup)
    (h : fromContainer E path u = some (.ok (svc, link))) : AllNoNL svc :=
  C06_container_no_forged_lines E path u svc link hnd (C06_loaded_unit_newline_free env text u hp) h

/-- the premise is what the reader delivers; here for a concrete unit with an escaped newline in a value -/
example : AllNoNL [(s "Container", [(s "Image", s "img"), (s "Exec", s "a\\nb")])] := by
  intro S e he
  by_cases hS : S = s "Container"
  · subst hS; simp [entriesOf, List.lookup] at he; rcases he with rfl | rfl <;> decide
  · have : entriesOf [(s "Container", [(s "Image", s "img"), (s "Exec", s "a\\nb")])] S = [] := by
      have hb : (S == s "Container") = false := by simpa using hS
      simp [entriesOf, List.lookup, hb]
    rw [this] at he; simp at he

end Cv
