import QM.PathLemmas
/-! # C17 — relative paths resolve against the unit file's directory and are normalised

`Pth.components / cleaned / absoluteFrom / absoluteFromUnit / startsWithSpecifier` model
`std::path::Path::components` and path_buf_ext.rs; `Pth.Spec.clean` is the reference lexical
normaliser (split at '/', drop empty and "." parts, ".." removes the previous part and never
climbs above the root, re-join).  The call sites (Yaml, ConfigMap, EnvironmentFile, Volume/Mount
sources starting with '.', WorkingDirectory derivation) are checked on the real converters. -/
namespace Pth

/-- absolute paths are normalised exactly as the reference normaliser does -/
theorem C17_clean_eq_spec (p : Str) (h : isAbs p = true) : cleaned p = Spec.clean p := by
  unfold cleaned Spec.clean
  rw [components_abs p h]
  have := fold_abs (splitSlash p) []
  simp only [List.map_nil] at this
  simp only [List.foldl_cons]
  have e : cleanStep [] Comp.root = [Comp.root] := rfl
  rw [e, this, render_root_normals, cleanParts_eq_fold]
  cases List.foldl specStep [] (splitSlash p) <;> rfl

/-- the result is rooted and has no ".", ".." or empty component: every part is a plain name -/
theorem C17_clean_normal (p : Str) (h : isAbs p = true) :
    ∃ xs : List Str, (∀ x ∈ xs, isNormal x = true) ∧
      cleaned p = (match xs with | [] => ['/'] | _ => xs.flatMap ('/' :: ·)) ∧ isAbs (cleaned p) = true := by
  refine ⟨Spec.cleanParts (splitSlash p), fold_specStep_normal _ [] (by simp), ?_, ?_⟩
  · rw [C17_clean_eq_spec p h]; unfold Spec.clean; cases Spec.cleanParts (splitSlash p) <;> rfl
  · rw [C17_clean_eq_spec p h]
    unfold Spec.clean
    cases Spec.cleanParts (splitSlash p) with
    | nil => rfl
    | cons x xs => simp [isAbs]

theorem isAbs_joinPath (root p : Str) (hr : isAbs root = true) : isAbs (joinPath root p) = true := by
  unfold joinPath
  split
  · assumption
  · split
    · rename_i h; cases root <;> simp_all [isAbs]
    · split <;> (cases root <;> simp_all [isAbs])

/-- how a path given in a unit file is resolved against an absolute directory -/
theorem C17_resolve (cwd dir p : Str) (hd : isAbs dir = true) :
    absoluteFrom cwd dir p =
      if startsWithSpecifier p then p
      else if isAbs p then Spec.clean p
      else Spec.clean (joinPath dir p) := by
  have hne : dir.isEmpty = false := by cases dir <;> simp_all [isAbs]
  unfold absoluteFrom
  by_cases hs : startsWithSpecifier p = true
  · simp [hs]
  · by_cases ha : isAbs p = true
    · simp [hs, ha, C17_clean_eq_spec p ha]
    · simp only [hs, ha, Bool.not_false, Bool.and_self, if_true, hne, Bool.false_eq_true, if_false]
      exact C17_clean_eq_spec _ (isAbs_joinPath dir p hd)

/-- … hence the result is absolute whenever the directory is and the path is no specifier path -/
theorem C17_absolute (cwd dir p : Str) (hd : isAbs dir = true) (hs : startsWithSpecifier p = false) :
    isAbs (absoluteFrom cwd dir p) = true := by
  rw [C17_resolve cwd dir p hd]
  simp only [hs, Bool.false_eq_true, if_false]
  split
  · rename_i ha; rw [← C17_clean_eq_spec p ha]; exact (C17_clean_normal p ha).choose_spec.2.2
  · have := isAbs_joinPath dir p hd
    rw [← C17_clean_eq_spec _ this]; exact (C17_clean_normal _ this).choose_spec.2.2

/-- a path that starts with a specifier is not resolved at all: it comes back as it was written, so what it begins with is still the
    specifier (D23: it used to be normalised, and `%h/../x` became the relative path `x`) -/
theorem C17_specifier_kept (cwd dir p : Str) (hs : startsWithSpecifier p = true) : absoluteFrom cwd dir p = p := by
  unfold absoluteFrom; simp [hs]

example : absoluteFrom "/cwd".toList "/q".toList "%h/../x".toList = "%h/../x".toList := by decide

/-- the generator's current directory plays no role when the directory is not empty -/
theorem C17_no_cwd (cwd₁ cwd₂ dir p : Str) (hd : dir.isEmpty = false) :
    absoluteFrom cwd₁ dir p = absoluteFrom cwd₂ dir p := by
  unfold absoluteFrom; simp [hd]

/-- what counts as a specifier path: the first component is two bytes long, starts with '%' and is not "%%"
    (any second byte: `%h`, `%S`, `%1` alike; `%é` is three bytes and does not count) -/
theorem C17_specifier (p : Str) :
    startsWithSpecifier p = true ↔
      (1 < byteLen p ∧ firstComponentLen p = 2 ∧ startsWith p ['%', '%'] = false ∧ startsWith p ['%'] = true) := by
  unfold startsWithSpecifier
  by_cases h1 : byteLen p ≤ 1
  · simp [h1]; omega
  · by_cases h2 : firstComponentLen p = 2
    · by_cases h3 : startsWith p ['%', '%'] = true
      · simp [h1, h2, h3]
      · simp [h1, h2, h3]; omega
    · simp [h1, h2]

-- sanity (tests of the model, labelled as such)
example : cleaned "/a/./b/../../c//d/".toList = "/c/d".toList := by decide
example : cleaned "/../..".toList = "/".toList := by decide
example : startsWithSpecifier "%h/x".toList = true ∧ startsWithSpecifier "%%/x".toList = false ∧ startsWithSpecifier "%abc".toList = false := by decide
example : startsWithSpecifier "%S/x".toList = true ∧ startsWithSpecifier "%1".toList = true ∧ startsWithSpecifier "%é/x".toList = false := by decide

end Pth
