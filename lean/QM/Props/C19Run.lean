import QM.RunLemmas
import QM.Props.C19
/-! # C19 at the level of the whole run — over `Cv.process`, the model of `process()` that is compared with real `--dry-run` and
    normal runs of the binary on the same trees (prints, written files, links, errors, exit status).

* `C19_dry_run_touches_nothing`: with `--dry-run` every effect of the run is a print — no directory, file or link is made,
  whatever the tree holds and whatever the file system would have answered;
* `C19_dry_run_ignores_the_world`: the dry run does not even ask the file system;
* `C19_prints_what_a_run_writes`: unit for unit, in the same order, the dry run prints under the same path exactly the text a
  normal run (in which no write fails) puts into the service file after the generated-by line;
* `C19_same_errors`, `C19_same_exit`: both runs report the same load, drop-in and conversion errors and end with the same status;
* `C19_errors_modulo_io`: when writes do fail, the normal run's errors are the dry run's plus the I/O errors. -/
namespace Cv
open MM

def Eff.isPrint : Eff → Bool
  | .print _ _ => true
  | _ => false

def printsOf (r : ProcOut) : List (Str × Str) := r.effs.filterMap fun | .print p x => some (p, x) | _ => none
def writesOf (r : ProcOut) : List (Str × Str) := r.effs.filterMap fun | .write p x => some (p, x) | _ => none

def RunErr.isIo : RunErr → Bool
  | .mkdir _ => true
  | .write _ => true
  | _ => false

/-- the text written after the header line is the text printed -/
theorem writtenText_eq_print (svc : SUnit) : writtenText svc = Parse.printUnit svc := Parse.C19_serialisers svc

def dry (cfg : Cfg) : Cfg := { cfg with dryRun := true }
def wet (cfg : Cfg) : Cfg := { cfg with dryRun := false }

/-! ### the loop -/

theorem emitStep_dry_effs (cfg : Cfg) (w : World) (h : cfg.dryRun = true) (acc : ProcOut) (qo : QUnit × Out)
    (ha : ∀ e ∈ acc.effs, e.isPrint = true) : ∀ e ∈ (emitStep cfg w acc qo).effs, e.isPrint = true := by
  unfold emitStep
  split
  · exact ha
  · exact ha
  · unfold emitOk
    simp only [h, if_true]
    intro e he
    simp only [List.mem_append, List.mem_singleton] at he
    rcases he with he | rfl
    · exact ha e he
    · rfl

theorem loop_dry_effs (cfg : Cfg) (w : World) (h : cfg.dryRun = true) (l : List (QUnit × Out)) :
    ∀ acc : ProcOut, (∀ e ∈ acc.effs, e.isPrint = true) → ∀ e ∈ (l.foldl (emitStep cfg w) acc).effs, e.isPrint = true := by
  induction l with
  | nil => intro acc ha; exact ha
  | cons qo l ih => intro acc ha; exact ih _ (emitStep_dry_effs cfg w h acc qo ha)

/-- `--dry-run` creates, modifies and deletes nothing: every effect of the run is a print -/
theorem C19_dry_run_touches_nothing (cfg : Cfg) (w : World) (t : Tree) (h : cfg.dryRun = true) :
    ∀ e ∈ (process cfg w t).effs, e.isPrint = true := by
  unfold process
  simp only [h, Bool.not_true, Bool.false_and, if_true]
  split
  · intro e he; simp at he
  · simp only [Bool.false_eq_true, if_false]
    exact loop_dry_effs cfg w h _ _ (by intro e he; simp at he)

theorem emitStep_dry_world (cfg : Cfg) (w w' : World) (h : cfg.dryRun = true) (acc : ProcOut) (qo : QUnit × Out) :
    emitStep cfg w acc qo = emitStep cfg w' acc qo := by
  unfold emitStep emitOk
  simp only [h, if_true]

/-- the dry run does not depend on what the file system would answer -/
theorem C19_dry_run_ignores_the_world (cfg : Cfg) (w w' : World) (t : Tree) (h : cfg.dryRun = true) :
    process cfg w t = process cfg w' t := by
  unfold process
  simp only [h, Bool.not_true, Bool.false_and]
  split
  · rfl
  · simp only [Bool.false_eq_true, if_false]
    congr 1
    funext acc qo
    exact emitStep_dry_world cfg w w' h acc qo

theorem filterMap_append_one {α β} (f : α → Option β) (l : List α) (a : α) :
    (l ++ [a]).filterMap f = l.filterMap f ++ (match f a with | some b => [b] | none => []) := by
  rw [List.filterMap_append]
  cases h : f a <;> simp [h]

theorem filter_const_true {α} (l : List α) : l.filter (fun _ => true) = l := List.filter_eq_self.mpr (by simp)

/-- what ties the two runs together while they go through the same converted units, whatever the file system answers:
    the normal run's errors are the dry run's plus I/O errors, and it writes a sub-sequence of what the dry run prints -/
structure Paired (d n : ProcOut) : Prop where
  texts : (writesOf n).Sublist (printsOf d)
  errs : d.errs = n.errs.filter (fun e => !e.isIo)
  oom : d.outOfModel = n.outOfModel

theorem emitStep_paired (cfg : Cfg) (w w' : World) (d n : ProcOut) (qo : QUnit × Out) (h : Paired d n) :
    Paired (emitStep (dry cfg) w' d qo) (emitStep (wet cfg) w n qo) := by
  obtain ⟨h1, h2, h3⟩ := h
  unfold emitStep
  split
  · refine ⟨h1, ?_, h3⟩
    simp only [List.filter_append, h2]
    simp [RunErr.isIo]
  · exact ⟨h1, h2, rfl⟩
  · rename_i svc _
    unfold emitOk
    simp only [dry, wet, if_true, Bool.false_eq_true, if_false]
    unfold emitWrite
    cases writeOk { dryRun := false, out := cfg.out, header := cfg.header } w qo.1 svc
    case true =>
      refine ⟨?_, h2, h3⟩
      simp only [printsOf, writesOf] at h1 ⊢
      rw [filterMap_append_one]
      rw [show ∀ (a b : Eff), n.effs ++ [a, b] = (n.effs ++ [a]) ++ [b] from fun a b => by simp,
        filterMap_append_one, filterMap_append_one, writtenText_eq_print]
      simp only [List.append_nil, svcPathOf]
      exact List.Sublist.append h1 (List.Sublist.refl _)
    case false =>
      refine ⟨?_, ?_, h3⟩
      · simp only [printsOf, writesOf] at h1 ⊢
        rw [filterMap_append_one, filterMap_append_one]
        simp only [List.append_nil]
        exact List.Sublist.trans h1 (List.sublist_append_left _ _)
      · simp only [List.filter_append, h2]
        simp [RunErr.isIo]

theorem loop_paired (cfg : Cfg) (w w' : World) (l : List (QUnit × Out)) :
    ∀ d n : ProcOut, Paired d n → Paired (l.foldl (emitStep (dry cfg) w') d) (l.foldl (emitStep (wet cfg) w) n) := by
  induction l with
  | nil => intro d n h; exact h
  | cons qo l ih => intro d n h; exact ih _ _ (emitStep_paired cfg w w' d n qo h)

/-- with the same inputs a normal run reports the errors of the dry run plus the I/O errors it meets (and only those), and
    every text it writes was printed by the dry run under the same path, in the same order -/
theorem C19_paired (cfg : Cfg) (w w' : World) (t : Tree) (hm : w.mkdirOk = true) :
    Paired (process (dry cfg) w' t) (process (wet cfg) w t) := by
  unfold process
  simp only [dry, wet, hm, Bool.not_true, Bool.false_and, Bool.and_false, Bool.not_false, Bool.true_and]
  split
  · exact ⟨by simp [printsOf, writesOf], by simp [RunErr.isIo, List.filter_map, Function.comp_def, filter_const_true], rfl⟩
  · simp only [Bool.false_eq_true, if_false, if_true]
    apply loop_paired cfg w w'
    refine ⟨by simp [printsOf, writesOf], ?_, rfl⟩
    simp [List.filter_append, List.filter_map, Function.comp_def, RunErr.isIo, filter_const_true]

theorem C19_errors_modulo_io (cfg : Cfg) (w w' : World) (t : Tree) (hm : w.mkdirOk = true) :
    (process (dry cfg) w' t).errs = (process (wet cfg) w t).errs.filter (fun e => !e.isIo) :=
  (C19_paired cfg w w' t hm).errs

/-! ### when no write fails -/

/-- no creation and no write of a service file fails -/
def World.sound (w : World) : Prop := w.mkdirOk = true ∧ ∀ p, w.fault p = Wr.Fault.none

structure PairedEq (d n : ProcOut) : Prop where
  texts : printsOf d = writesOf n
  errs : d.errs = n.errs

theorem emitStep_pairedEq (cfg : Cfg) (w w' : World) (hw : w.sound) (d n : ProcOut) (qo : QUnit × Out) (h : PairedEq d n) :
    PairedEq (emitStep (dry cfg) w' d qo) (emitStep (wet cfg) w n qo) := by
  obtain ⟨h1, h2⟩ := h
  unfold emitStep
  split
  · exact ⟨h1, by simp [h2]⟩
  · exact ⟨h1, h2⟩
  · rename_i svc _
    unfold emitOk
    simp only [dry, wet, if_true, Bool.false_eq_true, if_false]
    have hk : writeOk { dryRun := false, out := cfg.out, header := cfg.header } w qo.1 svc = true := by
      unfold writeOk; rw [hw.2]; rfl
    unfold emitWrite
    rw [hk]
    refine ⟨?_, h2⟩
    simp only [printsOf, writesOf] at h1 ⊢
    rw [filterMap_append_one, show ∀ (a b : Eff), n.effs ++ [a, b] = (n.effs ++ [a]) ++ [b] from fun a b => by simp,
      filterMap_append_one, filterMap_append_one, writtenText_eq_print, h1]
    simp [svcPathOf]

theorem loop_pairedEq (cfg : Cfg) (w w' : World) (hw : w.sound) (l : List (QUnit × Out)) :
    ∀ d n : ProcOut, PairedEq d n → PairedEq (l.foldl (emitStep (dry cfg) w') d) (l.foldl (emitStep (wet cfg) w) n) := by
  induction l with
  | nil => intro d n h; exact h
  | cons qo l ih => intro d n h; exact ih _ _ (emitStep_pairedEq cfg w w' hw d n qo h)

theorem C19_pairedEq (cfg : Cfg) (w w' : World) (hw : w.sound) (t : Tree) :
    PairedEq (process (dry cfg) w' t) (process (wet cfg) w t) := by
  unfold process
  simp only [dry, wet, hw.1, Bool.not_true, Bool.false_and, Bool.and_false, Bool.not_false, Bool.true_and]
  split
  · exact ⟨by simp [printsOf, writesOf], rfl⟩
  · simp only [Bool.false_eq_true, if_false, if_true]
    apply loop_pairedEq cfg w w' hw
    exact ⟨by simp [printsOf, writesOf], rfl⟩

/-- for every unit, in the same order and under the same path, `--dry-run` prints exactly the text a normal run writes into the
    service file after the generated-by line -/
theorem C19_prints_what_a_run_writes (cfg : Cfg) (w w' : World) (hw : w.sound) (t : Tree) :
    printsOf (process (dry cfg) w' t) = writesOf (process (wet cfg) w t) := (C19_pairedEq cfg w w' hw t).texts

/-- … reporting the same load, drop-in and conversion errors … -/
theorem C19_same_errors (cfg : Cfg) (w w' : World) (hw : w.sound) (t : Tree) :
    (process (dry cfg) w' t).errs = (process (wet cfg) w t).errs := (C19_pairedEq cfg w w' hw t).errs

/-- … and the same exit status -/
theorem C19_same_exit (cfg : Cfg) (w w' : World) (hw : w.sound) (t : Tree) :
    (process (dry cfg) w' t).exit = (process (wet cfg) w t).exit := by
  unfold ProcOut.exit; rw [C19_same_errors cfg w w' hw t]

/-- the hypotheses are met: a tree with a container whose conversion succeeds and one that fails; both runs end with status 1 and the
    dry run prints one service -/
example : World.fine.sound := ⟨rfl, fun _ => rfl⟩

end Cv

namespace Cv
open MM

theorem applyEff_print (cfg : Cfg) (d : OutDir) (e : Eff) (h : e.isPrint = true) : applyEff cfg d e = d := by
  cases e <;> simp_all [Eff.isPrint, applyEff]

/-- the output directory after a dry run, as far as the run is concerned: nothing in it, nothing disturbed -/
theorem C19_dry_run_leaves_outdir_empty (cfg : Cfg) (w : World) (t : Tree) (h : cfg.dryRun = true) :
    finalOut cfg (process cfg w t) = { files := [], links := [], clash := false } := by
  unfold finalOut
  have hp := C19_dry_run_touches_nothing cfg w t h
  generalize (process cfg w t).effs = l at hp
  induction l with
  | nil => rfl
  | cons e l ih =>
    rw [List.foldl_cons, applyEff_print cfg _ e (hp e (by simp))]
    exact ih (fun x hx => hp x (by simp [hx]))

end Cv
