import QM.ConvShape
import QM.ConvCmd
import QM.Conform
/-! # C02 — each supported key adds exactly its documented podman option, value intact

The converters (`Cv.from*`, QM/Conv.lean) take their key → option rows from the tables extracted from
convert.rs on every run (`Gen.tbl_*`); `Conform.rows_*` shows each extracted table equal (as a set of rows) to
the frozen documented table `Spec.rows_*`, and `Conform.lookup_kinds` that every key is still read with the
documented kind of lookup (last value / all values / argument words / list words / name=value / boolean).
A table row is an *emitter* that reads only the assignment history of its own key. -/
namespace Cv
open MM

/-- frame: a row's options depend only on the assignments to the row's own key -/
theorem C02_frame_string {u u' : SUnit} {sec : Str} {r : Str × Str} (h : assignments u sec r.1 = assignments u' sec r.1) :
    rowString u sec r = rowString u' sec r := rowString_congr h
theorem C02_frame_all {u u' : SUnit} {sec : Str} {r : Str × Str} (h : assignments u sec r.1 = assignments u' sec r.1) :
    rowAll u sec r = rowAll u' sec r := rowAll_congr h
theorem C02_frame_bool {u u' : SUnit} {sec : Str} {r : Str × Str} (h : assignments u sec r.1 = assignments u' sec r.1) :
    rowBool u sec r = rowBool u' sec r := rowBool_congr h

/-- a single-valued row emits `flag value` with the value's exact (unquoted) text — last assignment wins, an empty
    value emits nothing -/
theorem C02_row_string (u : SUnit) (sec k f : Str) :
    rowString u sec (k, f) = match (assignments u sec k).getLast? with
      | some raw => if (unq raw).isEmpty then [] else [f, unq raw]
      | none => [] := by
  unfold rowString lookup lookupLastValue
  cases (assignments u sec k).getLast? <;> rfl

/-- a multi-valued row emits `flag value` once per effective assignment, in order -/
theorem C02_row_all (u : SUnit) (sec k f : Str) :
    rowAll u sec (k, f) = (lookupAllValues u sec k).flatMap fun raw => [f, unq raw] := by
  unfold rowAll lookupAll; simp [List.flatMap_map]

/-- a boolean row emits the on form or the `=false` form of its flag -/
theorem C02_row_bool (u : SUnit) (sec k f : Str) :
    rowBool u sec (k, f) = match lookupBool u sec k with
      | some true => [f]
      | some false => [f ++ s "=false"]
      | none => [] := rfl

/-- adding a key (to the section the table reads) inserts exactly that row's options at the row's position in the
    table and changes no other row — for the three table kinds -/
theorem C02_add_key_string (u : SUnit) (sec k raw f : Str) (pre post : List (Str × Str))
    (hpre : ∀ r ∈ pre, r.1 ≠ k) (hpost : ∀ r ∈ post, r.1 ≠ k) :
    addString (addEntry u sec k raw) sec (pre ++ (k, f) :: post)
      = addString u sec pre ++ rowString (addEntry u sec k raw) sec (k, f) ++ addString u sec post := by
  simp only [addString_eq]
  exact rows_add_key rowString (fun _ _ _ _ h => rowString_congr h) u sec k raw pre post f hpre hpost
theorem C02_add_key_all (u : SUnit) (sec k raw f : Str) (pre post : List (Str × Str))
    (hpre : ∀ r ∈ pre, r.1 ≠ k) (hpost : ∀ r ∈ post, r.1 ≠ k) :
    addAllStrings (addEntry u sec k raw) sec (pre ++ (k, f) :: post)
      = addAllStrings u sec pre ++ rowAll (addEntry u sec k raw) sec (k, f) ++ addAllStrings u sec post := by
  simp only [addAllStrings_eq]
  exact rows_add_key rowAll (fun _ _ _ _ h => rowAll_congr h) u sec k raw pre post f hpre hpost
theorem C02_add_key_bool (u : SUnit) (sec k raw f : Str) (pre post : List (Str × Str))
    (hpre : ∀ r ∈ pre, r.1 ≠ k) (hpost : ∀ r ∈ post, r.1 ≠ k) :
    addBool (addEntry u sec k raw) sec (pre ++ (k, f) :: post)
      = addBool u sec pre ++ rowBool (addEntry u sec k raw) sec (k, f) ++ addBool u sec post := by
  simp only [addBool_eq]
  exact rows_add_key rowBool (fun _ _ _ _ h => rowBool_congr h) u sec k raw pre post f hpre hpost

/-- a key of another table, or no table key at all, changes nothing in this table's options -/
theorem C02_other_key_string (u : SUnit) (sec k raw : Str) (rows : List (Str × Str)) (h : ∀ r ∈ rows, r.1 ≠ k) :
    addString (addEntry u sec k raw) sec rows = addString u sec rows := by
  simp only [addString_eq]
  apply flatMap_congr'
  intro r hr
  apply rowString_congr
  rw [assignments_addEntry]
  have : ¬ k = r.1 := fun e => h r hr e.symm
  simp [this]

/-- .image: the whole command, in order — podman, module and global options, the subcommand, the key-derived
    options (table order), PodmanArgs, and the image name last -/
theorem C02_image_shape (E : Env) (path : Str) (u svc : SUnit) (r : Str) (h : fromImage E path u = .ok (svc, r)) :
    svc = imageSvc E path u ∧
    imageCmd E u = [E.podman] ++ moduleArgs u (s "Image") ++ lookupAllArgs u (s "Image") (s "GlobalArgs")
      ++ [s "image", s "pull"]
      ++ addString u (s "Image") Gen.tbl_from_image_unit_string_keys
      ++ addBool u (s "Image") Gen.tbl_from_image_unit_bool_keys
      ++ lookupAllArgs u (s "Image") (s "PodmanArgs") ++ [(lookup u (s "Image") (s "Image")).getD []] :=
  ⟨fromImage_ok E path u svc r h, by simp [imageCmd, baseCmd, podmanArgs]⟩


/-! ### whole commands of the other six converters

For every converter the generated service holds an Exec line that is the *rendering* (`quote_words`) of an explicit
argument vector (`HasExec`, QM/ConvCmd.lean): fixed parts, the key tables as contiguous blocks in table order, the
blocks of name=value and word-list keys, `PodmanArgs` after all key-derived options, and the positional arguments
last.  Handler results that depend on other units (network, volume, mount, pod references, user mappings) are
existentially quantified.  By `HasExec.splits` (= C01) systemd splits that line into exactly this vector, so each
documented option reaches podman as `flag value` with the value's exact text (`C02_string_option_reaches_podman`).
The shape theorems are `Cv.C02_<type>_shape` in QM/ConvCmd.lean. -/


/-- end to end for a single-valued table key of a `.network` unit: systemd's splitting of the generated ExecStart line
    contains `flag value` as adjacent arguments -/
theorem C02_string_option_reaches_podman (E : Env) (path : Str) (u svc : SUnit) (n k f v : Str)
    (h : fromNetwork E path u = .ok (svc, n))
    (hr : (k, f) ∈ Gen.tbl_from_network_unit_string_keys) (hv : lookup u (s "Network") k = some v) (hne : v.isEmpty = false) :
    ∃ cmd, HasExec svc "ExecStart" cmd ∧ [f, v] <:+: cmd ∧
      ((∀ w ∈ cmd, ∀ c ∈ w, c ≠ '\x00') → ∃ raw, (s "ExecStart", raw) ∈ entriesOf svc (s "Service") ∧
        P.splitAll P.execFlags raw = some cmd) := by
  obtain ⟨sub, hx⟩ := C02_network_shape E path u svc n h
  refine ⟨_, hx, ?_, fun hw => hx.splits hw⟩
  have hi := rowString_infix u (s "Network") _ k f v hr hv hne
  obtain ⟨a, b, e⟩ := hi
  refine ⟨baseCmd E u (s "Network") ++ [s "network", s "create", s "--ignore"]
      ++ addBool u (s "Network") Gen.tbl_from_network_unit_bool_keys ++ a, b
      ++ addAllStrings u (s "Network") Gen.tbl_from_network_unit_inline_lookup_and_add_all_strings
      ++ sub ++ addKeys "--opt" (lookupAllKeyVal u (s "Network") (s "Options"))
      ++ addKeys "--label" (lookupAllKeyVal u (s "Network") (s "Label")) ++ podmanArgs u (s "Network") ++ [n], ?_⟩
  rw [← e]
  simp only [List.append_assoc]

end Cv
