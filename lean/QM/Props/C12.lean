import QM.Install
import QM.InstallModel
import QM.InstallBridge
/-! # C12 — writes stay inside the output directory; enablement links reach the service

`Inst.linkPaths svcFile u` / `Inst.target` model `enable_service_file` (main.rs, after the D8, D15, D16
repairs): the relative paths of the links created below the output directory, in creation order, and
their targets.  `Pth.splitSlash` gives the parts of a path as the kernel resolves them; `Pth.specStep`
is lexical resolution of one part (`Pth.Spec.cleanParts`). -/
namespace Inst
open Pth

/-- a WantedBy/RequiredBy link has exactly two parts: `<unit>.wants|.requires` and the service name -/
theorem C12_dirlink_parts (w suffix name : Str) (hw : '/' ∉ w) (hs : '/' ∉ suffix) (hn : '/' ∉ name) :
    splitSlash (dirLink w suffix name) = [w ++ suffix, name] := by
  unfold dirLink
  rw [splitSlash_append _ _ (by simp [hw, hs]), splitSlash_noSlash _ hn]

/-- … it is relative and none of its parts is "..", so it denotes a path below the output directory -/
theorem C12_dirlink_inside (w suffix name : Str) (hw : '/' ∉ w) (hs : '/' ∉ suffix) (hn : '/' ∉ name)
    (hlen : 2 < suffix.length) (hname : name ≠ dotdot) :
    isAbs (dirLink w suffix name) = false ∧ dotdot ∉ splitSlash (dirLink w suffix name) := by
  constructor
  · unfold dirLink isAbs
    cases w with
    | nil =>
      cases suffix with
      | nil => simp at hlen
      | cons c r =>
        have : c ≠ '/' := fun e => hs (by simp [e])
        simp [this]
    | cons c r =>
      have : c ≠ '/' := fun e => hw (by simp [e])
      simp [this]
  · rw [C12_dirlink_parts w suffix name hw hs hn]
    simp only [List.mem_cons, List.not_mem_nil, or_false, not_or]
    refine ⟨?_, fun e => hname e.symm⟩
    intro e
    have := congrArg List.length e
    simp [dotdot] at this; omega

/-- an Alias that passes the acceptance test consists of plain names only (on the component stack of `cleaned`) -/
theorem C12_alias_inside (comps : List Comp) (hrel : ∀ c ∈ comps, c ≠ Comp.root)
    (hhead : (comps.foldl cleanStep []).head? ≠ some Comp.parent) :
    ∀ c ∈ comps.foldl cleanStep [], isNormalC c = true :=
  alias_inside comps hrel hhead

/-- the parts of a link target: `..` once per directory level of the link, then the service file -/
theorem C12_target_parts (n : Nat) (svc : Str) (hs : '/' ∉ svc) :
    splitSlash ((List.replicate n (s "../")).flatten ++ svc) = List.replicate n dotdot ++ [svc] := by
  induction n with
  | zero => simpa using splitSlash_noSlash svc hs
  | succ k ih =>
    have : (List.replicate (k + 1) (s "../")).flatten ++ svc
        = dotdot ++ '/' :: ((List.replicate k (s "../")).flatten ++ svc) := by
      simp [List.replicate_succ, s, dotdot]
    rw [this, splitSlash_append _ _ (by decide), ih]
    simp [List.replicate_succ]

/-- the link resolves to the service: from OUT, descending through the link's directories `xs` and following
    the target `..`×|xs| / service ends at OUT/service — for every OUT and every nesting depth -/
theorem C12_resolves (outParts xs : List Str) (svc : Str) (hx : ∀ x ∈ xs, isNormal x = true) (hs : isNormal svc = true) :
    (outParts ++ (xs ++ List.replicate xs.length dotdot) ++ [svc]).foldl specStep []
      = outParts.foldl specStep [] ++ [svc] :=
  Pth.C12_resolves outParts xs svc hx hs

/-- a template without instance and without DefaultInstance gets no WantedBy/RequiredBy links -/
theorem C12_template_without_default (svcFile b : Str) (u : MM.SUnit)
    (ht : templateParts svcFile = (some b, none))
    (hd : Cv.lookup u (s "Install") (s "DefaultInstance") = none) :
    linkPaths svcFile u = ((Cv.lookupAllStrv u (s "Install") (s "Alias")).map cleaned).filter (aliasOK svcFile) := by
  simp [linkPaths, ht, hd]

/-- D15: a DefaultInstance with a path separator counts as none -/
theorem C12_no_default_instance_with_slash (svcFile b d : Str) (u : MM.SUnit)
    (ht : templateParts svcFile = (some b, none))
    (hd : Cv.lookup u (s "Install") (s "DefaultInstance") = some d) (hslash : d.contains '/' = true) :
    linkPaths svcFile u = ((Cv.lookupAllStrv u (s "Install") (s "Alias")).map cleaned).filter (aliasOK svcFile) := by
  have hm : '/' ∈ d := by simpa using hslash
  simp [linkPaths, ht, hd, Option.filter, hm]

/-- WantedBy/RequiredBy names containing a path separator contribute nothing -/
theorem C12_slash_names_ignored (svcFile : Str) (u : MM.SUnit)
    (hw : ∀ w ∈ Cv.lookupAllStrv u (s "Install") (s "WantedBy"), w.contains '/' = true)
    (hr : ∀ w ∈ Cv.lookupAllStrv u (s "Install") (s "RequiredBy"), w.contains '/' = true) :
    linkPaths svcFile u = ((Cv.lookupAllStrv u (s "Install") (s "Alias")).map cleaned).filter (aliasOK svcFile) := by
  have e1 : (Cv.lookupAllStrv u (s "Install") (s "WantedBy")).filter (fun w => !w.contains '/') = [] := by
    rw [List.filter_eq_nil_iff]; intro w hm; have := hw w hm; simp at this; simp [this]
  have e2 : (Cv.lookupAllStrv u (s "Install") (s "RequiredBy")).filter (fun w => !w.contains '/') = [] := by
    rw [List.filter_eq_nil_iff]; intro w hm; have := hr w hm; simp at this; simp [this]
  simp only [linkPaths, e1, e2]
  split <;> simp


/-- the acceptance test is made on the cleaned *string*; an alias that passes it is relative and every part of it, as the
    kernel resolves the path, is a plain name (no "..", ".", or empty part): the link lies strictly below the output
    directory.  (Bridge from the component stack of `cleaned` to the string: QM/InstallBridge.lean.) -/
theorem C12_alias_string (svcFile raw : Str) (h : aliasOK svcFile (cleaned raw) = true) :
    isAbs (cleaned raw) = false ∧ ∀ part ∈ splitSlash (cleaned raw), isNormal part = true :=
  alias_string svcFile raw h

end Inst
