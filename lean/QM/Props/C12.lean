import QM.Install
import QM.InstallModel
import QM.InstallBridge
/-! # C12 — writes stay inside the output directory; enablement links reach the service

`Inst.linkPaths svcFile u` / `Inst.target` model `enable_service_file` (main.rs, after the D8, D15, D16
repairs): the relative paths of the links created below the output directory, in creation order, and
their targets.  `Pth.splitSlash` gives the parts of a path as the kernel resolves them; `Pth.specStep`
is lexical resolution of one part (`Pth.Spec.cleanParts`). -/
namespace Inst
open Pth

/-- a WantedBy/RequiredBy link has exactly two parts: `<unit>.wants|.requires` and the service name -/
theorem C12_dirlink_parts (w suffix name : Str) (hw : '/' ∉ w) (hs : '/' ∉ suffix) (hn : '/' ∉ name) :
    splitSlash (dirLink w suffix name) = [w ++ suffix, name] := by
  unfold dirLink
  rw [splitSlash_append _ _ (by simp [hw, hs]), splitSlash_noSlash _ hn]

/-- … it is relative and none of its parts is "..", so it denotes a path below the output directory -/
theorem C12_dirlink_inside (w suffix name : Str) (hw : '/' ∉ w) (hs : '/' ∉ suffix) (hn : '/' ∉ name)
    (hlen : 2 < suffix.length) (hname : name ≠ dotdot) :
    isAbs (dirLink w suffix name) = false ∧ dotdot ∉ splitSlash (dirLink w suffix name) := by
  constructor
  · unfold dirLink isAbs
    cases w with
    | nil =>
      cases suffix with
      | nil => simp at hlen
      | cons c r =>
        have : c ≠ '/' := fun e => hs (by simp [e])
        simp [this]
    | cons c r =>
      have : c ≠ '/' := fun e => hw (by simp [e])
      simp [this]
  · rw [C12_dirlink_parts w suffix name hw hs hn]
    simp only [List.mem_cons, List.not_mem_nil, or_false, not_or]
    refine ⟨?_, fun e => hname e.symm⟩
    intro e
    have := congrArg List.length e
    simp [dotdot] at this; omega

/-- an Alias that passes the acceptance test consists of plain names only (on the component stack of `cleaned`) -/
theorem C12_alias_inside (comps : List Comp) (hrel : ∀ c ∈ comps, c ≠ Comp.root)
    (hhead : (comps.foldl cleanStep []).head? ≠ some Comp.parent) :
    ∀ c ∈ comps.foldl cleanStep [], isNormalC c = true :=
  alias_inside comps hrel hhead

/-- the parts of a link target: `..` once per directory level of the link, then the service file -/
theorem C12_target_parts (n : Nat) (svc : Str) (hs : '/' ∉ svc) :
    splitSlash ((List.replicate n (s "../")).flatten ++ svc) = List.replicate n dotdot ++ [svc] := by
  induction n with
  | zero => simpa using splitSlash_noSlash svc hs
  | succ k ih =>
    have : (List.replicate (k + 1) (s "../")).flatten ++ svc
        = dotdot ++ '/' :: ((List.replicate k (s "../")).flatten ++ svc) := by
      simp [List.replicate_succ, s, dotdot]
    rw [this, splitSlash_append _ _ (by decide), ih]
    simp [List.replicate_succ]

/-- the link resolves to the service: from OUT, descending through the link's directories `xs` and following
    the target `..`×|xs| / service ends at OUT/service — for every OUT and every nesting depth -/
theorem C12_resolves (outParts xs : List Str) (svc : Str) (hx : ∀ x ∈ xs, isNormal x = true) (hs : isNormal svc = true) :
    (outParts ++ (xs ++ List.replicate xs.length dotdot) ++ [svc]).foldl specStep []
      = outParts.foldl specStep [] ++ [svc] :=
  Pth.C12_resolves outParts xs svc hx hs

/-- a template without instance and without DefaultInstance gets no WantedBy/RequiredBy links -/
theorem C12_template_without_default (svcFile b : Str) (u : MM.SUnit)
    (ht : templateParts svcFile = (some b, none))
    (hd : Cv.lookup u (s "Install") (s "DefaultInstance") = none) :
    linkPaths svcFile u = ((Cv.lookupAllStrv u (s "Install") (s "Alias")).map cleaned).filter (aliasOK svcFile) := by
  simp [linkPaths, ht, hd]

/-- D15: a DefaultInstance with a path separator counts as none -/
theorem C12_no_default_instance_with_slash (svcFile b d : Str) (u : MM.SUnit)
    (ht : templateParts svcFile = (some b, none))
    (hd : Cv.lookup u (s "Install") (s "DefaultInstance") = some d) (hslash : d.contains '/' = true) :
    linkPaths svcFile u = ((Cv.lookupAllStrv u (s "Install") (s "Alias")).map cleaned).filter (aliasOK svcFile) := by
  have hm : '/' ∈ d := by simpa using hslash
  simp [linkPaths, ht, hd, Option.filter, hm]

/-- WantedBy/RequiredBy names containing a path separator contribute nothing -/
theorem C12_slash_names_ignored (svcFile : Str) (u : MM.SUnit)
    (hw : ∀ w ∈ Cv.lookupAllStrv u (s "Install") (s "WantedBy"), w.contains '/' = true)
    (hr : ∀ w ∈ Cv.lookupAllStrv u (s "Install") (s "RequiredBy"), w.contains '/' = true) :
    linkPaths svcFile u = ((Cv.lookupAllStrv u (s "Install") (s "Alias")).map cleaned).filter (aliasOK svcFile) := by
  have e1 : (Cv.lookupAllStrv u (s "Install") (s "WantedBy")).filter (fun w => !w.contains '/') = [] := by
    rw [List.filter_eq_nil_iff]; intro w hm; have := hw w hm; simp at this; simp [this]
  have e2 : (Cv.lookupAllStrv u (s "Install") (s "RequiredBy")).filter (fun w => !w.contains '/') = [] := by
    rw [List.filter_eq_nil_iff]; intro w hm; have := hr w hm; simp at this; simp [this]
  simp only [linkPaths, e1, e2]
  split <;> simp


/-- the acceptance test is made on the cleaned *string*; an alias that passes it is relative and every part of it, as the
    kernel resolves the path, is a plain name (no "..", ".", or empty part): the link lies strictly below the output
    directory.  (Bridge from the component stack of `cleaned` to the string: QM/InstallBridge.lean.) -/
theorem C12_alias_string (svcFile raw : Str) (h : aliasOK svcFile (cleaned raw) = true) :
    isAbs (cleaned raw) = false ∧ ∀ part ∈ splitSlash (cleaned raw), isNormal part = true :=
  alias_string svcFile raw h

/-! ### carrying the plan out: every link on its own -/

/-- a link that cannot be made (a parent on its path is the service file or an earlier link) leaves everything as it was -/
theorem C12_blocked_link_no_effect (svcFile : Str) (st : Made) (k : Str) (h : blocked svcFile st k = true) :
    carryStep svcFile st k = st := by
  simp [carryStep, h]

/-- … so the plan with it and the plan without it create exactly the same links and directories: the links after it are made as if it
    had not been asked for (the first failure does not stop the rest) -/
theorem C12_failed_link_does_not_stop_the_rest (svcFile : Str) (before after : List Str) (k : Str)
    (h : blocked svcFile (carryOut svcFile before) k = true) :
    carryOut svcFile (before ++ k :: after) = carryOut svcFile (before ++ after) := by
  unfold carryOut at h ⊢
  rw [List.foldl_append, List.foldl_append, List.foldl_cons, C12_blocked_link_no_effect svcFile _ k h]

/-- what was made stays: a later link (made or not) never removes an earlier one -/
theorem C12_links_stay (svcFile : Str) (st : Made) (k l : Str) (h : l ∈ st.links) : l ∈ (carryStep svcFile st k).links := by
  unfold carryStep
  split
  · exact h
  · split
    · exact h
    · simp only
      split
      · exact h
      · exact List.mem_append_left _ h

theorem C12_links_stay_all (svcFile : Str) (st : Made) (ks : List Str) (l : Str) (h : l ∈ st.links) :
    l ∈ (ks.foldl (carryStep svcFile) st).links := by
  induction ks generalizing st with
  | nil => exact h
  | cons k ks ih => exact ih _ (C12_links_stay svcFile st k l h)

/-- only links of the plan are made -/
theorem C12_made_subset_plan (svcFile : Str) (plan : List Str) (st : Made) (hst : ∀ l ∈ st.links, l ∈ plan) :
    ∀ l ∈ (plan.foldl (carryStep svcFile) st).links, l ∈ plan := by
  suffices H : ∀ (ks : List Str) (st : Made), (∀ l ∈ st.links, l ∈ plan) → (∀ k ∈ ks, k ∈ plan) →
      ∀ l ∈ (ks.foldl (carryStep svcFile) st).links, l ∈ plan from H plan st hst (fun k hk => hk)
  intro ks
  induction ks with
  | nil => intro st h _; exact h
  | cons k ks ih =>
    intro st h hk
    apply ih _ _ (fun x hx => hk x (by simp [hx]))
    intro l hl
    unfold carryStep at hl
    split at hl
    · exact h l hl
    · split at hl
      · exact h l hl
      · simp only at hl
        split at hl
        · exact h l hl
        · rcases List.mem_append.mp hl with h1 | h1
          · exact h l h1
          · simp only [List.mem_singleton] at h1
            subst h1; exact hk l (by simp)

/-- a link directly in the output directory (an alias without '/') is never blocked: it is made unless a directory has its name -/
theorem C12_top_level_never_blocked (svcFile : Str) (st : Made) (k : Str) (h : k.contains '/' = false) :
    blocked svcFile st k = false := by
  have hp : parentsOf k = [] := by
    unfold parentsOf
    rw [List.filterMap_eq_nil_iff]
    intro i hi
    have hlt : i < k.length := by simpa using hi
    have hne : k[i]? ≠ some '/' := by
      intro e
      have hm : '/' ∈ k := by
        have := List.mem_of_getElem? e
        exact this
      have : k.contains '/' = true := by simpa using hm
      rw [h] at this; exact absurd this (by decide)
    have : (k[i]? == some '/') = false := by simpa using hne
    simp [this]
  simp [blocked, hp]

example : (carryOut (s "a.service") [s "a.service/x.service", s "b.service", s "b.service/y", s "t.wants/a.service", s "t.wants"]).links
    = [s "b.service", s "t.wants/a.service"] := by decide

end Inst
