import QM.Writer
/-! # C18 — failures to write output are reported, never silently ignored

`Wr.generate true limit cap chunks` models `generate_service_file` (main.rs, after the D11 repair) over
`BufWriter`'s documented contract: bytes are buffered, spilled when the buffer would overflow, written through
when a piece is at least as large as the buffer, and — repaired code — flushed explicitly before returning (the
flush on drop discards its error).  The sink accepts `limit` bytes in total and then fails (`limit = 0` is /dev/full).
`Wr.runWrites` is the write loop of `process`.  The kernel's error sources are not modelled; the tie is by real runs
with /dev/full, a directory at the service path, and an output directory that cannot be created. -/
namespace Wr

/-- C18 (writer, repaired): whenever the sink cannot take the whole file — wherever the failing write
    falls, including only at the final flush — generate reports an error -/
theorem C18_reported (limit cap : Nat) (chunks : List Nat) (h : chunks.sum > limit) :
    generate true limit cap chunks = false := by
  unfold generate
  cases hw : writeChunks limit cap ⟨0, 0⟩ chunks with
  | none => rfl
  | some w =>
    obtain ⟨a, b⟩ := writeChunks_inv limit cap chunks ⟨0, 0⟩ w hw (by simp)
    simp only [if_true, flushBuf]
    have : ¬ (w.written + w.buf ≤ limit) := by simp at a; omega
    simp [this]

/-- D11 as a theorem about the model of the pinned code: a 100-byte service written to /dev/full -/
theorem C18_pinned_counterexample : generate false 0 8192 [40, 60] = true := by decide

/-- and no false alarms: when everything fits the repaired code succeeds -/
theorem C18_ok (limit cap : Nat) (chunks : List Nat) (h : chunks.sum ≤ limit) :
    generate true limit cap chunks = true := by
  unfold generate
  have key : ∀ (ns : List Nat) (w : W), w.buf + w.written + ns.sum ≤ limit →
      ∃ w', writeChunks limit cap w ns = some w' := by
    intro ns
    induction ns with
    | nil => intro w _; exact ⟨w, rfl⟩
    | cons n ns ih =>
      intro w hw
      simp only [List.sum_cons] at hw
      have : ∃ w1, writeAll limit cap w n = some w1 ∧ w1.buf + w1.written = w.buf + w.written + n := by
        unfold writeAll flushBuf
        by_cases h1 : w.buf + n > cap
        · have h2 : w.written + w.buf ≤ limit := by omega
          simp only [h1, if_true, h2, Option.bind_some]
          by_cases h3 : n ≥ cap
          · have h4 : w.written + w.buf + n ≤ limit := by omega
            simp only [h3, if_true, h4]; exact ⟨_, rfl, by simp; omega⟩
          · simp only [h3, if_false]; exact ⟨_, rfl, by simp; omega⟩
        · simp only [h1, if_false, Option.bind_some]
          by_cases h3 : n ≥ cap
          · have h4 : w.written + n ≤ limit := by omega
            simp only [h3, if_true, h4]; exact ⟨_, rfl, by simp; omega⟩
          · simp only [h3, if_false]; exact ⟨_, rfl, by simp; omega⟩
      obtain ⟨w1, e1, e2⟩ := this
      obtain ⟨w', e'⟩ := ih w1 (by omega)
      exact ⟨w', by simp [writeChunks, e1, e']⟩
  obtain ⟨w, hw⟩ := key chunks ⟨0, 0⟩ (by simpa using h)
  obtain ⟨a, b⟩ := writeChunks_inv limit cap chunks ⟨0, 0⟩ w hw (by simp)
  simp only [hw, if_true, flushBuf]
  have : w.written + w.buf ≤ limit := by simp at a; omega
  simp [this]


theorem fold_errors (cap : Nat) (jobs : List (Job × Fault)) (o : Outcome) :
    (jobs.foldl (loopStep cap) o).errors = o.errors ++ (jobs.filter (fun jf => !writeOne cap jf.2 jf.1)).map (·.1.name) ∧
    (jobs.foldl (loopStep cap) o).written = o.written ++ (jobs.filter (fun jf => writeOne cap jf.2 jf.1)).map (·.1.name) ∧
    (jobs.foldl (loopStep cap) o).enabled = o.enabled ++ (jobs.filter (fun jf => writeOne cap jf.2 jf.1)).map (·.1.name) := by
  induction jobs generalizing o with
  | nil => simp
  | cons jf jobs ih =>
    simp only [List.foldl_cons]
    obtain ⟨h1, h2, h3⟩ := ih (loopStep cap o jf)
    rw [h1, h2, h3]
    unfold loopStep
    by_cases hw : writeOne cap jf.2 jf.1 = true
    · simp [hw, List.filter_cons]
    · have : writeOne cap jf.2 jf.1 = false := by simpa using hw
      simp [this, List.filter_cons]

/-- a unit whose file cannot be created, or whose sink cannot take all its bytes (wherever the failing write falls),
    is reported with its path, makes the exit status non-zero, and is not enabled — at every position of a run -/
theorem C18_loop_reported (cap : Nat) (pre post : List (Job × Fault)) (j : Job) (f : Fault)
    (hf : f = Fault.create ∨ ∃ l, f = Fault.sink l ∧ j.chunks.sum > l)
    (hname : ∀ jf ∈ pre ++ post, jf.1.name ≠ j.name) :
    let o := runWrites cap (pre ++ (j, f) :: post)
    j.name ∈ o.errors ∧ exitStatus o = 1 ∧ j.name ∉ o.enabled ∧ j.name ∉ o.written := by
  have hfail : writeOne cap f j = false := by
    rcases hf with rfl | ⟨l, rfl, hl⟩
    · rfl
    · exact C18_reported l cap j.chunks hl
  obtain ⟨h1, h2, h3⟩ := fold_errors cap (pre ++ (j, f) :: post) ⟨[], [], []⟩
  simp only [runWrites]
  have hmem : j.name ∈ (List.foldl (loopStep cap) ⟨[], [], []⟩ (pre ++ (j, f) :: post)).errors := by
    rw [h1]; simp [List.filter_append, List.filter_cons, hfail]
  refine ⟨hmem, ?_, ?_, ?_⟩
  · unfold exitStatus
    cases he : (List.foldl (loopStep cap) ⟨[], [], []⟩ (pre ++ (j, f) :: post)).errors with
    | nil => rw [he] at hmem; simp at hmem
    | cons _ _ => simp
  · rw [h3]
    simp only [List.nil_append, List.mem_map, List.mem_filter, not_exists, not_and]
    intro jf ⟨hm, hok⟩ hn
    rcases List.mem_append.mp hm with h | h
    · exact hname jf (List.mem_append_left _ h) hn
    · rcases List.mem_cons.mp h with rfl | h
      · rw [hfail] at hok; cases hok
      · exact hname jf (List.mem_append_right _ h) hn
  · rw [h2]
    simp only [List.nil_append, List.mem_map, List.mem_filter, not_exists, not_and]
    intro jf ⟨hm, hok⟩ hn
    rcases List.mem_append.mp hm with h | h
    · exact hname jf (List.mem_append_left _ h) hn
    · rcases List.mem_cons.mp h with rfl | h
      · rw [hfail] at hok; cases hok
      · exact hname jf (List.mem_append_right _ h) hn

/-- … and every other unit whose write succeeds is still written and enabled (the loop continues) -/
theorem C18_others_written (cap : Nat) (jobs : List (Job × Fault)) (j : Job) (f : Fault) (hm : (j, f) ∈ jobs)
    (hok : writeOne cap f j = true) :
    j.name ∈ (runWrites cap jobs).written ∧ j.name ∈ (runWrites cap jobs).enabled := by
  obtain ⟨_, h2, h3⟩ := fold_errors cap jobs ⟨[], [], []⟩
  simp only [runWrites]
  rw [h2, h3]
  constructor <;> (simp only [List.nil_append, List.mem_map, List.mem_filter]; exact ⟨(j, f), ⟨hm, hok⟩, rfl⟩)

/-- no failure, no error: exit status 0 exactly when every unit could be written -/
theorem C18_exit_zero_iff (cap : Nat) (jobs : List (Job × Fault)) :
    exitStatus (runWrites cap jobs) = 0 ↔ ∀ jf ∈ jobs, writeOne cap jf.2 jf.1 = true := by
  obtain ⟨h1, _, _⟩ := fold_errors cap jobs ⟨[], [], []⟩
  unfold exitStatus runWrites
  rw [h1]
  simp only [List.nil_append]
  constructor
  · intro h jf hm
    by_cases hw : writeOne cap jf.2 jf.1 = true
    · exact hw
    · exfalso
      have hw' : writeOne cap jf.2 jf.1 = false := by simpa using hw
      have : jf ∈ jobs.filter (fun jf => !writeOne cap jf.2 jf.1) := by simp [List.mem_filter, hm, hw']
      cases hl : jobs.filter (fun jf => !writeOne cap jf.2 jf.1) with
      | nil => rw [hl] at this; simp at this
      | cons a b => simp [hl] at h
  · intro h
    have : jobs.filter (fun jf => !writeOne cap jf.2 jf.1) = [] := by
      rw [List.filter_eq_nil_iff]; intro jf hm; simp [h jf hm]
    simp [this]

end Wr
