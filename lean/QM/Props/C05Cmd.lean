import QM.Props.C05
import QM.Props.C02
/-! # C05 at the command level — "Exec / PodmanArgs words in the generated ExecStart"

For the `.network` converter model, whose command shape is explicit: the words systemd's splitter (UNQUOTE|CUNESCAPE|RELAX) finds in
the effective `PodmanArgs=` assignments are, all of them and in order — explicitly quoted empty words included —, consecutive
arguments of the generated command, directly before the network's name. -/
namespace Cv
open MM

/-- a single effective `PodmanArgs=` assignment: exactly systemd's words, as one block of arguments, right before the positional name -/
theorem C05_network_podman_args_reach_command (E : Env) (path : Str) (u svc : SUnit) (n raw : Str) (ws : List Str)
    (h : fromNetwork E path u = .ok (svc, n))
    (hv : lookupAllValues u (s "Network") (s "PodmanArgs") = [raw])
    (hs : P.splitAll P.argFlags raw = some ws) :
    ∃ cmd, HasExec svc "ExecStart" cmd ∧ (ws ++ [n]) <:+ cmd := by
  obtain ⟨sub, hx⟩ := C02_network_shape E path u svc n h
  refine ⟨_, hx, ?_⟩
  have hp : podmanArgs u (s "Network") = ws := by
    unfold podmanArgs lookupAllArgs
    rw [hv]
    simp only [List.flatMap_cons, List.flatMap_nil, List.append_nil]
    exact P.C05_args_eq_systemd raw ws hs
  rw [hp, List.append_assoc]
  exact List.suffix_append _ _

/-- systemd splits every one of the raw values: `wss` are the word lists, in the same order -/
inductive AllSplit : List Str → List (List Str) → Prop
  | nil : AllSplit [] []
  | cons {raw : Str} {ws : List Str} {raws : List Str} {wss : List (List Str)} :
      P.splitAll P.argFlags raw = some ws → AllSplit raws wss → AllSplit (raw :: raws) (ws :: wss)

/-- several effective assignments (after the resets of C15): the words of each, in assignment order -/
theorem C05_network_podman_args_all (E : Env) (path : Str) (u svc : SUnit) (n : Str) (raws : List Str) (wss : List (List Str))
    (h : fromNetwork E path u = .ok (svc, n))
    (hv : lookupAllValues u (s "Network") (s "PodmanArgs") = raws)
    (hs : AllSplit raws wss) :
    ∃ cmd, HasExec svc "ExecStart" cmd ∧ (wss.flatten ++ [n]) <:+ cmd := by
  obtain ⟨sub, hx⟩ := C02_network_shape E path u svc n h
  refine ⟨_, hx, ?_⟩
  have hp : podmanArgs u (s "Network") = wss.flatten := by
    unfold podmanArgs lookupAllArgs
    rw [hv]
    clear hv hx h
    induction hs with
    | nil => rfl
    | cons hd _ ih =>
      rw [List.flatMap_cons, List.flatten_cons, ih]
      have e := P.C05_args_eq_systemd _ _ hd
      unfold splitArgs
      rw [e]
  rw [hp, List.append_assoc]
  exact List.suffix_append _ _

end Cv

/-! ### the same for the other converters

`podman_args_words`: the words of the effective `PodmanArgs=` assignments are exactly systemd's words; the shape theorems of
QM/ConvCmd.lean place them in the command — after every key-derived option, before the positional arguments. -/
namespace Cv
open MM

/-- the words the converters take from `PodmanArgs=` are systemd's words of the effective assignments, in assignment order -/
theorem podman_args_words (u : SUnit) (sec : Str) (raws : List Str) (wss : List (List Str))
    (hv : lookupAllValues u sec (s "PodmanArgs") = raws) (hs : AllSplit raws wss) : podmanArgs u sec = wss.flatten := by
  unfold podmanArgs lookupAllArgs
  rw [hv]
  clear hv
  induction hs with
  | nil => rfl
  | cons hd _ ih =>
    rw [List.flatMap_cons, List.flatten_cons, ih]
    have e := P.C05_args_eq_systemd _ _ hd
    unfold splitArgs
    rw [e]

/-- the same for any argument-style key (`Exec`, `GlobalArgs`, `Mask`, `Secret`, …): `lookup_all_args` = systemd's words -/
theorem args_words (u : SUnit) (sec key : Str) (raws : List Str) (wss : List (List Str))
    (hv : lookupAllValues u sec key = raws) (hs : AllSplit raws wss) : lookupAllArgs u sec key = wss.flatten := by
  unfold lookupAllArgs
  rw [hv]
  clear hv
  induction hs with
  | nil => rfl
  | cons hd _ ih =>
    rw [List.flatMap_cons, List.flatten_cons, ih]
    have e := P.C05_args_eq_systemd _ _ hd
    unfold splitArgs
    rw [e]

theorem C05_image_podman_args (E : Env) (path : Str) (u svc : SUnit) (r : Str) (raws : List Str) (wss : List (List Str))
    (h : fromImage E path u = .ok (svc, r))
    (hv : lookupAllValues u (s "Image") (s "PodmanArgs") = raws) (hs : AllSplit raws wss) :
    (wss.flatten ++ [(lookup u (s "Image") (s "Image")).getD []]) <:+ imageCmd E u := by
  rw [(C02_image_shape E path u svc r h).2, ← podman_args_words u _ raws wss hv hs, List.append_assoc]
  exact List.suffix_append _ _

theorem C05_volume_podman_args (E : Env) (path : Str) (u svc : SUnit) (n : Str) (raws : List Str) (wss : List (List Str))
    (h : fromVolume E path u = .ok (svc, n))
    (hv : lookupAllValues u (s "Volume") (s "PodmanArgs") = raws) (hs : AllSplit raws wss) :
    ∃ cmd, HasExec svc "ExecStart" cmd ∧ (wss.flatten ++ [n]) <:+ cmd := by
  obtain ⟨c2, hx⟩ := C02_volume_shape E path u svc n h
  refine ⟨_, hx, ?_⟩
  rw [podman_args_words u _ raws wss hv hs, List.append_assoc]
  exact List.suffix_append _ _

/-- .pod: the words close the `pod create` command (ExecStartPre) -/
theorem C05_pod_podman_args (E : Env) (path : Str) (u svc : SUnit) (cts : List Str) (raws : List Str) (wss : List (List Str))
    (h : fromPod E path u cts = .ok svc)
    (hv : lookupAllValues u (s "Pod") (s "PodmanArgs") = raws) (hs : AllSplit raws wss) :
    ∃ cmd, HasExec svc "ExecStartPre" cmd ∧ wss.flatten <:+ cmd := by
  obtain ⟨maps, nets, vols, hx⟩ := C02_pod_shape E path u svc cts h
  refine ⟨_, hx, ?_⟩
  rw [podman_args_words u _ raws wss hv hs]
  exact List.suffix_append _ _

/-- .kube: … directly before the path of the YAML file -/
theorem C05_kube_podman_args (E : Env) (path : Str) (u svc : SUnit) (raws : List Str) (wss : List (List Str))
    (h : fromKube E path u = .ok svc)
    (hv : lookupAllValues u (s "Kube") (s "PodmanArgs") = raws) (hs : AllSplit raws wss) :
    ∃ cmd, HasExec svc "ExecStart" cmd ∧ (wss.flatten ++ [absFromUnit path ((lookup u (s "Kube") (s "Yaml")).getD [])]) <:+ cmd := by
  obtain ⟨maps, nets, hx⟩ := C02_kube_shape E path u svc h
  refine ⟨_, hx, ?_⟩
  rw [podman_args_words u _ raws wss hv hs, List.append_assoc]
  exact List.suffix_append _ _

/-- .build: … directly before the build context -/
theorem C05_build_podman_args (E : Env) (path : Str) (u svc : SUnit) (raws : List Str) (wss : List (List Str))
    (h : fromBuild E path u = .ok svc)
    (hv : lookupAllValues u (s "Build") (s "PodmanArgs") = raws) (hs : AllSplit raws wss) :
    ∃ cmd tail, HasExec svc "ExecStart" cmd ∧ (wss.flatten ++ tail) <:+ cmd := by
  obtain ⟨nets, vols, fa, tail, hx⟩ := C02_build_shape E path u svc h
  refine ⟨_, tail, hx, ?_⟩
  rw [podman_args_words u _ raws wss hv hs, List.append_assoc]
  exact List.suffix_append _ _

/-- .container: the words of `PodmanArgs=`, then the image (or `--rootfs <path>`), then the words of the effective `Exec=` —
    systemd's words in both cases — close the command -/
theorem C05_container_podman_args_and_exec (E : Env) (path : Str) (u svc : SUnit) (link : Option (Str × Str))
    (raws : List Str) (wss : List (List Str))
    (h : fromContainer E path u = some (.ok (svc, link)))
    (hv : lookupAllValues u (s "Container") (s "PodmanArgs") = raws) (hs : AllSplit raws wss) :
    ∃ cmd image, HasExec svc "ExecStart" cmd ∧ (wss.flatten ++ containerTail u (s "Container") image) <:+ cmd := by
  obtain ⟨m1, mounts, podArgs, image, hx⟩ := C02_container_shape E path u svc link h
  refine ⟨_, image, hx, ?_⟩
  rw [podman_args_words u _ raws wss hv hs, List.append_assoc]
  exact List.suffix_append _ _

/-- the words of `Exec=` (last assignment, C15) are systemd's words and they are the last arguments of the command -/
theorem C05_container_exec_words (u : SUnit) (image raw : Str) (ws : List Str)
    (hv : lookupLastValue u (s "Container") (s "Exec") = some raw) (hs : P.splitAll P.argFlags raw = some ws) :
    ws <:+ containerTail u (s "Container") image := by
  unfold containerTail
  rw [hv]
  simp only
  have e := P.C05_args_eq_systemd raw ws hs
  unfold splitArgs
  rw [e]
  exact List.suffix_append _ _

end Cv
