import QM.Props.C05
import QM.Props.C02
/-! # C05 at the command level — "Exec / PodmanArgs words in the generated ExecStart"

For the `.network` converter model, whose command shape is explicit: the words systemd's splitter (UNQUOTE|CUNESCAPE|RELAX) finds in
the effective `PodmanArgs=` assignments are, all of them and in order — explicitly quoted empty words included —, consecutive
arguments of the generated command, directly before the network's name. -/
namespace Cv
open MM

/-- a single effective `PodmanArgs=` assignment: exactly systemd's words, as one block of arguments, right before the positional name -/
theorem C05_network_podman_args_reach_command (E : Env) (path : Str) (u svc : SUnit) (n raw : Str) (ws : List Str)
    (h : fromNetwork E path u = .ok (svc, n))
    (hv : lookupAllValues u (s "Network") (s "PodmanArgs") = [raw])
    (hs : P.splitAll P.argFlags raw = some ws) :
    ∃ cmd, HasExec svc "ExecStart" cmd ∧ (ws ++ [n]) <:+ cmd := by
  obtain ⟨sub, hx⟩ := C02_network_shape E path u svc n h
  refine ⟨_, hx, ?_⟩
  have hp : podmanArgs u (s "Network") = ws := by
    unfold podmanArgs lookupAllArgs
    rw [hv]
    simp only [List.flatMap_cons, List.flatMap_nil, List.append_nil]
    exact P.C05_args_eq_systemd raw ws hs
  rw [hp, List.append_assoc]
  exact List.suffix_append _ _

/-- systemd splits every one of the raw values: `wss` are the word lists, in the same order -/
inductive AllSplit : List Str → List (List Str) → Prop
  | nil : AllSplit [] []
  | cons {raw : Str} {ws : List Str} {raws : List Str} {wss : List (List Str)} :
      P.splitAll P.argFlags raw = some ws → AllSplit raws wss → AllSplit (raw :: raws) (ws :: wss)

/-- several effective assignments (after the resets of C15): the words of each, in assignment order -/
theorem C05_network_podman_args_all (E : Env) (path : Str) (u svc : SUnit) (n : Str) (raws : List Str) (wss : List (List Str))
    (h : fromNetwork E path u = .ok (svc, n))
    (hv : lookupAllValues u (s "Network") (s "PodmanArgs") = raws)
    (hs : AllSplit raws wss) :
    ∃ cmd, HasExec svc "ExecStart" cmd ∧ (wss.flatten ++ [n]) <:+ cmd := by
  obtain ⟨sub, hx⟩ := C02_network_shape E path u svc n h
  refine ⟨_, hx, ?_⟩
  have hp : podmanArgs u (s "Network") = wss.flatten := by
    unfold podmanArgs lookupAllArgs
    rw [hv]
    clear hv hx h
    induction hs with
    | nil => rfl
    | cons hd _ ih =>
      rw [List.flatMap_cons, List.flatten_cons, ih]
      have e := P.C05_args_eq_systemd _ _ hd
      unfold splitArgs
      rw [e]
  rw [hp, List.append_assoc]
  exact List.suffix_append _ _

end Cv
