import QM.Fs
import QM.Props.C08
/-! # C10 — the exit status of the whole run (over the run model `Cv.runTree`, which is compared with real runs of the binary,
    exit status included) -/
namespace Cv

theorem C10_exit_is_0_or_1 (r : RunOut) : r.exitStatus = 0 ∨ r.exitStatus = 1 := by
  unfold RunOut.exitStatus; split <;> simp

/-- zero exactly when every file was loaded, every drop-in merged and every unit converted -/
theorem C10_exit_zero_iff (r : RunOut) :
    r.exitStatus = 0 ↔ r.loadErrors = 0 ∧ r.dropinErrors = 0 ∧ ∀ p ∈ r.services, outIsErr p.2 = false := by
  unfold RunOut.exitStatus RunOut.convErrors
  constructor
  · intro h
    split at h
    · rename_i h0
      refine ⟨by omega, by omega, ?_⟩
      intro p hp
      have h3 : (r.services.filter fun p => outIsErr p.2).length = 0 := by omega
      have hnil := List.length_eq_zero_iff.mp h3
      rw [List.filter_eq_nil_iff] at hnil
      simpa using hnil p hp
    · simp at h
  · rintro ⟨h1, h2, h3⟩
    have : (r.services.filter fun p => outIsErr p.2) = [] := by
      rw [List.filter_eq_nil_iff]
      intro p hp
      simp [h3 p hp]
    simp [h1, h2, this]

/-- one file that cannot be loaded, one drop-in that cannot be merged, or one unit that does not convert is enough for exit status 1 —
    however many other files there are and whatever happens to them -/
theorem C10_exit_one_of_any_failure (r : RunOut)
    (h : 0 < r.loadErrors ∨ 0 < r.dropinErrors ∨ ∃ p ∈ r.services, outIsErr p.2 = true) : r.exitStatus = 1 := by
  rcases C10_exit_is_0_or_1 r with h0 | h1
  · exfalso
    obtain ⟨a, b, c⟩ := (C10_exit_zero_iff r).mp h0
    rcases h with h | h | ⟨p, hp, he⟩
    · omega
    · omega
    · rw [c p hp] at he; exact absurd he (by decide)
  · exact h1

end Cv
