import QM.Props.C17
import QM.ConvCmd
/-! # C17, call sites — where the converters resolve paths (over the converter models) -/
namespace Cv
open MM

/-- call site: a `Volume=` / `Mount=` source that starts with '.' is resolved against the unit file's directory; the
    resolved path is what the command carries and what `RequiresMountsFor=` names -/
theorem C17_storage_source_call_site (E : Env) (p : Str) (svc : SUnit) (source : Str) (ci : Bool)
    (hdot : source.head? = some '.') (habs : (absFromUnit p source).head? = some '/') :
    handleStorageSource E p svc source ci
      = .ok (absFromUnit p source, addS svc "Unit" "RequiresMountsFor" (absFromUnit p source)) := by
  unfold handleStorageSource
  simp [hdot, habs]

/-- … any other source is left as it is written (a name, an absolute path, a specifier path) -/
theorem C17_storage_source_other (E : Env) (p : Str) (svc : SUnit) (source : Str) (ci : Bool)
    (hdot : source.head? ≠ some '.') (hrel : source.head? ≠ some '/')
    (hu : (endsWith source (s ".volume") || (ci && endsWith source (s ".image"))) = false) :
    handleStorageSource E p svc source ci = .ok (source, svc) := by
  unfold handleStorageSource
  have h1 : (source.head? == some '.') = false := by simpa using hdot
  have h2 : (source.head? == some '/') = false := by simpa using hrel
  simp [h1, h2, hu]

/-- call site: the Yaml= path of a .kube unit reaches `podman kube play` resolved against the unit's directory (last argument) -/
theorem C17_yaml_call_site (E : Env) (path : Str) (u svc : SUnit) (h : fromKube E path u = .ok svc) :
    ∃ cmd, HasExec svc "ExecStart" cmd ∧ cmd.getLast? = some (absFromUnit path ((lookup u (s "Kube") (s "Yaml")).getD [])) := by
  obtain ⟨maps, nets, hx⟩ := C02_kube_shape E path u svc h
  exact ⟨_, hx, List.getLast?_concat⟩

/-- `absFromUnit` is `absolute_from` against the directory of the unit's path -/
theorem C17_absFromUnit_eq (p x : Str) : absFromUnit p x = Pth.absoluteFromUnit [] p x := rfl

end Cv
