import QM.Props.C17
import QM.ConvCmd
/-! # C17, call sites — where the converters resolve paths (over the converter models) -/
namespace Cv
open MM

/-- call site: a `Volume=` / `Mount=` source that starts with '.' is resolved against the unit file's directory; the
    resolved path is what the command carries and what `RequiresMountsFor=` names -/
theorem C17_storage_source_call_site (E : Env) (p : Str) (svc : SUnit) (source : Str) (ci : Bool)
    (hdot : source.head? = some '.') (habs : (absFromUnit p source).head? = some '/') :
    handleStorageSource E p svc source ci
      = .ok (absFromUnit p source, addS svc "Unit" "RequiresMountsFor" (absFromUnit p source)) := by
  unfold handleStorageSource
  simp [hdot, habs]

/-- … any other source is left as it is written (a name, an absolute path, a specifier path) -/
theorem C17_storage_source_other (E : Env) (p : Str) (svc : SUnit) (source : Str) (ci : Bool)
    (hdot : source.head? ≠ some '.') (hrel : source.head? ≠ some '/')
    (hu : (endsWith source (s ".volume") || (ci && endsWith source (s ".image"))) = false) :
    handleStorageSource E p svc source ci = .ok (source, svc) := by
  unfold handleStorageSource
  have h1 : (source.head? == some '.') = false := by simpa using hdot
  have h2 : (source.head? == some '/') = false := by simpa using hrel
  simp [h1, h2, hu]

/-- call site: the Yaml= path of a .kube unit reaches `podman kube play` resolved against the unit's directory (last argument) -/
theorem C17_yaml_call_site (E : Env) (path : Str) (u svc : SUnit) (h : fromKube E path u = .ok svc) :
    ∃ cmd, HasExec svc "ExecStart" cmd ∧ cmd.getLast? = some (absFromUnit path ((lookup u (s "Kube") (s "Yaml")).getD [])) := by
  obtain ⟨maps, nets, hx⟩ := C02_kube_shape E path u svc h
  exact ⟨_, hx, List.getLast?_concat⟩

/-- `absFromUnit` is `absolute_from` against the directory of the unit's path -/
theorem C17_absFromUnit_eq (p x : Str) : absFromUnit p x = Pth.absoluteFromUnit [] p x := rfl

/-- call site, specifier paths (D23): a `Yaml=` that starts with a specifier is the last argument exactly as it was written -/
theorem C17_yaml_specifier_kept (E : Env) (path : Str) (u svc : SUnit) (h : fromKube E path u = .ok svc)
    (hs : Pth.startsWithSpecifier ((lookup u (s "Kube") (s "Yaml")).getD []) = true) :
    ∃ cmd, HasExec svc "ExecStart" cmd ∧ cmd.getLast? = some ((lookup u (s "Kube") (s "Yaml")).getD []) := by
  obtain ⟨cmd, hx, hl⟩ := C17_yaml_call_site E path u svc h
  refine ⟨cmd, hx, ?_⟩
  rw [hl, C17_absFromUnit_eq]
  unfold Pth.absoluteFromUnit
  rw [Pth.C17_specifier_kept _ _ _ hs]

/-- … and every path the converters resolve with `absFromUnit` (ConfigMap=, EnvironmentFile=, the file a working directory is derived
    from): a specifier path comes back as it was written, whatever the unit's own path is -/
theorem C17_absFromUnit_specifier (p x : Str) (hs : Pth.startsWithSpecifier x = true) : absFromUnit p x = x := by
  rw [C17_absFromUnit_eq]; unfold Pth.absoluteFromUnit; exact Pth.C17_specifier_kept _ _ _ hs

example : absFromUnit (s "/q/u.kube") (s "%h/../x") = s "%h/../x" := by decide

/-! ### a path or a URL (D21) -/

/-- what counts as a URL begins with one of four prefixes — nothing that merely begins with "http" or holds "github.com/" somewhere -/
theorem C17_url_prefix (x : Str) (h : isUrl x = true) :
    (s "http://").isPrefixOf x = true ∨ (s "https://").isPrefixOf x = true ∨ (s "git://").isPrefixOf x = true ∨ (s "github.com/").isPrefixOf x = true := by
  unfold isUrl startsWith at h
  simp only [List.any_cons, List.any_nil, Bool.or_false, Bool.or_eq_true, Bool.and_eq_true] at h
  rcases h with h | h | h | h
  · exact Or.inl h.1
  · exact Or.inr (Or.inl h.1)
  · exact Or.inr (Or.inr (Or.inl h.1))
  · exact Or.inr (Or.inr (Or.inr h.1))

example : isUrl (s "httpd/ctx") = false ∧ isUrl (s "https-proxy/Containerfile") = false ∧ isUrl (s "src/https://h/x") = false ∧
    isUrl (s "vendor/github.com/u/r") = false ∧ isUrl (s "https://h/x") = true ∧ isUrl (s "github.com/u/r") = true := by decide

/-- call site: a custom, relative `SetWorkingDirectory=` of a .build that is not a URL is always anchored — when the plan succeeds it
    keeps the value as the build context *and* sets a working directory (which `swdPlan` computes from the unit's path alone), unless
    the user chose a `[Service] WorkingDirectory=` of their own -/
theorem C17_build_custom_anchored (unitPath : Str) (u : SUnit) (swd : Str)
    (hl : lookup u (s "Build") (s "SetWorkingDirectory") = some swd) (hne : swd ≠ []) (hp : unitPath ≠ [])
    (h1 : (lower swd == s "yaml") = false) (h2 : (lower swd == s "file") = false) (h3 : (lower swd == s "unit") = false)
    (habs : isAbs swd = false) (hurl : isUrl swd = false)
    (hwd : lookup u (s "Service") (s "WorkingDirectory") = none) (r : Str × Option Str)
    (h : swdPlan unitPath u (s "Build") = .ok r) : r.1 = swd ∧ r.2.isSome = true := by
  unfold swdPlan at h
  have he : swd.isEmpty = false := by cases swd with | nil => exact absurd rfl hne | cons _ _ => rfl
  have hpe : unitPath.isEmpty = false := by cases unitPath with | nil => exact absurd rfl hp | cons _ _ => rfl
  simp only [hl, Option.getD_some, he, Bool.false_eq_true, if_false] at h
  have ht : swdTarget unitPath u (s "Build") swd = .ok (swd, unitPath) := by
    unfold swdTarget
    simp [h1, h2, h3, habs]
  rw [ht] at h
  simp only [hpe, Bool.not_false, hurl, Bool.and_self, if_true, hwd, Option.map_none, Option.getD_none, Bool.false_eq_true, if_false] at h
  split at h
  · split at h
    · cases h
    · cases h; exact ⟨rfl, rfl⟩
  · split at h
    · cases h
    · cases h; exact ⟨rfl, rfl⟩

end Cv
