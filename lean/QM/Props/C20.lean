import QM.Port
/-! # C20 — ExposeHostPort accepts exactly port[-port][/tcp|/udp]

`Port.isPortRange` is the model of `is_port_range` (convert.rs), tied to the code by the
exhaustive `port_range` correspondence; `Port.Spec` is the anchored regular expression
`^\d+(-\d+)?(/tcp|/udp)?$` quoted in the function's comment, as a grammar predicate. -/
namespace Port

theorem C20_recogniser (s : Str) : isPortRange s = true ↔ Spec s := by
  unfold isPortRange Spec
  rw [Bool.and_eq_true, p1_iff]
  constructor
  · rintro ⟨_, ds, r, p, rfl, h1, h2, h3, h4⟩
    exact ⟨ds, r, p, rfl, ⟨by intro e; subst e; simp at h2, h1⟩, h3, h4⟩
  · rintro ⟨ds, r, p, rfl, ⟨h1, h1'⟩, h3, h4⟩
    refine ⟨?_, ds, r, p, rfl, h1', ?_, h3, h4⟩
    · cases ds <;> simp_all
    · cases ds <;> simp_all

/-- rejected strings are exactly the ones outside the grammar -/
theorem C20_rejects (s : Str) : isPortRange s = false ↔ ¬ Spec s := by
  rw [← C20_recogniser]; cases isPortRange s <;> simp

/-- the pre-fix defect D7 stays excluded: a leading separator is never accepted -/
theorem C20_no_leading_separator (s : Str) : ¬ Spec ('/' :: s) ∧ ¬ Spec ('-' :: s) := by
  constructor <;> (rw [← C20_recogniser]; simp [isPortRange, p1, isDigit]) <;> decide

-- non-vacuity / sanity (tests of the statement, labelled as such)
example : Spec "80".toList := (C20_recogniser _).mp (by decide)
example : Spec "8080-8090/udp".toList := (C20_recogniser _).mp (by decide)
example : ¬ Spec "/tcp".toList := (C20_rejects _).mp (by decide)
example : ¬ Spec "1-/udp".toList := (C20_rejects _).mp (by decide)
example : ¬ Spec "80/sctp".toList := (C20_rejects _).mp (by decide)
example : ¬ Spec "80/tcp ".toList := (C20_rejects _).mp (by decide)

end Port
