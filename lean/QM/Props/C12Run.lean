import QM.Props.C12
import QM.Props.C18Run
import QM.ProcLemmasA
/-! # C12 for the whole plan of a service and for the whole run

`C12_plan_inside`: every link path `enable_service_file` plans for a service — each Alias, each WantedBy, each RequiredBy — is a
relative path none of whose parts is `..`, whatever the [Install] section says; `C12_run_links_inside` lifts it to every link made
by a run of `Cv.process`. -/
namespace Inst
open Pth

theorem mem_of_mem_takeWhile {α} (p : α → Bool) (l : List α) (a : α) (h : a ∈ l.takeWhile p) : a ∈ l :=
  (List.takeWhile_sublist p).subset h
theorem mem_of_mem_dropWhile {α} (p : α → Bool) (l : List α) (a : α) (h : a ∈ l.dropWhile p) : a ∈ l :=
  (List.dropWhile_sublist p).subset h

/-- both halves of a split consist of characters of the input -/
theorem splitOnce_mem (c : Char) (x a b : Str) (h : splitOnce c x = some (a, b)) :
    (∀ d ∈ a, d ∈ x) ∧ (∀ d ∈ b, d ∈ x) := by
  unfold splitOnce at h
  rw [Cv.span_eq] at h
  cases hd : x.dropWhile (· != c) with
  | nil => simp [hd] at h
  | cons y r =>
    simp only [hd, Option.some.injEq, Prod.mk.injEq] at h
    obtain ⟨rfl, rfl⟩ := h
    refine ⟨fun d hm => mem_of_mem_takeWhile _ _ _ hm, fun d hm => ?_⟩
    exact mem_of_mem_dropWhile (· != c) x d (by rw [hd]; exact List.mem_cons_of_mem _ hm)

theorem splitLast_mem (c : Char) (x a b : Str) (h : splitLast c x = some (a, b)) :
    (∀ d ∈ a, d ∈ x) ∧ (∀ d ∈ b, d ∈ x) := by
  unfold splitLast at h
  cases hs : splitOnce c x.reverse with
  | none => simp [hs] at h
  | some p =>
    obtain ⟨p1, p2⟩ := p
    simp only [hs, Option.some.injEq, Prod.mk.injEq] at h
    obtain ⟨rfl, rfl⟩ := h
    obtain ⟨h1, h2⟩ := splitOnce_mem c x.reverse p1 p2 hs
    exact ⟨fun d hm => by simpa using h2 d (by simpa using hm), fun d hm => by simpa using h1 d (by simpa using hm)⟩

theorem fileStem_mem (name : Str) : ∀ d ∈ fileStem name, d ∈ name := by
  unfold fileStem
  cases hs : splitLast '.' name with
  | none => intro d h; exact h
  | some p =>
    obtain ⟨a, b⟩ := p
    simp only
    split
    · intro d h; exact h
    · exact (splitLast_mem '.' name a b hs).1

theorem extension_mem (name : Str) : ∀ d ∈ extension name, d ∈ name := by
  unfold extension
  cases hs : splitLast '.' name with
  | none => intro d h; simp at h
  | some p =>
    obtain ⟨a, b⟩ := p
    simp only
    split
    · intro d h; simp at h
    · exact (splitLast_mem '.' name a b hs).2

/-- the base of a template name consists of characters of the file name -/
theorem templateBase_mem (name b : Str) (i : Option Str) (h : templateParts name = (some b, i)) : ∀ d ∈ b, d ∈ name := by
  unfold templateParts at h
  cases hs : splitOnce '@' (fileStem name) with
  | none => simp [hs] at h
  | some p =>
    obtain ⟨b', i'⟩ := p
    simp only [hs] at h
    have hb : b = b' := by
      split at h
      · simp at h
      · split at h <;> · simp only [Prod.mk.injEq, Option.some.injEq] at h; exact h.1.symm
    subst hb
    intro d hd
    exact fileStem_mem name d ((splitOnce_mem '@' _ _ _ hs).1 d hd)

/-- the name the WantedBy / RequiredBy links carry has no path separator and is not ".." -/
theorem serviceName_plain (svcFile b d : Str) (hs : '/' ∉ svcFile) (i : Option Str) (ht : templateParts svcFile = (some b, i))
    (hd : '/' ∉ d) : '/' ∉ (b ++ '@' :: d ++ '.' :: extension svcFile) ∧ (b ++ '@' :: d ++ '.' :: extension svcFile) ≠ dotdot := by
  constructor
  · intro hm
    simp only [List.mem_append, List.mem_cons] at hm
    rcases hm with (hm | hm | hm) | hm | hm
    · exact hs (templateBase_mem svcFile b i ht _ hm)
    · exact absurd hm (by decide)
    · exact hd hm
    · exact absurd hm (by decide)
    · exact hs (extension_mem svcFile _ hm)
  · intro e
    have : '@' ∈ (b ++ '@' :: d ++ '.' :: extension svcFile) := by simp
    rw [e] at this
    exact absurd this (by decide)

/-- **C12, the whole plan**: whatever the [Install] section of a service holds, every link path that is planned for it is relative and
    none of its parts (as the kernel resolves the path) is "..": the link lies below the output directory.  Needs only that the
    service's own file name is a file name (no separator, not "..") -/
theorem C12_plan_inside (svcFile : Str) (u : MM.SUnit) (hs : '/' ∉ svcFile) (hne : svcFile ≠ dotdot) :
    ∀ rel ∈ linkPaths svcFile u, isAbs rel = false ∧ dotdot ∉ splitSlash rel := by
  intro rel hrel
  unfold linkPaths at hrel
  simp only at hrel
  -- aliases
  have halias : ∀ rel ∈ ((Cv.lookupAllStrv u (s "Install") (s "Alias")).map cleaned).filter (aliasOK svcFile),
      isAbs rel = false ∧ dotdot ∉ splitSlash rel := by
    intro r hr
    rw [List.mem_filter, List.mem_map] at hr
    obtain ⟨⟨raw, _, rfl⟩, hok⟩ := hr
    obtain ⟨h1, h2⟩ := C12_alias_string svcFile raw hok
    refine ⟨h1, fun hm => ?_⟩
    have := h2 dotdot hm
    simp [isNormal, dotdot] at this
  -- WantedBy / RequiredBy under a plain service name
  have hdir : ∀ (name : Str) (key suffix : String), '/' ∉ name → name ≠ dotdot → '/' ∉ s suffix → 2 < (s suffix).length →
      ∀ rel ∈ ((Cv.lookupAllStrv u (s "Install") (s key)).filter (fun w => !w.contains '/')).map (fun w => dirLink w (s suffix) name),
        isAbs rel = false ∧ dotdot ∉ splitSlash rel := by
    intro name key suffix hn hnd hsf hlen r hr
    rw [List.mem_map] at hr
    obtain ⟨w, hw, rfl⟩ := hr
    rw [List.mem_filter] at hw
    have hw' : '/' ∉ w := by simpa using hw.2
    exact C12_dirlink_inside w (s suffix) name hw' hsf hn hlen hnd
  have hwants : '/' ∉ s ".wants" ∧ 2 < (s ".wants").length := by decide
  have hreq : '/' ∉ s ".requires" ∧ 2 < (s ".requires").length := by decide
  cases ht : templateParts svcFile with
  | mk tb ti =>
    rw [ht] at hrel
    simp only at hrel
    cases tb with
    | none =>
      simp only [List.mem_append] at hrel
      rcases hrel with (h | h) | h
      · exact halias rel h
      · split at h
        · simp at h
        · exact hdir svcFile "WantedBy" ".wants" hs hne hwants.1 hwants.2 rel h
      · split at h
        · simp at h
        · exact hdir svcFile "RequiredBy" ".requires" hs hne hreq.1 hreq.2 rel h
    | some b =>
      cases ti with
      | some i =>
        simp only [Option.isNone_some, Bool.false_eq_true, if_false, List.mem_append] at hrel
        rcases hrel with (h | h) | h
        · exact halias rel h
        · split at h
          · simp at h
          · exact hdir svcFile "WantedBy" ".wants" hs hne hwants.1 hwants.2 rel h
        · split at h
          · simp at h
          · exact hdir svcFile "RequiredBy" ".requires" hs hne hreq.1 hreq.2 rel h
      | none =>
        simp only [Option.isNone_none, if_true] at hrel
        cases hd : (Cv.lookup u (s "Install") (s "DefaultInstance")).filter (fun d => !d.contains '/') with
        | none =>
          rw [hd] at hrel
          simp only [List.isEmpty_nil, if_true, List.append_nil] at hrel
          exact halias rel hrel
        | some d =>
          rw [hd] at hrel
          have hdn : '/' ∉ d := by
            have := Option.mem_def.mpr hd
            rw [Option.mem_filter_iff] at this
            simpa using this.2
          obtain ⟨hp1, hp2⟩ := serviceName_plain svcFile b d hs none ht hdn
          simp only [List.mem_append] at hrel
          rcases hrel with (h | h) | h
          · exact halias rel h
          · split at h
            · simp at h
            · exact hdir _ "WantedBy" ".wants" hp1 hp2 hwants.1 hwants.2 rel h
          · split at h
            · simp at h
            · exact hdir _ "RequiredBy" ".requires" hp1 hp2 hreq.1 hreq.2 rel h

end Inst

namespace Cv
open MM

theorem takeWhile_all {α} (p : α → Bool) (l : List α) : ∀ a ∈ l.takeWhile p, p a = true := by
  induction l with
  | nil => intro a h; simp at h
  | cons x l ih =>
    intro a h
    rw [List.takeWhile_cons] at h
    split at h
    · rcases List.mem_cons.mp h with rfl | h
      · assumption
      · exact ih a h
    · simp at h

theorem dropWhile_nil_all {α} (p : α → Bool) (l : List α) (h : l.dropWhile p = []) : ∀ a ∈ l, p a = true := by
  induction l with
  | nil => intro a h; simp at h
  | cons x l ih =>
    rw [List.dropWhile_cons] at h
    split at h
    · intro a ha
      rcases List.mem_cons.mp ha with rfl | ha
      · assumption
      · exact ih h a ha
    · simp at h

theorem splitOnce_decomp (c : Char) (x a b : Str) (h : splitOnce c x = some (a, b)) : x = a ++ c :: b ∧ c ∉ a := by
  unfold splitOnce at h
  rw [span_eq] at h
  cases hd : x.dropWhile (· != c) with
  | nil => simp [hd] at h
  | cons y r =>
    simp only [hd, Option.some.injEq, Prod.mk.injEq] at h
    obtain ⟨rfl, rfl⟩ := h
    have hy : y = c := by
      have := List.head_dropWhile_not (· != c) (l := x) (by rw [hd]; simp)
      simp only [hd, List.head_cons] at this
      simpa using this
    subst hy
    refine ⟨?_, fun hm => ?_⟩
    · conv => lhs; rw [← List.takeWhile_append_dropWhile (p := (· != y)) (l := x), hd]
    · have := takeWhile_all (· != y) x y hm
      simp at this

theorem splitLast_decomp (c : Char) (x a b : Str) (h : splitLast c x = some (a, b)) : x = a ++ c :: b ∧ c ∉ b := by
  unfold splitLast at h
  cases hs : splitOnce c x.reverse with
  | none => simp [hs] at h
  | some p =>
    obtain ⟨p1, p2⟩ := p
    simp only [hs, Option.some.injEq, Prod.mk.injEq] at h
    obtain ⟨rfl, rfl⟩ := h
    obtain ⟨h1, h2⟩ := splitOnce_decomp c x.reverse p1 p2 hs
    refine ⟨?_, by simpa using h2⟩
    have := congrArg List.reverse h1
    simpa using this

theorem splitOnce_none (c : Char) (x : Str) (h : splitOnce c x = none) : c ∉ x := by
  unfold splitOnce at h
  rw [span_eq] at h
  cases hd : x.dropWhile (· != c) with
  | nil =>
    intro hm
    have := dropWhile_nil_all (· != c) x hd c hm
    simp at this
  | cons y r => simp [hd] at h

/-- the file name of a path has no separator -/
theorem fileName_noSlash (p : Str) : '/' ∉ fileName p := by
  unfold fileName
  cases hs : splitLast '/' p with
  | some q => obtain ⟨a, b⟩ := q; exact (splitLast_decomp '/' p a b hs).2
  | none =>
    simp only
    unfold splitLast at hs
    cases h1 : splitOnce '/' p.reverse with
    | none => have := splitOnce_none '/' p.reverse h1; simpa using this
    | some q => simp [h1] at hs

/-- … and the file name of `<anything>.service` ends with `e`: it is not ".." -/
theorem serviceFileName_ne_dotdot (i : Info) : serviceFileName i ≠ Pth.dotdot := by
  unfold serviceFileName fileName
  cases hs : splitLast '/' (i.serviceName ++ s ".service") with
  | none =>
    simp only
    intro e
    have := congrArg List.getLast? e
    simp [s, Pth.dotdot] at this
  | some q =>
    obtain ⟨a, b⟩ := q
    simp only
    obtain ⟨h1, _⟩ := splitLast_decomp '/' _ a b hs
    intro e
    subst e
    have := congrArg List.getLast? h1
    simp [s, Pth.dotdot] at this

/-- **C12 for the whole run**: every link made by a run of `process` — for whatever tree, in whatever mode, whatever the file
    system answers — is a relative path below the output directory: not absolute, no ".." among its parts -/
theorem C12_run_links_inside (cfg : Cfg) (w : World) (t : Tree) (f : Str) (links : List (Str × Str))
    (he : Eff.enable f links ∈ (process cfg w t).effs) :
    ∀ l ∈ links, Pth.isAbs l.1 = false ∧ Pth.dotdot ∉ Pth.splitSlash l.1 := by
  obtain ⟨q, svc, _, h2⟩ := C12_run_links_are_plans cfg w t f links he
  subst h2
  intro l hl
  unfold Inst.planLinks at hl
  rw [List.mem_map] at hl
  obtain ⟨rel, hrel, rfl⟩ := hl
  exact Inst.C12_plan_inside (svcFileOf q) svc (fileName_noSlash _) (serviceFileName_ne_dotdot _) rel hrel

/-- … and a dry run makes none at all -/
theorem C12_dry_run_no_links (cfg : Cfg) (w : World) (t : Tree) (h : cfg.dryRun = true) (f : Str) (links : List (Str × Str)) :
    Eff.enable f links ∉ (process cfg w t).effs := by
  intro he
  obtain ⟨_, _, _, hd, _⟩ := C18_run_not_enabled cfg w t f links he
  rw [h] at hd; exact absurd hd (by decide)

end Cv
