import QM.PanicLemmas
import QM.FsLemmas
import QM.Props.C01
/-! # C11 — the generator never panics, aborts or hangs, whatever the input files contain

A theorem cannot observe a Rust panic.  What is proved here: (i) the conditions under which the `expect`/`unwrap`
sites on the user-reachable paths *would* fire are impossible in the model — every raw value of a loaded unit passed
the validation of `add_raw`, every string the generator stores with `add`/`set` is accepted by the unquoter, every
rendered command line is accepted when it is stored; (ii) every model function is total: Lean accepted the
definitions of the parser, unquoter, splitters, path cleaner, port recogniser, converters, discovery fold and
conversion loop by structural recursion, by well-founded recursion on the remaining input
(`decode_length`), or with fuel bounded by the input length — that acceptance is the proof that the modelled loops
terminate.  The tie to the code's actual panic sites is the inventory of `unwrap/expect/panic!/assert!/index`
expressions extracted from the source on every run (tools/panic_inventory.py) and compared with the committed
classification (spec/panic_sites.json), plus `catch_unwind`/exit-status observation on generated and mutated inputs.
Allocation failure, stack exhaustion, and the `expect`s on writes to stdout/stderr are not modelled. -/
namespace Cv

/-- `EntryValue::unquote().expect(..)` on a value read from a unit file cannot fire: a file only loads when every
    raw value is accepted by the unquoter (`add_raw` validation in the parser) -/
theorem C11_loaded_values_unquotable (text : Str) (u : Parse.Unit) (h : Parse.parse parseEnv text = .ok u) :
    ∀ p ∈ u, ∀ kv ∈ p.2, ∃ r, P.unquoteValue true kv.2 = some r := by
  intro p hp kv hkv
  have := Parse.parse_valid parseEnv text u h p hp kv hkv
  simp only [parseEnv] at this
  cases hq : P.unquoteValue true kv.2 with
  | none => simp [hq] at this
  | some r => exact ⟨r, rfl⟩

/-- … nor on a value the generator stored itself with `add`/`set`/`prepend` (NUL cannot occur: the D12d repair
    rejects it at load, file names cannot contain it) -/
theorem C11_added_values_readable (v : Str) (hv : ∀ c ∈ v, c ≠ '\x00') :
    ∃ r, P.unquoteValue true (P.quoteValue v) = some r :=
  P.unquote_quoteValue v hv none []

/-- … and storing a rendered command line (`add_raw` of `to_escaped_string`) cannot be rejected -/
theorem C11_exec_lines_storable (args : List Str) (h : ∀ w ∈ args, ∀ c ∈ w, c ≠ '\x00') (svc : MM.SUnit) (key : String) :
    ∃ svc', addRawExec svc key args = .ok svc' := by
  obtain ⟨r, hr⟩ := P.C01_storable args h
  exact ⟨MM.addEntry svc (s "Service") (s key) (P.quoteWords args), by simp [addRawExec, hr]⟩

/-- a file that cannot be loaded is an error for that file only: it is reported and the discovery goes on with the
    remaining candidates (the units loaded before and after it are unaffected) -/
theorem C11_load_error_is_per_file (acc : List Str × List Loaded) (pc : Str × Str)
    (hfail : ∀ u, Parse.parse parseEnv pc.2 ≠ .ok u) (hnew : acc.1.contains (fileName pc.1) = false) :
    loadStep acc pc = (acc.1, acc.2 ++ [Loaded.loadErr pc.1]) := by
  unfold loadStep
  simp only [hnew, Bool.false_eq_true, if_false]
  split
  · rename_i u hp; exact absurd hp (hfail u)
  · rfl

end Cv
