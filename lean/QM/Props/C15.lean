import QM.LookupLemmas
import QM.ConformModel
/-! # C15 — repeated assignments: last wins, lists accumulate, empty assignment resets

`Cv.assignments u sec key` is the *history* of raw values assigned to `key` in `sec`, in order; the
lookups of unit.rs are modelled in `QM/Lookup.lean` on the ordered-multimap model `MM.SUnit`
(tied to `SystemdUnit` by the `unit` script correspondence). -/
namespace Cv
open MM

/-- merging one more file (a repeated section, a drop-in) appends its assignments to the history -/
theorem C15_history_merge (u o : SUnit) (hnd : (o.map Prod.fst).Nodup) (sec key : Str) :
    assignments (mergeFrom u o) sec key = assignments u sec key ++ assignments o sec key :=
  assignments_mergeFrom u o hnd sec key

/-- … for any number of files merged after the main file, in merge order -/
theorem C15_history (u : SUnit) (files : List SUnit) (hnd : ∀ f ∈ files, (f.map Prod.fst).Nodup) (sec key : Str) :
    assignments (files.foldl mergeFrom u) sec key = assignments u sec key ++ files.flatMap (assignments · sec key) := by
  induction files generalizing u with
  | nil => simp
  | cons f fs ih =>
    simp only [List.foldl_cons, List.flatMap_cons]
    rw [ih _ (fun g hg => hnd g (by simp [hg])), C15_history_merge u f (hnd f (by simp))]
    simp

/-- list keys: the effective list is exactly what was assigned after the last empty assignment -/
theorem C15_list (u : SUnit) (sec key : Str) (pre suf : List Str)
    (hsplit : assignments u sec key = pre ++ suf) (hsuf : ∀ v ∈ suf, v.isEmpty = false)
    (hpre : pre = [] ∨ ∃ p, pre = p ++ [[]]) : lookupAllValues u sec key = suf :=
  lookupAllValues_spec u sec key pre suf hsplit hsuf hpre

/-- every history splits that way, so `C15_list` always applies -/
theorem C15_list_total (h : List Str) : ∃ pre suf, h = pre ++ suf ∧ (∀ v ∈ suf, v.isEmpty = false) ∧
    (pre = [] ∨ ∃ p, pre = p ++ [[]]) := history_split h

/-- single-valued keys: the last assignment wins -/
theorem C15_last (u : SUnit) (sec key : Str) :
    lookupLastValue u sec key = (assignments u sec key).getLast? ∧
    lookup u sec key = ((assignments u sec key).getLast?).map unq := ⟨rfl, rfl⟩

/-- boolean keys: the last assignment decides; an empty last assignment means "unset" (D14) -/
theorem C15_bool_reset (u : SUnit) (sec key : Str) (h : (assignments u sec key).getLast? = some []) :
    lookupBool u sec key = none := by
  simp [lookupBool, lookupLastValue, h, trim]

/-- the step of the name=value fold: replace in place or append -/
def kvStep (acc : List (Str × Str)) (kv : Str × Str) : List (Str × Str) :=
  if acc.any (·.1 == kv.1) then acc.map (fun p => if p.1 == kv.1 then kv else p) else acc ++ [kv]

theorem lookup_map_replace (acc : List (Str × Str)) (k v n : Str) :
    (acc.map (fun p => if p.1 == k then (k, v) else p)).lookup n =
      if n = k then (if acc.any (·.1 == k) then some v else none) else acc.lookup n := by
  induction acc with
  | nil => by_cases h : n = k <;> simp [h]
  | cons p acc ih =>
    obtain ⟨a, b⟩ := p
    by_cases ha : a = k
    · subst ha
      by_cases h : n = a
      · subst h; simp [List.lookup]
      · have hn : (n == a) = false := by simpa using h
        simp only [List.map_cons, beq_self_eq_true, if_true, List.lookup, hn, h, if_false] at ih ⊢
        exact ih
    · have hb : (a == k) = false := by simpa using ha
      by_cases h : n = a
      · subst h
        have : n ≠ k := ha
        simp [List.lookup, hb, this]
      · have hn : (n == a) = false := by simpa using h
        simp only [List.map_cons, hb, Bool.false_eq_true, if_false, List.lookup, hn, List.any_cons, Bool.false_or] at ih ⊢
        exact ih

theorem lookup_none_of_any_false (acc : List (Str × Str)) (k : Str) (h : acc.any (·.1 == k) = false) :
    acc.lookup k = none := by
  induction acc with
  | nil => rfl
  | cons p acc ih =>
    obtain ⟨a, b⟩ := p
    simp only [List.any_cons, Bool.or_eq_false_iff] at h
    have : (k == a) = false := by
      have := h.1; simp only [beq_eq_false_iff_ne, ne_eq] at this ⊢; exact fun e => this e.symm
    simp [List.lookup, this, ih h.2]

theorem lookup_append_single (acc : List (Str × Str)) (k v n : Str) :
    (acc ++ [(k, v)]).lookup n = match acc.lookup n with
      | some x => some x
      | none => if n = k then some v else none := by
  induction acc with
  | nil => by_cases h : n = k <;> simp [List.lookup, h]
  | cons p acc ih =>
    obtain ⟨a, b⟩ := p
    by_cases h : n = a
    · subst h; simp [List.lookup]
    · have hn : (n == a) = false := by simpa using h
      simp only [List.cons_append, List.lookup, hn]; exact ih

theorem kvStep_lookup (acc : List (Str × Str)) (kv : Str × Str) (n : Str) :
    (kvStep acc kv).lookup n = if n = kv.1 then some kv.2 else acc.lookup n := by
  obtain ⟨k, v⟩ := kv
  unfold kvStep
  by_cases hany : acc.any (·.1 == k) = true
  · simp only [hany, if_true]
    rw [lookup_map_replace]
    simp [hany]
  · have hany' : acc.any (·.1 == k) = false := by
      cases h : acc.any (·.1 == k) with
      | false => rfl
      | true => exact absurd h hany
    simp only [hany', Bool.false_eq_true, if_false]
    rw [lookup_append_single]
    by_cases h : n = k
    · subst h; simp [lookup_none_of_any_false acc n hany']
    · simp only [h, if_false]; cases acc.lookup n <;> rfl

/-- name=value keys: each name carries the value of its *last* assignment (after the reset fold) -/
theorem C15_keyval_fold (pairs : List (Str × Str)) (acc : List (Str × Str)) (n : Str) :
    (pairs.foldl kvStep acc).lookup n =
      match (pairs.filter (·.1 == n)).getLast? with
      | some kv => some kv.2
      | none => acc.lookup n := by
  induction pairs generalizing acc with
  | nil => simp
  | cons kv pairs ih =>
    simp only [List.foldl_cons]
    rw [ih]
    by_cases h : kv.1 = n
    · subst h
      simp only [List.filter_cons, beq_self_eq_true, if_true]
      cases hl : (pairs.filter (·.1 == kv.1)).getLast? with
      | none =>
        have : pairs.filter (·.1 == kv.1) = [] := by simpa using hl
        simp [this, kvStep_lookup]
      | some x =>
        have : (kv :: pairs.filter (·.1 == kv.1)).getLast? = some x := by
          rw [List.getLast?_cons]; simp [hl]
        simp [this]
    · have hb : (kv.1 == n) = false := by simpa using h
      simp only [List.filter_cons, hb, Bool.false_eq_true, if_false]
      have : n ≠ kv.1 := fun e => h e.symm
      cases (pairs.filter (·.1 == n)).getLast? <;> simp [kvStep_lookup, this]

theorem C15_keyval (u : SUnit) (sec key n : Str) :
    (lookupAllKeyVal u sec key).lookup n =
      (((lookupAllValues u sec key).flatMap fun raw => (splitArgs raw).filterMap (splitOnce '=')).filter (·.1 == n)).getLast?.map (·.2) := by
  unfold lookupAllKeyVal
  have := C15_keyval_fold ((lookupAllValues u sec key).flatMap fun raw => (splitArgs raw).filterMap (splitOnce '=')) [] n
  unfold kvStep at this
  rw [this]
  cases (((lookupAllValues u sec key).flatMap fun raw => (splitArgs raw).filterMap (splitOnce '=')).filter (·.1 == n)).getLast? <;> simp

-- non-vacuity (tests of the statements, labelled as such)
example : lookupAllValues [(s "S", [(s "K", s "a"), (s "K", []), (s "K", s "b"), (s "X", s "y"), (s "K", s "c")])] (s "S") (s "K")
    = [s "b", s "c"] := by decide

end Cv
