import QM.Refine
import QM.Proc
import QM.Conform
import QM.ProcLocal
import QM.ConvPod
/-! # C08, C09, C10 — the conversion loop refines an order-free, declarative name resolution

`Refine.run` is the loop of `process` in the abstract: a name table pre-filled before the loop
(`prefill`), a converter per unit that reads the table (`out`), may *publish* its object name into the table
(`publish`: .volume/.network/.image) and may *link* itself to another unit (`link`: a container appends itself to its
pod's start list), run over **any** ordering of the units that is sorted by priority (the sort is unstable, so the
theorem quantifies over all such orderings).  `Refine.decl` is the declarative result: every unit converted against
the *final* table `fin` and the complete list of its linkers.  `Cv.convertStepU` (QM/Proc.lean) is the concrete step,
tied to the real converters by the `convert` correspondence on unit sets in sorted and unsorted orders; its
priorities come from the `sorting_priority` table extracted from main.rs.

`Refine.Local` collects what the theorem needs from the converters: they read the table only at the names they
reference, everything they read is either published by a unit of strictly lower priority or never rewritten, and
links go to units of strictly higher priority. -/
namespace Refine
variable {U N V W O : Type} [DecidableEq N] (S : Sys U N V W O)

/-- every unit gets exactly its declarative result, whatever sorted order the unstable sort picked -/
theorem C08_process_refines (units order : List U) (hL : Local S units)
    (hd : (units.map S.name).Nodup) (hp : order.Perm units)
    (hs : order.Pairwise (fun a b => S.prio a ≤ S.prio b)) :
    run S (init S units) order = order.map (fun u => (u, decl S units order u)) :=
  run_refines S units order hL hd hp hs

/-- C09: the list a pod accumulates from its containers is the same multiset for every processing order -/
theorem C09_members_order_free (units o₁ o₂ : List U) (h : o₁.Perm o₂) (n : N) :
    (o₁.filterMap (linkTo S units n)).Perm (o₂.filterMap (linkTo S units n)) :=
  members_perm S units o₁ o₂ h n

/-- C09: a unit is in a pod's list iff it links to that pod under the final table — no more, no fewer -/
theorem C09_members_exact (units order : List U) (n : N) (w : W) :
    w ∈ order.filterMap (linkTo S units n) ↔ ∃ c ∈ order, linkTo S units n c = some w := by
  simp [List.mem_filterMap]

/-- C10: a unit's declarative result does not change when units it neither reads nor is linked from are added,
    provided the converters are local and the added units do not take over a name it reads -/
theorem C10_independent (units extra order order' : List U) (u : U)
    (hloc : ∀ t₁ t₂ a, (∀ n ∈ S.reads u, t₁ n = t₂ n) → S.out u t₁ a = S.out u t₂ a)
    (hfin : ∀ n ∈ S.reads u, fin S (units ++ extra) n = fin S units n)
    (hlinks : order'.filterMap (linkTo S (units ++ extra) (S.name u)) = order.filterMap (linkTo S units (S.name u))) :
    decl S (units ++ extra) order' u = decl S units order u := by
  unfold decl
  rw [hlinks]
  exact hloc _ _ _ hfin

end Refine

namespace Cv

/-- the priorities the refinement needs, read off the table extracted from main.rs:
    .image < .volume = .network < .build < .container = .kube < .pod -/
theorem C08_priorities :
    prio (s "image") < prio (s "volume") ∧ prio (s "volume") = prio (s "network") ∧ prio (s "network") < prio (s "build") ∧
    prio (s "build") < prio (s "container") ∧ prio (s "container") = prio (s "kube") ∧ prio (s "kube") < prio (s "pod") := by
  decide

/-- service name of a unit: explicit ServiceName, else the file stem plus the type's suffix (suffixes extracted from mod.rs) -/
theorem C08_service_suffixes :
    suffixOf (s "container") = [] ∧ suffixOf (s "kube") = [] ∧ suffixOf (s "volume") = s "-volume" ∧
    suffixOf (s "network") = s "-network" ∧ suffixOf (s "image") = s "-image" ∧ suffixOf (s "build") = s "-build" ∧
    suffixOf (s "pod") = s "-pod" := by decide


/-! ### the same statements for the concrete model `Cv.sys` that is run against the code

`Cv.sys isUser` (QM/Proc.lean) is the conversion loop of `process` with the real converter models; `Driver.convertOp`
executes exactly `Refine.step (Cv.sys isUser)` and is compared with the repository's loop on unit sets in sorted and
unsorted orders.  `Cv.sys_local` (QM/ProcLocal.lean) discharges the hypotheses of the abstract theorem for it:
every converter model reads the name table only at the names in its static read set (`readsOf`; congruence lemmas for
all handlers and all seven converters), whatever it reads is published by a unit of strictly lower priority or never
rewritten (priorities from the table extracted from main.rs; file-name extension lemmas), and a container can only
link to a `.pod`, which sorts strictly later. -/

/-- C08 (concrete): for every set of loadable units with distinct file names and **every** priority-sorted processing
    order, the loop gives every unit exactly its declarative result: its converter run against the final name table
    (every referenced unit's published name) and the complete list of the containers that joined it -/
theorem C08_process_concrete (isUser : Bool) (units order : List QUnit) (hl : Loadable units)
    (hd : (units.map QUnit.name).Nodup) (hp : order.Perm units) (hs : SortedByPrio order) :
    runOrder isUser units order = order.map (fun u => (u, Refine.decl (sys isUser) units order u)) :=
  Refine.run_refines (sys isUser) units order (sys_local isUser units hl) hd hp hs

/-- … in particular for the order the model's own sort picks (no hypothesis on the order left) -/
theorem C08_processUnits (qs : List QUnit) (hl : Loadable qs) (hd : (qs.map QUnit.name).Nodup) :
    processUnits qs = (sortByPrio qs).map (fun u => (u, Refine.decl (sys false) qs (sortByPrio qs) u)) :=
  C08_process_concrete false qs (sortByPrio qs) hl hd (sortByPrio_perm qs) (sortByPrio_sorted qs)

/-- C08/C10 (concrete): two priority-sorted processing orders of the same units give every unit the same result up to
    the order of the containers a pod accumulated -/
theorem C08_order_irrelevant (isUser : Bool) (units o₁ o₂ : List QUnit) (hl : Loadable units)
    (hd : (units.map QUnit.name).Nodup) (h₁ : o₁.Perm units) (h₂ : o₂.Perm units) (s₁ : SortedByPrio o₁) (s₂ : SortedByPrio o₂)
    (u : QUnit) (hu : u ∈ units) :
    ∃ a₁ a₂, a₁.Perm a₂ ∧
      (u, convOut isUser (Refine.fin (sys isUser) units) a₁ u) ∈ runOrder isUser units o₁ ∧
      (u, convOut isUser (Refine.fin (sys isUser) units) a₂ u) ∈ runOrder isUser units o₂ := by
  refine ⟨o₁.filterMap (Refine.linkTo (sys isUser) units u.name), o₂.filterMap (Refine.linkTo (sys isUser) units u.name),
    Refine.members_perm (sys isUser) units o₁ o₂ (h₁.trans h₂.symm) u.name, ?_, ?_⟩
  · rw [C08_process_concrete isUser units o₁ hl hd h₁ s₁]
    exact List.mem_map.mpr ⟨u, h₁.symm.subset hu, rfl⟩
  · rw [C08_process_concrete isUser units o₂ hl hd h₂ s₂]
    exact List.mem_map.mpr ⟨u, h₂.symm.subset hu, rfl⟩

/-- C09 (concrete): the service files a pod is given to start are exactly those of the containers whose conversion
    (against the final name table) reaches `handle_pod` with that pod and StartWithPod on — no more, no fewer -/
theorem C09_members_concrete (isUser : Bool) (units order : List QUnit) (pod w : Str) :
    w ∈ order.filterMap (Refine.linkTo (sys isUser) units pod) ↔
      ∃ c ∈ order, linkOf isUser c (Refine.fin (sys isUser) units) = some (pod, w) := by
  simp only [List.mem_filterMap]
  have e : ∀ c, (sys isUser).link c (Refine.fin (sys isUser) units) = linkOf isUser c (Refine.fin (sys isUser) units) := fun _ => rfl
  constructor
  · rintro ⟨c, hc, h⟩
    refine ⟨c, hc, ?_⟩
    unfold Refine.linkTo at h
    rw [e] at h
    cases hl : linkOf isUser c (Refine.fin (sys isUser) units) with
    | none => rw [hl] at h; simp at h
    | some p =>
      obtain ⟨m, w'⟩ := p
      rw [hl] at h
      simp only at h
      split at h
      · rename_i hm; simp at h; subst hm; subst h; rfl
      · simp at h
  · rintro ⟨c, hc, h⟩
    refine ⟨c, hc, ?_⟩
    unfold Refine.linkTo
    rw [e, h]
    simp

/-- C10 (concrete): adding units changes nothing for a unit that neither reads them nor is joined by them -/
theorem C10_independent_concrete (isUser : Bool) (units extra order order' : List QUnit) (u : QUnit)
    (hfin : ∀ n ∈ readsOf u, Refine.fin (sys isUser) (units ++ extra) n = Refine.fin (sys isUser) units n)
    (hlinks : order'.filterMap (Refine.linkTo (sys isUser) (units ++ extra) u.name) = order.filterMap (Refine.linkTo (sys isUser) units u.name)) :
    Refine.decl (sys isUser) (units ++ extra) order' u = Refine.decl (sys isUser) units order u :=
  Refine.C10_independent (sys isUser) units extra order order' u
    (fun t₁ t₂ a h => convOut_congr isUser t₁ t₂ a u h) hfin hlinks

/-- the hypotheses are satisfiable: a pod, a container that joins it, a volume the container mounts -/
example : Loadable [⟨s "/q/a.volume", []⟩, ⟨s "/q/p.pod", []⟩, ⟨s "/q/c.container", []⟩] ∧
    ([⟨s "/q/a.volume", []⟩, ⟨s "/q/p.pod", []⟩, ⟨s "/q/c.container", []⟩] : List QUnit).map QUnit.name
      = [s "a.volume", s "p.pod", s "c.container"] := by
  constructor
  · intro q hq; simp at hq; rcases hq with rfl | rfl | rfl <;> decide
  · decide


/-! ### C09, the pod's side, in the converter model

`C08_process_concrete` says the pod converter receives exactly the service files of the containers that joined the pod
(`Refine.decl`: the complete list of linkers, in processing order).  `C09_pod_wants_members` says what it does with
them: the `Wants=` and the `Before=` entries of the generated pod service are the ones the unit already had (default
dependencies, the user's own) followed by exactly one per member, in that order — no more, no fewer. -/

theorem C09_pod_wants_members (E : Env) (path : Str) (u svc : MM.SUnit) (cs : List Str) (h : fromPod E path u cs = .ok svc) :
    keyEntries svc (s "Unit") (s "Wants")
      = keyEntries (preService path u (s "Pod") (s "X-Pod")) (s "Unit") (s "Wants") ++ cs.map (fun c => (s "Wants", P.quoteValue c)) ∧
    keyEntries svc (s "Unit") (s "Before")
      = keyEntries (preService path u (s "Pod") (s "X-Pod")) (s "Unit") (s "Before") ++ cs.map (fun c => (s "Before", P.quoteValue c)) :=
  ⟨pod_members E path u svc cs h "Wants" (Or.inl rfl), pod_members E path u svc cs h "Before" (Or.inr rfl)⟩


/-! ### C08, the statement itself, in the converter models

What a reference does when the referenced unit is known (the object name from the table replaces the file name;
`Requires=` and `After=` on the target's service file are added) and when it is not (the referrer fails, naming the
file); and that the name in the table is the name the target's own command creates. -/

open MM

/-- what a reference to an image / build unit does, when the unit is known -/
theorem C08_image_reference (E : Env) (n : Str) (svc : MM.SUnit) (i : Info)
    (hn : (endsWith n (s ".build") || endsWith n (s ".image")) = true) (hi : E.info n = some i) :
    handleImageSource E n svc = .ok (i.resourceName,
      addS (addS svc "Unit" "Requires" (serviceFileName i)) "Unit" "After" (serviceFileName i)) := by
  unfold handleImageSource; simp [hn, hi]

/-- … and when it is not: the referrer fails, naming the file -/
theorem C08_image_reference_missing (E : Env) (n : Str) (svc : MM.SUnit)
    (hn : (endsWith n (s ".build") || endsWith n (s ".image")) = true) (hi : E.info n = none) :
    handleImageSource E n svc = .error (.imageNotFound n) := by
  unfold handleImageSource; simp [hn, hi]

theorem C08_network_reference (E : Env) (n : Str) (svc : MM.SUnit) (i : Info)
    (hn : (endsWith n (s ".network") || endsWith n (s ".container")) = true) (hi : E.info n = some i)
    (hr : i.resourceName.isEmpty = false) :
    networkRef E n svc = .ok (i.resourceName,
      addS (addS svc "Unit" "Requires" (serviceFileName i)) "Unit" "After" (serviceFileName i)) := by
  unfold networkRef; simp [hn, hi, hr]

theorem C08_network_reference_missing (E : Env) (n : Str) (svc : MM.SUnit)
    (hn : (endsWith n (s ".network") || endsWith n (s ".container")) = true) (hi : E.info n = none) :
    networkRef E n svc = .error (Err.internal (s "unit") n) := by
  unfold networkRef; simp [hn, hi]

theorem C08_pod_reference (E : Env) (u : MM.SUnit) (sec : Str) (svc : MM.SUnit) (own pod : Str) (i : Info)
    (hp : lookup u sec (s "Pod") = some pod) (hne : pod.isEmpty = false) (hs : endsWith pod (s ".pod") = true)
    (hi : E.info pod = some i) :
    ∃ link, handlePod E u sec svc own = .ok ([s "--pod-id-file", s "%t/" ++ i.serviceName ++ s ".pod-id"],
      addS (addS svc "Unit" "BindsTo" (serviceFileName i)) "Unit" "After" (serviceFileName i), link) := by
  unfold handlePod; simp [hp, hne, hs, hi]

theorem C08_pod_reference_missing (E : Env) (u : MM.SUnit) (sec : Str) (svc : MM.SUnit) (own pod : Str)
    (hp : lookup u sec (s "Pod") = some pod) (hne : pod.isEmpty = false) (hs : endsWith pod (s ".pod") = true)
    (hi : E.info pod = none) : handlePod E u sec svc own = .error (.podNotFound pod) := by
  unfold handlePod; simp [hp, hne, hs, hi]

theorem C08_pod_reference_not_a_pod (E : Env) (u : MM.SUnit) (sec : Str) (svc : MM.SUnit) (own pod : Str)
    (hp : lookup u sec (s "Pod") = some pod) (hne : pod.isEmpty = false) (hs : endsWith pod (s ".pod") = false) :
    handlePod E u sec svc own = .error (.invalidPod pod) := by
  unfold handlePod; simp [hp, hne, hs]

/-- the name a volume publishes is the name its own command creates -/
theorem C08_volume_name_consistent (E : Env) (path : Str) (u svc : MM.SUnit) (n : Str)
    (h : fromVolume E path u = .ok (svc, n)) : volumePublished ⟨path, u⟩ = some n := by
  unfold fromVolume at h
  simp only [bind_ok] at h
  obtain ⟨_, h1, _, h2, x, _, svc1, _, hfin⟩ := h
  simp only [pure, Except.pure, Except.ok.injEq, Prod.mk.injEq] at hfin
  obtain ⟨_, rfl⟩ := hfin
  have e1 : firstUnknown (entriesOf u (s "Volume")) supportedVolume = none := by
    unfold checkUnknown at h1; split at h1 <;> simp_all
  have e2 : firstUnknown (entriesOf u (s "Quadlet")) supportedQuadlet = none := by
    unfold checkUnknown at h2; split at h2 <;> simp_all
  unfold volumePublished
  simp [e1, e2, QUnit.name]


/-- a .network / .image unit publishes exactly the name its own conversion returns (and, by `C02_network_shape` /
    `C02_image_shape`, puts last on its command line), whatever the name table holds -/
theorem C08_network_publishes_what_it_creates (b : Bool) (t : Str → Option Info) (q : QUnit) (svc : MM.SUnit) (r : Str)
    (hty : q.ty = s "network") (h : fromNetwork (envOf b t) q.path q.unit = .ok (svc, r)) :
    publishOf b q = some { serviceName := serviceNameOf q.path q.unit, resourceName := r } := by
  unfold publishOf
  have e := fromNetwork_congr b (fun _ => none) t q.path q.unit
  simp only [hty, show (s "network" == s "image") = false by decide, show (s "network" == s "volume") = false by decide,
    beq_self_eq_true, Bool.false_eq_true, if_false, if_true]
  rw [e, h]

theorem C08_image_publishes_what_it_creates (b : Bool) (t : Str → Option Info) (q : QUnit) (svc : MM.SUnit) (r : Str)
    (hty : q.ty = s "image") (h : fromImage (envOf b t) q.path q.unit = .ok (svc, r)) :
    publishOf b q = some { serviceName := serviceNameOf q.path q.unit, resourceName := r } := by
  unfold publishOf
  have e := fromImage_congr b (fun _ => none) t q.path q.unit
  simp only [hty, beq_self_eq_true, if_true]
  rw [e, h]

end Cv
