import QM.Refine
import QM.Proc
import QM.Conform
/-! # C08, C09, C10 — the conversion loop refines an order-free, declarative name resolution

`Refine.run` is the loop of `process` in the abstract: a name table pre-filled before the loop
(`prefill`), a converter per unit that reads the table (`out`), may *publish* its object name into the table
(`publish`: .volume/.network/.image) and may *link* itself to another unit (`link`: a container appends itself to its
pod's start list), run over **any** ordering of the units that is sorted by priority (the sort is unstable, so the
theorem quantifies over all such orderings).  `Refine.decl` is the declarative result: every unit converted against
the *final* table `fin` and the complete list of its linkers.  `Cv.convertStepU` (QM/Proc.lean) is the concrete step,
tied to the real converters by the `convert` correspondence on unit sets in sorted and unsorted orders; its
priorities come from the `sorting_priority` table extracted from main.rs.

`Refine.Local` collects what the theorem needs from the converters: they read the table only at the names they
reference, everything they read is either published by a unit of strictly lower priority or never rewritten, and
links go to units of strictly higher priority. -/
namespace Refine
variable {U N V W O : Type} [DecidableEq N] (S : Sys U N V W O)

/-- every unit gets exactly its declarative result, whatever sorted order the unstable sort picked -/
theorem C08_process_refines (units order : List U) (hL : Local S units)
    (hd : (units.map S.name).Nodup) (hp : order.Perm units)
    (hs : order.Pairwise (fun a b => S.prio a ≤ S.prio b)) :
    run S (init S units) order = order.map (fun u => (u, decl S units order u)) :=
  run_refines S units order hL hd hp hs

/-- C09: the list a pod accumulates from its containers is the same multiset for every processing order -/
theorem C09_members_order_free (units o₁ o₂ : List U) (h : o₁.Perm o₂) (n : N) :
    (o₁.filterMap (linkTo S units n)).Perm (o₂.filterMap (linkTo S units n)) :=
  members_perm S units o₁ o₂ h n

/-- C09: a unit is in a pod's list iff it links to that pod under the final table — no more, no fewer -/
theorem C09_members_exact (units order : List U) (n : N) (w : W) :
    w ∈ order.filterMap (linkTo S units n) ↔ ∃ c ∈ order, linkTo S units n c = some w := by
  simp [List.mem_filterMap]

/-- C10: a unit's declarative result does not change when units it neither reads nor is linked from are added,
    provided the converters are local and the added units do not take over a name it reads -/
theorem C10_independent (units extra order order' : List U) (u : U)
    (hloc : ∀ t₁ t₂ a, (∀ n ∈ S.reads u, t₁ n = t₂ n) → S.out u t₁ a = S.out u t₂ a)
    (hfin : ∀ n ∈ S.reads u, fin S (units ++ extra) n = fin S units n)
    (hlinks : order'.filterMap (linkTo S (units ++ extra) (S.name u)) = order.filterMap (linkTo S units (S.name u))) :
    decl S (units ++ extra) order' u = decl S units order u := by
  unfold decl
  rw [hlinks]
  exact hloc _ _ _ hfin

end Refine

namespace Cv

/-- the priorities the refinement needs, read off the table extracted from main.rs:
    .image < .volume = .network < .build < .container = .kube < .pod -/
theorem C08_priorities :
    prio (s "image") < prio (s "volume") ∧ prio (s "volume") = prio (s "network") ∧ prio (s "network") < prio (s "build") ∧
    prio (s "build") < prio (s "container") ∧ prio (s "container") = prio (s "kube") ∧ prio (s "kube") < prio (s "pod") := by
  decide

/-- service name of a unit: explicit ServiceName, else the file stem plus the type's suffix (suffixes extracted from mod.rs) -/
theorem C08_service_suffixes :
    suffixOf (s "container") = [] ∧ suffixOf (s "kube") = [] ∧ suffixOf (s "volume") = s "-volume" ∧
    suffixOf (s "network") = s "-network" ∧ suffixOf (s "image") = s "-image" ∧ suffixOf (s "build") = s "-build" ∧
    suffixOf (s "pod") = s "-pod" := by decide

end Cv
