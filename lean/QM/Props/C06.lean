import QM.ParseRT
import QM.QuoteLemmas
/-! # C06 — generated unit files read back exactly as generated; values cannot forge lines

`Parse.printUnit` models `SystemdUnit::to_string` / `write_to`; `Parse.parse` the reader.
`WFSec` is the explicit well-formedness of what the generator stores: non-empty section names
without `]`/newline, keys of key characters, raw values without newline, without leading blank,
without trailing white space, with backslashes only in pairs, and accepted by the unquoter. -/
namespace Parse

/-- C06 core: a well-formed unit printed by `to_string` parses back to itself -/
theorem C06_print_parse (env : Env) (u : Unit) (wf : ∀ p ∈ u, WFSec env p.1 p.2) (hnd : (u.map Prod.fst).Nodup) :
    parse env (printUnit u) = .ok u := by
  unfold parse
  have hlen : u.length ≤ (printUnit u).length := by
    induction u with
    | nil => simp
    | cons p u ih =>
      obtain ⟨sec, es⟩ := p
      rw [printUnit_cons]
      have := ih (fun q hq => wf q (by simp [hq])) (by simp at hnd; exact hnd.2)
      simp; omega
  simpa using parseUnit_printed env u wf [] _ (by omega) (by simpa using hnd)


end Parse

namespace P

theorem quoteArms_no_newline : ∀ p ∈ Gen.quoteArms, '\n' ∉ p.2 := by decide

theorem hexDigit_ne_newline : ∀ n, n < 16 → hexDigit n ≠ '\n' := by decide

/-- a value stored with `add`/`set` (escaped by `quote_value`) never contains a newline -/
theorem C06_quoteValue_no_newline (s : Str) : '\n' ∉ quoteValue s := by
  unfold quoteValue
  simp only [List.mem_flatMap, not_exists, not_and]
  intro c _
  unfold escChar
  by_cases hn : needsEsc c = true
  · simp only [hn, Bool.not_true, Bool.false_eq_true, if_false]
    cases hl : Gen.quoteArms.lookup c with
    | some e => exact quoteArms_no_newline _ (lookup_mem _ _ _ hl)
    | none =>
      simp only [defaultArm, quoteDefaultFmt_eq, beq_self_eq_true, if_true, List.mem_cons, List.not_mem_nil, or_false, not_or]
      have hlt : c.toNat < 128 := needsEsc_ascii hn
      exact ⟨by decide, by decide, (hexDigit_ne_newline _ (by omega)).symm, (hexDigit_ne_newline _ (by omega)).symm⟩
  · have hn' : needsEsc c = false := by simpa using hn
    simp only [hn', Bool.not_false, if_true, List.mem_singleton]
    intro e; subst e
    have := active_needsEsc '\n' (by simp); simp [hn'] at this

theorem joinSp_no_newline (ws : List Str) (h : ∀ w ∈ ws, '\n' ∉ w) : '\n' ∉ joinSp ws := by
  induction ws with
  | nil => simp [joinSp]
  | cons w ws ih =>
    cases ws with
    | nil => simpa [joinSp] using h w (by simp)
    | cons w' ws =>
      simp only [joinSp, List.mem_append, List.mem_cons, not_or]
      exact ⟨h w (by simp), by decide, ih (fun x hx => h x (by simp [hx]))⟩

/-- an Exec line rendered by `quote_words` never contains a newline, whatever the arguments are -/
theorem C06_quoteWords_no_newline (ws : List Str) : '\n' ∉ quoteWords ws := by
  apply joinSp_no_newline
  intro w hw
  simp only [List.mem_map] at hw
  obtain ⟨x, _, rfl⟩ := hw
  unfold quoteWord
  split
  · simp only [List.mem_cons, List.mem_append, List.not_mem_nil, or_false, not_or]
    exact ⟨by decide, C06_quoteValue_no_newline x, by decide⟩
  · rename_i h
    simp only [Bool.or_eq_true, not_or, Bool.not_eq_true] at h
    intro hm
    have := List.any_eq_false.mp h.2 '\n' hm
    have h2 := active_needsEsc '\n' (by simp)
    simp [h2] at this

end P
