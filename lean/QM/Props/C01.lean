import QM.QuoteLemmas
import QM.ConvExec
import QM.UnquoteLemmas
/-! # C01 — quoted podman command lines split back into exactly the intended arguments

`P.quoteWords` is the model of `quote_words` (= `PodmanCommand::to_escaped_string`), driven by the
tables extracted from quoted.rs on every run; `P.splitAll P.execFlags` is the transcription of
systemd's `extract_first_word` with `EXTRACT_UNQUOTE|EXTRACT_CUNESCAPE` (what `config_parse_exec`
applies to every word of an `Exec*=` line), iterated until no word is left; `none` is `-EINVAL`. -/
namespace P

/-- C01, core statement: splitting the rendered command line by systemd's rules
    (extract_first_word with UNQUOTE|CUNESCAPE, iterated) gives back exactly the argument list -/
theorem C01_roundtrip (ws : List Str) (hw : ∀ w ∈ ws, ∀ c ∈ w, c ≠ '\x00') :
    splitAll execFlags (quoteWords ws) = some ws :=
  collect_quoteWords ws hw _ (by have := quoteWords_length ws; omega)

example : splitAll execFlags (quoteWords ["".toList, "a b".toList, "x\"y'\\\n\t\x01\x7f".toList, "é–".toList, "-v".toList, "   ".toList])
    = some ["".toList, "a b".toList, "x\"y'\\\n\t\x01\x7f".toList, "é–".toList, "-v".toList, "   ".toList] :=
  C01_roundtrip _ (by decide)


/-- the number of arguments is preserved (immediate from the round trip; stated because the property names it) -/
theorem C01_count (ws : List Str) (hw : ∀ w ∈ ws, ∀ c ∈ w, c ≠ '\x00') :
    (splitAll execFlags (quoteWords ws)).map List.length = some ws.length := by
  rw [C01_roundtrip ws hw]; rfl

/-- the rendered line is always accepted when it is stored in the service unit (`add_raw` validates with the unquoter) -/
theorem C01_storable (ws : List Str) (hw : ∀ w ∈ ws, ∀ c ∈ w, c ≠ '\x00') :
    ∃ r, unquoteValue true (quoteWords ws) = some r := unquote_quoteWords ws hw

/-- an empty argument is rendered as `""` and not dropped (the repaired defect D1) -/
theorem C01_empty_kept : quoteWords [['a'], [], ['b']] = ['a', ' ', '"', '"', ' ', 'b'] := by decide

end P

/-! ### every converter: the Exec lines of the generated service

`Cv.ExecRendered` (QM/ConvExec.lean) is a frame calculus over the converter models: `add`, `set`, `prepend` never write an
Exec key, `add_raw` is only called with `quote_words` output.  Hence every `Exec*=` entry of the generated [Service] is
either one of the user's own [Service] entries (verbatim, C07) or the rendering of an argument vector — which, by
`C01_roundtrip`, systemd splits into exactly that vector. -/
namespace Cv
open MM

def ExecLinesRendered (u svc : SUnit) : Prop :=
  ∀ e ∈ entriesOf svc (s "Service"), e.1 ∈ execKeys →
    e ∈ entriesOf u (s "Service") ∨
    ∃ cmd, e.2 = P.quoteWords cmd ∧ ((∀ w ∈ cmd, ∀ c ∈ w, c ≠ '\x00') → P.splitAll P.execFlags e.2 = some cmd)

theorem rendered_splits {e : Str × Str} (h : ∃ cmd, e.2 = P.quoteWords cmd) :
    ∃ cmd, e.2 = P.quoteWords cmd ∧ ((∀ w ∈ cmd, ∀ c ∈ w, c ≠ '\x00') → P.splitAll P.execFlags e.2 = some cmd) := by
  obtain ⟨cmd, hc⟩ := h
  exact ⟨cmd, hc, fun hw => by rw [hc]; exact P.C01_roundtrip cmd hw⟩

theorem C01_container_exec_lines (E : Env) (path : Str) (u svc : SUnit) (link : Option (Str × Str)) (hnd : (u.map Prod.fst).Nodup)
    (h : fromContainer E path u = some (.ok (svc, link))) : ExecLinesRendered u svc := fun e he hk =>
  (execs_of (startService path u) u svc _ _ (by decide) (entriesOf_startService_ne path u hnd _ (by decide)) (by decide)
    (execs_fromContainer E path u svc link h) e he hk).imp id rendered_splits
theorem C01_pod_exec_lines (E : Env) (path : Str) (u svc : SUnit) (cs : List Str) (hnd : (u.map Prod.fst).Nodup)
    (h : fromPod E path u cs = .ok svc) : ExecLinesRendered u svc := fun e he hk =>
  (execs_of (startService path u) u svc _ _ (by decide) (entriesOf_startService_ne path u hnd _ (by decide)) (by decide)
    (execs_fromPod E path u svc cs h) e he hk).imp id rendered_splits
theorem C01_kube_exec_lines (E : Env) (path : Str) (u svc : SUnit) (hnd : (u.map Prod.fst).Nodup)
    (h : fromKube E path u = .ok svc) : ExecLinesRendered u svc := fun e he hk =>
  (execs_of (startService path u) u svc _ _ (by decide) (entriesOf_startService_ne path u hnd _ (by decide)) (by decide)
    (execs_fromKube E path u svc h) e he hk).imp id rendered_splits
theorem C01_volume_exec_lines (E : Env) (path : Str) (u svc : SUnit) (n : Str) (hnd : (u.map Prod.fst).Nodup)
    (h : fromVolume E path u = .ok (svc, n)) : ExecLinesRendered u svc := fun e he hk =>
  (execs_of (startService path u) u svc _ _ (by decide) (entriesOf_startService_ne path u hnd _ (by decide)) (by decide)
    (execs_fromVolume E path u svc n h) e he hk).imp id rendered_splits
theorem C01_network_exec_lines (E : Env) (path : Str) (u svc : SUnit) (n : Str) (hnd : (u.map Prod.fst).Nodup)
    (h : fromNetwork E path u = .ok (svc, n)) : ExecLinesRendered u svc := fun e he hk =>
  (execs_of (startService path u) u svc _ _ (by decide) (entriesOf_startService_ne path u hnd _ (by decide)) (by decide)
    (execs_fromNetwork E path u svc n h) e he hk).imp id rendered_splits
theorem C01_build_exec_lines (E : Env) (path : Str) (u svc : SUnit) (hnd : (u.map Prod.fst).Nodup)
    (h : fromBuild E path u = .ok svc) : ExecLinesRendered u svc := fun e he hk =>
  (execs_of (buildStart path u) u svc _ _ (by decide) (entriesOf_buildStart_ne path u hnd _ (by decide)) (by decide)
    (execs_fromBuild E path u svc h) e he hk).imp id rendered_splits

end Cv
