import QM.QuoteLemmas
import QM.UnquoteLemmas
/-! # C01 — quoted podman command lines split back into exactly the intended arguments

`P.quoteWords` is the model of `quote_words` (= `PodmanCommand::to_escaped_string`), driven by the
tables extracted from quoted.rs on every run; `P.splitAll P.execFlags` is the transcription of
systemd's `extract_first_word` with `EXTRACT_UNQUOTE|EXTRACT_CUNESCAPE` (what `config_parse_exec`
applies to every word of an `Exec*=` line), iterated until no word is left; `none` is `-EINVAL`. -/
namespace P

/-- C01, core statement: splitting the rendered command line by systemd's rules
    (extract_first_word with UNQUOTE|CUNESCAPE, iterated) gives back exactly the argument list -/
theorem C01_roundtrip (ws : List Str) (hw : ∀ w ∈ ws, ∀ c ∈ w, c ≠ '\x00') :
    splitAll execFlags (quoteWords ws) = some ws :=
  collect_quoteWords ws hw _ (by have := quoteWords_length ws; omega)

example : splitAll execFlags (quoteWords ["".toList, "a b".toList, "x\"y'\\\n\t\x01\x7f".toList, "é–".toList, "-v".toList, "   ".toList])
    = some ["".toList, "a b".toList, "x\"y'\\\n\t\x01\x7f".toList, "é–".toList, "-v".toList, "   ".toList] :=
  C01_roundtrip _ (by decide)


/-- the number of arguments is preserved (immediate from the round trip; stated because the property names it) -/
theorem C01_count (ws : List Str) (hw : ∀ w ∈ ws, ∀ c ∈ w, c ≠ '\x00') :
    (splitAll execFlags (quoteWords ws)).map List.length = some ws.length := by
  rw [C01_roundtrip ws hw]; rfl

/-- the rendered line is always accepted when it is stored in the service unit (`add_raw` validates with the unquoter) -/
theorem C01_storable (ws : List Str) (hw : ∀ w ∈ ws, ∀ c ∈ w, c ≠ '\x00') :
    ∃ r, unquoteValue true (quoteWords ws) = some r := unquote_quoteWords ws hw

/-- an empty argument is rendered as `""` and not dropped (the repaired defect D1) -/
theorem C01_empty_kept : quoteWords [['a'], [], ['b']] = ['a', ' ', '"', '"', ' ', 'b'] := by decide

end P
