import QM.Split
import QM.QuoteLemmas
/-! # C05 — list-valued keys are split into words exactly as systemd splits them

`P.splitArgs` / `P.splitStrv` model `SplitWord` / `SplitStrv` (split.rs, after the D3 repair) iterated
as `lookup_all_args` / `lookup_all_strv` iterate them; separators and the escape table are extracted
from the source on every run.  `P.splitAll f` is the transcription of systemd's
`extract_first_word` with flag set `f`, iterated; `none` is `-EINVAL`.

Boundary (known finding KF-C05-1): `\xHH` / octal escapes with value ≥ 0x80 denote a *byte* for systemd and
the character U+00HH for the Rust decoder; the specification decoder returns `-EINVAL` for them, so the
theorems below do not speak about such values. -/
namespace P

/-- argument-style keys: whenever systemd (UNQUOTE|CUNESCAPE|RELAX) splits `raw` into `ws`, so does SplitWord -/
theorem C05_args_eq_systemd (raw : Str) (ws : List Str) (hs : splitAll argFlags raw = some ws) :
    splitArgs raw = ws :=
  collect_sim _ _ impl_next_of_spec impl_next_noWord _ _ _ hs

/-- plain list keys: whenever systemd (UNQUOTE|RETAIN_ESCAPE) splits `raw` into `ws`, so does SplitStrv -/
theorem C05_strv_eq_systemd (raw : Str) (ws : List Str) (hs : splitAll strvFlags raw = some ws) :
    splitStrv raw = ws :=
  collect_sim _ _ strv_next_of_spec strv_next_noWord _ _ _ hs

/-- in particular the number of words is systemd's: no word that follows another word is dropped -/
theorem C05_no_word_dropped (raw : Str) (ws : List Str) (hs : splitAll argFlags raw = some ws) :
    (splitArgs raw).length = ws.length := by rw [C05_args_eq_systemd raw ws hs]

theorem relax_word (q bs acc s w rest) (h : Spec.word execFlags q bs acc s = .word w rest) :
    Spec.word argFlags q bs acc s = .word w rest := by
  fun_induction Spec.word execFlags q bs acc s
  all_goals first
    | (rw [Spec.word]; simp_all [execFlags, argFlags]; done)
    | (rename_i hdec ih
       rw [Spec.word]; simp only [argFlags, if_true]
       split
       · rename_i d2 r2 heq; rw [hdec] at heq; simp at heq; obtain ⟨rfl, rfl⟩ := heq; exact ih h
       · rename_i heq; rw [hdec] at heq; simp at heq)

theorem relax_noWord (q bs acc s) : Spec.word execFlags q bs acc s ≠ .noWord := by
  fun_induction Spec.word execFlags q bs acc s <;> simp_all

theorem relax_extract_word (s w rest) (h : Spec.extractFirst execFlags s = .word w rest) :
    Spec.extractFirst argFlags s = .word w rest := by
  unfold Spec.extractFirst at h ⊢
  cases hd : dropSeps s with
  | nil => simp [hd] at h
  | cons c r => simp only [hd] at h ⊢; exact relax_word _ _ _ _ _ _ h

theorem relax_extract_noWord (s) (h : Spec.extractFirst execFlags s = .noWord) :
    Spec.extractFirst argFlags s = .noWord := by
  unfold Spec.extractFirst at h ⊢
  cases hd : dropSeps s with
  | nil => rfl
  | cons c r => simp only [hd] at h; exact absurd h (relax_noWord _ _ _ _)

theorem collect_imp (f g : Str → Res)
    (hw : ∀ s w rest, f s = .word w rest → g s = .word w rest)
    (hn : ∀ s, f s = .noWord → g s = .noWord) :
    ∀ fuel s ws, collect f fuel s = some ws → collect g fuel s = some ws := by
  intro fuel
  induction fuel with
  | zero => intro s ws h; simp [collect] at h
  | succ n ih =>
    intro s ws h
    simp only [collect] at h ⊢
    cases hs : f s with
    | einval => simp [hs] at h
    | noWord => simpa [hs, hn s hs] using h
    | word w rest =>
      simp only [hs, Option.map_eq_some_iff] at h
      obtain ⟨ws', hc, rfl⟩ := h
      simp [hw s w rest hs, ih rest ws' hc]

theorem relax_collect : ∀ fuel s ws, collect (Spec.extractFirst execFlags) fuel s = some ws →
    collect (Spec.extractFirst argFlags) fuel s = some ws :=
  collect_imp _ _ relax_extract_word relax_extract_noWord

/-- every word list has a spelling (the repository's own rendering) that SplitWord reads back exactly,
    including empty words and words with separators, quotes, backslashes and control characters -/
theorem C05_rendering_reads_back (ws : List Str) (hw : ∀ w ∈ ws, ∀ c ∈ w, c ≠ '\x00') :
    splitArgs (quoteWords ws) = ws :=
  C05_args_eq_systemd _ _ (relax_collect _ _ _ (collect_quoteWords ws hw _ (by have := quoteWords_length ws; omega)))

/-- the repaired defect D3: an explicitly quoted empty word is kept and the words after it survive -/
theorem C05_empty_word_kept :
    splitArgs ['s', 'h', ' ', '"', '"', ' ', 'f'] = [['s', 'h'], [], ['f']] ∧
    splitStrv ['s', 'h', ' ', '\'', '\'', ' ', 'f'] = [['s', 'h'], [], ['f']] := by
  constructor
  · exact C05_args_eq_systemd _ _ (by simp [splitAll, collect, Spec.extractFirst, dropSeps, isSep, Spec.word, isQuote, argFlags])
  · exact C05_strv_eq_systemd _ _ (by simp [splitAll, collect, Spec.extractFirst, dropSeps, isSep, Spec.word, isQuote, strvFlags])

/-- KF-C05-1 made explicit: for an escape ≥ 0x80 the specification decoder (restricted to results that are
    the same text in Rust) gives no answer, while the Rust decoder produces U+00HH -/
theorem C05_high_escape_boundary :
    splitAll argFlags ['\\', 'x', 'c', '3'] = none ∧ splitArgs ['\\', 'x', 'c', '3'] = [[Char.ofNat 0xc3]] := by
  constructor
  · simp [splitAll, collect, Spec.extractFirst, dropSeps, isSep, Spec.word, isQuote, argFlags, decode, specCfg,
      simpleTable, List.lookup, numKindOf, readNum, readDigits, unhex]
  · simp [splitArgs, collectImpl, Impl.next, implDropSeps, Impl.word, isSep, isQuote, decode, implCfg,
      Gen.unescSplit, List.lookup, numKindOf, readNum, readDigits, unhex, validScalar]

end P
