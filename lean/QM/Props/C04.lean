import QM.UnquoteLemmas
import QM.SpellLemmas
/-! # C04 — single-valued keys are unquoted as documented in systemd.syntax

`P.unquoteValue true` is the model of `unquote_value` (quoted.rs, after the D2 and D12d repairs), with the
single-letter escape table extracted from the source on every run.  `P.quoteValue` is the model of
the repository's own quoter, used here only to *construct* a spelling. -/
namespace P

/-- C04 (wholly double-quoted spelling): every NUL-free string has the spelling "…" and it reads back -/
theorem C04_dq (s : Str) (hs : ∀ c ∈ s, c ≠ '\x00') :
    unquoteValue true ('"' :: quoteValue s ++ ['"']) = some s := by
  unfold unquoteValue
  rw [List.cons_append, unq]
  simp only [show ('"' == '\x00') = false by decide, Bool.false_eq_true, if_false,
    isQuote, beq_self_eq_true, Bool.true_or, Bool.not_true, Option.isNone_none, Bool.or_true,
    List.isEmpty_nil, Bool.and_self, if_true]
  rw [unq_quoteValue s hs, unq]
  simp [isQuote, unq]


/-- every NUL-free string has a documented spelling that reads back as that string -/
theorem C04_has_spelling (s : Str) (hs : ∀ c ∈ s, c ≠ '\x00') : ∃ sp, unquoteValue true sp = some s :=
  ⟨_, C04_dq s hs⟩

/-- the single-letter C escapes denote the documented characters, wherever they occur -/
theorem C04_simple_escapes : ∀ p ∈ simpleTable, ∀ t, decode quotedCfg (p.1 :: t) = some (p.2, t) := by
  intro p hp t
  have := quotedTbl_of_spec p hp
  simp [decode, quotedCfg, this]

/-- `\xHH` denotes the character with that code (below 0x80 the byte and the character reading agree) -/
theorem C04_hex_escape (c : Char) (hlt : c.toNat < 128) (hnz : c.toNat ≠ 0) (t : Str) :
    decode quotedCfg ('x' :: hexDigit (c.toNat / 16) :: hexDigit (c.toNat % 16) :: t) = some (c, t) :=
  decode_hex_q c hlt hnz t

/-- malformed values are errors, not silently accepted: lone trailing backslash, NUL, `\x00`, short hex -/
theorem C04_errors :
    unquoteValue true ['a', '\\'] = none ∧
    unquoteValue true ['a', '\x00'] = none ∧
    unquoteValue true ['\\', 'x', '0', '0'] = none ∧
    unquoteValue true ['\\', 'x', '4'] = none ∧
    unquoteValue true ['\\', 'q'] = none := by
  refine ⟨?_, ?_, ?_, ?_, ?_⟩ <;> simp [unquoteValue, unq, isQuote, endsWs, decode, quotedCfg, Gen.unescQuoted,
    List.lookup, numKindOf, readNum, readDigits, unhex, validScalar]

/-- the repaired defect D2: the other quote character inside an open quote is kept verbatim -/
theorem C04_nested_quote_kept :
    unquoteValue true ['"', 's', 'h', ' ', '\'', 'x', ' ', 'y', '\'', '"'] = some ['s', 'h', ' ', '\'', 'x', ' ', 'y', '\''] := by
  simp [unquoteValue, unq, isQuote, endsWs]


/-- **every documented spelling reads back**: a value spelled as any sequence of quoted runs (double or single quotes,
    each starting at the beginning of the value or after whitespace; inside, every character literal except the
    closing quote and the backslash — so the other kind of quote character is kept verbatim) and bare runs (literal
    characters, white space included; a quote character only where it cannot start a quoted run), with C-style
    escapes anywhere, is read as exactly the string it denotes -/
theorem C04_reads_back (segs : List Seg) (wf : segsWF [] segs) :
    unquoteValue true (renderSegs segs) = some (denoteSegs segs) := by
  unfold unquoteValue
  rw [unq_segs segs [] wf]; simp

/-- wholly double-quoted, wholly single-quoted and unquoted-with-escapes spellings are instances -/
theorem C04_wholly_quoted (q : Char) (hq : isQuote q = true) (ps : List Piece) (wf : quotedWF q ps) :
    unquoteValue true (q :: (renderPieces ps ++ [q])) = some (denotePieces ps) := by
  have := C04_reads_back [Seg.quoted q ps] ⟨hq, rfl, wf, trivial⟩
  simpa [renderSegs, denoteSegs, Seg.text, Seg.denote] using this

theorem C04_bare (ps : List Piece) (wf : bareWF [] ps) :
    unquoteValue true (renderPieces ps) = some (denotePieces ps) := by
  have := C04_reads_back [Seg.bare ps] ⟨wf, trivial⟩
  simpa [renderSegs, denoteSegs, Seg.text, Seg.denote] using this

/-- the documented escape forms qualify as escapes: the single letters of the table and `\\xHH` -/
theorem C04_escape_forms :
    (∀ p ∈ simpleTable, EscOK [p.1] p.2) ∧
    (∀ c : Char, c.toNat < 128 → c.toNat ≠ 0 → EscOK ['x', hexDigit (c.toNat / 16), hexDigit (c.toNat % 16)] c) :=
  ⟨escOK_simple, escOK_hex⟩

-- non-vacuity: `foo "a 'b' c" 'x"y' z\tw` is a well-formed spelling (test of the statement, labelled as such)
example : segsWF [] [Seg.bare [.lit 'f', .lit ' '], Seg.quoted '"' [.lit 'a', .lit ' ', .lit '\'', .lit 'b'],
    Seg.bare [.lit ' '], Seg.quoted '\'' [.lit 'x', .lit '"'], Seg.bare [.lit ' ', .lit 'z', .esc ['t'] '\t', .lit 'w']] := by
  refine ⟨⟨by decide, by decide, by simp [isQuote], ⟨by decide, by decide, by simp [isQuote], trivial⟩⟩, ?_⟩
  refine ⟨by decide, by decide, ⟨by decide, by decide, by decide, by decide, by decide, by decide, by decide, by decide, by decide, by decide, by decide, by decide, trivial⟩, ?_⟩
  refine ⟨⟨by decide, by decide, by simp [isQuote], trivial⟩, ?_⟩
  refine ⟨by decide, by decide, ⟨by decide, by decide, by decide, by decide, by decide, by decide, trivial⟩, ?_⟩
  refine ⟨⟨by decide, by decide, by simp [isQuote], by decide, by decide, by simp [isQuote], escOK_simple ('t', '\t') (by decide), by decide, by decide, by simp [isQuote], trivial⟩, trivial⟩

end P
