import QM.UnquoteLemmas
/-! # C04 — single-valued keys are unquoted as documented in systemd.syntax

`P.unquoteValue true` is the model of `unquote_value` (quoted.rs, after the D2 and D12d repairs), with the
single-letter escape table extracted from the source on every run.  `P.quoteValue` is the model of
the repository's own quoter, used here only to *construct* a spelling. -/
namespace P

/-- C04 (wholly double-quoted spelling): every NUL-free string has the spelling "…" and it reads back -/
theorem C04_dq (s : Str) (hs : ∀ c ∈ s, c ≠ '\x00') :
    unquoteValue true ('"' :: quoteValue s ++ ['"']) = some s := by
  unfold unquoteValue
  rw [List.cons_append, unq]
  simp only [show ('"' == '\x00') = false by decide, Bool.false_eq_true, if_false,
    isQuote, beq_self_eq_true, Bool.true_or, Bool.not_true, Option.isNone_none, Bool.or_true,
    List.isEmpty_nil, Bool.and_self, if_true]
  rw [unq_quoteValue s hs, unq]
  simp [isQuote, unq]


/-- every NUL-free string has a documented spelling that reads back as that string -/
theorem C04_has_spelling (s : Str) (hs : ∀ c ∈ s, c ≠ '\x00') : ∃ sp, unquoteValue true sp = some s :=
  ⟨_, C04_dq s hs⟩

/-- the single-letter C escapes denote the documented characters, wherever they occur -/
theorem C04_simple_escapes : ∀ p ∈ simpleTable, ∀ t, decode quotedCfg (p.1 :: t) = some (p.2, t) := by
  intro p hp t
  have := quotedTbl_of_spec p hp
  simp [decode, quotedCfg, this]

/-- `\xHH` denotes the character with that code (below 0x80 the byte and the character reading agree) -/
theorem C04_hex_escape (c : Char) (hlt : c.toNat < 128) (hnz : c.toNat ≠ 0) (t : Str) :
    decode quotedCfg ('x' :: hexDigit (c.toNat / 16) :: hexDigit (c.toNat % 16) :: t) = some (c, t) :=
  decode_hex_q c hlt hnz t

/-- malformed values are errors, not silently accepted: lone trailing backslash, NUL, `\x00`, short hex -/
theorem C04_errors :
    unquoteValue true ['a', '\\'] = none ∧
    unquoteValue true ['a', '\x00'] = none ∧
    unquoteValue true ['\\', 'x', '0', '0'] = none ∧
    unquoteValue true ['\\', 'x', '4'] = none ∧
    unquoteValue true ['\\', 'q'] = none := by
  refine ⟨?_, ?_, ?_, ?_, ?_⟩ <;> simp [unquoteValue, unq, isQuote, endsWs, decode, quotedCfg, Gen.unescQuoted,
    List.lookup, numKindOf, readNum, readDigits, unhex, validScalar]

/-- the repaired defect D2: the other quote character inside an open quote is kept verbatim -/
theorem C04_nested_quote_kept :
    unquoteValue true ['"', 's', 'h', ' ', '\'', 'x', ' ', 'y', '\'', '"'] = some ['s', 'h', ' ', '\'', 'x', ' ', 'y', '\''] := by
  simp [unquoteValue, unq, isQuote, endsWs]

end P
