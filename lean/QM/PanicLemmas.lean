import QM.ParseRT
import QM.UnquoteLemmas
/-! Lemmas behind C11: the `expect`s in `EntryValue::unquote` (value.rs) cannot fire, because every raw value that
    enters a unit was validated (`add_raw`) or produced by the quoter (`add`/`set`). -/
namespace Parse

def AllValid (env : Env) (u : Unit) : Prop := ∀ p ∈ u, ∀ kv ∈ p.2, env.validRaw kv.2 = true

theorem addEntries_valid (env : Env) (u : Unit) (sec : Str) (es : List (Str × Str))
    (hu : AllValid env u) (hes : ∀ kv ∈ es, env.validRaw kv.2 = true) : AllValid env (addEntries u sec es) := by
  unfold addEntries
  split
  · intro p hp kv hkv
    simp only [List.mem_map] at hp
    obtain ⟨p0, hp0, rfl⟩ := hp
    split at hkv
    · simp only [List.mem_append] at hkv
      rcases hkv with h | h
      · exact hu p0 hp0 kv h
      · exact hes kv h
    · exact hu p0 hp0 kv hkv
  · intro p hp kv hkv
    simp only [List.mem_append, List.mem_singleton] at hp
    rcases hp with h | rfl
    · exact hu p h kv hkv
    · exact hes kv hkv

theorem parseUnit_valid (env : Env) : ∀ (fuel : Nat) (u : Unit) (s : Str) (r : Unit),
    AllValid env u → parseUnit env fuel u s = .ok r → AllValid env r := by
  intro fuel
  induction fuel with
  | zero => intro u s r _ h; simp [parseUnit] at h
  | succ n ih =>
    intro u s r hu h
    cases s with
    | nil => simp [parseUnit] at h; subst h; exact hu
    | cons c t =>
      simp only [parseUnit] at h
      split at h
      · exact ih _ _ _ hu h
      · split at h
        · split at h
          · simp at h
          · split at h
            · simp at h
            · rename_i es rest _
              split at h
              · rename_i hall
                split at h
                · refine ih _ _ _ (addEntries_valid env u _ es hu ?_) h
                  intro kv hkv
                  exact List.all_eq_true.mp hall kv hkv
                · simp at h
              · simp at h
        · split at h
          · exact ih _ _ _ hu h
          · simp at h

/-- every raw value of a successfully loaded unit passed the validation of `add_raw` -/
theorem parse_valid (env : Env) (s : Str) (u : Unit) (h : parse env s = .ok u) : AllValid env u :=
  parseUnit_valid env _ [] s u (by intro p hp; simp at hp) h

end Parse

namespace P

/-- whatever the quoter emits for one character is consumed by the unquoter without error, in any quote state -/
theorem unq_escChar_any (c : Char) (hc : c ≠ '\x00') (q : Option Char) (acc t : Str) :
    ∃ q' acc', unq true q acc (escChar c ++ t) = unq true q' acc' t := by
  have hc0 : (c == '\x00') = false := by simpa using hc
  have lit : c ≠ '\\' → ∃ q' acc', unq true q acc (c :: t) = unq true q' acc' t := by
    intro hb
    have hb' : (c == '\\') = false := by simpa using hb
    rw [unq]
    simp only [hc0, Bool.false_eq_true, if_false, hb']
    split
    · exact ⟨_, _, rfl⟩
    · split
      · exact ⟨_, _, rfl⟩
      · exact ⟨_, _, rfl⟩
  have esc : ∀ e : Str, decode quotedCfg (e ++ t) = some (c, t) →
      ∃ q' acc', unq true q acc ('\\' :: e ++ t) = unq true q' acc' t := by
    intro e hd
    refine ⟨q, c :: acc, ?_⟩
    rw [List.cons_append, unq]
    simp only [isQuote, show ('\\' == '"') = false by decide, show ('\\' == '\'') = false by decide,
      show ('\\' == '\x00') = false by decide,
      Bool.or_self, Bool.false_and, Bool.false_eq_true, if_false, beq_self_eq_true, if_true]
    split
    · rename_i d r' heq; rw [hd] at heq; simp at heq; obtain ⟨rfl, rfl⟩ := heq; rfl
    · rename_i heq; rw [hd] at heq; simp at heq
  unfold escChar
  by_cases hn : needsEsc c = true
  · simp only [hn, Bool.not_true, Bool.false_eq_true, if_false]
    cases hl : Gen.quoteArms.lookup c with
    | some e =>
      have hok := quoteArms_sound _ (lookup_mem _ _ _ hl)
      simp only [armOK, Bool.or_eq_true] at hok
      rcases hok with hok | hok
      · simp only [Bool.and_eq_true, beq_iff_eq, bne_iff_ne, ne_eq] at hok
        obtain ⟨⟨he, _⟩, h2⟩ := hok
        subst he
        exact lit h2
      · split at hok
        · rename_i b e'
          simp only [Bool.and_eq_true, beq_iff_eq] at hok
          obtain ⟨hb, hm⟩ := hok
          subst hb
          have hq := quotedTbl_of_spec _ (lookup_mem _ _ _ hm)
          exact esc [e'] (by simp [decode, quotedCfg, hq])
        · simp at hok
    | none =>
      have hlt : c.toNat < 128 := needsEsc_ascii hn
      have hnz : c.toNat ≠ 0 := by
        intro e; apply hc; apply Char.toNat_inj.mp; simpa using e
      simp only [defaultArm, quoteDefaultFmt_eq, beq_self_eq_true, if_true]
      exact esc ['x', hexDigit (c.toNat / 16), hexDigit (c.toNat % 16)] (by simpa using decode_hex_q c hlt hnz t)
  · have hn' : needsEsc c = false := by simpa using hn
    have h2 : c ≠ '\\' := by
      intro e; subst e; have := active_needsEsc '\\' (by simp); simp [hn'] at this
    simp only [hn, Bool.not_false, if_true, List.singleton_append]
    exact lit h2

/-- a string stored with `add`/`set`/`prepend` (escaped by `quote_value`) can always be read back:
    the `expect` in `EntryValue::unquote` cannot fire on it -/
theorem unquote_quoteValue (s : Str) (hs : ∀ c ∈ s, c ≠ '\x00') :
    ∀ (q : Option Char) (acc : Str), ∃ r, unq true q acc (quoteValue s) = some r := by
  induction s with
  | nil => intro q acc; exact ⟨acc.reverse, by simp [quoteValue, unq]⟩
  | cons c s ih =>
    intro q acc
    have e : quoteValue (c :: s) = escChar c ++ quoteValue s := by simp [quoteValue]
    obtain ⟨q', acc', h⟩ := unq_escChar_any c (hs c (by simp)) q acc (quoteValue s)
    rw [e, h]
    exact ih (fun d hd => hs d (by simp [hd])) q' acc'

end P
