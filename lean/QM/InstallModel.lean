import QM.Lookup
import QM.Path
/-! Model of `enable_service_file` (main.rs, after the D8 repair): which links are created below the
    output directory for a generated service, and where they point. -/
namespace Inst
open MM
abbrev Str := List Char
def s (x : String) : Str := x.toList

def splitOnce (c : Char) (x : Str) : Option (Str × Str) :=
  match x.span (· != c) with
  | (_, []) => none
  | (a, _ :: b) => some (a, b)
def splitLast (c : Char) (x : Str) : Option (Str × Str) :=
  match splitOnce c x.reverse with
  | none => none
  | some (a, b) => some (b.reverse, a.reverse)
def fileStem (name : Str) : Str :=
  match splitLast '.' name with
  | some (a, _) => if a.isEmpty then name else a
  | none => name
def extension (name : Str) : Str := match splitLast '.' name with | some (a, e) => if a.isEmpty then [] else e | none => []

/-- file_name_template_parts on the file name -/
def templateParts (name : Str) : Option Str × Option Str :=
  match splitOnce '@' (fileStem name) with
  | none => (none, none)
  | some (b, i) => if b.isEmpty then (none, none) else if i.isEmpty then (some b, none) else (some b, some i)

/-- the D8/D16 acceptance test: not empty, relative, not starting with a `..` component, not the service itself -/
def aliasOK (svcFile p : Str) : Bool :=
  !p.isEmpty && !Pth.isAbs p && (Pth.components p).head? != some Pth.Comp.parent && p != svcFile

/-- PathBuf::from(format!("{w}.wants/")) then push(name): components re-rendered as Rust stores them -/
def dirLink (w suffix name : Str) : Str := w ++ suffix ++ '/' :: name

def target (rel svcFile : Str) : Str :=
  (List.replicate ((Pth.components rel).length - 1) (s "../")).flatten ++ svcFile

/-- relative link paths, in creation order -/
def linkPaths (svcFile : Str) (u : SUnit) : List Str :=
  let alias := ((Cv.lookupAllStrv u (s "Install") (s "Alias")).map Pth.cleaned).filter (aliasOK svcFile)
  let (tb, ti) := templateParts svcFile
  let serviceName : Str := match tb with
    | some b =>
      if ti.isNone then
        -- D15: an instance name with a path separator is ignored
        match (Cv.lookup u (s "Install") (s "DefaultInstance")).filter (fun d => !d.contains '/') with
        | some d => b ++ '@' :: d ++ '.' :: extension svcFile
        | none => []
      else svcFile
    | none => svcFile
  let byDir (key suffix : String) : List Str :=
    if serviceName.isEmpty then []
    else ((Cv.lookupAllStrv u (s "Install") (s key)).filter (fun w => !w.contains '/')).map fun w => dirLink w (s suffix) serviceName
  alias ++ byDir "WantedBy" ".wants" ++ byDir "RequiredBy" ".requires"

def planLinks (svcFile : Str) (u : SUnit) : List (Str × Str) :=
  (linkPaths svcFile u).map fun rel => (rel, target rel svcFile)

/-! ### carrying the plan out

`enable_service_file` creates the links one after the other; each needs its parent directories (`create_dir_all`) and a free name
(an existing link of that name is replaced, a directory is not).  The output directory is abstracted to the set of directories and
links created so far plus the service file itself; every link points to the service file, so a path that runs *through* a link or
through the service file cannot be created (ENOTDIR). -/

structure Made where
  dirs : List Str
  links : List Str

/-- the proper prefixes of a relative path that end before a '/' -/
def parentsOf (k : Str) : List Str :=
  (List.range k.length).filterMap fun i => if i > 0 && k[i]? == some '/' then some (k.take i) else none

def blocked (svcFile : Str) (st : Made) (k : Str) : Bool :=
  (parentsOf k).any fun p => st.links.contains p || p == svcFile

/-- one link: skipped when a parent is not a directory; the parents are created; skipped when the name is a directory -/
def withParents (st : Made) (k : Str) : List Str := st.dirs ++ (parentsOf k).filter (fun p => !st.dirs.contains p)

def carryStep (svcFile : Str) (st : Made) (k : Str) : Made :=
  if blocked svcFile st k then st
  else if (withParents st k).contains k then { dirs := withParents st k, links := st.links }
  else { dirs := withParents st k, links := if st.links.contains k then st.links else st.links ++ [k] }

def carryOut (svcFile : Str) (plan : List Str) : Made := plan.foldl (carryStep svcFile) { dirs := [], links := [] }

/-- the links that exist after `enable_service_file` ran on an output directory that held only the service file -/
def madeLinks (svcFile : Str) (u : SUnit) : List Str := (carryOut svcFile (linkPaths svcFile u)).links

end Inst
