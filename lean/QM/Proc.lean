import QM.ConvDrv
import QM.Refine
/-! Draft executable model of the conversion loop of `process` (name table, priority sort, publication of
    resource names, pods' containers_to_start). Drop-ins, search directories and writing are not here yet. -/
namespace Cv
open MM

structure QUnit where
  path : Str
  unit : SUnit
  deriving Inhabited

def QUnit.name (q : QUnit) : Str := fileName q.path
def QUnit.ty (q : QUnit) : Str := extension q.name

/-- the `sorting_priority` table of `process` (extracted); unknown types sort last -/
def prio (ty : Str) : Nat := (Gen.sortingPriority.lookup ty).getD 1000000

def containerResourceName (name : Str) (u : SUnit) (serviceName : Str) : Str :=
  let n := containerName name u
  let r := ((String.ofList n).replace "%N" (String.ofList serviceName)).toList
  if r.contains '%' then [] else r

def prefill (q : QUnit) : Info :=
  let sn := serviceNameOf q.path q.unit
  { serviceName := sn,
    resourceName := if q.ty == s "build" then (builtImageName q.unit).getD []
                    else if q.ty == s "container" then containerResourceName q.name q.unit sn else [] }

structure Tbl where
  infos : List (Str × Info)                 -- by file name (HashMap: later entries of the same name win)
  toStart : List (Str × List Str)           -- pod file name ↦ container service files

def Tbl.get (t : Tbl) (n : Str) : Option Info := (t.infos.reverse.lookup n)
def Tbl.setRes (t : Tbl) (n : Str) (r : Str) : Tbl :=
  { t with infos := t.infos.map fun (k, i) => if k == n then (k, { i with resourceName := r }) else (k, i) }
def Tbl.link (t : Tbl) (pod c : Str) : Tbl :=
  if t.toStart.any (·.1 == pod) then { t with toStart := t.toStart.map fun (k, l) => if k == pod then (k, l ++ [c]) else (k, l) }
  else { t with toStart := t.toStart ++ [(pod, [c])] }
def Tbl.started (t : Tbl) (pod : Str) : List Str := (t.toStart.lookup pod).getD []

/-- insertion sort by priority: one of the orders `sort_unstable_by` may produce -/
def insertByPrio (q : QUnit) : List QUnit → List QUnit
  | [] => [q]
  | x :: xs => if prio q.ty < prio x.ty then q :: x :: xs else x :: insertByPrio q xs
def sortByPrio (qs : List QUnit) : List QUnit := qs.foldl (fun acc q => insertByPrio q acc) []

inductive Out | ok (svc : SUnit) | err (e : Err) | outOfModel

def convertStepU (isUser : Bool) (t : Tbl) (q : QUnit) : Tbl × Out :=
  let E : Env := { info := t.get, isUser := isUser, pathExists := fun p => p == s "/dev/null" }
  let ty := q.ty
  if ty == s "image" then match fromImage E q.path q.unit with
    | .ok (svc, r) => (t.setRes q.name r, .ok svc) | .error e => (t, .err e)
  else if ty == s "volume" then
    -- the volume publishes its name right after the key checks, before anything else can fail
    let published : Option Str :=
      if (firstUnknown (entriesOf q.unit (s "Volume")) supportedVolume).isSome
         || (firstUnknown (entriesOf q.unit (s "Quadlet")) supportedQuadlet).isSome then none
      else
        let vn := (lookup q.unit (s "Volume") (s "VolumeName")).getD []
        some (if vn.isEmpty then s "systemd-" ++ fileStem q.name else vn)
    let t' := match published with | some r => t.setRes q.name r | none => t
    match fromVolume E q.path q.unit with
    | .ok (svc, _) => (t', .ok svc) | .error e => (t', .err e)
  else if ty == s "network" then match fromNetwork E q.path q.unit with
    | .ok (svc, r) => (t.setRes q.name r, .ok svc) | .error e => (t, .err e)
  else if ty == s "build" then match fromBuild E q.path q.unit with
    | .ok svc => (t, .ok svc) | .error e => (t, .err e)
  else if ty == s "kube" then match fromKube E q.path q.unit with
    | .ok svc => (t, .ok svc) | .error e => (t, .err e)
  else if ty == s "pod" then match fromPod E q.path q.unit (t.started q.name) with
    | .ok svc => (t, .ok svc) | .error e => (t, .err e)
  else match fromContainer E q.path q.unit with
    | none => (t, .outOfModel)
    | some (.ok (svc, link)) => ((match link with | some (p, c) => t.link p c | none => t), .ok svc)
    | some (.error e) =>
      -- handle_pod records the container before the remaining steps; nothing after it can fail except add_raw
      (t, .err e)

def convertStep (t : Tbl) (q : QUnit) : Tbl × Out := convertStepU false t q

/-! ### the loop as an instance of the abstract system of QM/Refine.lean

The name table is a function from file names to `Info`, the pods' start lists a function from file names to lists of
service files; `Refine.step` is one iteration of the loop of `process`. -/

def envOf (isUser : Bool) (info : Str → Option Info) : Env :=
  { info := info, isUser := isUser, pathExists := fun p => p == s "/dev/null" }

/-- the name a .volume publishes (right after its key checks, before anything else can fail) -/
def volumePublished (q : QUnit) : Option Str :=
  if (firstUnknown (entriesOf q.unit (s "Volume")) supportedVolume).isSome
     || (firstUnknown (entriesOf q.unit (s "Quadlet")) supportedQuadlet).isSome then none
  else
    let vn := (lookup q.unit (s "Volume") (s "VolumeName")).getD []
    some (if vn.isEmpty then s "systemd-" ++ fileStem q.name else vn)

/-- what a unit writes into the name table: a function of the unit alone (.image and .network publish at the very end
    of a conversion that does not read the table; .volume after its key checks; the others never) -/
def publishOf (isUser : Bool) (q : QUnit) : Option Info :=
  let sn := serviceNameOf q.path q.unit
  let E0 := envOf isUser (fun _ => none)
  if q.ty == s "image" then
    match fromImage E0 q.path q.unit with
    | .ok (_, r) => some { serviceName := sn, resourceName := r }
    | .error _ => none
  else if q.ty == s "volume" then (volumePublished q).map fun r => { serviceName := sn, resourceName := r }
  else if q.ty == s "network" then
    match fromNetwork E0 q.path q.unit with
    | .ok (_, r) => some { serviceName := sn, resourceName := r }
    | .error _ => none
  else none

/-- the conversion of one unit against a name table and (for pods) the list of containers recorded so far -/
def convOut (isUser : Bool) (info : Str → Option Info) (started : List Str) (q : QUnit) : Out :=
  let E := envOf isUser info
  let ty := q.ty
  let lift {α} (r : R α) (f : α → SUnit) : Out := match r with | .ok a => .ok (f a) | .error e => .err e
  if ty == s "image" then lift (fromImage E q.path q.unit) (·.1)
  else if ty == s "volume" then lift (fromVolume E q.path q.unit) (·.1)
  else if ty == s "network" then lift (fromNetwork E q.path q.unit) (·.1)
  else if ty == s "build" then lift (fromBuild E q.path q.unit) id
  else if ty == s "kube" then lift (fromKube E q.path q.unit) id
  else if ty == s "pod" then lift (fromPod E q.path q.unit started) id
  else match fromContainer E q.path q.unit with
    | none => .outOfModel
    | some r => lift r (·.1)

/-- a container that reaches handle_pod with StartWithPod records itself in its pod's list -/
def linkOf (isUser : Bool) (q : QUnit) (info : Str → Option Info) : Option (Str × Str) :=
  let ty := q.ty
  if ty == s "image" || ty == s "volume" || ty == s "network" || ty == s "build" || ty == s "kube" || ty == s "pod" then none
  else match fromContainer (envOf isUser info) q.path q.unit with
    | some (.ok (_, link)) => link
    | _ => none


/-! ### which names a conversion may look up in the name table -/

def imageRefs (name : Str) : List Str :=
  if endsWith name (s ".build") || endsWith name (s ".image") then [name] else []

/-- the name handle_storage_source looks up for a source, if any -/
def storageRef (unitPath source : Str) (checkImage : Bool) : Option Str :=
  let src := if source.head? == some '.' then absFromUnit unitPath source else source
  if src.head? == some '/' then none
  else if endsWith src (s ".volume") || (checkImage && endsWith src (s ".image")) then some src
  else none

def volumeRefs (unitPath : Str) (u : SUnit) (sec : Str) : List Str :=
  (lookupAll u sec (s "Volume")).filterMap fun v => storageRef unitPath (volSource (splitN3 v)) false

def networkRefs (u : SUnit) (sec : Str) : List Str :=
  (lookupAll u sec (s "Network")).filterMap fun nw =>
    if nw.isEmpty then none
    else if endsWith (netNameOf nw) (s ".network") || endsWith (netNameOf nw) (s ".container") then some (netNameOf nw) else none

def mountTokRef (unitPath t : Str) : Option Str :=
  if startsWith t (s "source=") || startsWith t (s "src=") then
    match splitOnce '=' t with
    | some (_, v) => storageRef unitPath v true
    | none => none
  else none

def mountRefs (unitPath : Str) (u : SUnit) (sec : Str) : List Str :=
  (lookupAllArgs u sec (s "Mount")).flatMap fun m =>
    match findMountType m with
    | some (.ok (_, toks)) => toks.filterMap (mountTokRef unitPath)
    | _ => []

def podRefs (u : SUnit) (sec : Str) : List Str :=
  match lookup u sec (s "Pod") with
  | some pod => [pod]
  | none => []

/-- the static read set of a unit: its own entry (container, build) and every name one of its handlers may look up -/
def readsOf (q : QUnit) : List Str :=
  let u := q.unit
  let ty := q.ty
  if ty == s "image" then []
  else if ty == s "volume" then (match lookup u (s "Volume") (s "Image") with | some img => imageRefs img | none => [])
  else if ty == s "network" then []
  else if ty == s "build" then [q.name] ++ networkRefs u (s "Build") ++ volumeRefs q.path u (s "Build")
  else if ty == s "kube" then networkRefs u (s "Kube")
  else if ty == s "pod" then networkRefs u (s "Pod") ++ volumeRefs q.path u (s "Pod")
  else [q.name] ++ imageRefs ((lookup u (s "Container") (s "Image")).getD []) ++ networkRefs u (s "Container")
    ++ volumeRefs q.path u (s "Container") ++ mountRefs q.path u (s "Container") ++ podRefs u (s "Container")

/-- the conversion loop of `process` as an abstract system -/
def sys (isUser : Bool) : Refine.Sys QUnit Str Info Str Out :=
  { name := QUnit.name, prio := fun q => prio q.ty, prefill := prefill, publish := publishOf isUser,
    reads := readsOf, out := fun q t a => convOut isUser t a q, link := fun q t => linkOf isUser q t }

/-- run the loop over a given processing order, starting from the pre-filled table of all units -/
def runOrder (isUser : Bool) (units order : List QUnit) : List (QUnit × Out) :=
  Refine.run (sys isUser) (Refine.init (sys isUser) units) order

def processUnits (qs : List QUnit) : List (QUnit × Out) := runOrder false qs (sortByPrio qs)

end Cv
