import QM.ConvDrv
/-! Draft executable model of the conversion loop of `process` (name table, priority sort, publication of
    resource names, pods' containers_to_start). Drop-ins, search directories and writing are not here yet. -/
namespace Cv
open MM

structure QUnit where
  path : Str
  unit : SUnit
  deriving Inhabited

def QUnit.name (q : QUnit) : Str := fileName q.path
def QUnit.ty (q : QUnit) : Str := extension q.name

/-- the `sorting_priority` table of `process` (extracted); unknown types sort last -/
def prio (ty : Str) : Nat := (Gen.sortingPriority.lookup ty).getD 1000000

def containerResourceName (name : Str) (u : SUnit) (serviceName : Str) : Str :=
  let n := containerName name u
  let r := ((String.ofList n).replace "%N" (String.ofList serviceName)).toList
  if r.contains '%' then [] else r

def prefill (q : QUnit) : Info :=
  let sn := serviceNameOf q.path q.unit
  { serviceName := sn,
    resourceName := if q.ty == s "build" then (builtImageName q.unit).getD []
                    else if q.ty == s "container" then containerResourceName q.name q.unit sn else [] }

structure Tbl where
  infos : List (Str × Info)                 -- by file name (HashMap: later entries of the same name win)
  toStart : List (Str × List Str)           -- pod file name ↦ container service files

def Tbl.get (t : Tbl) (n : Str) : Option Info := (t.infos.reverse.lookup n)
def Tbl.setRes (t : Tbl) (n : Str) (r : Str) : Tbl :=
  { t with infos := t.infos.map fun (k, i) => if k == n then (k, { i with resourceName := r }) else (k, i) }
def Tbl.link (t : Tbl) (pod c : Str) : Tbl :=
  if t.toStart.any (·.1 == pod) then { t with toStart := t.toStart.map fun (k, l) => if k == pod then (k, l ++ [c]) else (k, l) }
  else { t with toStart := t.toStart ++ [(pod, [c])] }
def Tbl.started (t : Tbl) (pod : Str) : List Str := (t.toStart.lookup pod).getD []

/-- insertion sort by priority: one of the orders `sort_unstable_by` may produce -/
def insertByPrio (q : QUnit) : List QUnit → List QUnit
  | [] => [q]
  | x :: xs => if prio q.ty < prio x.ty then q :: x :: xs else x :: insertByPrio q xs
def sortByPrio (qs : List QUnit) : List QUnit := qs.foldl (fun acc q => insertByPrio q acc) []

inductive Out | ok (svc : SUnit) | err (e : Err) | outOfModel

def convertStepU (isUser : Bool) (t : Tbl) (q : QUnit) : Tbl × Out :=
  let E : Env := { info := t.get, isUser := isUser, pathExists := fun p => p == s "/dev/null" }
  let ty := q.ty
  if ty == s "image" then match fromImage E q.path q.unit with
    | .ok (svc, r) => (t.setRes q.name r, .ok svc) | .error e => (t, .err e)
  else if ty == s "volume" then
    -- the volume publishes its name right after the key checks, before anything else can fail
    let published : Option Str :=
      if (firstUnknown (entriesOf q.unit (s "Volume")) supportedVolume).isSome
         || (firstUnknown (entriesOf q.unit (s "Quadlet")) supportedQuadlet).isSome then none
      else
        let vn := (lookup q.unit (s "Volume") (s "VolumeName")).getD []
        some (if vn.isEmpty then s "systemd-" ++ fileStem q.name else vn)
    let t' := match published with | some r => t.setRes q.name r | none => t
    match fromVolume E q.path q.unit with
    | .ok (svc, _) => (t', .ok svc) | .error e => (t', .err e)
  else if ty == s "network" then match fromNetwork E q.path q.unit with
    | .ok (svc, r) => (t.setRes q.name r, .ok svc) | .error e => (t, .err e)
  else if ty == s "build" then match fromBuild E q.path q.unit with
    | .ok svc => (t, .ok svc) | .error e => (t, .err e)
  else if ty == s "kube" then match fromKube E q.path q.unit with
    | .ok svc => (t, .ok svc) | .error e => (t, .err e)
  else if ty == s "pod" then match fromPod E q.path q.unit (t.started q.name) with
    | .ok svc => (t, .ok svc) | .error e => (t, .err e)
  else match fromContainer E q.path q.unit with
    | none => (t, .outOfModel)
    | some (.ok (svc, link)) => ((match link with | some (p, c) => t.link p c | none => t), .ok svc)
    | some (.error e) =>
      -- handle_pod records the container before the remaining steps; nothing after it can fail except add_raw
      (t, .err e)

def convertStep (t : Tbl) (q : QUnit) : Tbl × Out := convertStepU false t q

def processUnits (qs : List QUnit) : List (QUnit × Out) :=
  let t0 : Tbl := { infos := qs.map fun q => (q.name, prefill q), toStart := [] }
  let order := sortByPrio qs
  (order.foldl (fun (acc : Tbl × List (QUnit × Out)) q =>
    let (t', o) := convertStep acc.1 q
    (t', acc.2 ++ [(q, o)])) (t0, [])).2

end Cv
