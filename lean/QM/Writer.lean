namespace Wr

/-- BufWriter over a sink that accepts `limit` bytes in total and then fails every write
    (`limit = 0` is /dev/full). Only byte counts matter for the property. -/
structure W where
  buf : Nat        -- bytes sitting in the buffer
  written : Nat    -- bytes the sink has accepted
  deriving Repr

def flushBuf (limit : Nat) (w : W) : Option W :=
  if w.written + w.buf ≤ limit then some { buf := 0, written := w.written + w.buf } else none

/-- BufWriter::write_all for one chunk of `n` bytes (std's algorithm: spill first if the chunk does
    not fit, write through if the chunk is at least as large as the buffer, else buffer it) -/
def writeAll (limit cap : Nat) (w : W) (n : Nat) : Option W :=
  (if w.buf + n > cap then flushBuf limit w else some w).bind fun w1 =>
    if n ≥ cap then
      (if w1.written + n ≤ limit then some { w1 with written := w1.written + n } else none)
    else some { w1 with buf := w1.buf + n }

def writeChunks (limit cap : Nat) : W → List Nat → Option W
  | w, [] => some w
  | w, n :: ns => (writeAll limit cap w n).bind (writeChunks limit cap · ns)

/-- generate_service_file after File::create succeeded: write the chunks, then (repaired code only)
    flush explicitly; the buffer is flushed again on drop with the result discarded. true = Ok(()) -/
def generate (fixed : Bool) (limit cap : Nat) (chunks : List Nat) : Bool :=
  match writeChunks limit cap ⟨0, 0⟩ chunks with
  | none => false
  | some w => if fixed then (flushBuf limit w).isSome else true

theorem writeAll_inv (limit cap : Nat) (w w' : W) (n : Nat) (h : writeAll limit cap w n = some w')
    (hw : w.written ≤ limit) : w'.buf + w'.written = w.buf + w.written + n ∧ w'.written ≤ limit := by
  unfold writeAll at h
  by_cases h1 : w.buf + n > cap
  · simp only [h1, if_true] at h
    unfold flushBuf at h
    by_cases h2 : w.written + w.buf ≤ limit
    · simp only [h2, if_true, Option.bind_some] at h
      by_cases h3 : n ≥ cap
      · simp only [h3, if_true] at h
        by_cases h4 : w.written + w.buf + n ≤ limit
        · simp only [h4, if_true, Option.some.injEq] at h; subst h; simp; omega
        · simp [h4] at h
      · simp only [h3, if_false, Option.some.injEq] at h; subst h; simp; omega
    · simp [h2] at h
  · simp only [h1, if_false, Option.bind_some] at h
    by_cases h3 : n ≥ cap
    · simp only [h3, if_true] at h
      by_cases h4 : w.written + n ≤ limit
      · simp only [h4, if_true, Option.some.injEq] at h; subst h; simp; omega
      · simp [h4] at h
    · simp only [h3, if_false, Option.some.injEq] at h; subst h; simp; omega

theorem writeChunks_inv (limit cap : Nat) (chunks : List Nat) :
    ∀ (w w' : W), writeChunks limit cap w chunks = some w' → w.written ≤ limit →
      w'.buf + w'.written = w.buf + w.written + chunks.sum ∧ w'.written ≤ limit := by
  induction chunks with
  | nil => intro w w' h hw; simp [writeChunks] at h; subst h; simp [hw]
  | cons n ns ih =>
    intro w w' h hw
    simp only [writeChunks] at h
    cases h1 : writeAll limit cap w n with
    | none => simp [h1] at h
    | some w1 =>
      simp only [h1, Option.bind_some] at h
      obtain ⟨a, b⟩ := writeAll_inv limit cap w w1 n h1 hw
      obtain ⟨c, d⟩ := ih w1 w' h b
      simp; omega

/-- C18 (writer, repaired): whenever the sink cannot take the whole file — wherever the failing write
    falls, including only at the final flush — generate reports an error -/
theorem C18_reported (limit cap : Nat) (chunks : List Nat) (h : chunks.sum > limit) :
    generate true limit cap chunks = false := by
  unfold generate
  cases hw : writeChunks limit cap ⟨0, 0⟩ chunks with
  | none => rfl
  | some w =>
    obtain ⟨a, b⟩ := writeChunks_inv limit cap chunks ⟨0, 0⟩ w hw (by simp)
    simp only [if_true, flushBuf]
    have : ¬ (w.written + w.buf ≤ limit) := by simp at a; omega
    simp [this]

/-- D11 as a theorem about the model of the pinned code: a 100-byte service written to /dev/full -/
theorem C18_counterexample : generate false 0 8192 [40, 60] = true := by decide

/-- and no false alarms: when everything fits the repaired code succeeds -/
theorem C18_ok (limit cap : Nat) (chunks : List Nat) (h : chunks.sum ≤ limit) :
    generate true limit cap chunks = true := by
  unfold generate
  have key : ∀ (ns : List Nat) (w : W), w.buf + w.written + ns.sum ≤ limit →
      ∃ w', writeChunks limit cap w ns = some w' := by
    intro ns
    induction ns with
    | nil => intro w _; exact ⟨w, rfl⟩
    | cons n ns ih =>
      intro w hw
      simp only [List.sum_cons] at hw
      have : ∃ w1, writeAll limit cap w n = some w1 ∧ w1.buf + w1.written = w.buf + w.written + n := by
        unfold writeAll flushBuf
        by_cases h1 : w.buf + n > cap
        · have h2 : w.written + w.buf ≤ limit := by omega
          simp only [h1, if_true, h2, Option.bind_some]
          by_cases h3 : n ≥ cap
          · have h4 : w.written + w.buf + n ≤ limit := by omega
            simp only [h3, if_true, h4]; exact ⟨_, rfl, by simp; omega⟩
          · simp only [h3, if_false]; exact ⟨_, rfl, by simp; omega⟩
        · simp only [h1, if_false, Option.bind_some]
          by_cases h3 : n ≥ cap
          · have h4 : w.written + n ≤ limit := by omega
            simp only [h3, if_true, h4]; exact ⟨_, rfl, by simp; omega⟩
          · simp only [h3, if_false]; exact ⟨_, rfl, by simp; omega⟩
      obtain ⟨w1, e1, e2⟩ := this
      obtain ⟨w', e'⟩ := ih w1 (by omega)
      exact ⟨w', by simp [writeChunks, e1, e']⟩
  obtain ⟨w, hw⟩ := key chunks ⟨0, 0⟩ (by simpa using h)
  obtain ⟨a, b⟩ := writeChunks_inv limit cap chunks ⟨0, 0⟩ w hw (by simp)
  simp only [hw, if_true, flushBuf]
  have : w.written + w.buf ≤ limit := by simp at a; omega
  simp [this]

end Wr
