namespace Wr

/-- BufWriter over a sink that accepts `limit` bytes in total and then fails every write
    (`limit = 0` is /dev/full). Only byte counts matter for the property. -/
structure W where
  buf : Nat        -- bytes sitting in the buffer
  written : Nat    -- bytes the sink has accepted
  deriving Repr

def flushBuf (limit : Nat) (w : W) : Option W :=
  if w.written + w.buf ≤ limit then some { buf := 0, written := w.written + w.buf } else none

/-- BufWriter::write_all for one chunk of `n` bytes (std's algorithm: spill first if the chunk does
    not fit, write through if the chunk is at least as large as the buffer, else buffer it) -/
def writeAll (limit cap : Nat) (w : W) (n : Nat) : Option W :=
  (if w.buf + n > cap then flushBuf limit w else some w).bind fun w1 =>
    if n ≥ cap then
      (if w1.written + n ≤ limit then some { w1 with written := w1.written + n } else none)
    else some { w1 with buf := w1.buf + n }

def writeChunks (limit cap : Nat) : W → List Nat → Option W
  | w, [] => some w
  | w, n :: ns => (writeAll limit cap w n).bind (writeChunks limit cap · ns)

/-- generate_service_file after File::create succeeded: write the chunks, then (repaired code only)
    flush explicitly; the buffer is flushed again on drop with the result discarded. true = Ok(()) -/
def generate (fixed : Bool) (limit cap : Nat) (chunks : List Nat) : Bool :=
  match writeChunks limit cap ⟨0, 0⟩ chunks with
  | none => false
  | some w => if fixed then (flushBuf limit w).isSome else true

theorem writeAll_inv (limit cap : Nat) (w w' : W) (n : Nat) (h : writeAll limit cap w n = some w')
    (hw : w.written ≤ limit) : w'.buf + w'.written = w.buf + w.written + n ∧ w'.written ≤ limit := by
  unfold writeAll at h
  by_cases h1 : w.buf + n > cap
  · simp only [h1, if_true] at h
    unfold flushBuf at h
    by_cases h2 : w.written + w.buf ≤ limit
    · simp only [h2, if_true, Option.bind_some] at h
      by_cases h3 : n ≥ cap
      · simp only [h3, if_true] at h
        by_cases h4 : w.written + w.buf + n ≤ limit
        · simp only [h4, if_true, Option.some.injEq] at h; subst h; simp; omega
        · simp [h4] at h
      · simp only [h3, if_false, Option.some.injEq] at h; subst h; simp; omega
    · simp [h2] at h
  · simp only [h1, if_false, Option.bind_some] at h
    by_cases h3 : n ≥ cap
    · simp only [h3, if_true] at h
      by_cases h4 : w.written + n ≤ limit
      · simp only [h4, if_true, Option.some.injEq] at h; subst h; simp; omega
      · simp [h4] at h
    · simp only [h3, if_false, Option.some.injEq] at h; subst h; simp; omega

theorem writeChunks_inv (limit cap : Nat) (chunks : List Nat) :
    ∀ (w w' : W), writeChunks limit cap w chunks = some w' → w.written ≤ limit →
      w'.buf + w'.written = w.buf + w.written + chunks.sum ∧ w'.written ≤ limit := by
  induction chunks with
  | nil => intro w w' h hw; simp [writeChunks] at h; subst h; simp [hw]
  | cons n ns ih =>
    intro w w' h hw
    simp only [writeChunks] at h
    cases h1 : writeAll limit cap w n with
    | none => simp [h1] at h
    | some w1 =>
      simp only [h1, Option.bind_some] at h
      obtain ⟨a, b⟩ := writeAll_inv limit cap w w1 n h1 hw
      obtain ⟨c, d⟩ := ih w1 w' h b
      simp; omega

/-! ### the write loop of `process` -/

inductive Fault
  | none                 -- nothing goes wrong
  | create               -- File::create fails (path occupied by a directory, read-only location, …)
  | sink (limit : Nat)   -- the sink accepts `limit` bytes in total and then fails (0 = /dev/full)

structure Job where
  name : List Char       -- service file
  chunks : List Nat      -- sizes of the pieces handed to the writer (header line, then write_to's writeln!s)

structure Outcome where
  errors : List (List Char)    -- service paths mentioned in logged errors
  written : List (List Char)
  enabled : List (List Char)

/-- generate_service_file: Ok(()) or Err -/
def writeOne (cap : Nat) (f : Fault) (j : Job) : Bool :=
  match f with
  | .none => true
  | .create => false
  | .sink l => generate true l cap j.chunks

/-- the loop: a failing unit is recorded and skipped (`continue`), it is not enabled; the others go on -/
def loopStep (cap : Nat) (o : Outcome) (jf : Job × Fault) : Outcome :=
  if writeOne cap jf.2 jf.1 then { o with written := o.written ++ [jf.1.name], enabled := o.enabled ++ [jf.1.name] }
  else { o with errors := o.errors ++ [jf.1.name] }

def runWrites (cap : Nat) (jobs : List (Job × Fault)) : Outcome := jobs.foldl (loopStep cap) ⟨[], [], []⟩

def exitStatus (o : Outcome) : Nat := if o.errors.isEmpty then 0 else 1

end Wr
