import QM.ParseRT
namespace Parse

/-- a fragment of a value: no newline, every backslash is a good pair -/
abbrev fragOK := bsOK

theorem pv_frag (f : Str) (h : bsOK f = true) (acc t : Str) (ht : ∀ c, t.head? = some c → c = '\\' ∨ c = '\n') :
    pv .normal 0 acc (f ++ t) = pv .normal 0 (f.reverse ++ acc) t := by
  fun_induction bsOK f generalizing acc with
  | case1 => simp
  | case2 c hc => simp at h
  | case3 c hc d r' ih =>
    simp only [beq_iff_eq] at hc; subst hc
    simp only [Bool.and_eq_true, bne_iff_ne, ne_eq] at h
    obtain ⟨⟨h1, h2⟩, h3⟩ := h
    have e1 : (d == ' ') = false := by simpa using h1
    have e2 : (d == '\n') = false := by simpa using h2
    simp only [List.cons_append, pv, beq_self_eq_true, if_true, e1, e2, Bool.false_eq_true, if_false,
      List.replicate_zero, List.nil_append]
    rw [ih h3]; simp
  | case4 c r hc ih =>
    simp only [Bool.and_eq_true, bne_iff_ne, ne_eq] at h
    have e1 : (c == '\\') = false := by simpa using hc
    have e2 : (c == '\n') = false := by simpa using h.1
    simp only [List.cons_append, pv, e1, e2, Bool.false_eq_true, if_false]
    rw [ih h.2]; simp

/-- backslash, k spaces, newline: the continuation; the value gains exactly one space -/
theorem pv_continuation (k : Nat) (acc r : Str) :
    pv .normal 0 acc ('\\' :: (List.replicate k ' ' ++ '\n' :: r)) = pv .lc k (' ' :: acc) r := by
  simp only [pv, beq_self_eq_true, if_true]
  suffices h : ∀ ign, pv .bs ign acc (List.replicate k ' ' ++ '\n' :: r) = pv .lc (ign + k) (' ' :: acc) r by
    simpa using h 0
  induction k with
  | zero => intro ign; simp [pv]
  | succ k ih =>
    intro ign
    simp only [List.replicate_succ, List.cons_append, pv, beq_self_eq_true, if_true]
    rw [ih]; congr 1; omega

/-- a comment line between continued lines is skipped -/
theorem pv_comment (m : Char) (hm : m = '#' ∨ m = ';') (text : Str) (ht : ∀ c ∈ text, c ≠ '\n')
    (ign : Nat) (acc r : Str) :
    pv .lc ign acc (m :: text ++ '\n' :: r) = pv .lc 0 acc r := by
  have h1 : (m == '#' || m == ';') = true := by rcases hm with rfl | rfl <;> decide
  rw [List.cons_append, pv]; simp only [h1, if_true]
  induction text with
  | nil => simp [pv]
  | cons c text ih =>
    have : (c == '\n') = false := by simpa using ht c (by simp)
    simp only [List.cons_append, pv, this, Bool.false_eq_true, if_false]
    exact ih (fun d hd => ht d (by simp [hd]))

/-- the continued line starts a fragment: same as reading it in normal mode -/
theorem pv_resume (c : Char) (hc : c ≠ '#' ∧ c ≠ ';' ∧ c ≠ '\n' ∧ c ≠ '[') (ign : Nat) (acc r : Str) :
    pv .lc ign acc (c :: r) = pv .normal 0 acc (c :: r) := by
  obtain ⟨h1, h2, h3, h4⟩ := hc
  have e1 : (c == '#' || c == ';') = false := by simp [h1, h2]
  have e3 : (c == '\n') = false := by simpa using h3
  have e4 : (c == '[') = false := by simpa using h4
  by_cases hb : c = '\\'
  · subst hb; simp [pv]
  · have e5 : (c == '\\') = false := by simpa using hb
    simp [pv, e1, e3, e4, e5]

end Parse
