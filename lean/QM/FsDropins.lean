import QM.Fs
/-! Drop-in collection: one per name, the first directory that has the name wins, every name found anywhere is
    represented; the survivors are merged in name order. -/
namespace Cv
open MM

/-! ### collecting -/

theorem addConf_names_nodup (d : Str) (acc : List (Str × Str)) (name : Str) (h : (acc.map Prod.fst).Nodup) :
    ((addConf d acc name).map Prod.fst).Nodup := by
  unfold addConf
  split
  · exact h
  · rename_i hn
    simp only [List.map_append, List.map_cons, List.map_nil]
    rw [List.nodup_append]
    refine ⟨h, by simp, ?_⟩
    intro a ha b hb
    simp only [List.mem_singleton] at hb
    subst hb
    intro e
    subst e
    apply hn
    simp only [List.any_eq_true, beq_iff_eq]
    obtain ⟨x, hx, hxe⟩ := List.mem_map.mp ha
    exact ⟨x, hx, hxe⟩

theorem collectStep_names_nodup (t : Tree) (d : Str) (acc : List (Str × Str)) (h : (acc.map Prod.fst).Nodup) :
    ((collectStep t acc d).map Prod.fst).Nodup := by
  unfold collectStep
  generalize confsIn t d = ns
  induction ns generalizing acc with
  | nil => simpa
  | cons n ns ih => exact ih _ (addConf_names_nodup d acc n h)

/-- at most one drop-in per file name survives -/
theorem collect_names_nodup (t : Tree) (dd : List Str) : ((collectConfs t dd).map Prod.fst).Nodup := by
  unfold collectConfs
  suffices ∀ acc : List (Str × Str), (acc.map Prod.fst).Nodup → ((dd.foldl (collectStep t) acc).map Prod.fst).Nodup from
    this [] (by simp)
  induction dd with
  | nil => intro acc h; simpa
  | cons d dd ih => intro acc h; exact ih _ (collectStep_names_nodup t d acc h)

/-- an entry is kept once it is in the accumulator -/
theorem addConf_mono (d : Str) (acc : List (Str × Str)) (name : Str) (x : Str × Str) (h : x ∈ acc) : x ∈ addConf d acc name := by
  unfold addConf; split
  · exact h
  · exact List.mem_append_left _ h

theorem foldl_addConf_mono (d : Str) (ns : List Str) (a : List (Str × Str)) (x : Str × Str) (h : x ∈ a) :
    x ∈ ns.foldl (addConf d) a := by
  induction ns generalizing a with
  | nil => simpa
  | cons k ks ih => exact ih _ (addConf_mono d a k x h)

theorem collectStep_mono (t : Tree) (d : Str) (acc : List (Str × Str)) (x : Str × Str) (h : x ∈ acc) : x ∈ collectStep t acc d := by
  unfold collectStep
  generalize confsIn t d = ns
  induction ns generalizing acc with
  | nil => simpa
  | cons n ns ih => exact ih _ (addConf_mono d acc n x h)

theorem fold_collect_mono (t : Tree) (dd : List Str) (acc : List (Str × Str)) (x : Str × Str) (h : x ∈ acc) :
    x ∈ dd.foldl (collectStep t) acc := by
  induction dd generalizing acc with
  | nil => simpa
  | cons d dd ih => exact ih _ (collectStep_mono t d acc x h)

/-- after a directory was visited, every name it holds is represented -/
theorem addConf_has (d : Str) (acc : List (Str × Str)) (name : Str) : name ∈ (addConf d acc name).map Prod.fst := by
  unfold addConf; split
  · rename_i h
    simp only [List.any_eq_true, beq_iff_eq] at h
    obtain ⟨x, hx, e⟩ := h
    exact List.mem_map.mpr ⟨x, hx, e⟩
  · simp

theorem names_mono_addConf (d : Str) (acc : List (Str × Str)) (name n : Str) (h : n ∈ acc.map Prod.fst) :
    n ∈ (addConf d acc name).map Prod.fst := by
  obtain ⟨x, hx, e⟩ := List.mem_map.mp h
  exact List.mem_map.mpr ⟨x, addConf_mono d acc name x hx, e⟩

theorem collectStep_has (t : Tree) (d : Str) (acc : List (Str × Str)) (n : Str) (h : n ∈ confsIn t d) :
    n ∈ (collectStep t acc d).map Prod.fst := by
  unfold collectStep
  generalize confsIn t d = ns at h
  induction ns generalizing acc with
  | nil => simp at h
  | cons m ns ih =>
    simp only [List.foldl_cons]
    rcases List.mem_cons.mp h with rfl | h
    · have := addConf_has d acc n
      obtain ⟨x, hx, e⟩ := List.mem_map.mp this
      exact List.mem_map.mpr ⟨x, foldl_addConf_mono d ns _ x hx, e⟩
    · exact ih _ h

/-- every `*.conf` name found in any drop-in directory of the unit is represented among the survivors -/
theorem collect_complete (t : Tree) (dd : List Str) (d n : Str) (hd : d ∈ dd) (hn : n ∈ confsIn t d) :
    n ∈ (collectConfs t dd).map Prod.fst := by
  unfold collectConfs
  suffices ∀ acc : List (Str × Str), n ∈ (dd.foldl (collectStep t) acc).map Prod.fst from this []
  induction dd with
  | nil => simp at hd
  | cons e dd ih =>
    intro acc
    simp only [List.foldl_cons]
    rcases List.mem_cons.mp hd with rfl | hd'
    · have := collectStep_has t d acc n hn
      obtain ⟨x, hx, ex⟩ := List.mem_map.mp this
      exact List.mem_map.mpr ⟨x, fold_collect_mono t dd _ x hx, ex⟩
    · exact ih hd' _

/-- where a survivor comes from: -/
def FromFirst (t : Tree) (dd : List Str) (c : Str × Str) : Prop :=
  ∃ pre d post, dd = pre ++ d :: post ∧ c.2 = d ++ '/' :: c.1 ∧ c.1 ∈ confsIn t d ∧ ∀ d' ∈ pre, c.1 ∉ confsIn t d'

theorem addConf_new (d : Str) (acc : List (Str × Str)) (name : Str) (x : Str × Str) (h : x ∈ addConf d acc name) :
    x ∈ acc ∨ (x = (name, d ++ '/' :: name) ∧ name ∉ acc.map Prod.fst) := by
  unfold addConf at h
  split at h
  · exact Or.inl h
  · rename_i hn
    rcases List.mem_append.mp h with h | h
    · exact Or.inl h
    · right
      simp only [List.mem_singleton] at h
      refine ⟨h, ?_⟩
      intro hm
      apply hn
      obtain ⟨y, hy, e⟩ := List.mem_map.mp hm
      simp only [List.any_eq_true, beq_iff_eq]
      exact ⟨y, hy, e⟩

theorem collectStep_new (t : Tree) (d : Str) (acc : List (Str × Str)) (x : Str × Str) (h : x ∈ collectStep t acc d) :
    x ∈ acc ∨ (x.2 = d ++ '/' :: x.1 ∧ x.1 ∈ confsIn t d ∧ x.1 ∉ acc.map Prod.fst) := by
  unfold collectStep at h
  suffices ∀ (ns : List Str) (a : List (Str × Str)), (∀ n ∈ ns, n ∈ confsIn t d) → (∀ z ∈ acc, z ∈ a) →
      (∀ y ∈ a, y ∈ acc ∨ (y.2 = d ++ '/' :: y.1 ∧ y.1 ∈ confsIn t d ∧ y.1 ∉ acc.map Prod.fst)) →
      x ∈ ns.foldl (addConf d) a → x ∈ acc ∨ (x.2 = d ++ '/' :: x.1 ∧ x.1 ∈ confsIn t d ∧ x.1 ∉ acc.map Prod.fst) from
    this (confsIn t d) acc (fun _ h => h) (fun _ h => h) (fun y hy => Or.inl hy) h
  intro ns
  induction ns with
  | nil => intro a _ _ ha hx; exact ha x (by simpa using hx)
  | cons n ns ih =>
    intro a hns hsub ha hx
    simp only [List.foldl_cons] at hx
    apply ih (addConf d a n) (fun m hm => hns m (by simp [hm])) (fun z hz => addConf_mono d a n z (hsub z hz)) ?_ hx
    intro y hy
    rcases addConf_new d a n y hy with h | ⟨rfl, hnot⟩
    · exact ha y h
    · right
      refine ⟨rfl, hns n (by simp), ?_⟩
      intro hm
      apply hnot
      obtain ⟨z, hz, e⟩ := List.mem_map.mp hm
      exact List.mem_map.mpr ⟨z, hsub z hz, e⟩

/-- every survivor comes from the first directory, in priority order, that holds a drop-in of its name -/
theorem collect_from_first (t : Tree) (dd : List Str) : ∀ c ∈ collectConfs t dd, FromFirst t dd c := by
  unfold collectConfs
  suffices ∀ (post pre : List Str) (acc : List (Str × Str)), pre ++ post = dd →
      (∀ c ∈ acc, FromFirst t dd c) → (∀ d' ∈ pre, ∀ n ∈ confsIn t d', n ∈ acc.map Prod.fst) →
      ∀ c ∈ post.foldl (collectStep t) acc, FromFirst t dd c from
    this dd [] [] (by simp) (by simp) (by simp)
  intro post
  induction post with
  | nil => intro pre acc _ hacc _ c hc; exact hacc c (by simpa using hc)
  | cons d post ih =>
    intro pre acc hsplit hacc hseen c hc
    simp only [List.foldl_cons] at hc
    apply ih (pre ++ [d]) (collectStep t acc d) (by rw [← hsplit]; simp) ?_ ?_ c hc
    · intro x hx
      rcases collectStep_new t d acc x hx with h | ⟨hp, hin, hnot⟩
      · exact hacc x h
      · refine ⟨pre, d, post, hsplit.symm, hp, hin, ?_⟩
        intro d' hd' hmem
        exact hnot (hseen d' hd' _ hmem)
    · intro d' hd' n hn
      rcases List.mem_append.mp hd' with h | h
      · obtain ⟨x, hx, e⟩ := List.mem_map.mp (hseen d' h n hn)
        exact List.mem_map.mpr ⟨x, collectStep_mono t d acc x hx, e⟩
      · simp only [List.mem_singleton] at h
        subst h
        exact collectStep_has t d' acc n hn

/-! ### sorting -/

theorem insertSorted_perm (x : Str × Str) (l : List (Str × Str)) : (insertSorted x l).Perm (x :: l) := by
  induction l with
  | nil => simp [insertSorted]
  | cons y ys ih =>
    simp only [insertSorted]
    split
    · exact List.Perm.refl _
    · exact (List.Perm.cons y ih).trans (List.Perm.swap x y ys)

theorem sortConfs_perm (confs : List (Str × Str)) : (sortConfs confs).Perm confs := by
  unfold sortConfs
  suffices ∀ acc : List (Str × Str), (confs.foldl (fun acc c => insertSorted c acc) acc).Perm (confs ++ acc) by
    simpa using this []
  induction confs with
  | nil => intro acc; simp
  | cons c cs ih =>
    intro acc
    simp only [List.foldl_cons]
    refine (ih _).trans ?_
    refine (List.Perm.append_left cs (insertSorted_perm c acc)).trans ?_
    simp only [List.cons_append]
    exact List.perm_middle

def SortedByName (l : List (Str × Str)) : Prop := l.Pairwise (fun a b => leStr a.1 b.1 = true)

theorem leStr_total (a b : Str) : leStr a b = false → leStr b a = true := by
  unfold leStr
  intro h
  have h' : ¬ (String.ofList a ≤ String.ofList b) := by simpa using h
  rcases String.le_total (String.ofList a) (String.ofList b) with h2 | h2
  · exact absurd h2 h'
  · simpa using h2

theorem leStr_trans (a b c : Str) : leStr a b = true → leStr b c = true → leStr a c = true := by
  unfold leStr
  intro h1 h2
  have h1' : String.ofList a ≤ String.ofList b := by simpa using h1
  have h2' : String.ofList b ≤ String.ofList c := by simpa using h2
  simpa using String.le_trans h1' h2'

theorem insertSorted_sorted (x : Str × Str) (l : List (Str × Str)) (h : SortedByName l) : SortedByName (insertSorted x l) := by
  induction l with
  | nil => simp [insertSorted, SortedByName]
  | cons y ys ih =>
    unfold SortedByName at h ih ⊢
    simp only [insertSorted]
    have hy := List.pairwise_cons.mp h
    split
    · rename_i hle
      refine List.pairwise_cons.mpr ⟨?_, h⟩
      intro z hz
      rcases List.mem_cons.mp hz with rfl | hz
      · exact hle
      · exact leStr_trans _ _ _ hle (hy.1 z hz)
    · rename_i hnle
      refine List.pairwise_cons.mpr ⟨?_, ih hy.2⟩
      intro z hz
      have := (insertSorted_perm x ys).subset hz
      rcases List.mem_cons.mp this with rfl | hz
      · exact leStr_total _ _ (by simpa using hnle)
      · exact hy.1 z hz

/-- the survivors are merged in (byte-wise) name order -/
theorem sortConfs_sorted (confs : List (Str × Str)) : SortedByName (sortConfs confs) := by
  unfold sortConfs
  suffices ∀ acc : List (Str × Str), SortedByName acc → SortedByName (confs.foldl (fun acc c => insertSorted c acc) acc) from
    this [] (by simp [SortedByName])
  induction confs with
  | nil => intro acc h; simpa
  | cons c cs ih => intro acc h; exact ih _ (insertSorted_sorted c acc h)

end Cv
