import QM.RenderEntry
namespace Parse

inductive Item
  | comment (indent : Str) (m : Char) (text : Str)
  | blank (ws : Str)
  | entry (e : REntry)

def renderItem : Item → Str
  | .comment ind m t => ind ++ m :: t
  | .blank ws => ws
  | .entry e => renderEntry e

def renderItems (items : List Item) : Str := items.flatMap (fun it => renderItem it ++ ['\n'])

def eraseItems (items : List Item) : List (Str × Str) :=
  items.filterMap fun
    | .entry e => some (e.key, trimEnd (denote e.frags e.lastT))
    | _ => none

def Item.WF (env : Env) : Item → Prop
  | .comment ind m t => (∀ c ∈ ind, isSpTab c = true) ∧ (m = '#' ∨ m = ';') ∧ ∀ c ∈ t, c ≠ '\n'
  | .blank ws => ∀ c ∈ ws, isSpTab c = true
  | .entry e => e.WF env

theorem sptab_asciiWs {c : Char} (h : isSpTab c = true) : isAsciiWs c = true ∧ (c == '#' || c == ';') = false ∧ (c == '[') = false := by
  simp only [isSpTab, Bool.or_eq_true, beq_iff_eq] at h
  rcases h with rfl | rfl <;> decide

theorem parseBody_skip (env : Env) (ws : Str) (h : ∀ c ∈ ws, isSpTab c = true) (fuel : Nat) (r : Str) :
    parseBody env (fuel + ws.length) (ws ++ r) = parseBody env fuel r := by
  induction ws with
  | nil => simp
  | cons c ws ih =>
    obtain ⟨h1, h2, h3⟩ := sptab_asciiWs (h c (by simp))
    simp only [List.length_cons, List.cons_append]
    rw [show fuel + (ws.length + 1) = (fuel + ws.length) + 1 by omega, parseBody]
    simp only [h2, h3, h1, Bool.false_eq_true, if_false, if_true]
    exact ih (fun d hd => h d (by simp [hd]))

theorem takeUntil_nl (t r : Str) (ht : ∀ c ∈ t, c ≠ '\n') :
    (takeUntil (· == '\n') (t ++ '\n' :: r)).2 = '\n' :: r := by
  have := takeUntil_append (· == '\n') t '\n' r (by intro x hx; simpa using ht x hx) (by decide)
  rw [this]

theorem parseBody_comment (env : Env) (fuel : Nat) (m : Char) (hm : m = '#' ∨ m = ';') (t r : Str)
    (ht : ∀ c ∈ t, c ≠ '\n') :
    parseBody env (fuel + 1) (m :: t ++ '\n' :: r) = parseBody env fuel ('\n' :: r) := by
  have h1 : (m == '#' || m == ';') = true := by rcases hm with rfl | rfl <;> decide
  rw [List.cons_append, parseBody]
  simp only [h1, if_true]
  have hm' : m ≠ '\n' := by rcases hm with rfl | rfl <;> decide
  have := takeUntil_nl (m :: t) r (by intro c hc; rcases List.mem_cons.mp hc with rfl | h; exact hm'; exact ht c h)
  simp only [List.cons_append] at this
  rw [this]

theorem parseBody_rentry (env : Env) (fuel : Nat) (e : REntry) (wf : e.WF env) (rest : Str) :
    parseBody env (fuel + 1) (e.key ++ (e.ws1 ++ '=' :: (e.ws2 ++ renderValue e.frags e.lastT)) ++ '\n' :: rest) =
      (match parseBody env fuel ('\n' :: rest) with
       | .error err => .error err
       | .ok (kvs, r') => .ok ((e.key, trimEnd (denote e.frags e.lastT)) :: kvs, r')) := by
  have hline := parseEntry_rendered env e wf rest
  cases hk : e.key with
  | nil => exact absurd hk wf.keyNonempty
  | cons c k' =>
    obtain ⟨h1, h2, h3⟩ := wf.keyFirst c (by simp [hk])
    rw [hk] at hline
    have e' : (c :: k') ++ (e.ws1 ++ '=' :: (e.ws2 ++ renderValue e.frags e.lastT)) ++ '\n' :: rest
        = c :: (k' ++ (e.ws1 ++ '=' :: (e.ws2 ++ renderValue e.frags e.lastT)) ++ '\n' :: rest) := by simp
    rw [e', parseBody]
    simp only [h1, h2, h3, Bool.false_eq_true, if_false]
    rw [← e', hline]
    rfl

end Parse

namespace Parse

theorem renderItems_cons (it : Item) (items : List Item) :
    renderItems (it :: items) = renderItem it ++ '\n' :: renderItems items := by
  simp [renderItems]

/-- C03, section body: any mixture of comment lines, blank lines and entries (each with its own
    indentation, spacing and multi-line value spelling) parses to exactly the entries, in order -/
theorem parseBody_items (env : Env) (items : List Item) (wf : ∀ it ∈ items, it.WF env)
    (tail : Str) (htail : tail = [] ∨ ∃ t, tail = '[' :: t) :
    ∀ fuel, fuel ≥ (renderItems items).length + 1 →
      parseBody env fuel (renderItems items ++ tail) = .ok (eraseItems items, tail) := by
  induction items with
  | nil =>
    intro fuel hf
    obtain ⟨f, rfl⟩ : ∃ f, fuel = f + 1 := ⟨fuel - 1, by simp [renderItems] at hf; omega⟩
    rcases htail with rfl | ⟨t, rfl⟩ <;> simp [renderItems, eraseItems, parseBody]
  | cons it items ih =>
    intro fuel hf
    have ih' := ih (fun x hx => wf x (by simp [hx]))
    have hw := wf it (by simp)
    rw [renderItems_cons] at hf ⊢
    cases it with
    | blank ws =>
      simp only [renderItem, List.length_append, List.length_cons] at hf
      obtain ⟨f, rfl⟩ : ∃ f, fuel = (f + 1) + ws.length := ⟨fuel - 1 - ws.length, by omega⟩
      simp only [renderItem, List.append_assoc, List.cons_append]
      rw [parseBody_skip env ws hw, parseBody_nl, ih' f (by omega)]
      simp [eraseItems]
    | comment ind m t =>
      obtain ⟨h1, h2, h3⟩ := hw
      simp only [renderItem, List.length_append, List.length_cons] at hf
      obtain ⟨f, rfl⟩ : ∃ f, fuel = (f + 1 + 1) + ind.length := ⟨fuel - 2 - ind.length, by omega⟩
      simp only [renderItem, List.append_assoc, List.cons_append]
      rw [parseBody_skip env ind h1]
      have := parseBody_comment env (f + 1) m h2 t (renderItems items ++ tail) h3
      simp only [List.cons_append] at this
      rw [this, parseBody_nl, ih' f (by omega)]
      simp [eraseItems]
    | entry e =>
      have hw' : e.WF env := hw
      simp only [renderItem, renderEntry, List.length_append, List.length_cons] at hf
      obtain ⟨f, rfl⟩ : ∃ f, fuel = (f + 1 + 1) + e.indent.length := ⟨fuel - 2 - e.indent.length, by omega⟩
      simp only [renderItem, renderEntry, List.append_assoc, List.cons_append]
      rw [parseBody_skip env e.indent hw'.indent]
      have := parseBody_rentry env (f + 1) e hw' (renderItems items ++ tail)
      simp only [List.append_assoc, List.cons_append] at this
      rw [this, parseBody_nl, ih' f (by omega)]
      simp [eraseItems]

end Parse
