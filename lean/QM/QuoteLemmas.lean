import QM.Quote
import QM.EscLemmas
namespace P

@[simp] theorem ef_unquote : execFlags.unquote = true := rfl
@[simp] theorem ef_cunescape : execFlags.cunescape = true := rfl
@[simp] theorem ef_relax : execFlags.relax = false := rfl
@[simp] theorem ef_retain : execFlags.retainEscape = false := rfl

theorem unhex_hexDigit : ∀ n, n < 16 → unhex (hexDigit n) = some n := by decide

@[simp] theorem specCfg_tbl : specCfg.tbl = simpleTable := rfl

/-! ### facts about the tables extracted from quoted.rs (re-checked against the source on every run) -/

/-- an arm of `quote_value` is either the character itself (allowed when the character is inert
    inside double quotes) or a backslash and a letter that systemd decodes to that character -/
def armOK (p : Char × Str) : Bool :=
  (p.2 == [p.1] && p.1 != '"' && p.1 != '\\') ||
  (match p.2 with
   | [b, e] => b == '\\' && simpleTable.lookup e == some p.1
   | _ => false)

theorem quoteArms_sound : ∀ p ∈ Gen.quoteArms, armOK p = true := by decide
theorem quoteDefaultFmt_eq : Gen.quoteDefaultFmt = fmt02x := by decide
theorem threshold_le : Gen.needsEscapingThreshold ≤ 128 := by decide
theorem escChars_ascii : ∀ c ∈ Gen.needsEscapingChars, c.toNat < 128 := by decide
/-- every character that is active for systemd's splitter (separator, quote, backslash) is escaped -/
theorem active_needsEsc : ∀ c ∈ [' ', '\t', '\n', '\r', '"', '\'', '\\'], needsEsc c = true := by decide
/-- the characters that go through the default `\xHH` arm are not active inside double quotes -/
theorem default_arm_chars : Gen.quoteArms.lookup '"' ≠ none ∧ Gen.quoteArms.lookup '\\' ≠ none := by decide

theorem classHolds_ascii {cls c} (h : classHolds cls c = true) : c.toNat < 128 := by
  unfold classHolds at h
  split at h
  · simp only [isAsciiControl, Bool.or_eq_true, decide_eq_true_eq, beq_iff_eq] at h; omega
  · split at h
    · simp only [isAsciiWhitespace, Bool.or_eq_true, beq_iff_eq] at h
      rcases h with (((h | h) | h) | h) | h <;> subst h <;> decide
    · simp at h

theorem needsEsc_ascii {c} (h : needsEsc c = true) : c.toNat < 128 := by
  simp only [needsEsc, Bool.and_eq_true, Bool.not_eq_true', decide_eq_false_iff_not, Bool.or_eq_true,
    List.any_eq_true] at h
  rcases h.2 with ⟨cls, _, hc⟩ | hc
  · exact classHolds_ascii hc
  · exact escChars_ascii c (by simpa using hc)

theorem decode_hex (c : Char) (hlt : c.toNat < 128) (hnz : c.toNat ≠ 0) (t : Str) :
    decode specCfg ('x' :: hexDigit (c.toNat / 16) :: hexDigit (c.toNat % 16) :: t) = some (c, t) := by
  have e1 := unhex_hexDigit (c.toNat / 16) (by omega)
  have e2 := unhex_hexDigit (c.toNat % 16) (by omega)
  have e3 : c.toNat / 16 * 16 + c.toNat % 16 = c.toNat := by omega
  have hl : simpleTable.lookup 'x' = none := by decide
  have hk : numKindOf 'x' = some .x := by decide
  simp [decode, hl, hk, readNum, readDigits, e1, e2, e3, specCfg, hnz, hlt]

/-- one character of a double-quoted word decodes to itself -/
theorem word_escChar (c : Char) (hc : c ≠ '\x00') (acc t : Str) :
    Spec.word execFlags (some '"') false acc (escChar c ++ t) = Spec.word execFlags (some '"') false (c :: acc) t := by
  unfold escChar
  by_cases hn : needsEsc c = true
  · simp only [hn, Bool.not_true, Bool.false_eq_true, if_false]
    cases hl : Gen.quoteArms.lookup c with
    | some e =>
      have hok := quoteArms_sound _ (lookup_mem _ _ _ hl)
      simp only [armOK, Bool.or_eq_true] at hok
      rcases hok with hok | hok
      · -- literal arm
        simp only [Bool.and_eq_true, beq_iff_eq, bne_iff_ne, ne_eq] at hok
        obtain ⟨⟨he, h1⟩, h2⟩ := hok
        subst he
        rw [List.singleton_append, Spec.word]; simp [h1, h2, execFlags]
      · -- backslash arm
        split at hok
        · rename_i b e'
          simp only [Bool.and_eq_true, beq_iff_eq] at hok
          obtain ⟨hb, hm⟩ := hok
          subst hb
          have hd : decode specCfg (e' :: t) = some (c, t) := by simp [decode, hm]
          simp only [List.cons_append, List.nil_append]
          rw [Spec.word]; simp only [execFlags]
          simp only [show ('\\' == '"') = false by decide, Bool.false_eq_true, if_false,
            beq_self_eq_true, Bool.not_false, Bool.and_self, if_true]
          rw [Spec.word]; simp only [if_true]
          split
          · rename_i d r' heq; rw [hd] at heq; simp at heq; obtain ⟨rfl, rfl⟩ := heq; rfl
          · rename_i heq; rw [hd] at heq; simp at heq
        · simp at hok
    | none =>
      have hlt : c.toNat < 128 := needsEsc_ascii hn
      have hnz : c.toNat ≠ 0 := by
        intro e; apply hc; apply Char.toNat_inj.mp; simpa using e
      have hd := decode_hex c hlt hnz t
      simp only [defaultArm, quoteDefaultFmt_eq, beq_self_eq_true, if_true, List.cons_append, List.nil_append]
      rw [Spec.word]; simp only [execFlags]
      simp only [show ('\\' == '"') = false by decide, Bool.false_eq_true, if_false,
        beq_self_eq_true, Bool.not_false, Bool.and_self, if_true]
      rw [Spec.word]; simp only [if_true]
      split
      · rename_i d r' heq; rw [hd] at heq; simp at heq; obtain ⟨rfl, rfl⟩ := heq; rfl
      · rename_i heq; rw [hd] at heq; simp at heq
  · have hn' : needsEsc c = false := by simpa using hn
    have h1 : c ≠ '"' := by intro e; subst e; have := active_needsEsc '"' (by simp); simp [hn'] at this
    have h2 : c ≠ '\\' := by intro e; subst e; have := active_needsEsc '\\' (by simp); simp [hn'] at this
    simp only [hn, Bool.not_false, if_true, List.singleton_append]
    rw [Spec.word]; simp [h1, h2, execFlags]

theorem word_quoteValue (w : Str) (hw : ∀ c ∈ w, c ≠ '\x00') (acc t : Str) :
    Spec.word execFlags (some '"') false acc (quoteValue w ++ t)
      = Spec.word execFlags (some '"') false (w.reverse ++ acc) t := by
  induction w generalizing acc with
  | nil => simp [quoteValue]
  | cons c w ih =>
    have : quoteValue (c :: w) = escChar c ++ quoteValue w := by simp [quoteValue]
    rw [this, List.append_assoc, word_escChar c (hw c (by simp)), ih (fun d hd => hw d (by simp [hd]))]
    simp

end P

namespace P

/-- a character that needs no escaping is inert for the splitter -/
theorem plain_of_not_needsEsc {c : Char} (h : needsEsc c = false) :
    isQuote c = false ∧ c ≠ '\\' ∧ isSep c = false := by
  have key : ∀ d ∈ [' ', '\t', '\n', '\r', '"', '\'', '\\'], c ≠ d := by
    intro d hd e; subst e; have := active_needsEsc c hd; simp [h] at this
  refine ⟨?_, key _ (by simp), ?_⟩
  · simp only [isQuote, Bool.or_eq_false_iff, beq_eq_false_iff_ne, ne_eq]
    exact ⟨key _ (by simp), key _ (by simp)⟩
  · simp only [isSep, Bool.or_eq_false_iff, beq_eq_false_iff_ne, ne_eq]
    exact ⟨⟨⟨key _ (by simp), key _ (by simp)⟩, key _ (by simp)⟩, key _ (by simp)⟩

theorem word_plain (w : Str) (hw : ∀ c ∈ w, needsEsc c = false) (acc t : Str) :
    Spec.word execFlags none false acc (w ++ t) = Spec.word execFlags none false (w.reverse ++ acc) t := by
  induction w generalizing acc with
  | nil => simp
  | cons c w ih =>
    obtain ⟨h1, h2, h3⟩ := plain_of_not_needsEsc (hw c (by simp))
    rw [List.cons_append, Spec.word]
    simp only [h1, Bool.false_and, Bool.false_eq_true, if_false, h3]
    have : (c == '\\') = false := by simpa using h2
    simp only [this, Bool.false_and, Bool.false_eq_true, if_false]
    rw [ih (fun d hd => hw d (by simp [hd]))]
    simp

/-- what the splitter does at the end of a word -/
theorem word_end_sep (acc rest : Str) :
    Spec.word execFlags none false acc (' ' :: rest) = .word acc.reverse (dropSeps rest) := by
  rw [Spec.word]; simp [isQuote, isSep, execFlags]

theorem word_end_nil (acc : Str) : Spec.word execFlags none false acc [] = .word acc.reverse [] := by
  rw [Spec.word]

theorem quoteWord_ne_nil (w : Str) : quoteWord w ≠ [] := by
  unfold quoteWord; split
  · simp
  · rename_i h; simp at h; intro e; exact h.1 e

/-- the first character of a rendered word is not a separator -/
theorem dropSeps_quoteWord (w t : Str) : dropSeps (quoteWord w ++ t) = quoteWord w ++ t := by
  unfold quoteWord; split
  · simp [dropSeps, isSep]
  · rename_i h
    simp only [Bool.or_eq_true, not_or, Bool.not_eq_true] at h
    cases w with
    | nil => simp at h
    | cons c w =>
      have hc : needsEsc c = false := by
        have := h.2; simp only [List.any_cons, Bool.or_eq_false_iff] at this; exact this.1
      simp [dropSeps, (plain_of_not_needsEsc hc).2.2]

theorem extractFirst_nonsep (f : Flags) (c : Char) (r : Str) (h : isSep c = false) :
    Spec.extractFirst f (c :: r) = Spec.word f none false [] (c :: r) := by
  simp [Spec.extractFirst, dropSeps, h]

/-- one rendered word followed by `t` is read back as that word, leaving `t` to the end-of-word rule -/
theorem word_quoteWord (w : Str) (hw : ∀ c ∈ w, c ≠ '\x00') (t : Str) :
    Spec.extractFirst execFlags (quoteWord w ++ t) = Spec.word execFlags none false w.reverse t := by
  unfold quoteWord
  by_cases hq : (w.isEmpty || w.any needsEsc) = true
  · -- quoted
    simp only [hq, if_true, List.cons_append, List.append_assoc, List.nil_append]
    rw [extractFirst_nonsep _ _ _ (by decide)]
    rw [Spec.word]; simp only [isQuote, ef_unquote, beq_self_eq_true, Bool.true_or, Bool.and_self, if_true]
    rw [word_quoteValue w hw]
    rw [Spec.word]; simp
  · -- plain
    simp only [hq, Bool.false_eq_true, if_false]
    simp only [Bool.or_eq_true, not_or, Bool.not_eq_true] at hq
    have hall : ∀ c ∈ w, needsEsc c = false := by
      intro c hc
      have := hq.2
      rw [List.any_eq_false] at this
      simpa using this c hc
    cases w with
    | nil => simp at hq
    | cons c w =>
      rw [List.cons_append, extractFirst_nonsep _ _ _ (plain_of_not_needsEsc (hall c (by simp))).2.2]
      rw [← List.cons_append, word_plain (c :: w) hall]
      simp

end P

namespace P

theorem dropSeps_joinSp_quote (w : Str) (ws : List Str) :
    dropSeps (joinSp ((w :: ws).map quoteWord)) = joinSp ((w :: ws).map quoteWord) := by
  cases ws with
  | nil => simpa [joinSp] using dropSeps_quoteWord w []
  | cons w' ws => simpa [joinSp] using dropSeps_quoteWord w (' ' :: joinSp ((w' :: ws).map quoteWord))

theorem collect_quoteWords (ws : List Str) (hw : ∀ w ∈ ws, ∀ c ∈ w, c ≠ '\x00') :
    ∀ fuel, fuel > ws.length → collect (Spec.extractFirst execFlags) fuel (quoteWords ws) = some ws := by
  induction ws with
  | nil =>
    intro fuel hf
    cases fuel with
    | zero => omega
    | succ n => simp [collect, quoteWords, joinSp, Spec.extractFirst, dropSeps]
  | cons w ws ih =>
    intro fuel hf
    cases fuel with
    | zero => omega
    | succ n =>
      have hw1 := hw w (by simp)
      have ih' := ih (fun v hv => hw v (by simp [hv])) n (by simp at hf; omega)
      cases ws with
      | nil =>
        have e : quoteWords [w] = quoteWord w ++ [] := by simp [quoteWords, joinSp]
        rw [collect, e, word_quoteWord w hw1, word_end_nil]
        simp only [List.reverse_reverse]
        simp [quoteWords, joinSp] at ih'
        rw [ih']; rfl
      | cons w' ws =>
        have e : quoteWords (w :: w' :: ws) = quoteWord w ++ ' ' :: quoteWords (w' :: ws) := by
          simp [quoteWords, joinSp]
        rw [collect, e, word_quoteWord w hw1, word_end_sep]
        simp only [List.reverse_reverse]
        have : dropSeps (quoteWords (w' :: ws)) = quoteWords (w' :: ws) := dropSeps_joinSp_quote w' ws
        rw [this, ih']; rfl

theorem quoteWords_length (ws : List Str) : ws.length ≤ (quoteWords ws).length := by
  induction ws with
  | nil => simp
  | cons w ws ih =>
    have h1 : 1 ≤ (quoteWord w).length := by
      have := quoteWord_ne_nil w
      cases hq : quoteWord w with
      | nil => exact absurd hq this
      | cons _ _ => simp
    cases ws with
    | nil => simp [quoteWords, joinSp]; omega
    | cons w' ws =>
      have e : quoteWords (w :: w' :: ws) = quoteWord w ++ ' ' :: quoteWords (w' :: ws) := by
        simp [quoteWords, joinSp]
      rw [e]; simp at ih ⊢; omega

end P
