namespace SU
abbrev Str := List Char
abbrev Entries := List (Str × Str)
abbrev SUnit := List (Str × Entries)

def entriesOf (u : SUnit) (sec : Str) : Entries := (u.lookup sec).getD []

/-- add_entry_value: append to the (unique) section, creating it at the end when absent -/
def addEntry : SUnit → Str → Str → Str → SUnit
  | [], sec, key, raw => [(sec, [(key, raw)])]
  | (s, es) :: u, sec, key, raw =>
    if s == sec then (s, es ++ [(key, raw)]) :: u else (s, es) :: addEntry u sec key raw

def removeSection (u : SUnit) (sec : Str) : SUnit := u.filter (fun p => !(p.1 == sec))

def addAll (u : SUnit) (sec : Str) (es : Entries) : SUnit := es.foldl (fun u kv => addEntry u sec kv.1 kv.2) u

/-- set_entry_value: all values of the key move to the end, the last one replaced -/
def setEntry (u : SUnit) (sec key raw : Str) : SUnit :=
  match u.lookup sec with
  | none => u ++ [(sec, [(key, raw)])]
  | some es =>
    let others := es.filter (fun kv => !(kv.1 == key))
    let vals := (es.filter (fun kv => kv.1 == key)).dropLast
    u.map (fun p => if p.1 == sec then (p.1, others ++ vals ++ [(key, raw)]) else p)

/-- prepend_entry_value: the section is removed and re-created at the end with the new entry first -/
def prependEntry (u : SUnit) (sec key raw : Str) : SUnit :=
  addAll (addEntry (removeSection u sec) sec key raw) sec (entriesOf u sec)

def renameSection (u : SUnit) (frm to : Str) : SUnit :=
  match u.lookup frm with
  | none => u
  | some es => addAll (removeSection u frm) to es

def mergeFrom (u o : SUnit) : SUnit := o.foldl (fun u p => addAll u p.1 p.2) u

/-- the history of assignments to (sec,key), in order -/
def assignments (u : SUnit) (sec key : Str) : List Str :=
  (entriesOf u sec).filterMap (fun kv => if kv.1 == key then some kv.2 else none)

def resetStep (res : List Str) (v : Str) : List Str := if v.isEmpty then [] else res ++ [v]

/-- lookup_all_values: fold with reset on the empty value -/
def lookupAllValues (u : SUnit) (sec key : Str) : List Str :=
  (assignments u sec key).foldl resetStep []

def lookupLastValue (u : SUnit) (sec key : Str) : Option Str := (assignments u sec key).getLast?

theorem fold_noEmpty (suf res : List Str) (h : ∀ v ∈ suf, v.isEmpty = false) :
    suf.foldl resetStep res = res ++ suf := by
  induction suf generalizing res with
  | nil => simp
  | cons v suf ih =>
    have hv := h v (by simp)
    simp only [List.foldl_cons, resetStep, hv, Bool.false_eq_true, if_false]
    rw [ih _ (fun x hx => h x (by simp [hx]))]; simp

/-- C15 (lists): the effective value is exactly what was assigned after the last empty assignment -/
theorem fold_reset_spec (pre suf res : List Str) (hsuf : ∀ v ∈ suf, v.isEmpty = false)
    (hpre : pre = [] ∧ res = [] ∨ ∃ p, pre = p ++ [[]]) :
    (pre ++ suf).foldl resetStep res = suf := by
  rw [List.foldl_append]
  rcases hpre with ⟨rfl, rfl⟩ | ⟨p, rfl⟩
  · simpa using fold_noEmpty suf [] hsuf
  · rw [List.foldl_append]
    simp only [List.foldl_cons, List.foldl_nil, resetStep, List.isEmpty_nil, if_true]
    simpa using fold_noEmpty suf [] hsuf

theorem lookupAllValues_spec (u : SUnit) (sec key : Str) (pre suf : List Str)
    (hsplit : assignments u sec key = pre ++ suf) (hsuf : ∀ v ∈ suf, v.isEmpty = false)
    (hpre : pre = [] ∨ ∃ p, pre = p ++ [[]]) : lookupAllValues u sec key = suf := by
  unfold lookupAllValues
  rw [hsplit]
  exact fold_reset_spec pre suf [] hsuf (by rcases hpre with h | h; exact Or.inl ⟨h, rfl⟩; exact Or.inr h)

/-- every history splits that way (so the theorem above is never vacuous) -/
theorem history_split (h : List Str) : ∃ pre suf, h = pre ++ suf ∧ (∀ v ∈ suf, v.isEmpty = false) ∧
    (pre = [] ∨ ∃ p, pre = p ++ [[]]) := by
  induction h with
  | nil => exact ⟨[], [], rfl, by simp, Or.inl rfl⟩
  | cons v h ih =>
    obtain ⟨pre, suf, rfl, h1, h2⟩ := ih
    rcases h2 with rfl | ⟨p, rfl⟩
    · by_cases hv : v.isEmpty = true
      · have : v = [] := by simpa using hv
        subst this
        exact ⟨[[]], suf, by simp, h1, Or.inr ⟨[], rfl⟩⟩
      · refine ⟨[], v :: suf, by simp, ?_, Or.inl rfl⟩
        intro x hx
        rcases List.mem_cons.mp hx with rfl | h
        · simpa using hv
        · exact h1 x h
    · exact ⟨v :: p ++ [[]], suf, by simp, h1, Or.inr ⟨v :: p, by simp⟩⟩

end SU

namespace SU

theorem entriesOf_addEntry (u : SUnit) (sec key raw s' : Str) :
    entriesOf (addEntry u sec key raw) s' =
      if s' = sec then entriesOf u sec ++ [(key, raw)] else entriesOf u s' := by
  induction u with
  | nil =>
    by_cases hs : s' = sec
    · subst hs; simp [addEntry, entriesOf, List.lookup]
    · have : (s' == sec) = false := by simpa using hs
      simp [addEntry, entriesOf, List.lookup, this, hs]
  | cons p u ih =>
    obtain ⟨a, es⟩ := p
    simp only [addEntry]
    by_cases ha : a = sec
    · subst ha
      simp only [beq_self_eq_true, if_true]
      by_cases hs : s' = a
      · subst hs; simp [entriesOf, List.lookup]
      · have : (s' == a) = false := by simpa using hs
        simp [entriesOf, List.lookup, this, hs]
    · have hab : (a == sec) = false := by simpa using ha
      simp only [hab, Bool.false_eq_true, if_false]
      by_cases hs : s' = a
      · subst hs
        simp [entriesOf, List.lookup, ha]
      · have : (s' == a) = false := by simpa using hs
        have e1 : entriesOf ((a, es) :: addEntry u sec key raw) s' = entriesOf (addEntry u sec key raw) s' := by
          simp [entriesOf, List.lookup, this]
        have e2 : entriesOf ((a, es) :: u) s' = entriesOf u s' := by simp [entriesOf, List.lookup, this]
        rw [e1, e2, ih]
        by_cases hss : s' = sec
        · subst hss
          have : (s' == a) = false := by simpa using hs
          simp [entriesOf, List.lookup, this]
        · simp [hss]

theorem assignments_addEntry (u : SUnit) (sec key raw s' k' : Str) :
    assignments (addEntry u sec key raw) s' k' =
      assignments u s' k' ++ (if s' = sec ∧ key = k' then [raw] else []) := by
  unfold assignments
  rw [entriesOf_addEntry]
  by_cases hs : s' = sec
  · subst hs
    by_cases hk : key = k'
    · subst hk; simp
    · have : (key == k') = false := by simpa using hk
      simp [hk, this]
  · simp [hs]

theorem assignments_addAll (u : SUnit) (sec : Str) (es : Entries) (s' k' : Str) :
    assignments (addAll u sec es) s' k' =
      assignments u s' k' ++ (if s' = sec then es.filterMap (fun kv => if kv.1 == k' then some kv.2 else none) else []) := by
  induction es generalizing u with
  | nil => simp [addAll]
  | cons kv es ih =>
    obtain ⟨k, v⟩ := kv
    simp only [addAll, List.foldl_cons] at ih ⊢
    rw [ih, assignments_addEntry]
    by_cases hs : s' = sec
    · subst hs
      by_cases hk : k = k'
      · subst hk; simp
      · have : (k == k') = false := by simpa using hk
        simp [hk, this]
    · simp [hs]

theorem lookup_none_of_not_mem (u : SUnit) (sec : Str) (h : sec ∉ u.map Prod.fst) : u.lookup sec = none := by
  induction u with
  | nil => rfl
  | cons p u ih =>
    obtain ⟨s, es⟩ := p
    simp only [List.map_cons, List.mem_cons, not_or] at h
    have : (sec == s) = false := by simpa using h.1
    simp [List.lookup, this, ih h.2]

/-- C15 (history): after merging drop-in `o` into `u`, the assignment history of every (section,key) is
    `u`'s history followed by `o`'s — for repeated sections and any number of files (iterate) -/
theorem assignments_mergeFrom (u o : SUnit) (hnd : (o.map Prod.fst).Nodup) (s' k' : Str) :
    assignments (mergeFrom u o) s' k' = assignments u s' k' ++ assignments o s' k' := by
  induction o generalizing u with
  | nil => simp [mergeFrom, assignments, entriesOf, List.lookup]
  | cons p o ih =>
    obtain ⟨a, es⟩ := p
    simp only [List.map_cons, List.nodup_cons] at hnd
    simp only [mergeFrom, List.foldl_cons] at ih ⊢
    rw [ih _ hnd.2, assignments_addAll]
    by_cases hs : s' = a
    · subst hs
      have h0 : assignments o s' k' = [] := by
        simp [assignments, entriesOf, lookup_none_of_not_mem o s' hnd.1]
      have h1 : assignments ((s', es) :: o) s' k' = es.filterMap (fun kv => if kv.1 == k' then some kv.2 else none) := by
        simp [assignments, entriesOf, List.lookup]
      rw [h0, h1]; simp
    · have : (s' == a) = false := by simpa using hs
      have h1 : assignments ((a, es) :: o) s' k' = assignments o s' k' := by
        simp [assignments, entriesOf, List.lookup, this]
      rw [h1]; simp [hs]

end SU
