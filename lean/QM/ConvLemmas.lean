import QM.Conv
/-! Lemmas about the converter building blocks. -/
namespace Cv
open MM

theorem checkUnknown_err (u : SUnit) (sec : Str) (sup : List Str) (k : Str)
    (h : firstUnknown (entriesOf u sec) sup = some k) : checkUnknown u sec sup = .error (.unknownKey k) := by
  simp [checkUnknown, h]

theorem checkUnknown_ok (u : SUnit) (sec : Str) (sup : List Str)
    (h : firstUnknown (entriesOf u sec) sup = none) : checkUnknown u sec sup = .ok () := by
  simp [checkUnknown, h]

/-- `firstUnknown` names the key of the first entry (in file order) that is not in the table -/
theorem firstUnknown_some_iff (es : Entries) (sup : List Str) (k : Str) :
    firstUnknown es sup = some k ↔
      ∃ pre v post, es = pre ++ (k, v) :: post ∧ (∀ kv ∈ pre, kv.1 ∈ sup) ∧ k ∉ sup := by
  unfold firstUnknown
  induction es with
  | nil => simp
  | cons e es ih =>
    obtain ⟨a, b⟩ := e
    by_cases ha : sup.contains a = true
    · have hmem : a ∈ sup := by simpa using ha
      simp only [List.find?_cons, ha, Bool.not_true]
      rw [ih]
      constructor
      · rintro ⟨pre, v, post, rfl, h1, h2⟩
        exact ⟨(a, b) :: pre, v, post, rfl, by intro kv hkv; rcases List.mem_cons.mp hkv with rfl | h; exact hmem; exact h1 kv h, h2⟩
      · rintro ⟨pre, v, post, he, h1, h2⟩
        cases pre with
        | nil => simp at he; obtain ⟨⟨rfl, rfl⟩, rfl⟩ := he; exact absurd hmem h2
        | cons p pre =>
          simp at he; obtain ⟨rfl, rfl⟩ := he
          exact ⟨pre, v, post, rfl, fun kv hkv => h1 kv (by simp [hkv]), h2⟩
    · have hn : a ∉ sup := by simpa using ha
      have ha' : sup.contains a = false := by simpa using hn
      simp only [List.find?_cons, ha', Bool.not_false, Option.map_some, Option.some.injEq]
      constructor
      · rintro rfl; exact ⟨[], b, es, rfl, by simp, hn⟩
      · rintro ⟨pre, v, post, he, h1, h2⟩
        cases pre with
        | nil => simp at he; exact he.1.1
        | cons p pre =>
          simp at he; obtain ⟨rfl, rfl⟩ := he
          exact absurd (h1 (a, b) (by simp)) hn

theorem firstUnknown_none_iff (es : Entries) (sup : List Str) :
    firstUnknown es sup = none ↔ ∀ kv ∈ es, kv.1 ∈ sup := by
  unfold firstUnknown
  simp [List.find?_eq_none]

end Cv
