import QM.ProcLemmasB
/-! `Refine.Local` for the conversion loop of `process`, and the priority sort -/
namespace Cv
open MM

/-- the unit files the generator loads have one of the supported extensions (is_extension_supported, table extracted) -/
def Loadable (units : List QUnit) : Prop := ∀ q ∈ units, q.ty ∈ Gen.SUPPORTED_EXTENSIONS

theorem container_of_else (ty : Str) (hs : ty ∈ Gen.SUPPORTED_EXTENSIONS)
    (h : (ty == s "image" || ty == s "volume" || ty == s "network" || ty == s "build" || ty == s "kube" || ty == s "pod") = false) :
    ty = s "container" := by
  have : ∀ t ∈ Gen.SUPPORTED_EXTENSIONS,
      (t == s "image" || t == s "volume" || t == s "network" || t == s "build" || t == s "kube" || t == s "pod") = false → t = s "container" := by decide
  exact this ty hs h

theorem link_higher (b : Bool) (units : List QUnit) (hl : Loadable units) (c : QUnit) (hc : c ∈ units) (t : Tab) (n w : Str)
    (h : linkOf b c t = some (n, w)) (u' : QUnit) (hu' : u' ∈ units) (hname : u'.name = n) : prio c.ty < prio u'.ty := by
  unfold linkOf at h
  simp only at h
  split at h
  · simp at h
  · rename_i hty
    have hcty : c.ty = s "container" := container_of_else _ (hl c hc) (by simpa using hty)
    split at h
    · rename_i svc link hf
      subst h
      have hp := fromContainer_link _ _ _ _ _ _ hf
      obtain ⟨pre, rfl⟩ := (endsWith_iff _ _).mp hp
      have hext : u'.ty = extension (pre ++ s ".pod") := by unfold QUnit.ty; rw [hname]
      rw [extension_pod] at hext
      have hsup := hl u' hu'
      rw [hext] at hsup
      split at hsup
      · exact absurd hsup (by decide)
      · rename_i hne
        rw [hext, if_neg hne, hcty]
        decide
    · simp at h

/-- the conversion loop of `process` is a local system: the hypotheses of the refinement theorem hold for every set of loadable units -/
theorem sys_local (b : Bool) (units : List QUnit) (hl : Loadable units) : Refine.Local (sys b) units where
  out_local := fun u t₁ t₂ a h => convOut_congr b t₁ t₂ a u h
  link_local := fun u t₁ t₂ h => linkOf_congr b t₁ t₂ u h
  reads_lower := fun u _ n hn u' _ hname => reads_lower b u u' n hn hname
  link_higher := fun c hc t n w h u' hu' hname => link_higher b units hl c hc t n w h u' hu' hname


/-! ### the sort -/

theorem insertByPrio_perm (q : QUnit) (l : List QUnit) : (insertByPrio q l).Perm (q :: l) := by
  induction l with
  | nil => simp [insertByPrio]
  | cons x xs ih =>
    simp only [insertByPrio]
    split
    · exact List.Perm.refl _
    · exact ((List.Perm.cons x ih).trans (List.Perm.swap q x xs))

theorem sortByPrio_perm_aux (qs acc : List QUnit) : (qs.foldl (fun acc q => insertByPrio q acc) acc).Perm (qs ++ acc) := by
  induction qs generalizing acc with
  | nil => simp
  | cons q qs ih =>
    simp only [List.foldl_cons]
    refine (ih _).trans ?_
    refine (List.Perm.append_left qs (insertByPrio_perm q acc)).trans ?_
    simp only [List.cons_append]
    exact List.perm_middle

theorem sortByPrio_perm (qs : List QUnit) : (sortByPrio qs).Perm qs := by
  have := sortByPrio_perm_aux qs []
  simpa [sortByPrio] using this

def SortedByPrio (l : List QUnit) : Prop := l.Pairwise (fun a b => prio a.ty ≤ prio b.ty)

theorem insertByPrio_sorted (q : QUnit) (l : List QUnit) (h : SortedByPrio l) : SortedByPrio (insertByPrio q l) := by
  induction l with
  | nil => simp [insertByPrio, SortedByPrio]
  | cons x xs ih =>
    unfold SortedByPrio at h ih ⊢
    simp only [insertByPrio]
    have hx := List.pairwise_cons.mp h
    split
    · rename_i hlt
      refine List.pairwise_cons.mpr ⟨?_, h⟩
      intro y hy
      rcases List.mem_cons.mp hy with rfl | hy
      · omega
      · have := hx.1 y hy; omega
    · rename_i hge
      refine List.pairwise_cons.mpr ⟨?_, ih hx.2⟩
      intro y hy
      have := (insertByPrio_perm q xs).subset hy
      rcases List.mem_cons.mp this with rfl | hy
      · omega
      · exact hx.1 y hy

theorem sortByPrio_sorted_aux (qs acc : List QUnit) (h : SortedByPrio acc) :
    SortedByPrio (qs.foldl (fun acc q => insertByPrio q acc) acc) := by
  induction qs generalizing acc with
  | nil => simpa
  | cons q qs ih => exact ih _ (insertByPrio_sorted q acc h)

theorem sortByPrio_sorted (qs : List QUnit) : SortedByPrio (sortByPrio qs) :=
  sortByPrio_sorted_aux qs [] (by simp [SortedByPrio])

end Cv
