import QM.Unquote
import QM.QuoteLemmas
namespace P

theorem decode_hex_q (c : Char) (hlt : c.toNat < 128) (hnz : c.toNat ≠ 0) (t : Str) :
    decode quotedCfg ('x' :: hexDigit (c.toNat / 16) :: hexDigit (c.toNat % 16) :: t) = some (c, t) := by
  have e1 := unhex_hexDigit (c.toNat / 16) (by omega)
  have e2 := unhex_hexDigit (c.toNat % 16) (by omega)
  have e3 : c.toNat / 16 * 16 + c.toNat % 16 = c.toNat := by omega
  have hl : Gen.unescQuoted.lookup 'x' = none := by decide
  have hk : numKindOf 'x' = some .x := by decide
  have hv : validScalar c.toNat = true := by simp [validScalar]; omega
  simp [decode, hl, hk, readNum, readDigits, e1, e2, e3, quotedCfg, hnz, hv]

/-- every single-letter escape that the quoter may emit is decoded by quoted.rs to the same character
    (both tables extracted from the source) -/
theorem quotedTbl_of_spec : ∀ p ∈ simpleTable, Gen.unescQuoted.lookup p.1 = some p.2 := by decide

/-- inside an open double quote (repaired code) one rendered character reads back as itself -/
theorem unq_escChar (c : Char) (hc : c ≠ '\x00') (acc t : Str) :
    unq true (some '"') acc (escChar c ++ t) = unq true (some '"') (c :: acc) t := by
  have hc0 : (c == '\x00') = false := by simpa using hc
  have step : ∀ e : Str, decode quotedCfg (e ++ t) = some (c, t) →
      unq true (some '"') acc ('\\' :: e ++ t) = unq true (some '"') (c :: acc) t := by
    intro e hd
    rw [List.cons_append, unq]
    simp only [isQuote, show ('\\' == '"') = false by decide, show ('\\' == '\'') = false by decide,
      show ('\\' == '\x00') = false by decide,
      Bool.or_self, Bool.false_and, Bool.false_eq_true, if_false, beq_self_eq_true, if_true]
    split
    · rename_i d r' heq; rw [hd] at heq; simp at heq; obtain ⟨rfl, rfl⟩ := heq; rfl
    · rename_i heq; rw [hd] at heq; simp at heq
  unfold escChar
  by_cases hn : needsEsc c = true
  · simp only [hn, Bool.not_true, Bool.false_eq_true, if_false]
    cases hl : Gen.quoteArms.lookup c with
    | some e =>
      have hok := quoteArms_sound _ (lookup_mem _ _ _ hl)
      simp only [armOK, Bool.or_eq_true] at hok
      rcases hok with hok | hok
      · simp only [Bool.and_eq_true, beq_iff_eq, bne_iff_ne, ne_eq] at hok
        obtain ⟨⟨he, h1⟩, h2⟩ := hok
        subst he
        rw [List.singleton_append, unq]; simp [h1, h2, Ne.symm h1, hc0]
      · split at hok
        · rename_i b e'
          simp only [Bool.and_eq_true, beq_iff_eq] at hok
          obtain ⟨hb, hm⟩ := hok
          subst hb
          have hq := quotedTbl_of_spec _ (lookup_mem _ _ _ hm)
          exact step [e'] (by simp [decode, quotedCfg, hq])
        · simp at hok
    | none =>
      have hlt : c.toNat < 128 := needsEsc_ascii hn
      have hnz : c.toNat ≠ 0 := by
        intro e; apply hc; apply Char.toNat_inj.mp; simpa using e
      simp only [defaultArm, quoteDefaultFmt_eq, beq_self_eq_true, if_true]
      exact step ['x', hexDigit (c.toNat / 16), hexDigit (c.toNat % 16)] (by simpa using decode_hex_q c hlt hnz t)
  · have hn' : needsEsc c = false := by simpa using hn
    have key : ∀ d ∈ [' ', '\t', '\n', '\r', '"', '\'', '\\'], c ≠ d := by
      intro d hd e; subst e; have := active_needsEsc c hd; simp [hn'] at this
    have h1 : c ≠ '"' := key _ (by simp)
    have h2 : c ≠ '\\' := key _ (by simp)
    have h3 : c ≠ '\'' := key _ (by simp)
    simp only [hn, Bool.not_false, if_true, List.singleton_append]
    rw [unq]; simp [h1, h2, h3, isQuote, Ne.symm h1, hc0]

theorem unq_quoteValue (w : Str) (hw : ∀ c ∈ w, c ≠ '\x00') (acc t : Str) :
    unq true (some '"') acc (quoteValue w ++ t) = unq true (some '"') (w.reverse ++ acc) t := by
  induction w generalizing acc with
  | nil => simp [quoteValue]
  | cons c w ih =>
    have : quoteValue (c :: w) = escChar c ++ quoteValue w := by simp [quoteValue]
    rw [this, List.append_assoc, unq_escChar c (hw c (by simp)), ih (fun d hd => hw d (by simp [hd]))]
    simp

end P

namespace P

theorem nul_needsEsc : needsEsc '\x00' = true := by decide

/-- a word that needs no escaping is read back verbatim outside quotes, provided it does not start a quote -/
theorem unq_plain (w : Str) (hw : ∀ c ∈ w, needsEsc c = false) (acc t : Str) :
    unq true none acc (w ++ t) = unq true none (w.reverse ++ acc) t := by
  induction w generalizing acc with
  | nil => simp
  | cons c w ih =>
    have hn := hw c (by simp)
    have key : ∀ d ∈ [' ', '\t', '\n', '\r', '"', '\'', '\\'], c ≠ d := by
      intro d hd e; subst e; have := active_needsEsc c hd; simp [hn] at this
    have h0 : c ≠ '\x00' := by intro e; subst e; simp [nul_needsEsc] at hn
    have h1 : c ≠ '"' := key _ (by simp)
    have h2 : c ≠ '\\' := key _ (by simp)
    have h3 : c ≠ '\'' := key _ (by simp)
    rw [List.cons_append, unq]
    simp only [show (c == '\x00') = false by simpa using h0, Bool.false_eq_true, if_false, isQuote,
      show (c == '"') = false by simpa using h1, show (c == '\'') = false by simpa using h3, Bool.or_self,
      Bool.false_and, show (c == '\\') = false by simpa using h2]
    simp only [show ((none : Option Char) == some c) = false by rfl, Bool.false_eq_true, if_false]
    rw [ih (fun d hd => hw d (by simp [hd]))]; simp

/-- one rendered word, at the start of the value or after white space, reads back as the word -/
theorem unq_quoteWord (w : Str) (hw : ∀ c ∈ w, c ≠ '\x00') (acc t : Str) (hacc : acc.isEmpty = true ∨ endsWs acc = true) :
    unq true none acc (quoteWord w ++ t) = unq true none (w.reverse ++ acc) t := by
  unfold quoteWord
  by_cases hq : (w.isEmpty || w.any needsEsc) = true
  · simp only [hq, if_true, List.cons_append, List.append_assoc]
    rw [unq]
    have hopen : (acc.isEmpty || endsWs acc) = true := by rcases hacc with h | h <;> simp [h]
    simp only [show ('"' == '\x00') = false by decide, Bool.false_eq_true, if_false, isQuote, beq_self_eq_true,
      Bool.true_or, Bool.not_true, Option.isNone_none, Bool.or_true, Bool.true_and, hopen, if_true]
    rw [unq_quoteValue w hw, List.nil_append, unq]
    simp [isQuote]
  · simp only [hq, Bool.false_eq_true, if_false]
    simp only [Bool.or_eq_true, not_or, Bool.not_eq_true] at hq
    exact unq_plain w (fun c hc => by have := List.any_eq_false.mp hq.2 c hc; simpa using this) acc t

theorem unq_joinSp (ws : List Str) (hw : ∀ w ∈ ws, ∀ c ∈ w, c ≠ '\x00') (acc : Str)
    (hacc : acc.isEmpty = true ∨ endsWs acc = true) :
    ∃ r, unq true none acc (joinSp (ws.map quoteWord)) = some r := by
  induction ws generalizing acc with
  | nil => exact ⟨acc.reverse, by simp [joinSp, unq]⟩
  | cons w ws ih =>
    cases ws with
    | nil =>
      have := unq_quoteWord w (hw w (by simp)) acc [] hacc
      simp only [List.append_nil] at this
      exact ⟨(w.reverse ++ acc).reverse, by simp [joinSp, this, unq]⟩
    | cons w' ws =>
      have e : joinSp ((w :: w' :: ws).map quoteWord) = quoteWord w ++ ' ' :: joinSp ((w' :: ws).map quoteWord) := by
        simp [joinSp]
      rw [e, unq_quoteWord w (hw w (by simp)) acc _ hacc, unq]
      simp only [show (' ' == '\x00') = false by decide, Bool.false_eq_true, if_false, isQuote,
        show (' ' == '"') = false by decide, show (' ' == '\'') = false by decide, Bool.or_self, Bool.false_and,
        show (' ' == '\\') = false by decide, show ((none : Option Char) == some ' ') = false by rfl]
      exact ih (fun x hx => hw x (by simp [hx])) _ (Or.inr (by simp [endsWs]))

/-- C01_storable: a rendered command line is always accepted by the validation of `add_raw` -/
theorem unquote_quoteWords (ws : List Str) (hw : ∀ w ∈ ws, ∀ c ∈ w, c ≠ '\x00') :
    ∃ r, unquoteValue true (quoteWords ws) = some r :=
  unq_joinSp ws hw [] (Or.inl rfl)

end P
