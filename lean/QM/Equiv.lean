import QM.Extract
namespace P

theorem impl_word_of_spec (q bs acc s w rest)
    (h : Spec.word argFlags q bs acc s = .word w rest) : Impl.word q bs acc s = .word w rest := by
  fun_induction Spec.word argFlags q bs acc s
  case case3 q c r d r' hdec ih =>
    have hd := decode_impl_of_spec hdec
    rw [Impl.word]
    split
    · rename_i d2 r2 heq
      rw [hd] at heq
      simp at heq
      obtain ⟨rfl, rfl⟩ := heq
      exact ih h
    · rename_i heq; rw [hd] at heq; simp at heq
  all_goals simp_all [argFlags, Impl.word]

/-- per-call equivalence: whenever systemd (UNQUOTE|CUNESCAPE|RELAX) returns a word, so does SplitWord::next, the same one -/
theorem impl_next_of_spec (s w rest) (h : Spec.extractFirst argFlags s = .word w rest) :
    Impl.next s = .word w rest := by
  unfold Spec.extractFirst at h
  unfold Impl.next
  rw [implDropSeps_eq]
  cases hd : dropSeps s with
  | nil => simp [hd] at h
  | cons c r => simp only [hd] at h ⊢; exact impl_word_of_spec _ _ _ _ _ _ h

theorem impl_next_noWord (s) (h : Spec.extractFirst argFlags s = .noWord) : Impl.next s = .noWord := by
  unfold Spec.extractFirst at h
  unfold Impl.next
  rw [implDropSeps_eq]
  cases hd : dropSeps s with
  | nil => rfl
  | cons c r =>
    simp only [hd] at h
    -- a started word is never `noWord`
    exfalso
    revert h
    generalize (none : Option Char) = q, false = bs, ([] : Str) = acc, c :: r = s'
    intro h
    fun_induction Spec.word argFlags q bs acc s' <;> simp_all

end P
