import QM.Extract
import QM.EscLemmas
namespace P

theorem implSep_sound : ∀ c ∈ Gen.whitespace, isSep c = true := by decide
theorem implSep_complete : ∀ c ∈ [' ', '\t', '\n', '\r'], Gen.whitespace.contains c = true := by decide
/-- the code's separator set is systemd's WHITESPACE -/
@[simp] theorem implSep_eq (c : Char) : implSep c = isSep c := by
  unfold implSep
  cases h : isSep c with
  | true =>
    apply implSep_complete
    simp only [isSep, Bool.or_eq_true, beq_iff_eq] at h
    rcases h with ((h | h) | h) | h <;> subst h <;> simp
  | false =>
    cases h2 : Gen.whitespace.contains c with
    | false => rfl
    | true =>
      have := implSep_sound c (by simpa using h2)
      rw [h] at this; exact absurd this (by simp)
@[simp] theorem implDropSeps_eq (s : Str) : implDropSeps s = dropSeps s := by
  induction s with
  | nil => rfl
  | cons c r ih => simp [implDropSeps, dropSeps, ih]


theorem impl_word_of_spec (q bs acc s w rest)
    (h : Spec.word argFlags q bs acc s = .word w rest) : Impl.word q bs acc s = .word w rest := by
  fun_induction Spec.word argFlags q bs acc s
  case case3 q c r d r' hdec ih =>
    have hd := decode_impl_of_spec hdec
    rw [Impl.word]
    split
    · rename_i d2 r2 heq
      rw [hd] at heq
      simp at heq
      obtain ⟨rfl, rfl⟩ := heq
      exact ih h
    · rename_i heq; rw [hd] at heq; simp at heq
  all_goals simp_all [argFlags, Impl.word]

/-- per-call equivalence: whenever systemd (UNQUOTE|CUNESCAPE|RELAX) returns a word, so does SplitWord::next, the same one -/
theorem impl_next_of_spec (s w rest) (h : Spec.extractFirst argFlags s = .word w rest) :
    Impl.next s = .word w rest := by
  unfold Spec.extractFirst at h
  unfold Impl.next
  rw [implDropSeps_eq]
  cases hd : dropSeps s with
  | nil => simp [hd] at h
  | cons c r => simp only [hd] at h ⊢; exact impl_word_of_spec _ _ _ _ _ _ h

theorem impl_next_noWord (s) (h : Spec.extractFirst argFlags s = .noWord) : Impl.next s = .noWord := by
  unfold Spec.extractFirst at h
  unfold Impl.next
  rw [implDropSeps_eq]
  cases hd : dropSeps s with
  | nil => rfl
  | cons c r =>
    simp only [hd] at h
    -- a started word is never `noWord`
    exfalso
    revert h
    generalize (none : Option Char) = q, false = bs, ([] : Str) = acc, c :: r = s'
    intro h
    fun_induction Spec.word argFlags q bs acc s' <;> simp_all

end P
