import QM.Strv
import QM.Equiv
namespace P

/-- C05 (list keys): whenever systemd's extract_first_word(UNQUOTE|RETAIN_ESCAPE) returns a word,
    SplitStrv::next returns the same word and the same rest -/
theorem impl_strv_of_spec (q acc s w rest)
    (h : Spec.word strvFlags q false acc s = .word w rest) : Impl.strvWord q acc s = .word w rest := by
  induction s generalizing q acc with
  | nil =>
    cases q with
    | none => rw [Spec.word] at h; simpa [Impl.strvWord] using h
    | some q => rw [Spec.word] at h; simp at h
  | cons c r ih =>
    cases q with
    | none =>
      rw [Spec.word] at h
      simp only [sf_unquote, Bool.and_true, sf_retain, Bool.not_true, Bool.and_false, Bool.false_eq_true,
        if_false] at h
      simp only [Impl.strvWord, implSep_eq, implDropSeps_eq]
      split
      · rename_i hq; simp only [hq, if_true] at h; exact ih _ _ h
      · rename_i hq
        simp only [hq, Bool.false_eq_true, if_false] at h
        split
        · rename_i hs; simpa [hs] using h
        · rename_i hs; simp only [hs, Bool.false_eq_true, if_false] at h; exact ih _ _ h
    | some q =>
      rw [Spec.word] at h
      simp only [sf_retain, Bool.not_true, Bool.and_false, Bool.false_eq_true, if_false] at h
      simp only [Impl.strvWord]
      split
      · rename_i hq; simp only [hq, if_true] at h; exact ih _ _ h
      · rename_i hq; simp only [hq, Bool.false_eq_true, if_false] at h; exact ih _ _ h

end P
