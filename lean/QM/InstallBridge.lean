import QM.Install
import QM.InstallModel
import QM.Props.C17
/-! C12: from the component stack of `cleaned` to the *string* the link is created at — an alias that passes the
    acceptance test is, as a path string, a sequence of plain names separated by single slashes. -/
namespace Inst
open Pth

theorem splitSlash_noSlash (a : Str) (h : '/' ∉ a) : splitSlash a = [a] := by
  induction a with
  | nil => rfl
  | cons c r ih =>
    have hc : (c == '/') = false := by
      simp only [List.mem_cons, not_or] at h; simpa using fun e => h.1 e.symm
    have hr : '/' ∉ r := fun hm => h (List.mem_cons_of_mem _ hm)
    simp [splitSlash, hc, ih hr]

theorem splitSlash_append (a b : Str) (h : '/' ∉ a) : splitSlash (a ++ '/' :: b) = a :: splitSlash b := by
  induction a with
  | nil => simp [splitSlash]
  | cons c r ih =>
    have hc : (c == '/') = false := by
      simp only [List.mem_cons, not_or] at h; simpa using fun e => h.1 e.symm
    have hr : '/' ∉ r := fun hm => h (List.mem_cons_of_mem _ hm)
    simp [splitSlash, hc, ih hr]

theorem splitSlash_parts_noSlash (p : Str) : ∀ x ∈ splitSlash p, '/' ∉ x := by
  induction p with
  | nil => intro x hx; simp [splitSlash] at hx; subst hx; simp
  | cons c r ih =>
    intro x hx
    simp only [splitSlash] at hx
    split at hx
    · rcases List.mem_cons.mp hx with rfl | h
      · simp
      · exact ih x h
    · rename_i hc
      have hc' : c ≠ '/' := by simpa using hc
      cases hs : splitSlash r with
      | nil => rw [hs] at hx; simp at hx; subst hx; simp; exact fun e => hc' e.symm
      | cons q qs =>
        rw [hs] at hx ih
        simp only at hx
        rcases List.mem_cons.mp hx with rfl | h
        · have := ih q (by simp)
          simp only [List.mem_cons, not_or]
          exact ⟨fun e => hc' e.symm, this⟩
        · exact ih x (by simp [h])

/-- the names `components` produces are parts of the path: non-empty, neither "." nor "..", without '/' -/
theorem components_normal (p : Str) (x : Str) (h : Comp.normal x ∈ components p) : isNormal x = true ∧ '/' ∉ x := by
  unfold components at h
  simp only at h
  have hbody : ∀ (l : List (Str × Nat)), (∀ y ∈ l, y.1 ∈ splitSlash p) →
      Comp.normal x ∈ l.filterMap (fun (y : Str × Nat) =>
        if y.1.isEmpty then none
        else if y.1 == dot then (if y.2 == 0 && !isAbs p then some Comp.cur else none)
        else if y.1 == dotdot then some Comp.parent
        else some (Comp.normal y.1)) → isNormal x = true ∧ '/' ∉ x := by
    intro l hl hm
    obtain ⟨y, hy, he⟩ := List.mem_filterMap.mp hm
    by_cases h1 : y.1.isEmpty = true
    · simp [h1] at he
    · by_cases h2 : (y.1 == dot) = true
      · simp only [h1, h2, if_true, Bool.false_eq_true, if_false] at he
        split at he <;> simp at he
      · by_cases h3 : (y.1 == dotdot) = true
        · simp [h1, h2, h3] at he
        · simp only [h1, h2, h3, Bool.false_eq_true, if_false, Option.some.injEq, Comp.normal.injEq] at he
          subst he
          refine ⟨by simp [isNormal, h1, h2, h3], splitSlash_parts_noSlash p _ (hl y hy)⟩
  have hz : ∀ y ∈ (splitSlash p).zipIdx, y.1 ∈ splitSlash p := by
    intro y hy
    obtain ⟨a, i⟩ := y
    exact (List.mem_zipIdx hy).2.2 ▸ List.getElem_mem _
  split at h
  · rcases List.mem_cons.mp h with h | h
    · cases h
    · exact hbody _ hz (by simpa using h)
  · exact hbody _ hz (by simpa using h)

theorem components_no_root (p : Str) (h : isAbs p = false) : Comp.root ∉ components p := by
  unfold components
  simp only [h, Bool.false_eq_true, if_false]
  intro hm
  obtain ⟨y, _, he⟩ := List.mem_filterMap.mp hm
  split at he
  · simp at he
  · split at he
    · split at he <;> simp at he
    · split at he <;> simp at he

theorem mem_cleanStep (st : List Comp) (c d : Comp) (h : d ∈ cleanStep st c) : d ∈ st ∨ d = c := by
  unfold cleanStep at h
  cases c with
  | cur => exact Or.inl h
  | root => simp at h; exact Or.inr h
  | normal x => simp at h; rcases h with h | h; exact Or.inl h; exact Or.inr h
  | parent =>
    simp only at h
    split at h
    · exact Or.inl ((List.dropLast_sublist _).subset h)
    · exact Or.inl h
    · simp at h; rcases h with h | h; exact Or.inl h; exact Or.inr h

theorem mem_fold_cleanStep (cs st : List Comp) (d : Comp) (h : d ∈ cs.foldl cleanStep st) : d ∈ st ∨ d ∈ cs := by
  induction cs generalizing st with
  | nil => exact Or.inl (by simpa using h)
  | cons c cs ih =>
    simp only [List.foldl_cons] at h
    rcases ih _ h with h | h
    · rcases mem_cleanStep st c d h with h | rfl
      · exact Or.inl h
      · exact Or.inr (by simp)
    · exact Or.inr (by simp [h])

/-- splitting a rendered sequence of names gives the names back -/
theorem splitSlash_names (x : Str) (xs : List Str) (hx : '/' ∉ x) (hxs : ∀ y ∈ xs, '/' ∉ y) :
    splitSlash (x ++ xs.flatMap ('/' :: ·)) = x :: xs := by
  induction xs generalizing x with
  | nil => simpa using splitSlash_noSlash x hx
  | cons y ys ih =>
    simp only [List.flatMap_cons, List.cons_append]
    rw [splitSlash_append x _ hx, ih y (hxs y (by simp)) (fun z hz => hxs z (by simp [hz]))]

theorem render_parent_head (st : List Comp) : (components (render (Comp.parent :: st))).head? = some Comp.parent := by
  cases st with
  | nil => decide
  | cons c cs =>
    have : render (Comp.parent :: c :: cs) = dotdot ++ '/' :: render (c :: cs) := by simp [render, compStr]
    rw [this]
    unfold components
    have hs : splitSlash (dotdot ++ '/' :: render (c :: cs)) = dotdot :: splitSlash (render (c :: cs)) :=
      splitSlash_append dotdot _ (by decide)
    have ha : isAbs (dotdot ++ '/' :: render (c :: cs)) = false := by simp [isAbs, dotdot]
    simp only [hs, ha, Bool.false_eq_true, if_false, List.zipIdx_cons, List.filterMap_cons]
    simp [dotdot, dot]


theorem fold_relShape (cs st : List Comp) (hcs : ∀ c ∈ cs, c ≠ Comp.root) (h : relShape st) : relShape (cs.foldl cleanStep st) := by
  induction cs generalizing st with
  | nil => exact h
  | cons c cs ih => exact ih _ (fun d hd => hcs d (by simp [hd])) (cleanStep_relShape st c (hcs c (by simp)) h)

theorem normals_eq_map (st : List Comp) (h : ∀ c ∈ st, isNormalC c = true) :
    ∃ xs : List Str, st = xs.map Comp.normal := by
  induction st with
  | nil => exact ⟨[], rfl⟩
  | cons c cs ih =>
    obtain ⟨xs, hxs⟩ := ih (fun d hd => h d (by simp [hd]))
    have hc := h c (by simp)
    cases c with
    | normal x => exact ⟨x :: xs, by simp [hxs]⟩
    | root => simp [isNormalC] at hc
    | cur => simp [isNormalC] at hc
    | parent => simp [isNormalC] at hc

/-- C12, the bridge to the string: an alias that passes the acceptance test of `enable_service_file` (tested on the
    *cleaned* string) is relative and every part of it — as the kernel will resolve the path — is a plain name:
    no "..", no ".", no empty part.  The link is therefore created strictly below the output directory. -/
theorem alias_string (svcFile raw : Str) (h : aliasOK svcFile (cleaned raw) = true) :
    isAbs (cleaned raw) = false ∧ ∀ part ∈ splitSlash (cleaned raw), isNormal part = true := by
  unfold aliasOK at h
  simp only [Bool.and_eq_true, Bool.not_eq_true', bne_iff_ne, ne_eq] at h
  obtain ⟨⟨⟨hne, hrel⟩, hhead⟩, _⟩ := h
  refine ⟨hrel, ?_⟩
  -- the raw alias is relative too
  have hraw : isAbs raw = false := by
    cases hr : isAbs raw with
    | false => rfl
    | true =>
      have := (C17_clean_normal raw hr).choose_spec.2.2
      rw [this] at hrel; cases hrel
  have hnoroot : ∀ c ∈ components raw, c ≠ Comp.root := fun c hc e => components_no_root raw hraw (e ▸ hc)
  have hshape := fold_relShape (components raw) [] hnoroot ⟨0, [], by simp, by simp⟩
  -- the cleaned stack does not begin with ".."
  have hst : ((components raw).foldl cleanStep []).head? ≠ some Comp.parent := by
    intro hp
    apply hhead
    unfold cleaned
    cases hs : (components raw).foldl cleanStep [] with
    | nil => rw [hs] at hp; simp at hp
    | cons c cs =>
      rw [hs] at hp
      simp only [List.head?_cons, Option.some.injEq] at hp
      subst hp
      exact render_parent_head cs
  have hall := alias_inside (components raw) hnoroot hst
  obtain ⟨xs, hxs⟩ := normals_eq_map _ hall
  have hgood : ∀ x ∈ xs, isNormal x = true ∧ '/' ∉ x := by
    intro x hx
    have hm : Comp.normal x ∈ (components raw).foldl cleanStep [] := by rw [hxs]; exact List.mem_map_of_mem hx
    rcases mem_fold_cleanStep _ _ _ hm with h | h
    · simp at h
    · exact components_normal raw x h
  intro part hpart
  unfold cleaned at hpart hne
  rw [hxs] at hpart hne
  cases xs with
  | nil => simp [render] at hne
  | cons x xs =>
    rw [render_normals, splitSlash_names x xs (hgood x (by simp)).2 (fun y hy => (hgood y (by simp [hy])).2)] at hpart
    exact (hgood part hpart).1

/-- the premises are satisfiable and the filter is not vacuous -/
example : aliasOK (s "a.service") (cleaned (s "sub/../x/./y.service")) = true
    ∧ cleaned (s "sub/../x/./y.service") = s "x/y.service"
    ∧ aliasOK (s "a.service") (cleaned (s "sub/../../x.service")) = false
    ∧ aliasOK (s "a.service") (cleaned (s "/abs.service")) = false := by decide

end Inst
