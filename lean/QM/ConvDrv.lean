import QM.Conv
import QM.Parser
namespace Cv

def upper (x : Str) : Str := x.map Char.toUpper
/-- service-name suffix per unit type, from the `get_*_service_name` functions of quadlet/mod.rs (extracted) -/
def suffixOf (ty : Str) : Str := (Gen.serviceSuffix.lookup (upper ty ++ s "_SECTION")).getD []
def sectionOf (ty : Str) : Str :=
  if ty == s "volume" then s "Volume" else if ty == s "network" then s "Network" else if ty == s "image" then s "Image"
  else if ty == s "build" then s "Build" else if ty == s "pod" then s "Pod" else if ty == s "kube" then s "Kube" else s "Container"

def serviceNameOf (path : Str) (u : MM.SUnit) : Str :=
  let name := fileName path
  let ty := extension name
  match lookup u (sectionOf ty) (s "ServiceName") with
  | some n => n
  | none => fileStem name ++ suffixOf ty

def parseEnv : Parse.Env :=
  { keyChar := fun c => c.isAlphanum || c == '-', validRaw := fun r => (P.unquoteValue true r).isSome }

def errClass : Err → String
  | .unknownKey _ => "unknown-key" | .noImageOrRootfs => "no-image" | .imageAndRootfs => "image-and-rootfs"
  | .invalidKillMode _ => "killmode" | .invalidServiceType _ => "service-type" | .invalidPort _ => "port"
  | .internal _ _ => "internal" | .resourceName _ => "resource-name" | .networkOptions => "network-options"
  | .invalidGroup => "group" | .remap _ => "remap" | .sourceNotFound _ => "source-not-found"
  | .imageNotFound _ => "image-not-found" | .podNotFound _ => "pod-not-found" | .invalidPod _ => "invalid-pod"
  | .mountFormat _ => "mount" | .noYaml => "no-yaml" | .noImageTag => "no-imagetag" | .noWdNorFile => "no-wd-nor-file"
  | .relativeFile => "relative-file" | .setWd _ => "setwd" | .unsupported _ _ => "unsupported" | .subnet _ => "subnet"
  | .deviceType => "device-type" | .deviceOptions => "device-options" | .imageMandatory => "image-mandatory"
  | .noFileKey => "no-file-key" | .badValue => "bad-value"

end Cv
