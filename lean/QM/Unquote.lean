import QM.Quote
namespace P

/-- quoted.rs flavour of the escape decoder: unknown escape characters are an error -/
def quotedCfg : DecCfg where
  tbl := Gen.unescQuoted
  valid _ v := v != 0 && validScalar v
  unknown _ := none

def endsWs (acc : Str) : Bool := match acc with
  | [] => false
  | c :: _ => c == ' ' || c == '\t' || c == '\n'

/-- Quoted::parse_and_unquote after the D2 and D12d repairs (`fixed = true`); `fixed = false` is the pinned quote rule.
    acc is the decoded text so far, reversed. none = Err -/
def unq (fixed : Bool) (q : Option Char) (acc : Str) (s : Str) : Option Str :=
  match s with
  | [] => some acc.reverse
  | c :: r =>
    if c == '\x00' then none   -- D12d: a literal NUL is rejected
    else if isQuote c && (!fixed || q.isNone) && (acc.isEmpty || endsWs acc) then unq fixed (some c) acc r
    else if c == '\\' then
      match h : decode quotedCfg r with
      | some (d, r') => unq fixed q (d :: acc) r'
      | none => none
    else if q == some c then unq fixed none acc r
    else unq fixed q (c :: acc) r
termination_by s.length
decreasing_by
  all_goals simp_wf
  all_goals first | omega | (have := decode_length h; omega)

def unquoteValue (fixed : Bool) (s : Str) : Option Str := unq fixed none [] s

#eval (unquoteValue false "\"sh -c 'exit 1'\"".toList).map String.ofList   -- pinned: sh -c exit 1"
#eval (unquoteValue true "\"sh -c 'exit 1'\"".toList).map String.ofList    -- repaired
#eval (unquoteValue true "foo='bar' \"bar=baz\" \\x41\\u00e9".toList).map String.ofList

/-- the defect D2, as a theorem about the model of the pinned code:  "a 'b"  reads as  a b"  -/
theorem C04_counterexample :
    unquoteValue false ['"', 'a', ' ', '\'', 'b', '"'] = some ['a', ' ', 'b', '"'] := by
  simp [unquoteValue, unq, isQuote, endsWs]

theorem C04_repaired_example :
    unquoteValue true ['"', 'a', ' ', '\'', 'b', '"'] = some ['a', ' ', '\'', 'b'] := by
  simp [unquoteValue, unq, isQuote, endsWs]

end P
