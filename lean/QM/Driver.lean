import QM.Quote
import QM.Unquote
import QM.Extract
import QM.Strv
import QM.Parser
import QM.Path
import QM.Port
import QM.Lookup
import QM.Proc
import QM.InstallModel
import QM.Fs
import QM.Search
import QM.Writer
import QM.Run

/-! Line protocol of the model driver: the same operations as `src/verif_driver.rs` (answered by the
    model of the implementation) plus `spec_*` operations (answered by the specifications, used as
    oracles on the implementation's outputs). -/
namespace Drv
abbrev Str := List Char

def hexVal (c : Char) : Nat :=
  if '0' ≤ c ∧ c ≤ '9' then c.toNat - 48 else c.toNat - 87

def hexBytes : List Char → List UInt8
  | a :: b :: r => UInt8.ofNat (hexVal a * 16 + hexVal b) :: hexBytes r
  | _ => []

/-- `x<hex>` → characters (invalid UTF-8 decodes to the empty string; the harness never sends it) -/
def hexd (s : String) : Str :=
  match String.fromUTF8? (ByteArray.mk (hexBytes (s.toList.drop 1)).toArray) with
  | some str => str.toList
  | none => []

def hexDigitC (n : Nat) : Char := if n < 10 then Char.ofNat (48 + n) else Char.ofNat (87 + n)
def hexe (s : Str) : String :=
  "x" ++ String.ofList ((String.ofList s).toUTF8.toList.flatMap fun b => [hexDigitC (b.toNat / 16), hexDigitC (b.toNat % 16)])

def list (l : List Str) : String := "[" ++ " ".intercalate (l.map hexe) ++ "]"
def opt (o : Option Str) : String := match o with | some s => "some " ++ hexe s | none => "none"

/-- Rust `char::is_alphanumeric` (Alphabetic or Numeric), exact below U+0250: ASCII letters and digits, ª µ º, the
    superscript digits and vulgar fractions of Latin-1 (category No), and the letters of Latin-1 Supplement and Latin
    Extended-A/B (everything from U+00C0 to U+024F except × and ÷).  Above U+024F the answer is a parameter. -/
def isAlnumLow (c : Char) : Bool :=
  let n := c.toNat
  c.isAlphanum || n == 0xaa || n == 0xb5 || n == 0xba || n == 0xb2 || n == 0xb3 || n == 0xb9 || (0xbc ≤ n && n ≤ 0xbe) ||
  (0xc0 ≤ n && n ≤ 0x24f && n != 0xd7 && n != 0xf7)

def parseEnvWith (high : Bool) : Parse.Env :=
  { keyChar := fun c => c == '-' || (if c.toNat ≥ 0x250 then high else isAlnumLow c),
    validRaw := fun r => (P.unquoteValue true r).isSome }

/-- characters above U+024F count as key characters here; `parseOp` answers `out-of-model` when that choice matters -/
def parseEnv : Parse.Env := parseEnvWith true

def dumpUnit (u : Parse.Unit) : String :=
  " ".intercalate (u.flatMap fun (sec, es) => ("S" ++ hexe sec) :: es.flatMap fun (k, v) => ["K" ++ hexe k, "V" ++ hexe v])

def specSplit (f : P.Flags) (s : Str) : String :=
  match P.splitAll f s with
  | some ws => "ok " ++ list ws
  | none => "einval"

def ltStr : Str → Str → Bool
  | [], [] => false
  | [], _ :: _ => true
  | _ :: _, [] => false
  | a :: x, b :: y => a.toNat < b.toNat || (a == b && ltStr x y)

def insertSorted (kv : Str × Str) : List (Str × Str) → List (Str × Str)
  | [] => [kv]
  | p :: r => if ltStr kv.1 p.1 then kv :: p :: r else p :: insertSorted kv r
def sortKV (l : List (Str × Str)) : List (Str × Str) := l.foldl (fun acc kv => insertSorted kv acc) []

def validRaw (r : Str) : Bool := (P.unquoteValue true r).isSome

/-- script of multimap operations followed by queries, as `run_unit_script` in src/verif_driver.rs -/
partial def unitScript (u : MM.SUnit) (out : List String) : List String → String
  | [] => "ok " ++ " | ".intercalate out.reverse
  | "load" :: t :: r => match Parse.parse parseEnv (hexd t) with
      | .ok x => unitScript x out r
      | .error _ => "err Unit"
  | "add" :: a :: k :: v :: r => unitScript (MM.addEntry u (hexd a) (hexd k) (P.quoteValue (hexd v))) out r
  | "addraw" :: a :: k :: v :: r =>
      if validRaw (hexd v) then unitScript (MM.addEntry u (hexd a) (hexd k) (hexd v)) out r
      else unitScript u ("err Unquoting" :: out) r
  | "set" :: a :: k :: v :: r => unitScript (MM.setEntry u (hexd a) (hexd k) (P.quoteValue (hexd v))) out r
  | "setraw" :: a :: k :: v :: r =>
      if validRaw (hexd v) then unitScript (MM.setEntry u (hexd a) (hexd k) (hexd v)) out r
      else unitScript u ("err Unquoting" :: out) r
  | "prepend" :: a :: k :: v :: r => unitScript (MM.prependEntry u (hexd a) (hexd k) (P.quoteValue (hexd v))) out r
  | "rename" :: a :: b :: r => unitScript (MM.renameSection u (hexd a) (hexd b)) out r
  | "merge" :: t :: r => match Parse.parse parseEnv (hexd t) with
      | .ok x => unitScript (MM.mergeFrom u x) out r
      | .error _ => "err Unit"
  | "lookup" :: a :: k :: r => unitScript u (opt (Cv.lookup u (hexd a) (hexd k)) :: out) r
  | "lookup_last" :: a :: k :: r => unitScript u (opt (Cv.lookup u (hexd a) (hexd k)) :: out) r
  | "lookup_last_raw" :: a :: k :: r => unitScript u (opt (Cv.lookupLastValue u (hexd a) (hexd k)) :: out) r
  | "lookup_all" :: a :: k :: r => unitScript u (list (Cv.lookupAll u (hexd a) (hexd k)) :: out) r
  | "lookup_all_raw" :: a :: k :: r => unitScript u (list (Cv.lookupAllValues u (hexd a) (hexd k)) :: out) r
  | "history" :: a :: k :: r => unitScript u (list (Cv.assignments u (hexd a) (hexd k)) :: out) r
  | "lookup_all_args" :: a :: k :: r => unitScript u (list (Cv.lookupAllArgs u (hexd a) (hexd k)) :: out) r
  | "lookup_all_strv" :: a :: k :: r => unitScript u (list (Cv.lookupAllStrv u (hexd a) (hexd k)) :: out) r
  | "lookup_all_key_val" :: a :: k :: r =>
      unitScript u (list ((sortKV (Cv.lookupAllKeyVal u (hexd a) (hexd k))).flatMap fun kv => [kv.1, kv.2]) :: out) r
  | "lookup_bool" :: a :: k :: r =>
      unitScript u ((match Cv.lookupBool u (hexd a) (hexd k) with | some b => "some " ++ toString b | none => "none") :: out) r
  | "has_key" :: a :: k :: r => unitScript u (toString (Cv.hasKey u (hexd a) (hexd k)) :: out) r
  | "has_section" :: a :: r => unitScript u (toString (MM.hasSection u (hexd a)) :: out) r
  | "len" :: r => unitScript u (toString u.length :: out) r
  | "to_string" :: r => unitScript u (hexe (Parse.printUnit u) :: out) r
  | "write_to" :: r => unitScript u (hexe (Parse.printUnit u) :: out) r
  | "dump" :: r => unitScript u (dumpUnit u :: out) r
  | _ => "bad-op"

/-- Rust variant name of a conversion error (`err_class` in the hook driver prints the Debug name) -/
def errVariant : Cv.Err → String
  | .unknownKey _ => "UnknownKey" | .noImageOrRootfs => "InvalidImageOrRootfs" | .imageAndRootfs => "InvalidImageOrRootfs"
  | .invalidKillMode _ => "InvalidKillMode" | .invalidServiceType _ => "InvalidServiceType" | .invalidPort _ => "InvalidPortFormat"
  | .internal _ _ => "InternalQuadletError" | .resourceName _ => "InvalidResourceNameIn" | .networkOptions => "InvalidNetworkOptions"
  | .invalidGroup => "InvalidGroup" | .remap _ => "InvalidRemapUsers" | .sourceNotFound _ => "SourceNotFound"
  | .imageNotFound _ => "ImageNotFound" | .podNotFound _ => "PodNotFound" | .invalidPod _ => "InvalidPod"
  | .mountFormat _ => "InvalidMountFormat" | .noYaml => "NoYamlKeySpecified" | .noImageTag => "NoImageTagKeySpecified"
  | .noWdNorFile => "NoSetWorkingDirectoryNorFileKeySpecified" | .relativeFile => "InvalidRelativeFile"
  | .setWd _ => "InvalidSetWorkingDirectory" | .unsupported _ _ => "UnsupportedValueForKey" | .subnet _ => "InvalidSubnet"
  | .deviceType => "InvalidDeviceType" | .deviceOptions => "InvalidDeviceOptions" | .imageMandatory => "InvalidImageOrRootfs"
  | .noFileKey => "NoFileKeySpecified" | .badValue => "Parsing"

def supportedExt (ty : Str) : Bool := Gen.SUPPORTED_EXTENSIONS.contains ty

/-- `convert <is_user> <order> (<path> <text>)*` as `run_convert` in src/verif_driver.rs -/
def convertOp (isUser : Bool) (order : List Nat) (files : List (Str × Str)) : String :=
  let loaded : List (Except String Cv.QUnit) := files.map fun (p, t) =>
    match Parse.parse parseEnv t with
    | .error _ => .error "loaderr Unit"
    | .ok u => if supportedExt (Cv.extension (Cv.fileName p)) then .ok { path := p, unit := u } else .error "loaderr UnsupportedQuadletType"
  let qs := loaded.filterMap fun r => match r with | .ok q => some q | .error _ => none
  let S := Cv.sys isUser
  let (_, outs, oom) := order.foldl (fun (acc : Refine.St Cv.Str Cv.Info Cv.Str × List String × Bool) idx =>
    let (t, outs, oom) := acc
    match (loaded[idx]? : Option (Except String Cv.QUnit)) with
    | none => (t, outs ++ ["bad-index"], oom)
    | some (Except.error e) => (t, outs ++ [e], oom)
    | some (Except.ok q) =>
      let (t', o0) := Refine.step S t q
      -- a Mount= source resolved against the unit's directory is re-encoded by the CSV writer when it needs quoting
      -- (quote, comma, CR, LF): that encoding is outside the model
      let csvRisk := !(Cv.lookupAllArgs q.unit (Cv.s "Container") (Cv.s "Mount")).isEmpty
        && q.path.any (fun c => c == '"' || c == ',' || c == '\n' || c == '\r')
      let o := if csvRisk then Cv.Out.outOfModel else o0
      match o with
      | .ok svc => (t', outs ++ ["svc " ++ hexe (Cv.serviceFileName ((t.tbl q.name).getD (Cv.prefill q))) ++ " " ++ dumpUnit svc], oom)
      | .err e => (t', outs ++ ["err " ++ errVariant e], oom)
      | .outOfModel => (t', outs, true)) (Refine.init S qs, [], false)
  if oom then "out-of-model" else "ok " ++ " | ".intercalate outs

def pairsOf : List String → List (Str × Str)
  | a :: b :: r => (hexd a, hexd b) :: pairsOf r
  | _ => []

/-- `process <dry> <out> <header> <mkdirOk> <cap> <nfaults> (<service path> <none|create|limit>)* <ndirs> <dir>* (<path> <text>)*`:
    the whole run (QM/Run.lean) — exit status, errors with their paths, effects in order, and the output directory afterwards -/
def processOp (f : List String) : String :=
  match f with
  | dryS :: outS :: hdr :: mk :: cap :: nf :: rest =>
    let n := nf.toNat!
    let fl := pairsOf' (rest.take (2 * n))
    let rest := rest.drop (2 * n)
    match rest with
    | nd :: rest =>
      let k := nd.toNat!
      let t : Cv.Tree := { searchDirs := (rest.take k).map hexd, files := pairsOf (rest.drop k) }
      let cfg : Cv.Cfg := { dryRun := dryS == "1", out := hexd outS, header := hexd hdr }
      let faultOf : Str → Wr.Fault := fun p => match fl.lookup p with
          | some "create" => Wr.Fault.create
          | some "none" => Wr.Fault.none
          | some l => Wr.Fault.sink l.toNat!
          | none => Wr.Fault.none
      let capN : Nat := cap.toNat!
      let w : Cv.World := { mkdirOk := (mk == "1"), cap := capN, fault := faultOf }
      let r := Cv.process cfg w t
      if r.outOfModel then "out-of-model" else
      let errs := r.errs.map fun
        | .load p => "load:" ++ hexe p | .dropin p => "dropin:" ++ hexe p | .convert p e => "convert:" ++ hexe p ++ ":" ++ errVariant e
        | .mkdir p => "mkdir:" ++ hexe p | .write p => "write:" ++ hexe p
      let effs := r.effs.map fun
        | .mkdir p => "mkdir:" ++ hexe p | .print p x => "print:" ++ hexe p ++ ":" ++ hexe x | .write p x => "write:" ++ hexe p ++ ":" ++ hexe x
        | .writeFailed p => "writefailed:" ++ hexe p
        | .enable sf ls => "enable:" ++ hexe sf ++ ":" ++ ",".intercalate (ls.map fun l => hexe l.1 ++ ">" ++ hexe l.2)
      let d := Cv.finalOut cfg r
      s!"ok exit={r.exit} errs=[" ++ " ".intercalate errs ++ "] effs=[" ++ " ".intercalate effs ++ "] files=["
        ++ " ".intercalate (d.files.map fun x => hexe x.1 ++ "=" ++ hexe x.2) ++ "] links=["
        ++ " ".intercalate (d.links.map fun x => hexe x.1 ++ ">" ++ hexe x.2) ++ s!"] clash={d.clash}"
    | _ => "bad-op"
  | _ => "bad-op"
where
  pairsOf' : List String → List (Str × String)
    | a :: b :: r => (hexd a, b) :: pairsOf' r
    | _ => []

def step (line : String) : String :=
  match line.splitOn "\t" with
  | "process" :: rest => processOp rest
  | "quote_words" :: ws => "ok " ++ hexe (P.quoteWords (ws.map hexd))
  | ["quote_value", a] => "ok " ++ hexe (P.quoteValue (hexd a))
  | ["unquote", a] => match P.unquoteValue true (hexd a) with
      | some s => "ok " ++ hexe s
      | none => "err"
  | ["split_word", a] => "ok " ++ list (P.splitArgs (hexd a))
  | ["split_strv", a] => "ok " ++ list (P.splitStrv (hexd a))
  | ["parse", a] =>
      let show' (r : Except Parse.Err Parse.Unit) : String := match r with
        | .ok u => "ok " ++ dumpUnit u
        | .error _ => "err"
      let r1 := show' (Parse.parse (parseEnvWith true) (hexd a))
      let r2 := show' (Parse.parse (parseEnvWith false) (hexd a))
      if r1 == r2 then r1 else "out-of-model"
  | "unit" :: script => unitScript [] [] script
  | "convert" :: iu :: ord :: rest =>
      convertOp (iu == "1") (if ord == "-" then [] else (ord.splitOn ",").map String.toNat!) (pairsOf rest)
  | "tree" :: nd :: rest =>
      let n := nd.toNat!
      let t : Cv.Tree := { searchDirs := (rest.take n).map hexd, files := pairsOf (rest.drop n) }
      let r := Cv.runTree t
      let svcs := r.services.filterMap fun (q, o) => match o with
        | .ok svc => some (hexe q.path ++ "=" ++ hexe (Parse.printUnit svc))
        | _ => none
      let errs := r.services.filterMap fun (q, o) => match o with
        | .err e => some (hexe q.path ++ "=" ++ errVariant e)
        | _ => none
      if r.services.any (fun (_, o) => match o with | .outOfModel => true | _ => false) then "out-of-model"
      else s!"ok {r.loadErrors} {r.dropinErrors} [" ++ " ".intercalate svcs ++ "] [" ++ " ".intercalate errs ++ s!"] exit={r.exitStatus}"
  | "search" :: mode :: uid :: dirs =>
      -- directories as '/'-separated absolute paths below "/"; answer: the directories read below the admin tree
      let toDir (p : Str) : Srch.Dir := (Pth.splitSlash p).filter (fun x => !x.isEmpty)
      let tree := dirs.map (fun x => toDir (hexd x))
      let r := if mode == "root" then Srch.rootAdminDirs tree else Srch.rootlessAdminDirs true tree (hexd uid)
      "ok " ++ list (r.map fun d => d.flatMap ('/' :: ·))
  | ["gen_write", fault, cap, sizes] =>
      -- fault: none | create | <limit>; sizes: comma separated piece sizes
      let chunks := if sizes.isEmpty then [] else (sizes.splitOn ",").map String.toNat!
      let f : Wr.Fault := if fault == "none" then .none else if fault == "create" then .create else .sink fault.toNat!
      "ok " ++ toString (Wr.writeOne cap.toNat! f { name := [], chunks := chunks })
  | ["plan_links", f, t] => match Parse.parse parseEnv (hexd t) with
      | .ok u => "ok " ++ list ((Inst.planLinks (hexd f) u).flatMap fun (l, t) => [l, t])
      | .error _ => "err Unit"
  | ["made_links", f, t] => match Parse.parse parseEnv (hexd t) with
      | .ok u => "ok " ++ list (Inst.madeLinks (hexd f) u)
      | .error _ => "err Unit"
  | ["clean", a] => "ok " ++ hexe (Pth.cleaned (hexd a))
  -- the harness runs both drivers with the working directory "/"
  | ["absolute_from", r, a] => "ok " ++ hexe (Pth.absoluteFrom ['/'] (hexd r) (hexd a))
  | ["absolute_from_unit", u, a] => "ok " ++ hexe (Pth.absoluteFromUnit ['/'] (hexd u) (hexd a))
  | ["specifier", a] => "ok " ++ toString (Pth.startsWithSpecifier (hexd a))
  | ["components", a] => "ok " ++ list ((Pth.components (hexd a)).map Pth.compStr)
  | ["spec_clean", a] => "ok " ++ hexe (Pth.Spec.clean (hexd a))
  | ["port_range", a] => "ok " ++ toString (Port.isPortRange (hexd a))
  -- specifications
  | ["spec_split_exec", a] => specSplit P.execFlags (hexd a)
  | ["spec_split_args", a] => specSplit P.argFlags (hexd a)
  | ["spec_split_strv", a] => specSplit P.strvFlags (hexd a)
  | _ => "bad-op"

end Drv
