import QM.Quote
import QM.Unquote
import QM.Extract
import QM.Strv
import QM.Parser
import QM.Path
import QM.Port

/-! Line protocol of the model driver: the same operations as `src/verif_driver.rs` (answered by the
    model of the implementation) plus `spec_*` operations (answered by the specifications, used as
    oracles on the implementation's outputs). -/
namespace Drv
abbrev Str := List Char

def hexVal (c : Char) : Nat :=
  if '0' ≤ c ∧ c ≤ '9' then c.toNat - 48 else c.toNat - 87

def hexBytes : List Char → List UInt8
  | a :: b :: r => UInt8.ofNat (hexVal a * 16 + hexVal b) :: hexBytes r
  | _ => []

/-- `x<hex>` → characters (invalid UTF-8 decodes to the empty string; the harness never sends it) -/
def hexd (s : String) : Str :=
  match String.fromUTF8? (ByteArray.mk (hexBytes (s.toList.drop 1)).toArray) with
  | some str => str.toList
  | none => []

def hexDigitC (n : Nat) : Char := if n < 10 then Char.ofNat (48 + n) else Char.ofNat (87 + n)
def hexe (s : Str) : String :=
  "x" ++ String.ofList ((String.ofList s).toUTF8.toList.flatMap fun b => [hexDigitC (b.toNat / 16), hexDigitC (b.toNat % 16)])

def list (l : List Str) : String := "[" ++ " ".intercalate (l.map hexe) ++ "]"
def opt (o : Option Str) : String := match o with | some s => "some " ++ hexe s | none => "none"

def parseEnv : Parse.Env :=
  { keyChar := fun c => c.isAlphanum || c == '-' || c.toNat ≥ 128, validRaw := fun r => (P.unquoteValue true r).isSome }

def dumpUnit (u : Parse.Unit) : String :=
  " ".intercalate (u.flatMap fun (sec, es) => ("S" ++ hexe sec) :: es.flatMap fun (k, v) => ["K" ++ hexe k, "V" ++ hexe v])

def specSplit (f : P.Flags) (s : Str) : String :=
  match P.splitAll f s with
  | some ws => "ok " ++ list ws
  | none => "einval"

def step (line : String) : String :=
  match line.splitOn "\t" with
  | "quote_words" :: ws => "ok " ++ hexe (P.quoteWords (ws.map hexd))
  | ["quote_value", a] => "ok " ++ hexe (P.quoteValue (hexd a))
  | ["unquote", a] => match P.unquoteValue true (hexd a) with
      | some s => "ok " ++ hexe s
      | none => "err"
  | ["split_word", a] => "ok " ++ list (P.splitArgs (hexd a))
  | ["split_strv", a] => "ok " ++ list (P.splitStrv (hexd a))
  | ["parse", a] => match Parse.parse parseEnv (hexd a) with
      | .ok u => "ok " ++ dumpUnit u
      | .error _ => "err"
  | ["clean", a] => "ok " ++ hexe (Pth.cleaned (hexd a))
  | ["port_range", a] => "ok " ++ toString (Port.isPortRange (hexd a))
  -- specifications
  | ["spec_split_exec", a] => specSplit P.execFlags (hexd a)
  | ["spec_split_args", a] => specSplit P.argFlags (hexd a)
  | ["spec_split_strv", a] => specSplit P.strvFlags (hexd a)
  | _ => "bad-op"

end Drv
