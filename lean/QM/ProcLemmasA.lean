import QM.ProcLemmas
import QM.EscLemmas
/-! priorities, file-name extensions -/
namespace Cv
open MM

theorem span_loop {α} (p : α → Bool) (l acc : List α) :
    List.span.loop p l acc = (acc.reverse ++ l.takeWhile p, l.dropWhile p) := by
  induction l generalizing acc with
  | nil => simp [List.span.loop]
  | cons a l ih =>
    simp only [List.span.loop]
    cases h : p a with
    | true => simp [ih, h]
    | false => simp [h]

theorem span_eq {α} (p : α → Bool) (l : List α) : l.span p = (l.takeWhile p, l.dropWhile p) := by
  simp [List.span, span_loop]

theorem s_image : s ".image" = ['.','i','m','a','g','e'] := by decide
theorem s_build : s ".build" = ['.','b','u','i','l','d'] := by decide
theorem s_pod : s ".pod" = ['.','p','o','d'] := by decide

theorem extension_image (pre : Str) : extension (pre ++ s ".image") = if pre.isEmpty then [] else s "image" := by
  unfold extension splitLast splitOnce
  rw [s_image]
  simp only [List.reverse_append, List.reverse_cons, List.reverse_nil, List.nil_append, List.cons_append, span_eq]
  simp
  cases pre <;> simp
  all_goals decide

theorem extension_build (pre : Str) : extension (pre ++ s ".build") = if pre.isEmpty then [] else s "build" := by
  unfold extension splitLast splitOnce
  rw [s_build]
  simp only [List.reverse_append, List.reverse_cons, List.reverse_nil, List.nil_append, List.cons_append, span_eq]
  simp
  cases pre <;> simp
  all_goals decide

theorem extension_pod (pre : Str) : extension (pre ++ s ".pod") = if pre.isEmpty then [] else s "pod" := by
  unfold extension splitLast splitOnce
  rw [s_pod]
  simp only [List.reverse_append, List.reverse_cons, List.reverse_nil, List.nil_append, List.cons_append, span_eq]
  simp
  cases pre <;> simp
  all_goals decide

theorem endsWith_iff (x suf : Str) : endsWith x suf = true ↔ ∃ pre, x = pre ++ suf := by
  unfold endsWith
  rw [List.isSuffixOf_iff_suffix]
  constructor
  · rintro ⟨t, rfl⟩; exact ⟨t, rfl⟩
  · rintro ⟨t, rfl⟩; exact ⟨t, rfl⟩

/-- the types whose conversion publishes a name -/
def isPublisher (ty : Str) : Bool := ty == s "image" || ty == s "volume" || ty == s "network"

theorem publishOf_none (b : Bool) (q : QUnit) (h : isPublisher q.ty = false) : publishOf b q = none := by
  simp only [isPublisher, Bool.or_eq_false_iff] at h
  obtain ⟨⟨h1, h2⟩, h3⟩ := h
  unfold publishOf
  simp [h1, h2, h3]

theorem prio_publisher (ty : Str) (h : isPublisher ty = true) : prio ty ≤ 2 := by
  simp only [isPublisher, Bool.or_eq_true, beq_iff_eq] at h
  rcases h with (rfl | rfl) | rfl <;> decide

theorem prio_table : ∀ p ∈ Gen.sortingPriority, isPublisher p.1 = true ∨ 2 < p.2 := by decide

theorem prio_nonpublisher (ty : Str) (h : isPublisher ty = false) : 2 < prio ty := by
  unfold prio
  cases hl : Gen.sortingPriority.lookup ty with
  | none => simp
  | some v =>
    have := prio_table _ (P.lookup_mem _ _ _ hl)
    simp only [h, Bool.false_eq_true, false_or] at this
    simpa using this

theorem prio_image_lt_volume : prio (s "image") < prio (s "volume") := by decide

end Cv
