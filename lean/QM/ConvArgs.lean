import QM.ConvDelta
/-! The reference handlers (`handle_networks`, `handle_volumes`, the `Mount=` loop) thread the service through a fold while they
    collect arguments; the arguments they collect do not depend on the service.  Each handler therefore has an *argument
    projection* — a function of the environment and the unit alone — and the handler's argument list is that function's value. -/
namespace Cv
open MM

def fstR {α β} (r : R (α × β)) : R α := match r with | .ok p => .ok p.1 | .error e => .error e

theorem foldlM_fst {α A S} (f : A × S → α → R (A × S)) (g : A → α → R A)
    (h : ∀ a sv x, fstR (f (a, sv) x) = g a x) :
    ∀ (l : List α) (a : A) (sv : S), fstR (l.foldlM f (a, sv)) = l.foldlM g a := by
  intro l
  induction l with
  | nil => intro a sv; rfl
  | cons x l ih =>
    intro a sv
    simp only [List.foldlM_cons]
    have hx := h a sv x
    cases hf : f (a, sv) x with
    | error e =>
      rw [hf] at hx
      simp only [fstR] at hx
      rw [← hx]
      rfl
    | ok p =>
      rw [hf] at hx
      simp only [fstR] at hx
      rw [← hx]
      obtain ⟨a', sv'⟩ := p
      exact ih a' sv'

theorem fstR_ok {α β} {r : R (α × β)} {p : α × β} (h : r = .ok p) : fstR r = .ok p.1 := by rw [h]; rfl

/-! ### Network= -/
def networkRefName (E : Env) (name : Str) : R Str :=
  if endsWith name (s ".network") || endsWith name (s ".container") then
    match E.info name with
    | none => .error (Err.internal (s "unit") name)
    | some i => if i.resourceName.isEmpty then .error (Err.resourceName name) else .ok i.resourceName
  else .ok name

theorem networkRef_fst (E : Env) (name : Str) (svc : SUnit) : fstR (networkRef E name svc) = networkRefName E name := by
  unfold networkRef networkRefName
  split
  · cases E.info name with
    | none => rfl
    | some i =>
      simp only
      split <;> rfl
  · rfl

def networkArgStep (E : Env) (acc : List Str) (network : Str) : R (List Str) :=
  if network.isEmpty then .ok acc else
  let name := netNameOf network
  let isCtr := endsWith name (s ".container")
  match networkRefName E name with
  | .error e => .error e
  | .ok r =>
    match netOptionsOf network with
    | some o => if isCtr then .error .networkOptions else .ok (acc ++ [s "--network", r ++ ':' :: o])
    | none => if isCtr then .ok (acc ++ [s "--network", s "container:" ++ r])
              else .ok (acc ++ [s "--network", r])

theorem networkStep_fst (E : Env) (a : List Str) (sv : SUnit) (nw : Str) :
    fstR (networkStep E (a, sv) nw) = networkArgStep E a nw := by
  unfold networkStep networkArgStep
  split
  · rfl
  · simp only
    have h := networkRef_fst E (netNameOf nw) sv
    cases hr : networkRef E (netNameOf nw) sv with
    | error e =>
      rw [hr] at h; simp only [fstR] at h; rw [← h]; rfl
    | ok r =>
      rw [hr] at h; simp only [fstR] at h; rw [← h]
      simp only
      cases netOptionsOf nw with
      | none => simp only; split <;> rfl
      | some o => simp only; split <;> rfl

/-- the `--network` arguments: a function of the name table and the unit's `Network=` values -/
def networkArgs (E : Env) (u : SUnit) (sec : Str) : R (List Str) := (lookupAll u sec (s "Network")).foldlM (networkArgStep E) []

theorem handleNetworks_args (E : Env) (u : SUnit) (sec : Str) (svc : SUnit) (r : List Str × SUnit)
    (h : handleNetworks E u sec svc = .ok r) : networkArgs E u sec = .ok r.1 := by
  unfold handleNetworks at h
  unfold networkArgs
  rw [← foldlM_fst (networkStep E) (networkArgStep E) (networkStep_fst E) _ [] svc]
  exact fstR_ok h

/-! ### Volume= -/
def storageSourceName (E : Env) (unitPath source : Str) (checkImage : Bool) : R Str :=
  let source := if source.head? == some '.' then absFromUnit unitPath source else source
  if source.head? == some '/' then .ok source
  else if endsWith source (s ".volume") || (checkImage && endsWith source (s ".image")) then
    match E.info source with
    | none => .error (.sourceNotFound source)
    | some i => .ok i.resourceName
  else .ok source

theorem handleStorageSource_fst (E : Env) (unitPath : Str) (svc : SUnit) (source : Str) (ci : Bool) :
    fstR (handleStorageSource E unitPath svc source ci) = storageSourceName E unitPath source ci := by
  unfold handleStorageSource storageSourceName
  simp only
  generalize (if (source.head? == some '.') = true then absFromUnit unitPath source else source) = src
  by_cases h1 : (src.head? == some '/') = true
  · simp only [h1, if_true]; rfl
  · simp only [h1, if_false]
    by_cases h2 : (endsWith src (s ".volume") || (ci && endsWith src (s ".image"))) = true
    · simp only [h2, if_true]
      cases E.info src <;> rfl
    · simp only [h2, if_false]; rfl

def volumeArgStep (E : Env) (unitPath : Str) (acc : List Str) (volume : Str) : R (List Str) :=
  let parts := splitN3 volume
  if (volSource parts).isEmpty then .ok (acc ++ [s "-v", volDest parts])
  else match storageSourceName E unitPath (volSource parts) false with
    | .error e => .error e
    | .ok r =>
      if r.isEmpty then .ok (acc ++ [s "-v", volDest parts])
      else .ok (acc ++ [s "-v", r ++ ':' :: volDest parts ++ volOptions parts])

theorem volumeStep_fst (E : Env) (unitPath : Str) (a : List Str) (sv : SUnit) (v : Str) :
    fstR (volumeStep E unitPath (a, sv) v) = volumeArgStep E unitPath a v := by
  unfold volumeStep volumeArgStep
  simp only
  split
  · rfl
  · have h := handleStorageSource_fst E unitPath sv (volSource (splitN3 v)) false
    cases hr : handleStorageSource E unitPath sv (volSource (splitN3 v)) false with
    | error e => rw [hr] at h; simp only [fstR] at h; rw [← h]; rfl
    | ok r =>
      rw [hr] at h; simp only [fstR] at h; rw [← h]
      simp only
      split <;> rfl

/-- the `-v` arguments: a function of the name table, the unit's path and its `Volume=` values -/
def volumeArgs (E : Env) (unitPath : Str) (u : SUnit) (sec : Str) : R (List Str) :=
  (lookupAll u sec (s "Volume")).foldlM (volumeArgStep E unitPath) []

theorem handleVolumes_args (E : Env) (unitPath : Str) (u : SUnit) (sec : Str) (svc : SUnit) (r : List Str × SUnit)
    (h : handleVolumes E unitPath u sec svc = .ok r) : volumeArgs E unitPath u sec = .ok r.1 := by
  unfold handleVolumes at h
  unfold volumeArgs
  rw [← foldlM_fst (volumeStep E unitPath) (volumeArgStep E unitPath) (volumeStep_fst E unitPath) _ [] svc]
  exact fstR_ok h

/-- blocks of a fallible argument function: its value, nothing when it fails (then there is no command at all) -/
def blockOf (r : R (List Str)) : List Str := match r with | .ok l => l | .error _ => []

def segNetworks (E : Env) (sec : Str) : Seg := ⟨[s "Network"], fun u => blockOf (networkArgs E u sec)⟩
def segVolumes (E : Env) (path sec : Str) : Seg := ⟨[s "Volume"], fun u => blockOf (volumeArgs E path u sec)⟩

theorem segNetworks_local (E : Env) (sec : Str) : (segNetworks E sec).Local sec := by
  intro u u' h
  simp only [segNetworks, networkArgs]
  rw [lookupAll_congr (h _ (by simp [segNetworks]))]
theorem segVolumes_local (E : Env) (path sec : Str) : (segVolumes E path sec).Local sec := by
  intro u u' h
  simp only [segVolumes, volumeArgs]
  rw [lookupAll_congr (h _ (by simp [segVolumes]))]

end Cv

namespace Cv
open MM

/-! ### the user-namespace options: one block, a function of nine keys -/
def mapKeys : List Str :=
  [s "UserNS", s "UIDMap", s "GIDMap", s "SubUIDMap", s "SubGIDMap", s "RemapUid", s "RemapGid", s "RemapUsers", s "RemapUidSize"]

theorem handleUserRemap_congr (u u' : SUnit) (sec : Str) (sm : Bool)
    (h : ∀ k ∈ mapKeys, assignments u sec k = assignments u' sec k) : handleUserRemap u sec sm = handleUserRemap u' sec sm := by
  unfold handleUserRemap
  rw [lookup_congr (h (s "UserNS") (by decide)), lookupAllStrv_congr (h (s "RemapUid") (by decide)),
    lookupAllStrv_congr (h (s "RemapGid") (by decide)), lookup_congr (h (s "RemapUsers") (by decide)),
    lookup_congr (h (s "RemapUidSize") (by decide))]

theorem handleUserMappings_congr (u u' : SUnit) (sec : Str) (sm : Bool)
    (h : ∀ k ∈ mapKeys, assignments u sec k = assignments u' sec k) : handleUserMappings u sec sm = handleUserMappings u' sec sm := by
  unfold handleUserMappings
  simp only []
  rw [lookup_congr (h (s "UserNS") (by decide)), lookupAllStrv_congr (h (s "UIDMap") (by decide)),
    lookupAllStrv_congr (h (s "GIDMap") (by decide)), lookup_congr (h (s "SubUIDMap") (by decide)),
    lookup_congr (h (s "SubGIDMap") (by decide)), lookup_congr (h (s "RemapUid") (by decide)),
    lookup_congr (h (s "RemapGid") (by decide)), lookup_congr (h (s "RemapUsers") (by decide)),
    handleUserRemap_congr u u' sec sm h]

def segMaps (sec : Str) (sm : Bool) : Seg := ⟨mapKeys, fun u => blockOf (handleUserMappings u sec sm)⟩
theorem segMaps_local (sec : Str) (sm : Bool) : (segMaps sec sm).Local sec := by
  intro u u' h
  simp only [segMaps]
  rw [handleUserMappings_congr u u' sec sm h]

end Cv

namespace Cv
open MM

theorem blockOf_ok {r : R (List Str)} {l : List Str} (h : r = .ok l) : blockOf r = l := by rw [h]; rfl

/-! ### .pod (the `pod create` command, ExecStartPre) -/
def podSegs (E : Env) (path : Str) : List Seg :=
  let sec := s "Pod"
  [segConst [E.podman]]
    ++ Gen.tbl_get_base_podman_command_inline_lookup_and_add_all_strings.map (segAll sec)
    ++ [segArgs sec "GlobalArgs",
        segConst [s "pod", s "create", s "--infra-conmon-pidfile=%t/%N.pid", s "--pod-id-file=%t/%N.pod-id", s "--exit-policy=stop", s "--replace"],
        segMaps sec true]
    ++ Gen.tbl_handle_publish_ports_inline_lookup_and_add_all_strings.map (segAll sec)
    ++ [segNetworks E sec]
    ++ Gen.tbl_from_pod_unit_string_keys.map (segString sec)
    ++ Gen.tbl_from_pod_unit_all_string_keys.map (segAll sec)
    ++ [segVolumes E path sec,
        segMulti [s "PodName"] (fun u => [s "--infra-name", podNameOf path u ++ s "-infra", s "--name", podNameOf path u]),
        segArgs sec "PodmanArgs"]

theorem podSegs_local (E : Env) (path : Str) : ∀ g ∈ podSegs E path, g.Local (s "Pod") := by
  intro g hg
  simp only [podSegs, List.mem_append, List.mem_map, List.mem_cons, List.not_mem_nil, or_false] at hg
  rcases hg with ((((((rfl | ⟨r, _, rfl⟩) | rfl | rfl | rfl) | ⟨r, _, rfl⟩) | rfl) | ⟨r, _, rfl⟩) | ⟨r, _, rfl⟩) | rfl | rfl | rfl
  · exact segConst_local _ _
  · exact segAll_local _ _
  · exact segArgs_local _ _
  · exact segConst_local _ _
  · exact segMaps_local _ _
  · exact segAll_local _ _
  · exact segNetworks_local _ _
  · exact segString_local _ _
  · exact segAll_local _ _
  · exact segVolumes_local _ _ _
  · intro u u' h
    simp only [segMulti, podNameOf]
    rw [lookup_congr (h _ (by simp [segMulti]))]
  · exact segArgs_local _ _

/-- a `.pod` unit that converts carries, as ExecStartPre, the rendering of the concatenation of its segments' blocks -/
theorem fromPod_segs (E : Env) (path : Str) (u svc : SUnit) (cts : List Str) (h : fromPod E path u cts = .ok svc) :
    HasExec svc "ExecStartPre" (cmdOf (podSegs E path) u) := by
  unfold fromPod at h
  simp only [bind_ok] at h
  obtain ⟨_, _, _, _, s1, _, s2, _, s3, _, maps, hmaps, x5, hnets, x6, hvols, s7, hexec, hfin⟩ := h
  simp only [pure, Except.pure, Except.ok.injEq] at hfin
  subst hfin
  have e1 := blockOf_ok hmaps
  have e2 := blockOf_ok (handleNetworks_args _ _ _ _ _ hnets)
  have e3 := blockOf_ok (handleVolumes_args _ _ _ _ _ _ hvols)
  have e : cmdOf (podSegs E path) u =
      baseCmd E u (s "Pod") ++ [s "pod", s "create", s "--infra-conmon-pidfile=%t/%N.pid", s "--pod-id-file=%t/%N.pod-id",
          s "--exit-policy=stop", s "--replace"]
        ++ maps ++ publishPorts u (s "Pod") ++ x5.1
        ++ (addString u (s "Pod") Gen.tbl_from_pod_unit_string_keys ++ addAllStrings u (s "Pod") Gen.tbl_from_pod_unit_all_string_keys)
        ++ x6.1 ++ [s "--infra-name", podNameOf path u ++ s "-infra", s "--name", podNameOf path u] ++ podmanArgs u (s "Pod") := by
    unfold podSegs
    simp only [cmdOf_append, cmdOf_string, cmdOf_bool, cmdOf_all]
    simp [cmdOf, baseCmd, moduleArgs, addAllStrings0, addAllStrings, podmanArgs, publishPorts, segConst, segArgs, segMulti, segMaps,
      segNetworks, segVolumes, e1, e2, e3]
  rw [e]
  exact ((((HasExec.of_addRawExec hexec).addS _ _ _).addS _ _ _).addS _ _ _).addS _ _ _

end Cv

namespace Cv
open MM

/-- a block computed from the words of a plain list key -/
def segStrv (sec : Str) (key : String) (f : List Str → List Str) : Seg := ⟨[s key], fun u => f (lookupAllStrv u sec (s key))⟩
theorem segStrv_local (sec : Str) (key : String) (f : List Str → List Str) : (segStrv sec key f).Local sec := by
  intro u u' h; simp only [segStrv]; rw [lookupAllStrv_congr (h (s key) (by simp [segStrv]))]
/-- a block computed from the words of an argument-style key -/
def segArgsWith (sec : Str) (key : String) (f : List Str → List Str) : Seg := ⟨[s key], fun u => f (lookupAllArgs u sec (s key))⟩
theorem segArgsWith_local (sec : Str) (key : String) (f : List Str → List Str) : (segArgsWith sec key f).Local sec := by
  intro u u' h; simp only [segArgsWith]; rw [lookupAllArgs_congr (h (s key) (by simp [segArgsWith]))]

/-! ### .kube -/
def kubeSegs (E : Env) (path : Str) : List Seg :=
  let sec := s "Kube"
  [segConst [E.podman]]
    ++ Gen.tbl_get_base_podman_command_inline_lookup_and_add_all_strings.map (segAll sec)
    ++ [segArgs sec "GlobalArgs", segConst [s "kube", s "play", s "--replace", s "--service-container=true"],
        segLast sec "ExitCodePropagation" (fun o => match o with
          | some e => if e.isEmpty then [] else [s "--service-exit-code-propagation=" ++ e] | none => []),
        segLast sec "LogDriver" (fun o => match o with | some v => if v.isEmpty then [] else [s "--log-driver", v] | none => []),
        segStrv sec "LogOpt" (fun l => l.flatMap fun o => [s "--log-opt", o]),
        segMaps sec false, segNetworks E sec,
        segStrv sec "AutoUpdate" (fun l => l.flatMap fun upd =>
          match splitOnce '/' upd with
          | some (a, t) => [s "--annotation", s "io.containers.autoupdate" ++ ('/' :: a) ++ '=' :: t]
          | none => [s "--annotation", s "io.containers.autoupdate=" ++ upd]),
        segStrv sec "ConfigMap" (fun l => l.flatMap fun c => [s "--configmap", absFromUnit path c])]
    ++ Gen.tbl_handle_publish_ports_inline_lookup_and_add_all_strings.map (segAll sec)
    ++ [segArgs sec "PodmanArgs", segLast sec "Yaml" (fun o => [absFromUnit path (o.getD [])])]

theorem kubeSegs_local (E : Env) (path : Str) : ∀ g ∈ kubeSegs E path, g.Local (s "Kube") := by
  intro g hg
  simp only [kubeSegs, List.mem_append, List.mem_map, List.mem_cons, List.not_mem_nil, or_false] at hg
  rcases hg with (((rfl | ⟨r, _, rfl⟩) | rfl | rfl | rfl | rfl | rfl | rfl | rfl | rfl | rfl) | ⟨r, _, rfl⟩) | rfl | rfl
  · exact segConst_local _ _
  · exact segAll_local _ _
  · exact segArgs_local _ _
  · exact segConst_local _ _
  · exact segLast_local _ _ _
  · exact segLast_local _ _ _
  · exact segStrv_local _ _ _
  · exact segMaps_local _ _
  · exact segNetworks_local _ _
  · exact segStrv_local _ _ _
  · exact segStrv_local _ _ _
  · exact segAll_local _ _
  · exact segArgs_local _ _
  · exact segLast_local _ _ _

theorem fromKube_segs (E : Env) (path : Str) (u svc : SUnit) (h : fromKube E path u = .ok svc) :
    HasExec svc "ExecStart" (cmdOf (kubeSegs E path) u) := by
  unfold fromKube at h
  simp only [bind_ok] at h
  obtain ⟨_, _, _, _, h⟩ := h
  split at h
  · exact absurd h (throw_bind_ne_ok _ _ _)
  · simp only [bind_ok] at h
    obtain ⟨s1, _, s2, _, maps, hmaps, x4, hnets, s5, hexec, s6, hstop, x7, hwd, hfin⟩ := h
    simp only [pure, Except.pure, Except.ok.injEq] at hfin
    subst hfin
    have e1 := blockOf_ok hmaps
    have e2 := blockOf_ok (handleNetworks_args _ _ _ _ _ hnets)
    have e : cmdOf (kubeSegs E path) u =
        baseCmd E u (s "Kube") ++ [s "kube", s "play", s "--replace", s "--service-container=true"]
        ++ (match lookup u (s "Kube") (s "ExitCodePropagation") with
            | some e => if e.isEmpty then [] else [s "--service-exit-code-propagation=" ++ e] | none => [])
        ++ logDriver u (s "Kube") ++ logOpt u (s "Kube")
        ++ maps ++ x4.1 ++ kubeAutoUpdate u ++ kubeConfigMaps path u ++ publishPorts u (s "Kube") ++ podmanArgs u (s "Kube")
        ++ [absFromUnit path ((lookup u (s "Kube") (s "Yaml")).getD [])] := by
      unfold kubeSegs
      simp only [cmdOf_append, cmdOf_string, cmdOf_bool, cmdOf_all]
      simp [cmdOf, baseCmd, moduleArgs, addAllStrings0, addAllStrings, podmanArgs, publishPorts, segConst, segArgs, segMaps, segLast, segStrv,
        segNetworks, logDriver, logOpt, kubeAutoUpdate, kubeConfigMaps, e1, e2]
      rfl
    rw [e]
    have h1 := (HasExec.of_addRawExec hexec).addRawExec hstop
    unfold handleSetWorkingDirectory at hwd
    split at hwd
    · simp at hwd
    · simp only [Except.ok.injEq] at hwd
      rw [← hwd]
      exact h1.applyWd _

end Cv

namespace Cv
open MM

/-! ### .volume -/
theorem hasKey_congr {u u' : SUnit} {sec k : Str} (h : assignments u sec k = assignments u' sec k) : hasKey u sec k = hasKey u' sec k := by
  unfold hasKey; rw [h]

def imageSourceName (E : Env) (name : Str) : R Str :=
  if endsWith name (s ".build") || endsWith name (s ".image") then
    match E.info name with
    | none => .error (.imageNotFound name)
    | some i => .ok i.resourceName
  else .ok name

theorem handleImageSource_fst (E : Env) (name : Str) (svc : SUnit) : fstR (handleImageSource E name svc) = imageSourceName E name := by
  unfold handleImageSource imageSourceName
  split
  · cases E.info name <;> rfl
  · rfl

/-- the argument projection of `volumeOpts` -/
def volumeOptArgs (E : Env) (u : SUnit) : R (List Str) := fstR (volumeOpts E u [])

theorem volumeOpts_fst (E : Env) (u : SUnit) (svc svc0 : SUnit) : fstR (volumeOpts E u svc) = fstR (volumeOpts E u svc0) := by
  unfold volumeOpts
  simp only []
  split
  · cases lookup u (s "Volume") (s "Image") with
    | none => rfl
    | some img =>
      simp only []
      have h1 := handleImageSource_fst E img svc
      have h2 := handleImageSource_fst E img svc0
      cases hr : handleImageSource E img svc with
      | error e =>
        rw [hr] at h1; simp only [fstR] at h1
        cases hr0 : handleImageSource E img svc0 with
        | error e0 => rw [hr0] at h2; simp only [fstR] at h2; rw [← h1] at h2; cases h2; rfl
        | ok p0 => rw [hr0] at h2; simp only [fstR] at h2; rw [← h1] at h2; cases h2
      | ok p =>
        rw [hr] at h1; simp only [fstR] at h1
        cases hr0 : handleImageSource E img svc0 with
        | error e0 => rw [hr0] at h2; simp only [fstR] at h2; rw [← h1] at h2; cases h2
        | ok p0 =>
          rw [hr0] at h2; simp only [fstR] at h2; rw [← h1] at h2
          have : p0.1 = p.1 := by injection h2
          obtain ⟨a, b⟩ := p; obtain ⟨a0, b0⟩ := p0
          simp only at this; subst this
          rfl
  · split
    · rfl
    · split
      · rfl
      · rfl

theorem volumeOpts_args (E : Env) (u svc : SUnit) (r : List Str × SUnit) (h : volumeOpts E u svc = .ok r) :
    volumeOptArgs E u = .ok r.1 := by
  unfold volumeOptArgs
  rw [← volumeOpts_fst E u svc []]
  exact fstR_ok h

def volOptKeys : List Str := [s "Driver", s "Image", s "User", s "Group", s "Copy", s "Device", s "Type", s "Options"]

theorem volumeOpts_congr (E : Env) (u u' : SUnit) (svc : SUnit)
    (h : ∀ k ∈ volOptKeys, assignments u (s "Volume") k = assignments u' (s "Volume") k) : volumeOpts E u svc = volumeOpts E u' svc := by
  unfold volumeOpts
  simp only []
  rw [lookup_congr (h (s "Driver") (by decide)), lookup_congr (h (s "Image") (by decide)), hasKey_congr (h (s "User") (by decide)),
    lookup_congr (h (s "User") (by decide)), hasKey_congr (h (s "Group") (by decide)), lookup_congr (h (s "Group") (by decide)),
    lookupBool_congr (h (s "Copy") (by decide)), lookup_congr (h (s "Device") (by decide)), lookup_congr (h (s "Type") (by decide)),
    lookup_congr (h (s "Options") (by decide))]

def segVolOpts (E : Env) : Seg := ⟨volOptKeys, fun u => blockOf (volumeOptArgs E u)⟩
theorem segVolOpts_local (E : Env) : (segVolOpts E).Local (s "Volume") := by
  intro u u' h
  simp only [segVolOpts, volumeOptArgs]
  rw [volumeOpts_congr E u u' [] h]

def volumeNameOf (path : Str) (u : SUnit) : Str :=
  if ((lookup u (s "Volume") (s "VolumeName")).getD []).isEmpty then s "systemd-" ++ fileStem (fileName path)
  else (lookup u (s "Volume") (s "VolumeName")).getD []

def volumeSegs (E : Env) (path : Str) : List Seg :=
  let sec := s "Volume"
  [segConst [E.podman]]
    ++ Gen.tbl_get_base_podman_command_inline_lookup_and_add_all_strings.map (segAll sec)
    ++ [segArgs sec "GlobalArgs", segConst [s "volume", s "create", s "--ignore"], segVolOpts E,
        segKeyVal sec "--label" "Label", segArgs sec "PodmanArgs", segMulti [s "VolumeName"] (fun u => [volumeNameOf path u])]

theorem volumeSegs_local (E : Env) (path : Str) : ∀ g ∈ volumeSegs E path, g.Local (s "Volume") := by
  intro g hg
  simp only [volumeSegs, List.mem_append, List.mem_map, List.mem_cons, List.not_mem_nil, or_false] at hg
  rcases hg with (rfl | ⟨r, _, rfl⟩) | rfl | rfl | rfl | rfl | rfl | rfl
  · exact segConst_local _ _
  · exact segAll_local _ _
  · exact segArgs_local _ _
  · exact segConst_local _ _
  · exact segVolOpts_local _
  · exact segKeyVal_local _ _ _
  · exact segArgs_local _ _
  · intro u u' h
    simp only [segMulti, volumeNameOf]
    rw [lookup_congr (h _ (by simp [segMulti]))]

theorem fromVolume_segs (E : Env) (path : Str) (u svc : SUnit) (n : Str) (h : fromVolume E path u = .ok (svc, n)) :
    HasExec svc "ExecStart" (cmdOf (volumeSegs E path) u) := by
  unfold fromVolume at h
  simp only [bind_ok] at h
  obtain ⟨_, _, _, _, x, hx, svc1, hexec, hfin⟩ := h
  simp only [pure, Except.pure, Except.ok.injEq, Prod.mk.injEq] at hfin
  obtain ⟨rfl, rfl⟩ := hfin
  have e1 := blockOf_ok (volumeOpts_args E u _ x hx)
  have e : cmdOf (volumeSegs E path) u =
      baseCmd E u (s "Volume") ++ [s "volume", s "create", s "--ignore"] ++ x.1
        ++ addKeys "--label" (lookupAllKeyVal u (s "Volume") (s "Label")) ++ podmanArgs u (s "Volume") ++ [volumeNameOf path u] := by
    unfold volumeSegs
    simp only [cmdOf_append, cmdOf_all]
    simp [cmdOf, baseCmd, moduleArgs, addAllStrings0, addAllStrings, podmanArgs, segConst, segArgs, segKeyVal, segMulti, segVolOpts, e1]
  rw [e]
  exact (HasExec.of_addRawExec hexec).oneShot true (by decide) (by decide) (by decide)

end Cv

namespace Cv
open MM

/-! ### Mount= -/
def mountTokArgStep (E : Env) (unitPath : Str) (acc : List Str) (t : Str) : R (List Str) :=
  if startsWith t (s "source=") || startsWith t (s "src=") then
    match splitOnce '=' t with
    | some (_, v) =>
      match storageSourceName E unitPath v true with
      | .error e => .error e
      | .ok r => .ok (acc ++ [s "source=" ++ r])
    | none => .ok acc
  else .ok (acc ++ [t])

theorem mountTokStep_fst (E : Env) (unitPath : Str) (a : List Str) (sv : SUnit) (t : Str) :
    fstR (mountTokStep E unitPath (a, sv) t) = mountTokArgStep E unitPath a t := by
  unfold mountTokStep mountTokArgStep
  split
  · cases splitOnce '=' t with
    | none => rfl
    | some p =>
      obtain ⟨p1, v⟩ := p
      simp only
      have h := handleStorageSource_fst E unitPath sv v true
      cases hr : handleStorageSource E unitPath sv v true with
      | error e => rw [hr] at h; simp only [fstR] at h; rw [← h]; rfl
      | ok r => rw [hr] at h; simp only [fstR] at h; rw [← h]; rfl
  · rfl

def resolveMountArg (E : Env) (unitPath : Str) (m : Str) : Option (R Str) :=
  match findMountType m with
  | none => none
  | some (.error e) => some (.error e)
  | some (.ok (ty, toks)) =>
    if !(ty == s "volume" || ty == s "bind" || ty == s "glob" || ty == s "image") then some (.ok m)
    else some (match toks.foldlM (mountTokArgStep E unitPath) [s "type=" ++ ty] with
      | .error e => .error e
      | .ok r => .ok (commaJoin r))

def mountsArgStep (E : Env) (unitPath : Str) (acc : List Str) (m : Str) : R (List Str) :=
  match resolveMountArg E unitPath m with
  | some (.ok r) => .ok (acc ++ [s "--mount", r])
  | some (.error e) => .error e
  | none => .error .badValue

theorem mountsStep_fst (E : Env) (unitPath : Str) (a : List Str) (sv : SUnit) (m : Str) :
    fstR (mountsStep E unitPath (a, sv) m) = mountsArgStep E unitPath a m := by
  unfold mountsStep mountsArgStep resolveMount resolveMountArg
  cases findMountType m with
  | none => rfl
  | some r =>
    cases r with
    | error e => rfl
    | ok p =>
      obtain ⟨ty, toks⟩ := p
      simp only
      by_cases hty : (!(ty == s "volume" || ty == s "bind" || ty == s "glob" || ty == s "image")) = true
      · simp only [hty, if_true]; rfl
      · simp only [hty, if_false]
        have h := foldlM_fst (mountTokStep E unitPath) (mountTokArgStep E unitPath) (mountTokStep_fst E unitPath) toks [s "type=" ++ ty] sv
        cases hr : List.foldlM (mountTokStep E unitPath) ([s "type=" ++ ty], sv) toks with
        | error e => rw [hr] at h; simp only [fstR] at h; rw [← h]; rfl
        | ok r => rw [hr] at h; simp only [fstR] at h; rw [← h]; rfl

/-- the `--mount` arguments: a function of the name table, the unit's path and the words of its `Mount=` values -/
def mountArgs (E : Env) (unitPath : Str) (u : SUnit) (sec : Str) : R (List Str) :=
  (lookupAllArgs u sec (s "Mount")).foldlM (mountsArgStep E unitPath) []

theorem mounts_args (E : Env) (unitPath : Str) (u : SUnit) (sec : Str) (svc : SUnit) (r : List Str × SUnit)
    (h : (lookupAllArgs u sec (s "Mount")).foldlM (mountsStep E unitPath) ([], svc) = .ok r) : mountArgs E unitPath u sec = .ok r.1 := by
  unfold mountArgs
  rw [← foldlM_fst (mountsStep E unitPath) (mountsArgStep E unitPath) (mountsStep_fst E unitPath) _ [] svc]
  exact fstR_ok h

def segMounts (E : Env) (path sec : Str) : Seg := ⟨[s "Mount"], fun u => blockOf (mountArgs E path u sec)⟩
theorem segMounts_local (E : Env) (path sec : Str) : (segMounts E path sec).Local sec := by
  intro u u' h
  simp only [segMounts, mountArgs]
  rw [lookupAllArgs_congr (h _ (by simp [segMounts]))]

/-! ### Pod= -/
def podArgsOf (E : Env) (u : SUnit) (sec : Str) : R (List Str) :=
  match lookup u sec (s "Pod") with
  | none => .ok []
  | some pod =>
    if pod.isEmpty then .ok []
    else if !endsWith pod (s ".pod") then .error (.invalidPod pod)
    else match E.info pod with
      | none => .error (.podNotFound pod)
      | some i => .ok [s "--pod-id-file", s "%t/" ++ i.serviceName ++ s ".pod-id"]

theorem handlePod_args (E : Env) (u : SUnit) (sec : Str) (svc : SUnit) (own : Str) (r : List Str × SUnit × Option (Str × Str))
    (h : handlePod E u sec svc own = .ok r) : podArgsOf E u sec = .ok r.1 := by
  unfold handlePod at h
  unfold podArgsOf
  cases hp : lookup u sec (s "Pod") with
  | none => rw [hp] at h; simp only [Except.ok.injEq] at h; rw [← h]
  | some pod =>
    rw [hp] at h
    simp only at h ⊢
    split at h
    · simp only [Except.ok.injEq] at h; rw [← h]; simp [*]
    · rename_i h1
      split at h
      · simp at h
      · rename_i h2
        simp only [h1, h2, if_false, Bool.false_eq_true]
        cases hi : E.info pod with
        | none => rw [hi] at h; simp at h
        | some i => rw [hi] at h; simp only [Except.ok.injEq] at h; rw [← h]

def segPod (E : Env) (sec : Str) : Seg := ⟨[s "Pod"], fun u => blockOf (podArgsOf E u sec)⟩
theorem segPod_local (E : Env) (sec : Str) : (segPod E sec).Local sec := by
  intro u u' h
  simp only [segPod, podArgsOf]
  rw [lookup_congr (h _ (by simp [segPod]))]

end Cv

namespace Cv
open MM

/-! ### .container -/
def segBoolOn (sec : Str) (key : String) (args : List Str) : Seg :=
  ⟨[s key], fun u => if (lookupBool u sec (s key)).getD false then args else []⟩
theorem segBoolOn_local (sec : Str) (key : String) (args : List Str) : (segBoolOn sec key args).Local sec := by
  intro u u' h; simp only [segBoolOn]; rw [lookupBool_congr (h (s key) (by simp [segBoolOn]))]

def segHealth (sec : Str) (r : Str × Str) : Seg :=
  ⟨[r.1], fun u => match lookup u sec r.1 with
    | some v => if v.isEmpty then [] else [s "--health-" ++ r.2, v]
    | none => []⟩
theorem segHealth_local (sec : Str) (r : Str × Str) : (segHealth sec r).Local sec := by
  intro u u' h; simp only [segHealth]; rw [lookup_congr (h r.1 (by simp [segHealth]))]
theorem cmdOf_health (sec : Str) (u : SUnit) : cmdOf (Gen.tbl_handle_health_key_arg_map.map (segHealth sec)) u = healthArgs u sec := by
  simp [cmdOf, healthArgs, List.flatMap_map, segHealth]
  rfl

/-- the `--expose` options -/
def exposeArgs (u : SUnit) (sec : Str) : R (List Str) :=
  (lookupAll u sec (s "ExposeHostPort")).foldlM (fun (acc : List Str) p =>
    let p := trim p
    if Port.isPortRange p then pure (acc ++ [s "--expose", p]) else throw (Err.invalidPort p)) []

/-- the name of the image as podman knows it: the value of `Image=`, or what the .image / .build unit it names creates -/
def imageNameOf (E : Env) (u : SUnit) (sec : Str) : Str :=
  let img := (lookup u sec (s "Image")).getD []
  if img.isEmpty then img else blockName (imageSourceName E img)
where blockName (r : R Str) : Str := match r with | .ok n => n | .error _ => []

def notifyBlock (svcType : Option Str) (sec : Str) (u : SUnit) : List Str :=
  match svcType with
  | some t => if t == s "oneshot" then [] else [sdnotifyArg u sec, s "-d"]
  | none => [sdnotifyArg u sec, s "-d"]

def execBlock (sec : Str) (u : SUnit) : List Str :=
  match lookupLastValue u sec (s "Exec") with | some raw => splitArgs raw | none => []

def containerSegs (E : Env) (path : Str) (svcType : Option Str) : List Seg :=
  let sec := s "Container"
  [segConst [E.podman]]
    ++ Gen.tbl_get_base_podman_command_inline_lookup_and_add_all_strings.map (segAll sec)
    ++ [segArgs sec "GlobalArgs", segConst [s "run"],
        segMulti [s "ContainerName"] (fun u => [s "--name", containerName (fileName path) u]),
        segConst [s "--cidfile=%t/%N.cid", s "--replace", s "--rm"],
        segMulti [s "LogDriver"] (fun u => logDriver u sec), segMulti [s "LogOpt"] (fun u => logOpt u sec),
        segLast sec "CgroupsMode" (fun o => [s "--cgroups", match o with | some c => if c.isEmpty then s "split" else c | none => s "split"])]
    ++ Gen.tbl_from_container_unit_string_keys.map (segString sec)
    ++ Gen.tbl_from_container_unit_all_string_keys.map (segAll sec)
    ++ Gen.tbl_from_container_unit_bool_keys.map (segBool sec)
    ++ [segNetworks E sec, segMulti [s "Notify"] (notifyBlock svcType sec),
        segBoolOn sec "NoNewPrivileges" [s "--security-opt=no-new-privileges"],
        segBoolOn sec "SecurityLabelDisable" [s "--security-opt", s "label=disable"],
        segBoolOn sec "SecurityLabelNested" [s "--security-opt", s "label=nested"],
        segLast sec "SecurityLabelType" (fun o => match o with | some v => if v.isEmpty then [] else [s "--security-opt", s "label=type:" ++ v] | none => []),
        segLast sec "SecurityLabelFileType" (fun o => match o with | some v => if v.isEmpty then [] else [s "--security-opt", s "label=filetype:" ++ v] | none => []),
        segLast sec "SecurityLabelLevel" (fun o => match o with | some v => if v.isEmpty then [] else [s "--security-opt", s "label=level:" ++ v] | none => []),
        segStrv sec "AddDevice" (fun l => l.flatMap fun d =>
          match d with
          | '-' :: d' =>
            let p := match splitOnce ':' d' with | some (a, _) => a | none => d'
            if E.pathExists p then [s "--device", d'] else []
          | _ => [s "--device", d]),
        segLast sec "SeccompProfile" (fun o => match o with | some v => if v.isEmpty then [] else [s "--security-opt", s "seccomp=" ++ v] | none => []),
        segStrv sec "DropCapability" (fun l => l.flatMap fun c => [s "--cap-drop", lower c]),
        segStrv sec "AddCapability" (fun l => l.flatMap fun c => [s "--cap-add", lower c]),
        segStrv sec "Sysctl" (fun l => l.flatMap fun c => [s "--sysctl", c]),
        segMulti [s "ReadOnly", s "VolatileTmp"] (fun u =>
          (match lookupBool u sec (s "ReadOnly") with | some true => [s "--read-only"] | some false => [s "--read-only=false"] | none => [])
          ++ (if (lookupBool u sec (s "VolatileTmp")).getD false && !((lookupBool u sec (s "ReadOnly")).getD false)
              then [s "--tmpfs", s "/tmp:rw,size=512M,mode=1777"] else [])),
        segMulti [s "User", s "Group"] (fun u => blockOf (handleUser u sec)),
        segMaps sec true, segVolumes E path sec,
        segMulti [s "AutoUpdate"] (fun u => containerAutoUpdate u sec),
        segMulti [s "ExposeHostPort"] (fun u => blockOf (exposeArgs u sec))]
    ++ Gen.tbl_handle_publish_ports_inline_lookup_and_add_all_strings.map (segAll sec)
    ++ [segKeyVal sec "--env" "Environment", segKeyVal sec "--label" "Label", segKeyVal sec "--annotation" "Annotation",
        segArgsWith sec "Mask" (fun l => l.flatMap fun m => [s "--security-opt", s "mask=" ++ m]),
        segArgsWith sec "Unmask" (fun l => l.flatMap fun m => [s "--security-opt", s "unmask=" ++ m]),
        segArgsWith sec "EnvironmentFile" (fun l => l.flatMap fun f => [s "--env-file", absFromUnit path f]),
        segArgsWith sec "Secret" (fun l => l.flatMap fun x => [s "--secret", x]),
        segMounts E path sec]
    ++ Gen.tbl_handle_health_key_arg_map.map (segHealth sec)
    ++ [segPod E sec, segArgs sec "PodmanArgs",
        segMulti [s "Image", s "Rootfs"] (fun u =>
          if !(imageNameOf E u sec).isEmpty then [imageNameOf E u sec] else [s "--rootfs", (lookup u sec (s "Rootfs")).getD []]),
        segMulti [s "Exec"] (execBlock sec)]

end Cv

namespace Cv
open MM

def AllLocal (sec : Str) (l : List Seg) : Prop := ∀ g ∈ l, g.Local sec
theorem allLocal_nil (sec : Str) : AllLocal sec [] := by intro g h; simp at h
theorem allLocal_cons {sec : Str} {g : Seg} {l : List Seg} (h : g.Local sec) (t : AllLocal sec l) : AllLocal sec (g :: l) := by
  intro x hx; rcases List.mem_cons.mp hx with rfl | hx; exact h; exact t x hx
theorem allLocal_append {sec : Str} {a b : List Seg} (ha : AllLocal sec a) (hb : AllLocal sec b) : AllLocal sec (a ++ b) := by
  intro x hx; rcases List.mem_append.mp hx with hx | hx; exact ha x hx; exact hb x hx
theorem allLocal_map {sec : Str} (f : Str × Str → Seg) (hf : ∀ r, (f r).Local sec) (rows : List (Str × Str)) : AllLocal sec (rows.map f) := by
  intro x hx; obtain ⟨r, _, rfl⟩ := List.mem_map.mp hx; exact hf r

theorem segMulti_local (sec : Str) (keys : List Str) (f : SUnit → List Str)
    (h : ∀ u u' : SUnit, (∀ k ∈ keys, assignments u sec k = assignments u' sec k) → f u = f u') : (segMulti keys f).Local sec := h

theorem containerSegs_local (E : Env) (path : Str) (svcType : Option Str) : AllLocal (s "Container") (containerSegs E path svcType) := by
  unfold containerSegs
  have m1 : (segMulti [s "ContainerName"] (fun u => [s "--name", containerName (fileName path) u])).Local (s "Container") :=
    segMulti_local _ _ _ (fun u u' h => by simp only [containerName]; rw [lookup_congr (h _ (by simp))])
  have m2 : (segMulti [s "LogDriver"] (fun u => logDriver u (s "Container"))).Local (s "Container") :=
    segMulti_local _ _ _ (fun u u' h => by simp only [logDriver]; rw [lookup_congr (h _ (by simp))])
  have m3 : (segMulti [s "LogOpt"] (fun u => logOpt u (s "Container"))).Local (s "Container") :=
    segMulti_local _ _ _ (fun u u' h => by simp only [logOpt]; rw [lookupAllStrv_congr (h _ (by simp))])
  have m4 : (segMulti [s "Notify"] (notifyBlock svcType (s "Container"))).Local (s "Container") :=
    segMulti_local _ _ _ (fun u u' h => by
      simp only [notifyBlock, sdnotifyArg]; rw [lookup_congr (h _ (by simp)), lookupBool_congr (h _ (by simp))])
  have m5 : (segMulti [s "ReadOnly", s "VolatileTmp"] (fun u =>
          (match lookupBool u (s "Container") (s "ReadOnly") with | some true => [s "--read-only"] | some false => [s "--read-only=false"] | none => [])
          ++ (if (lookupBool u (s "Container") (s "VolatileTmp")).getD false && !((lookupBool u (s "Container") (s "ReadOnly")).getD false)
              then [s "--tmpfs", s "/tmp:rw,size=512M,mode=1777"] else []))).Local (s "Container") :=
    segMulti_local _ _ _ (fun u u' h => by
      rw [lookupBool_congr (h (s "ReadOnly") (by simp)), lookupBool_congr (h (s "VolatileTmp") (by simp))])
  have m6 : (segMulti [s "User", s "Group"] (fun u => blockOf (handleUser u (s "Container")))).Local (s "Container") :=
    segMulti_local _ _ _ (fun u u' h => by
      simp only [handleUser]; rw [lookup_congr (h (s "User") (by simp)), lookup_congr (h (s "Group") (by simp))])
  have m7 : (segMulti [s "AutoUpdate"] (fun u => containerAutoUpdate u (s "Container"))).Local (s "Container") :=
    segMulti_local _ _ _ (fun u u' h => by simp only [containerAutoUpdate]; rw [lookup_congr (h _ (by simp))])
  have m8 : (segMulti [s "ExposeHostPort"] (fun u => blockOf (exposeArgs u (s "Container")))).Local (s "Container") :=
    segMulti_local _ _ _ (fun u u' h => by simp only [exposeArgs]; rw [lookupAll_congr (h _ (by simp))])
  have m9 : (segMulti [s "Image", s "Rootfs"] (fun u =>
          if !(imageNameOf E u (s "Container")).isEmpty then [imageNameOf E u (s "Container")]
          else [s "--rootfs", (lookup u (s "Container") (s "Rootfs")).getD []])).Local (s "Container") :=
    segMulti_local _ _ _ (fun u u' h => by
      have e1 : imageNameOf E u (s "Container") = imageNameOf E u' (s "Container") := by
        unfold imageNameOf; rw [lookup_congr (h (s "Image") (by simp))]
      have e2 := lookup_congr (h (s "Rootfs") (by simp))
      simp only [e1, e2])
  have m10 : (segMulti [s "Exec"] (execBlock (s "Container"))).Local (s "Container") :=
    segMulti_local _ _ _ (fun u u' h => by simp only [execBlock]; rw [lookupLastValue_congr (h _ (by simp))])
  have nil := allLocal_nil (s "Container")
  refine allLocal_append (allLocal_append (allLocal_append (allLocal_append (allLocal_append (allLocal_append (allLocal_append
    (allLocal_append (allLocal_append (allLocal_append ?c ?r1) ?B) ?r2) ?r3) ?r4) ?C) ?r5) ?D) ?r6) ?E
  case c => exact allLocal_cons (segConst_local _ _) nil
  case r1 => exact allLocal_map _ (segAll_local _) _
  case r2 => exact allLocal_map _ (segString_local _) _
  case r3 => exact allLocal_map _ (segAll_local _) _
  case r4 => exact allLocal_map _ (segBool_local _) _
  case r5 => exact allLocal_map _ (segAll_local _) _
  case r6 => exact allLocal_map _ (segHealth_local _) _
  case B =>
    exact allLocal_cons (segArgs_local _ _) (allLocal_cons (segConst_local _ _) (allLocal_cons m1 (allLocal_cons (segConst_local _ _)
      (allLocal_cons m2 (allLocal_cons m3 (allLocal_cons (segLast_local _ _ _) nil))))))
  case C =>
    exact allLocal_cons (segNetworks_local _ _) (allLocal_cons m4 (allLocal_cons (segBoolOn_local _ _ _) (allLocal_cons (segBoolOn_local _ _ _)
      (allLocal_cons (segBoolOn_local _ _ _) (allLocal_cons (segLast_local _ _ _) (allLocal_cons (segLast_local _ _ _)
      (allLocal_cons (segLast_local _ _ _) (allLocal_cons (segStrv_local _ _ _) (allLocal_cons (segLast_local _ _ _)
      (allLocal_cons (segStrv_local _ _ _) (allLocal_cons (segStrv_local _ _ _) (allLocal_cons (segStrv_local _ _ _)
      (allLocal_cons m5 (allLocal_cons m6 (allLocal_cons (segMaps_local _ _) (allLocal_cons (segVolumes_local _ _ _)
      (allLocal_cons m7 (allLocal_cons m8 nil))))))))))))))))))
  case D =>
    exact allLocal_cons (segKeyVal_local _ _ _) (allLocal_cons (segKeyVal_local _ _ _) (allLocal_cons (segKeyVal_local _ _ _)
      (allLocal_cons (segArgsWith_local _ _ _) (allLocal_cons (segArgsWith_local _ _ _) (allLocal_cons (segArgsWith_local _ _ _)
      (allLocal_cons (segArgsWith_local _ _ _) (allLocal_cons (segMounts_local _ _ _) nil)))))))
  case E =>
    exact allLocal_cons (segPod_local _ _) (allLocal_cons (segArgs_local _ _) (allLocal_cons m9 (allLocal_cons m10 nil)))

end Cv

namespace Cv
open MM

theorem typeAndNotify_block (u : SUnit) (sec : Str) (cmd : List Str) (svc : SUnit) (r : List Str × SUnit)
    (h : typeAndNotify u sec cmd svc = .ok r) : r.1 = cmd ++ notifyBlock (lookup u (s "Service") (s "Type")) sec u := by
  unfold typeAndNotify at h
  unfold notifyBlock
  simp only at h
  cases ht : lookup u (s "Service") (s "Type") with
  | none => rw [ht] at h; simp only [Except.ok.injEq] at h; rw [← h]
  | some t =>
    rw [ht] at h
    simp only at h ⊢
    split at h
    · rename_i h1; simp only [Except.ok.injEq] at h; rw [← h]; simp [h1]
    · rename_i h1
      split at h
      · simp only [Except.ok.injEq] at h; rw [← h]; simp [h1]
      · simp at h

theorem image_name (E : Env) (u : SUnit) (sec : Str) (svc : SUnit) (x : Str × SUnit)
    (h : (if !((lookup u sec (s "Image")).getD []).isEmpty then handleImageSource E ((lookup u sec (s "Image")).getD []) svc
          else (pure ((lookup u sec (s "Image")).getD [], svc) : R (Str × SUnit))) = .ok x) : x.1 = imageNameOf E u sec := by
  unfold imageNameOf
  simp only
  by_cases he : ((lookup u sec (s "Image")).getD []).isEmpty = true
  · simp only [he, Bool.not_true, Bool.false_eq_true, if_false, if_true] at h ⊢
    simp only [pure, Except.pure, Except.ok.injEq] at h
    rw [← h]
  · simp only [he, Bool.not_false, if_true, if_false] at h ⊢
    have := handleImageSource_fst E ((lookup u sec (s "Image")).getD []) svc
    rw [h] at this
    simp only [fstR] at this
    rw [← this]
    rfl

end Cv

namespace Cv
open MM

/-- the command of a container as the concatenation of the blocks of its segments -/
theorem containerCmd_segs (E : Env) (path : Str) (u : SUnit) (svcType : Option Str) :
    cmdOf (containerSegs E path svcType) u =
      containerHead E path u (s "Container") ++ blockOf (networkArgs E u (s "Container")) ++ notifyBlock svcType (s "Container") u
        ++ containerSecurity E u (s "Container") ++ blockOf (handleUser u (s "Container")) ++ blockOf (handleUserMappings u (s "Container") true)
        ++ blockOf (volumeArgs E path u (s "Container")) ++ containerAutoUpdate u (s "Container") ++ blockOf (exposeArgs u (s "Container"))
        ++ containerMid path u (s "Container") ++ blockOf (mountArgs E path u (s "Container")) ++ healthArgs u (s "Container")
        ++ blockOf (podArgsOf E u (s "Container")) ++ podmanArgs u (s "Container")
        ++ containerTail u (s "Container") (imageNameOf E u (s "Container")) := by
  unfold containerSegs
  simp only [cmdOf_append, cmdOf_string, cmdOf_bool, cmdOf_all, cmdOf_health]
  simp [cmdOf, containerHead, containerSecurity, containerMid, containerTail, baseCmd, moduleArgs, addAllStrings0, addAllStrings, podmanArgs,
    publishPorts, segConst, segArgs, segMulti, segMaps, segLast, segStrv, segArgsWith, segKeyVal, segBoolOn, segNetworks, segVolumes, segMounts,
    segPod, execBlock]
  constructor <;> rfl

end Cv

namespace Cv
open MM

/-- a `.container` unit that converts carries, as ExecStart, the rendering of the concatenation of its segments' blocks; the
    segments are those for the unit's own `[Service] Type=` (a oneshot service has no `--sdnotify … -d`) -/
theorem fromContainer_segs (E : Env) (path : Str) (u svc : SUnit) (link : Option (Str × Str))
    (h : fromContainer E path u = some (.ok (svc, link))) :
    HasExec svc "ExecStart" (cmdOf (containerSegs E path (lookup u (s "Service") (s "Type"))) u) := by
  rw [containerCmd_segs]
  unfold fromContainer at h
  simp only at h
  split at h
  · simp at h
  · simp only [Option.some.injEq, bind_ok] at h
    obtain ⟨self, _, _, _, _, _, h⟩ := h
    split at h
    · exact absurd h (throw_bind_ne_ok _ _ _)
    · split at h
      · exact absurd h (throw_bind_ne_ok _ _ _)
      · simp only [bind_ok] at h
        obtain ⟨x1, h1, s2, h2, s3, h3, s4, h4, x5, h5, x6, h6, usr, husr, maps, hmaps, x7, h7, ports, hports, x8, h8, x9, h9, s10, h10, hfin⟩ := h
        simp only [pure, Except.pure, Except.ok.injEq, Prod.mk.injEq] at hfin
        obtain ⟨rfl, _⟩ := hfin
        have hx := HasExec.of_addRawExec h10
        rw [typeAndNotify_block _ _ _ _ _ h6, image_name E u (s "Container") _ x1 h1] at hx
        rw [blockOf_ok (handleNetworks_args _ _ _ _ _ h5), blockOf_ok husr, blockOf_ok hmaps, blockOf_ok (handleVolumes_args _ _ _ _ _ _ h7),
          blockOf_ok (mounts_args _ _ _ _ _ _ h8), blockOf_ok (handlePod_args _ _ _ _ _ _ h9)]
        have hp : blockOf (exposeArgs u (s "Container")) = ports := blockOf_ok hports
        rw [hp]
        simpa only [List.append_assoc] using hx

end Cv
