import QM.ConvDelta
/-! The reference handlers (`handle_networks`, `handle_volumes`, the `Mount=` loop) thread the service through a fold while they
    collect arguments; the arguments they collect do not depend on the service.  Each handler therefore has an *argument
    projection* — a function of the environment and the unit alone — and the handler's argument list is that function's value. -/
namespace Cv
open MM

def fstR {α β} (r : R (α × β)) : R α := match r with | .ok p => .ok p.1 | .error e => .error e

theorem foldlM_fst {α A S} (f : A × S → α → R (A × S)) (g : A → α → R A)
    (h : ∀ a sv x, fstR (f (a, sv) x) = g a x) :
    ∀ (l : List α) (a : A) (sv : S), fstR (l.foldlM f (a, sv)) = l.foldlM g a := by
  intro l
  induction l with
  | nil => intro a sv; rfl
  | cons x l ih =>
    intro a sv
    simp only [List.foldlM_cons]
    have hx := h a sv x
    cases hf : f (a, sv) x with
    | error e =>
      rw [hf] at hx
      simp only [fstR] at hx
      rw [← hx]
      rfl
    | ok p =>
      rw [hf] at hx
      simp only [fstR] at hx
      rw [← hx]
      obtain ⟨a', sv'⟩ := p
      exact ih a' sv'

theorem fstR_ok {α β} {r : R (α × β)} {p : α × β} (h : r = .ok p) : fstR r = .ok p.1 := by rw [h]; rfl

/-! ### Network= -/
def networkRefName (E : Env) (name : Str) : R Str :=
  if endsWith name (s ".network") || endsWith name (s ".container") then
    match E.info name with
    | none => .error (Err.internal (s "unit") name)
    | some i => if i.resourceName.isEmpty then .error (Err.resourceName name) else .ok i.resourceName
  else .ok name

theorem networkRef_fst (E : Env) (name : Str) (svc : SUnit) : fstR (networkRef E name svc) = networkRefName E name := by
  unfold networkRef networkRefName
  split
  · cases E.info name with
    | none => rfl
    | some i =>
      simp only
      split <;> rfl
  · rfl

def networkArgStep (E : Env) (acc : List Str) (network : Str) : R (List Str) :=
  if network.isEmpty then .ok acc else
  let name := netNameOf network
  let isCtr := endsWith name (s ".container")
  match networkRefName E name with
  | .error e => .error e
  | .ok r =>
    match netOptionsOf network with
    | some o => if isCtr then .error .networkOptions else .ok (acc ++ [s "--network", r ++ ':' :: o])
    | none => if isCtr then .ok (acc ++ [s "--network", s "container:" ++ r])
              else .ok (acc ++ [s "--network", r])

theorem networkStep_fst (E : Env) (a : List Str) (sv : SUnit) (nw : Str) :
    fstR (networkStep E (a, sv) nw) = networkArgStep E a nw := by
  unfold networkStep networkArgStep
  split
  · rfl
  · simp only
    have h := networkRef_fst E (netNameOf nw) sv
    cases hr : networkRef E (netNameOf nw) sv with
    | error e =>
      rw [hr] at h; simp only [fstR] at h; rw [← h]; rfl
    | ok r =>
      rw [hr] at h; simp only [fstR] at h; rw [← h]
      simp only
      cases netOptionsOf nw with
      | none => simp only; split <;> rfl
      | some o => simp only; split <;> rfl

/-- the `--network` arguments: a function of the name table and the unit's `Network=` values -/
def networkArgs (E : Env) (u : SUnit) (sec : Str) : R (List Str) := (lookupAll u sec (s "Network")).foldlM (networkArgStep E) []

theorem handleNetworks_args (E : Env) (u : SUnit) (sec : Str) (svc : SUnit) (r : List Str × SUnit)
    (h : handleNetworks E u sec svc = .ok r) : networkArgs E u sec = .ok r.1 := by
  unfold handleNetworks at h
  unfold networkArgs
  rw [← foldlM_fst (networkStep E) (networkArgStep E) (networkStep_fst E) _ [] svc]
  exact fstR_ok h

/-! ### Volume= -/
def storageSourceName (E : Env) (unitPath source : Str) (checkImage : Bool) : R Str :=
  let source := if source.head? == some '.' then absFromUnit unitPath source else source
  if source.head? == some '/' then .ok source
  else if endsWith source (s ".volume") || (checkImage && endsWith source (s ".image")) then
    match E.info source with
    | none => .error (.sourceNotFound source)
    | some i => .ok i.resourceName
  else .ok source

theorem handleStorageSource_fst (E : Env) (unitPath : Str) (svc : SUnit) (source : Str) (ci : Bool) :
    fstR (handleStorageSource E unitPath svc source ci) = storageSourceName E unitPath source ci := by
  unfold handleStorageSource storageSourceName
  simp only
  generalize (if (source.head? == some '.') = true then absFromUnit unitPath source else source) = src
  by_cases h1 : (src.head? == some '/') = true
  · simp only [h1, if_true]; rfl
  · simp only [h1, if_false]
    by_cases h2 : (endsWith src (s ".volume") || (ci && endsWith src (s ".image"))) = true
    · simp only [h2, if_true]
      cases E.info src <;> rfl
    · simp only [h2, if_false]; rfl

def volumeArgStep (E : Env) (unitPath : Str) (acc : List Str) (volume : Str) : R (List Str) :=
  let parts := splitN3 volume
  if (volSource parts).isEmpty then .ok (acc ++ [s "-v", volDest parts])
  else match storageSourceName E unitPath (volSource parts) false with
    | .error e => .error e
    | .ok r =>
      if r.isEmpty then .ok (acc ++ [s "-v", volDest parts])
      else .ok (acc ++ [s "-v", r ++ ':' :: volDest parts ++ volOptions parts])

theorem volumeStep_fst (E : Env) (unitPath : Str) (a : List Str) (sv : SUnit) (v : Str) :
    fstR (volumeStep E unitPath (a, sv) v) = volumeArgStep E unitPath a v := by
  unfold volumeStep volumeArgStep
  simp only
  split
  · rfl
  · have h := handleStorageSource_fst E unitPath sv (volSource (splitN3 v)) false
    cases hr : handleStorageSource E unitPath sv (volSource (splitN3 v)) false with
    | error e => rw [hr] at h; simp only [fstR] at h; rw [← h]; rfl
    | ok r =>
      rw [hr] at h; simp only [fstR] at h; rw [← h]
      simp only
      split <;> rfl

/-- the `-v` arguments: a function of the name table, the unit's path and its `Volume=` values -/
def volumeArgs (E : Env) (unitPath : Str) (u : SUnit) (sec : Str) : R (List Str) :=
  (lookupAll u sec (s "Volume")).foldlM (volumeArgStep E unitPath) []

theorem handleVolumes_args (E : Env) (unitPath : Str) (u : SUnit) (sec : Str) (svc : SUnit) (r : List Str × SUnit)
    (h : handleVolumes E unitPath u sec svc = .ok r) : volumeArgs E unitPath u sec = .ok r.1 := by
  unfold handleVolumes at h
  unfold volumeArgs
  rw [← foldlM_fst (volumeStep E unitPath) (volumeArgStep E unitPath) (volumeStep_fst E unitPath) _ [] svc]
  exact fstR_ok h

/-- blocks of a fallible argument function: its value, nothing when it fails (then there is no command at all) -/
def blockOf (r : R (List Str)) : List Str := match r with | .ok l => l | .error _ => []

def segNetworks (E : Env) (sec : Str) : Seg := ⟨[s "Network"], fun u => blockOf (networkArgs E u sec)⟩
def segVolumes (E : Env) (path sec : Str) : Seg := ⟨[s "Volume"], fun u => blockOf (volumeArgs E path u sec)⟩

theorem segNetworks_local (E : Env) (sec : Str) : (segNetworks E sec).Local sec := by
  intro u u' h
  simp only [segNetworks, networkArgs]
  rw [lookupAll_congr (h _ (by simp [segNetworks]))]
theorem segVolumes_local (E : Env) (path sec : Str) : (segVolumes E path sec).Local sec := by
  intro u u' h
  simp only [segVolumes, volumeArgs]
  rw [lookupAll_congr (h _ (by simp [segVolumes]))]

end Cv
