import QM.ConvDelta
/-! The reference handlers (`handle_networks`, `handle_volumes`, the `Mount=` loop) thread the service through a fold while they
    collect arguments; the arguments they collect do not depend on the service.  Each handler therefore has an *argument
    projection* — a function of the environment and the unit alone — and the handler's argument list is that function's value. -/
namespace Cv
open MM

def fstR {α β} (r : R (α × β)) : R α := match r with | .ok p => .ok p.1 | .error e => .error e

theorem foldlM_fst {α A S} (f : A × S → α → R (A × S)) (g : A → α → R A)
    (h : ∀ a sv x, fstR (f (a, sv) x) = g a x) :
    ∀ (l : List α) (a : A) (sv : S), fstR (l.foldlM f (a, sv)) = l.foldlM g a := by
  intro l
  induction l with
  | nil => intro a sv; rfl
  | cons x l ih =>
    intro a sv
    simp only [List.foldlM_cons]
    have hx := h a sv x
    cases hf : f (a, sv) x with
    | error e =>
      rw [hf] at hx
      simp only [fstR] at hx
      rw [← hx]
      rfl
    | ok p =>
      rw [hf] at hx
      simp only [fstR] at hx
      rw [← hx]
      obtain ⟨a', sv'⟩ := p
      exact ih a' sv'

theorem fstR_ok {α β} {r : R (α × β)} {p : α × β} (h : r = .ok p) : fstR r = .ok p.1 := by rw [h]; rfl

/-! ### Network= -/
def networkRefName (E : Env) (name : Str) : R Str :=
  if endsWith name (s ".network") || endsWith name (s ".container") then
    match E.info name with
    | none => .error (Err.internal (s "unit") name)
    | some i => if i.resourceName.isEmpty then .error (Err.resourceName name) else .ok i.resourceName
  else .ok name

theorem networkRef_fst (E : Env) (name : Str) (svc : SUnit) : fstR (networkRef E name svc) = networkRefName E name := by
  unfold networkRef networkRefName
  split
  · cases E.info name with
    | none => rfl
    | some i =>
      simp only
      split <;> rfl
  · rfl

def networkArgStep (E : Env) (acc : List Str) (network : Str) : R (List Str) :=
  if network.isEmpty then .ok acc else
  let name := netNameOf network
  let isCtr := endsWith name (s ".container")
  match networkRefName E name with
  | .error e => .error e
  | .ok r =>
    match netOptionsOf network with
    | some o => if isCtr then .error .networkOptions else .ok (acc ++ [s "--network", r ++ ':' :: o])
    | none => if isCtr then .ok (acc ++ [s "--network", s "container:" ++ r])
              else .ok (acc ++ [s "--network", r])

theorem networkStep_fst (E : Env) (a : List Str) (sv : SUnit) (nw : Str) :
    fstR (networkStep E (a, sv) nw) = networkArgStep E a nw := by
  unfold networkStep networkArgStep
  split
  · rfl
  · simp only
    have h := networkRef_fst E (netNameOf nw) sv
    cases hr : networkRef E (netNameOf nw) sv with
    | error e =>
      rw [hr] at h; simp only [fstR] at h; rw [← h]; rfl
    | ok r =>
      rw [hr] at h; simp only [fstR] at h; rw [← h]
      simp only
      cases netOptionsOf nw with
      | none => simp only; split <;> rfl
      | some o => simp only; split <;> rfl

/-- the `--network` arguments: a function of the name table and the unit's `Network=` values -/
def networkArgs (E : Env) (u : SUnit) (sec : Str) : R (List Str) := (lookupAll u sec (s "Network")).foldlM (networkArgStep E) []

theorem handleNetworks_args (E : Env) (u : SUnit) (sec : Str) (svc : SUnit) (r : List Str × SUnit)
    (h : handleNetworks E u sec svc = .ok r) : networkArgs E u sec = .ok r.1 := by
  unfold handleNetworks at h
  unfold networkArgs
  rw [← foldlM_fst (networkStep E) (networkArgStep E) (networkStep_fst E) _ [] svc]
  exact fstR_ok h

/-! ### Volume= -/
def storageSourceName (E : Env) (unitPath source : Str) (checkImage : Bool) : R Str :=
  let source := if source.head? == some '.' then absFromUnit unitPath source else source
  if source.head? == some '/' then .ok source
  else if endsWith source (s ".volume") || (checkImage && endsWith source (s ".image")) then
    match E.info source with
    | none => .error (.sourceNotFound source)
    | some i => .ok i.resourceName
  else .ok source

theorem handleStorageSource_fst (E : Env) (unitPath : Str) (svc : SUnit) (source : Str) (ci : Bool) :
    fstR (handleStorageSource E unitPath svc source ci) = storageSourceName E unitPath source ci := by
  unfold handleStorageSource storageSourceName
  simp only
  generalize (if (source.head? == some '.') = true then absFromUnit unitPath source else source) = src
  by_cases h1 : (src.head? == some '/') = true
  · simp only [h1, if_true]; rfl
  · simp only [h1, if_false]
    by_cases h2 : (endsWith src (s ".volume") || (ci && endsWith src (s ".image"))) = true
    · simp only [h2, if_true]
      cases E.info src <;> rfl
    · simp only [h2, if_false]; rfl

def volumeArgStep (E : Env) (unitPath : Str) (acc : List Str) (volume : Str) : R (List Str) :=
  let parts := splitN3 volume
  if (volSource parts).isEmpty then .ok (acc ++ [s "-v", volDest parts])
  else match storageSourceName E unitPath (volSource parts) false with
    | .error e => .error e
    | .ok r =>
      if r.isEmpty then .ok (acc ++ [s "-v", volDest parts])
      else .ok (acc ++ [s "-v", r ++ ':' :: volDest parts ++ volOptions parts])

theorem volumeStep_fst (E : Env) (unitPath : Str) (a : List Str) (sv : SUnit) (v : Str) :
    fstR (volumeStep E unitPath (a, sv) v) = volumeArgStep E unitPath a v := by
  unfold volumeStep volumeArgStep
  simp only
  split
  · rfl
  · have h := handleStorageSource_fst E unitPath sv (volSource (splitN3 v)) false
    cases hr : handleStorageSource E unitPath sv (volSource (splitN3 v)) false with
    | error e => rw [hr] at h; simp only [fstR] at h; rw [← h]; rfl
    | ok r =>
      rw [hr] at h; simp only [fstR] at h; rw [← h]
      simp only
      split <;> rfl

/-- the `-v` arguments: a function of the name table, the unit's path and its `Volume=` values -/
def volumeArgs (E : Env) (unitPath : Str) (u : SUnit) (sec : Str) : R (List Str) :=
  (lookupAll u sec (s "Volume")).foldlM (volumeArgStep E unitPath) []

theorem handleVolumes_args (E : Env) (unitPath : Str) (u : SUnit) (sec : Str) (svc : SUnit) (r : List Str × SUnit)
    (h : handleVolumes E unitPath u sec svc = .ok r) : volumeArgs E unitPath u sec = .ok r.1 := by
  unfold handleVolumes at h
  unfold volumeArgs
  rw [← foldlM_fst (volumeStep E unitPath) (volumeArgStep E unitPath) (volumeStep_fst E unitPath) _ [] svc]
  exact fstR_ok h

/-- blocks of a fallible argument function: its value, nothing when it fails (then there is no command at all) -/
def blockOf (r : R (List Str)) : List Str := match r with | .ok l => l | .error _ => []

def segNetworks (E : Env) (sec : Str) : Seg := ⟨[s "Network"], fun u => blockOf (networkArgs E u sec)⟩
def segVolumes (E : Env) (path sec : Str) : Seg := ⟨[s "Volume"], fun u => blockOf (volumeArgs E path u sec)⟩

theorem segNetworks_local (E : Env) (sec : Str) : (segNetworks E sec).Local sec := by
  intro u u' h
  simp only [segNetworks, networkArgs]
  rw [lookupAll_congr (h _ (by simp [segNetworks]))]
theorem segVolumes_local (E : Env) (path sec : Str) : (segVolumes E path sec).Local sec := by
  intro u u' h
  simp only [segVolumes, volumeArgs]
  rw [lookupAll_congr (h _ (by simp [segVolumes]))]

end Cv

namespace Cv
open MM

/-! ### the user-namespace options: one block, a function of nine keys -/
def mapKeys : List Str :=
  [s "UserNS", s "UIDMap", s "GIDMap", s "SubUIDMap", s "SubGIDMap", s "RemapUid", s "RemapGid", s "RemapUsers", s "RemapUidSize"]

theorem handleUserRemap_congr (u u' : SUnit) (sec : Str) (sm : Bool)
    (h : ∀ k ∈ mapKeys, assignments u sec k = assignments u' sec k) : handleUserRemap u sec sm = handleUserRemap u' sec sm := by
  unfold handleUserRemap
  rw [lookup_congr (h (s "UserNS") (by decide)), lookupAllStrv_congr (h (s "RemapUid") (by decide)),
    lookupAllStrv_congr (h (s "RemapGid") (by decide)), lookup_congr (h (s "RemapUsers") (by decide)),
    lookup_congr (h (s "RemapUidSize") (by decide))]

theorem handleUserMappings_congr (u u' : SUnit) (sec : Str) (sm : Bool)
    (h : ∀ k ∈ mapKeys, assignments u sec k = assignments u' sec k) : handleUserMappings u sec sm = handleUserMappings u' sec sm := by
  unfold handleUserMappings
  simp only []
  rw [lookup_congr (h (s "UserNS") (by decide)), lookupAllStrv_congr (h (s "UIDMap") (by decide)),
    lookupAllStrv_congr (h (s "GIDMap") (by decide)), lookup_congr (h (s "SubUIDMap") (by decide)),
    lookup_congr (h (s "SubGIDMap") (by decide)), lookup_congr (h (s "RemapUid") (by decide)),
    lookup_congr (h (s "RemapGid") (by decide)), lookup_congr (h (s "RemapUsers") (by decide)),
    handleUserRemap_congr u u' sec sm h]

def segMaps (sec : Str) (sm : Bool) : Seg := ⟨mapKeys, fun u => blockOf (handleUserMappings u sec sm)⟩
theorem segMaps_local (sec : Str) (sm : Bool) : (segMaps sec sm).Local sec := by
  intro u u' h
  simp only [segMaps]
  rw [handleUserMappings_congr u u' sec sm h]

end Cv

namespace Cv
open MM

theorem blockOf_ok {r : R (List Str)} {l : List Str} (h : r = .ok l) : blockOf r = l := by rw [h]; rfl

/-! ### .pod (the `pod create` command, ExecStartPre) -/
def podSegs (E : Env) (path : Str) : List Seg :=
  let sec := s "Pod"
  [segConst [E.podman]]
    ++ Gen.tbl_get_base_podman_command_inline_lookup_and_add_all_strings.map (segAll sec)
    ++ [segArgs sec "GlobalArgs",
        segConst [s "pod", s "create", s "--infra-conmon-pidfile=%t/%N.pid", s "--pod-id-file=%t/%N.pod-id", s "--exit-policy=stop", s "--replace"],
        segMaps sec true]
    ++ Gen.tbl_handle_publish_ports_inline_lookup_and_add_all_strings.map (segAll sec)
    ++ [segNetworks E sec]
    ++ Gen.tbl_from_pod_unit_string_keys.map (segString sec)
    ++ Gen.tbl_from_pod_unit_all_string_keys.map (segAll sec)
    ++ [segVolumes E path sec,
        segMulti [s "PodName"] (fun u => [s "--infra-name", podNameOf path u ++ s "-infra", s "--name", podNameOf path u]),
        segArgs sec "PodmanArgs"]

theorem podSegs_local (E : Env) (path : Str) : ∀ g ∈ podSegs E path, g.Local (s "Pod") := by
  intro g hg
  simp only [podSegs, List.mem_append, List.mem_map, List.mem_cons, List.not_mem_nil, or_false] at hg
  rcases hg with ((((((rfl | ⟨r, _, rfl⟩) | rfl | rfl | rfl) | ⟨r, _, rfl⟩) | rfl) | ⟨r, _, rfl⟩) | ⟨r, _, rfl⟩) | rfl | rfl | rfl
  · exact segConst_local _ _
  · exact segAll_local _ _
  · exact segArgs_local _ _
  · exact segConst_local _ _
  · exact segMaps_local _ _
  · exact segAll_local _ _
  · exact segNetworks_local _ _
  · exact segString_local _ _
  · exact segAll_local _ _
  · exact segVolumes_local _ _ _
  · intro u u' h
    simp only [segMulti, podNameOf]
    rw [lookup_congr (h _ (by simp [segMulti]))]
  · exact segArgs_local _ _

/-- a `.pod` unit that converts carries, as ExecStartPre, the rendering of the concatenation of its segments' blocks -/
theorem fromPod_segs (E : Env) (path : Str) (u svc : SUnit) (cts : List Str) (h : fromPod E path u cts = .ok svc) :
    HasExec svc "ExecStartPre" (cmdOf (podSegs E path) u) := by
  unfold fromPod at h
  simp only [bind_ok] at h
  obtain ⟨_, _, _, _, s1, _, s2, _, s3, _, maps, hmaps, x5, hnets, x6, hvols, s7, hexec, hfin⟩ := h
  simp only [pure, Except.pure, Except.ok.injEq] at hfin
  subst hfin
  have e1 := blockOf_ok hmaps
  have e2 := blockOf_ok (handleNetworks_args _ _ _ _ _ hnets)
  have e3 := blockOf_ok (handleVolumes_args _ _ _ _ _ _ hvols)
  have e : cmdOf (podSegs E path) u =
      baseCmd E u (s "Pod") ++ [s "pod", s "create", s "--infra-conmon-pidfile=%t/%N.pid", s "--pod-id-file=%t/%N.pod-id",
          s "--exit-policy=stop", s "--replace"]
        ++ maps ++ publishPorts u (s "Pod") ++ x5.1
        ++ (addString u (s "Pod") Gen.tbl_from_pod_unit_string_keys ++ addAllStrings u (s "Pod") Gen.tbl_from_pod_unit_all_string_keys)
        ++ x6.1 ++ [s "--infra-name", podNameOf path u ++ s "-infra", s "--name", podNameOf path u] ++ podmanArgs u (s "Pod") := by
    unfold podSegs
    simp only [cmdOf_append, cmdOf_string, cmdOf_bool, cmdOf_all]
    simp [cmdOf, baseCmd, moduleArgs, addAllStrings0, addAllStrings, podmanArgs, publishPorts, segConst, segArgs, segMulti, segMaps,
      segNetworks, segVolumes, e1, e2, e3]
  rw [e]
  exact ((((HasExec.of_addRawExec hexec).addS _ _ _).addS _ _ _).addS _ _ _).addS _ _ _

end Cv

namespace Cv
open MM

/-- a block computed from the words of a plain list key -/
def segStrv (sec : Str) (key : String) (f : List Str → List Str) : Seg := ⟨[s key], fun u => f (lookupAllStrv u sec (s key))⟩
theorem segStrv_local (sec : Str) (key : String) (f : List Str → List Str) : (segStrv sec key f).Local sec := by
  intro u u' h; simp only [segStrv]; rw [lookupAllStrv_congr (h (s key) (by simp [segStrv]))]
/-- a block computed from the words of an argument-style key -/
def segArgsWith (sec : Str) (key : String) (f : List Str → List Str) : Seg := ⟨[s key], fun u => f (lookupAllArgs u sec (s key))⟩
theorem segArgsWith_local (sec : Str) (key : String) (f : List Str → List Str) : (segArgsWith sec key f).Local sec := by
  intro u u' h; simp only [segArgsWith]; rw [lookupAllArgs_congr (h (s key) (by simp [segArgsWith]))]

/-! ### .kube -/
def kubeSegs (E : Env) (path : Str) : List Seg :=
  let sec := s "Kube"
  [segConst [E.podman]]
    ++ Gen.tbl_get_base_podman_command_inline_lookup_and_add_all_strings.map (segAll sec)
    ++ [segArgs sec "GlobalArgs", segConst [s "kube", s "play", s "--replace", s "--service-container=true"],
        segLast sec "ExitCodePropagation" (fun o => match o with
          | some e => if e.isEmpty then [] else [s "--service-exit-code-propagation=" ++ e] | none => []),
        segLast sec "LogDriver" (fun o => match o with | some v => if v.isEmpty then [] else [s "--log-driver", v] | none => []),
        segStrv sec "LogOpt" (fun l => l.flatMap fun o => [s "--log-opt", o]),
        segMaps sec false, segNetworks E sec,
        segStrv sec "AutoUpdate" (fun l => l.flatMap fun upd =>
          match splitOnce '/' upd with
          | some (a, t) => [s "--annotation", s "io.containers.autoupdate" ++ ('/' :: a) ++ '=' :: t]
          | none => [s "--annotation", s "io.containers.autoupdate=" ++ upd]),
        segStrv sec "ConfigMap" (fun l => l.flatMap fun c => [s "--configmap", absFromUnit path c])]
    ++ Gen.tbl_handle_publish_ports_inline_lookup_and_add_all_strings.map (segAll sec)
    ++ [segArgs sec "PodmanArgs", segLast sec "Yaml" (fun o => [absFromUnit path (o.getD [])])]

theorem kubeSegs_local (E : Env) (path : Str) : ∀ g ∈ kubeSegs E path, g.Local (s "Kube") := by
  intro g hg
  simp only [kubeSegs, List.mem_append, List.mem_map, List.mem_cons, List.not_mem_nil, or_false] at hg
  rcases hg with (((rfl | ⟨r, _, rfl⟩) | rfl | rfl | rfl | rfl | rfl | rfl | rfl | rfl | rfl) | ⟨r, _, rfl⟩) | rfl | rfl
  · exact segConst_local _ _
  · exact segAll_local _ _
  · exact segArgs_local _ _
  · exact segConst_local _ _
  · exact segLast_local _ _ _
  · exact segLast_local _ _ _
  · exact segStrv_local _ _ _
  · exact segMaps_local _ _
  · exact segNetworks_local _ _
  · exact segStrv_local _ _ _
  · exact segStrv_local _ _ _
  · exact segAll_local _ _
  · exact segArgs_local _ _
  · exact segLast_local _ _ _

theorem fromKube_segs (E : Env) (path : Str) (u svc : SUnit) (h : fromKube E path u = .ok svc) :
    HasExec svc "ExecStart" (cmdOf (kubeSegs E path) u) := by
  unfold fromKube at h
  simp only [bind_ok] at h
  obtain ⟨_, _, _, _, h⟩ := h
  split at h
  · exact absurd h (throw_bind_ne_ok _ _ _)
  · simp only [bind_ok] at h
    obtain ⟨s1, _, s2, _, maps, hmaps, x4, hnets, s5, hexec, s6, hstop, x7, hwd, hfin⟩ := h
    simp only [pure, Except.pure, Except.ok.injEq] at hfin
    subst hfin
    have e1 := blockOf_ok hmaps
    have e2 := blockOf_ok (handleNetworks_args _ _ _ _ _ hnets)
    have e : cmdOf (kubeSegs E path) u =
        baseCmd E u (s "Kube") ++ [s "kube", s "play", s "--replace", s "--service-container=true"]
        ++ (match lookup u (s "Kube") (s "ExitCodePropagation") with
            | some e => if e.isEmpty then [] else [s "--service-exit-code-propagation=" ++ e] | none => [])
        ++ logDriver u (s "Kube") ++ logOpt u (s "Kube")
        ++ maps ++ x4.1 ++ kubeAutoUpdate u ++ kubeConfigMaps path u ++ publishPorts u (s "Kube") ++ podmanArgs u (s "Kube")
        ++ [absFromUnit path ((lookup u (s "Kube") (s "Yaml")).getD [])] := by
      unfold kubeSegs
      simp only [cmdOf_append, cmdOf_string, cmdOf_bool, cmdOf_all]
      simp [cmdOf, baseCmd, moduleArgs, addAllStrings0, addAllStrings, podmanArgs, publishPorts, segConst, segArgs, segMaps, segLast, segStrv,
        segNetworks, logDriver, logOpt, kubeAutoUpdate, kubeConfigMaps, e1, e2]
      rfl
    rw [e]
    have h1 := (HasExec.of_addRawExec hexec).addRawExec hstop
    unfold handleSetWorkingDirectory at hwd
    split at hwd
    · simp at hwd
    · simp only [Except.ok.injEq] at hwd
      rw [← hwd]
      exact h1.applyWd _

end Cv

namespace Cv
open MM

/-! ### .volume -/
theorem hasKey_congr {u u' : SUnit} {sec k : Str} (h : assignments u sec k = assignments u' sec k) : hasKey u sec k = hasKey u' sec k := by
  unfold hasKey; rw [h]

def imageSourceName (E : Env) (name : Str) : R Str :=
  if endsWith name (s ".build") || endsWith name (s ".image") then
    match E.info name with
    | none => .error (.imageNotFound name)
    | some i => .ok i.resourceName
  else .ok name

theorem handleImageSource_fst (E : Env) (name : Str) (svc : SUnit) : fstR (handleImageSource E name svc) = imageSourceName E name := by
  unfold handleImageSource imageSourceName
  split
  · cases E.info name <;> rfl
  · rfl

/-- the argument projection of `volumeOpts` -/
def volumeOptArgs (E : Env) (u : SUnit) : R (List Str) := fstR (volumeOpts E u [])

theorem volumeOpts_fst (E : Env) (u : SUnit) (svc svc0 : SUnit) : fstR (volumeOpts E u svc) = fstR (volumeOpts E u svc0) := by
  unfold volumeOpts
  simp only []
  split
  · cases lookup u (s "Volume") (s "Image") with
    | none => rfl
    | some img =>
      simp only []
      have h1 := handleImageSource_fst E img svc
      have h2 := handleImageSource_fst E img svc0
      cases hr : handleImageSource E img svc with
      | error e =>
        rw [hr] at h1; simp only [fstR] at h1
        cases hr0 : handleImageSource E img svc0 with
        | error e0 => rw [hr0] at h2; simp only [fstR] at h2; rw [← h1] at h2; cases h2; rfl
        | ok p0 => rw [hr0] at h2; simp only [fstR] at h2; rw [← h1] at h2; cases h2
      | ok p =>
        rw [hr] at h1; simp only [fstR] at h1
        cases hr0 : handleImageSource E img svc0 with
        | error e0 => rw [hr0] at h2; simp only [fstR] at h2; rw [← h1] at h2; cases h2
        | ok p0 =>
          rw [hr0] at h2; simp only [fstR] at h2; rw [← h1] at h2
          have : p0.1 = p.1 := by injection h2
          obtain ⟨a, b⟩ := p; obtain ⟨a0, b0⟩ := p0
          simp only at this; subst this
          rfl
  · split
    · rfl
    · split
      · rfl
      · rfl

theorem volumeOpts_args (E : Env) (u svc : SUnit) (r : List Str × SUnit) (h : volumeOpts E u svc = .ok r) :
    volumeOptArgs E u = .ok r.1 := by
  unfold volumeOptArgs
  rw [← volumeOpts_fst E u svc []]
  exact fstR_ok h

def volOptKeys : List Str := [s "Driver", s "Image", s "User", s "Group", s "Copy", s "Device", s "Type", s "Options"]

theorem volumeOpts_congr (E : Env) (u u' : SUnit) (svc : SUnit)
    (h : ∀ k ∈ volOptKeys, assignments u (s "Volume") k = assignments u' (s "Volume") k) : volumeOpts E u svc = volumeOpts E u' svc := by
  unfold volumeOpts
  simp only []
  rw [lookup_congr (h (s "Driver") (by decide)), lookup_congr (h (s "Image") (by decide)), hasKey_congr (h (s "User") (by decide)),
    lookup_congr (h (s "User") (by decide)), hasKey_congr (h (s "Group") (by decide)), lookup_congr (h (s "Group") (by decide)),
    lookupBool_congr (h (s "Copy") (by decide)), lookup_congr (h (s "Device") (by decide)), lookup_congr (h (s "Type") (by decide)),
    lookup_congr (h (s "Options") (by decide))]

def segVolOpts (E : Env) : Seg := ⟨volOptKeys, fun u => blockOf (volumeOptArgs E u)⟩
theorem segVolOpts_local (E : Env) : (segVolOpts E).Local (s "Volume") := by
  intro u u' h
  simp only [segVolOpts, volumeOptArgs]
  rw [volumeOpts_congr E u u' [] h]

def volumeNameOf (path : Str) (u : SUnit) : Str :=
  if ((lookup u (s "Volume") (s "VolumeName")).getD []).isEmpty then s "systemd-" ++ fileStem (fileName path)
  else (lookup u (s "Volume") (s "VolumeName")).getD []

def volumeSegs (E : Env) (path : Str) : List Seg :=
  let sec := s "Volume"
  [segConst [E.podman]]
    ++ Gen.tbl_get_base_podman_command_inline_lookup_and_add_all_strings.map (segAll sec)
    ++ [segArgs sec "GlobalArgs", segConst [s "volume", s "create", s "--ignore"], segVolOpts E,
        segKeyVal sec "--label" "Label", segArgs sec "PodmanArgs", segMulti [s "VolumeName"] (fun u => [volumeNameOf path u])]

theorem volumeSegs_local (E : Env) (path : Str) : ∀ g ∈ volumeSegs E path, g.Local (s "Volume") := by
  intro g hg
  simp only [volumeSegs, List.mem_append, List.mem_map, List.mem_cons, List.not_mem_nil, or_false] at hg
  rcases hg with (rfl | ⟨r, _, rfl⟩) | rfl | rfl | rfl | rfl | rfl | rfl
  · exact segConst_local _ _
  · exact segAll_local _ _
  · exact segArgs_local _ _
  · exact segConst_local _ _
  · exact segVolOpts_local _
  · exact segKeyVal_local _ _ _
  · exact segArgs_local _ _
  · intro u u' h
    simp only [segMulti, volumeNameOf]
    rw [lookup_congr (h _ (by simp [segMulti]))]

theorem fromVolume_segs (E : Env) (path : Str) (u svc : SUnit) (n : Str) (h : fromVolume E path u = .ok (svc, n)) :
    HasExec svc "ExecStart" (cmdOf (volumeSegs E path) u) := by
  unfold fromVolume at h
  simp only [bind_ok] at h
  obtain ⟨_, _, _, _, x, hx, svc1, hexec, hfin⟩ := h
  simp only [pure, Except.pure, Except.ok.injEq, Prod.mk.injEq] at hfin
  obtain ⟨rfl, rfl⟩ := hfin
  have e1 := blockOf_ok (volumeOpts_args E u _ x hx)
  have e : cmdOf (volumeSegs E path) u =
      baseCmd E u (s "Volume") ++ [s "volume", s "create", s "--ignore"] ++ x.1
        ++ addKeys "--label" (lookupAllKeyVal u (s "Volume") (s "Label")) ++ podmanArgs u (s "Volume") ++ [volumeNameOf path u] := by
    unfold volumeSegs
    simp only [cmdOf_append, cmdOf_all]
    simp [cmdOf, baseCmd, moduleArgs, addAllStrings0, addAllStrings, podmanArgs, segConst, segArgs, segKeyVal, segMulti, segVolOpts, e1]
  rw [e]
  exact (HasExec.of_addRawExec hexec).oneShot true (by decide) (by decide) (by decide)

end Cv
