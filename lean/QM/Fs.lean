import QM.Proc
/-! Draft executable model of discovery: search directories with their sub-directories, first-seen-wins by file
    name, drop-in collection from every search directory (after D9), merge in name order. -/
namespace Cv
open MM

structure Tree where
  searchDirs : List Str            -- as given in QUADLET_UNIT_DIRS (absolute, no symlinks)
  files : List (Str × Str)         -- absolute path ↦ content

def parentDir (p : Str) : Str := dirName p

def isUnder (root p : Str) : Bool := p == root || (root ++ ['/']).isPrefixOf p

/-- all directories of the tree (parents of files, closed under parent) at or below `root` -/
def ancestorsUpTo (root : Str) : Nat → Str → List Str
  | 0, _ => []
  | fuel+1, d => if d == root then [d] else if isUnder root d then d :: ancestorsUpTo root fuel (parentDir d) else []

def subdirs (t : Tree) (root : Str) : List Str :=
  let ds := t.files.flatMap fun (p, _) => (ancestorsUpTo root (p.length + 1) (parentDir p)).reverse
  -- the walk lists a directory before its sub-directories; siblings in tree order
  let ds := ds.foldl (fun acc d => if acc.contains d then acc else acc ++ [d]) []
  if ds.contains root then ds else if t.files.any (fun (p, _) => isUnder root p) then root :: ds else []

def allDirs (t : Tree) : List Str := t.searchDirs.flatMap (subdirs t)

def supportedExt : List Str := Gen.SUPPORTED_EXTENSIONS

inductive Loaded | unit (q : QUnit) | loadErr (path : Str)

/-- the unit files in discovery order: every directory of the search order, and within it the files with a
    supported extension (in the listing order of the tree) -/
def candidates (t : Tree) : List (Str × Str) :=
  (allDirs t).flatMap fun d =>
    t.files.filter fun (p, _) => parentDir p == d && supportedExt.contains (extension (fileName p))

/-- one step of load_units_from_dir: a file whose name was already loaded is skipped; a file that fails to load
    is reported and does not mark its name as seen -/
def loadStep (acc : List Str × List Loaded) (pc : Str × Str) : List Str × List Loaded :=
  let n := fileName pc.1
  if acc.1.contains n then acc
  else match Parse.parse parseEnv pc.2 with
    | .ok u => (acc.1 ++ [n], acc.2 ++ [Loaded.unit { path := pc.1, unit := u }])
    | .error _ => (acc.1, acc.2 ++ [Loaded.loadErr pc.1])

def loadFrom (cands : List (Str × Str)) : List Loaded := (cands.foldl loadStep ([], [])).2

def loadAll (t : Tree) : List Loaded := loadFrom (candidates t)

def templateParts (name : Str) : Option Str × Option Str :=
  match splitOnce '@' (fileStem name) with
  | some (b, i) => if b.isEmpty then (none, none) else if i.isEmpty then (some b, none) else (some b, some i)
  | none => (none, none)

/-- insertion sort of byte strings (OsString order) -/
def leStr (a b : Str) : Bool := (String.ofList a) ≤ (String.ofList b)
def insertSorted (x : Str × Str) : List (Str × Str) → List (Str × Str)
  | [] => [x]
  | y :: ys => if leStr x.1 y.1 then x :: y :: ys else y :: insertSorted x ys

/-- the drop-in directories of a unit, in priority order: `<dir>/<unit>.d` of every directory of the search order, then —
    for a template instance — `<dir>/<base>@.<type>.d` of every directory (the base ends at the first '@') -/
def dropinDirs (dirs : List Str) (n : Str) : List Str :=
  dirs.map (fun d => d ++ '/' :: n ++ s ".d")
    ++ (match templateParts n with
        | (some b, some _) => dirs.map (fun d => d ++ '/' :: b ++ s "@." ++ extension n ++ s ".d")
        | _ => [])

/-- the names of the `*.conf` files found in (or below) one drop-in directory, in listing order -/
def confsIn (t : Tree) (d : Str) : List Str :=
  (t.files.filter fun (p, _) => isUnder d p && p != d && extension (fileName p) == s "conf").map fun p => fileName p.1

/-- a name that was already found in an earlier directory is hidden -/
def addConf (d : Str) (acc : List (Str × Str)) (name : Str) : List (Str × Str) :=
  if acc.any (·.1 == name) then acc else acc ++ [(name, d ++ '/' :: name)]

def collectStep (t : Tree) (acc : List (Str × Str)) (d : Str) : List (Str × Str) := (confsIn t d).foldl (addConf d) acc

/-- (name, path) of the drop-ins that survive, in order of discovery -/
def collectConfs (t : Tree) (dd : List Str) : List (Str × Str) := dd.foldl (collectStep t) []

def sortConfs (confs : List (Str × Str)) : List (Str × Str) := confs.foldl (fun acc c => insertSorted c acc) []

/-- merging one drop-in; the first one that fails to load stops the merge — what was merged before it stays merged
    (the caller records the error and converts the unit anyway) -/
def mergeStep (t : Tree) (acc : QUnit × Bool) (c : Str × Str) : QUnit × Bool :=
  if acc.2 then acc else
  match t.files.lookup c.2 with
  | none => (acc.1, true)                    -- nested drop-in: the code builds a path that does not exist
  | some content => match Parse.parse parseEnv content with
    | .ok du => ({ acc.1 with unit := mergeFrom acc.1.unit du }, false)
    | .error _ => (acc.1, true)

/-- load_dropins_from (after D9): collect from all drop-in directories (first directory wins per name), sort by name,
    merge in that order. Returns the unit and whether a failure occurred. -/
def loadDropins (t : Tree) (q : QUnit) : QUnit × Bool :=
  (sortConfs (collectConfs t (dropinDirs (allDirs t) q.name))).foldl (mergeStep t) (q, false)

structure RunOut where
  services : List (QUnit × Out)
  loadErrors : Nat
  dropinErrors : Nat

def runTree (t : Tree) : RunOut :=
  let loaded := loadAll t
  let qs := loaded.filterMap fun | .unit q => some q | _ => none
  let nLoadErr := (loaded.filter fun | .loadErr _ => true | _ => false).length
  let (qs', nDrop) := qs.foldl (fun (acc : List QUnit × Nat) q =>
    let (q', failed) := loadDropins t q
    (acc.1 ++ [q'], if failed then acc.2 + 1 else acc.2)) ([], 0)
  { services := processUnits qs', loadErrors := nLoadErr, dropinErrors := nDrop }

/-- how many units of the run did not convert -/
def outIsErr : Out → Bool
  | .err _ => true
  | _ => false
def RunOut.convErrors (r : RunOut) : Nat := (r.services.filter fun p => outIsErr p.2).length

/-- the exit status of the run: main() exits 1 when the list of collected errors is not empty (load, drop-in and conversion errors; write
    errors are the subject of the writer model), else 0 -/
def RunOut.exitStatus (r : RunOut) : Nat := if r.loadErrors + r.dropinErrors + r.convErrors = 0 then 0 else 1

end Cv
