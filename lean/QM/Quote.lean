import QM.Extract
/-! Model of `quote_value` / `quote_words` (quoted.rs, after the D1 repair), driven by the tables that
    tools/extract_tables.py regenerates from the source: the character classes and characters of
    `char_needs_escaping`, its threshold, the `match` arms of `quote_value` and its default format. -/
namespace P

def isAsciiControl (c : Char) : Bool := c.toNat < 0x20 || c.toNat == 0x7f
def isAsciiWhitespace (c : Char) : Bool := c == ' ' || c == '\t' || c == '\n' || c == '\x0c' || c == '\r'

def clsControl : Str := ['i','s','_','a','s','c','i','i','_','c','o','n','t','r','o','l']
def clsWhitespace : Str := ['i','s','_','a','s','c','i','i','_','w','h','i','t','e','s','p','a','c','e']
/-- the `c.is_ascii_*()` predicates named in `char_needs_escaping`; an unknown name holds for nothing
    (the correspondence check then disagrees) -/
def classHolds (cls : Str) (c : Char) : Bool :=
  if cls == clsControl then isAsciiControl c
  else if cls == clsWhitespace then isAsciiWhitespace c
  else false

/-- char_needs_escaping -/
def needsEsc (c : Char) : Bool :=
  !(decide (c.toNat > Gen.needsEscapingThreshold)) &&
    (Gen.needsEscapingClasses.any (fun cls => classHolds cls c) || Gen.needsEscapingChars.contains c)

def hexDigit (n : Nat) : Char := if n < 10 then Char.ofNat (48 + n) else Char.ofNat (87 + n)

def fmt02x : Str := ['\\','x','{',':','0','2','x','}']
/-- the `_ =>` arm of quote_value: `format!("\\x{:02x}", c as isize)`; a format the model does not
    know is copied literally (the correspondence check then disagrees) -/
def fmtx : Str := ['\\','x','{',':','x','}']
def defaultArm (c : Char) : Str :=
  if Gen.quoteDefaultFmt == fmt02x then ['\\', 'x', hexDigit (c.toNat / 16), hexDigit (c.toNat % 16)]
  else if Gen.quoteDefaultFmt == fmtx then   -- unpadded hexadecimal
    (if c.toNat < 16 then ['\\', 'x', hexDigit c.toNat] else ['\\', 'x', hexDigit (c.toNat / 16), hexDigit (c.toNat % 16)])
  else Gen.quoteDefaultFmt

def escChar (c : Char) : Str :=
  if !needsEsc c then [c]
  else match Gen.quoteArms.lookup c with
    | some e => e
    | none => defaultArm c

def quoteValue (s : Str) : Str := s.flatMap escChar

/-- after the D1 repair: the empty word is quoted too -/
def quoteWord (w : Str) : Str :=
  if w.isEmpty || w.any needsEsc then '"' :: (quoteValue w ++ ['"']) else w

def joinSp : List Str → Str
  | [] => []
  | [w] => w
  | w :: w' :: ws => w ++ ' ' :: joinSp (w' :: ws)

def quoteWords (ws : List Str) : Str := joinSp (ws.map quoteWord)

def execFlags : Flags := { unquote := true, cunescape := true, relax := false, retainEscape := false }

/-- iterate a per-call splitter -/
def collect (next : Str → Res) : Nat → Str → Option (List Str)
  | 0, _ => none
  | fuel+1, s => match next s with
    | .noWord => some []
    | .einval => none
    | .word w rest => (collect next fuel rest).map (w :: ·)

def splitAll (f : Flags) (s : Str) : Option (List Str) := collect (Spec.extractFirst f) (s.length + 1) s

end P
