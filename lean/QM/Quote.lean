import QM.Extract
namespace P

def needsEsc (c : Char) : Bool :=
  c.toNat < 0x20 || c.toNat == 0x7f || c == ' ' || c == '"' || c == '\'' || c == '\\'

def hexDigit (n : Nat) : Char := if n < 10 then Char.ofNat (48 + n) else Char.ofNat (87 + n)

/-- extracted from the match arms of quote_value -/
def escTable : List (Char × Char) :=
  [('\x07','a'),('\x08','b'),('\n','n'),('\r','r'),('\t','t'),('\x0b','v'),('\x0c','f'),('\\','\\'),('"','"')]

def escChar (c : Char) : Str :=
  if !needsEsc c then [c]
  else if c == ' ' || c == '\'' then [c]
  else match escTable.lookup c with
    | some e => ['\\', e]
    | none => ['\\', 'x', hexDigit (c.toNat / 16), hexDigit (c.toNat % 16)]

def quoteValue (s : Str) : Str := s.flatMap escChar

/-- after the D1 repair: the empty word is quoted too -/
def quoteWord (w : Str) : Str :=
  if w.isEmpty || w.any needsEsc then '"' :: (quoteValue w ++ ['"']) else w

def joinSp : List Str → Str
  | [] => []
  | [w] => w
  | w :: w' :: ws => w ++ ' ' :: joinSp (w' :: ws)

def quoteWords (ws : List Str) : Str := joinSp (ws.map quoteWord)

def execFlags : Flags := { unquote := true, cunescape := true, relax := false, retainEscape := false }

/-- iterate a per-call splitter -/
def collect (next : Str → Res) : Nat → Str → Option (List Str)
  | 0, _ => none
  | fuel+1, s => match next s with
    | .noWord => some []
    | .einval => none
    | .word w rest => (collect next fuel rest).map (w :: ·)

def splitAll (f : Flags) (s : Str) : Option (List Str) := collect (Spec.extractFirst f) (s.length + 1) s

#eval (splitAll execFlags (quoteWords ["a b".toList, "".toList, "x\"y\x01\x7f'\\".toList, "é;".toList])).map (·.map String.ofList)

end P
