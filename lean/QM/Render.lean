import QM.Cont
namespace Parse

structure Frag where
  text : Str
  spaces : Nat
  comments : List (Char × Str)

def renderComments : List (Char × Str) → Str
  | [] => []
  | (m, t) :: cs => m :: t ++ '\n' :: renderComments cs

/-- a value spelled over several lines: fragments ended by `\`, optional spaces, newline, comment lines -/
def renderValue : List Frag → Str → Str
  | [], lastT => lastT
  | f :: fs, lastT => f.text ++ '\\' :: (List.replicate f.spaces ' ' ++ '\n' :: (renderComments f.comments ++ renderValue fs lastT))

/-- what it denotes: the fragments joined by single spaces -/
def denote : List Frag → Str → Str
  | [], lastT => lastT
  | f :: fs, lastT => f.text ++ ' ' :: denote fs lastT

def contOK (x : Str) : Prop := ∀ c, x.head? = some c → c ≠ '#' ∧ c ≠ ';' ∧ c ≠ '['

def commentsOK (cs : List (Char × Str)) : Prop :=
  ∀ p ∈ cs, (p.1 = '#' ∨ p.1 = ';') ∧ ∀ c ∈ p.2, c ≠ '\n'

/-- well-formedness of the continued part (everything after the first line) -/
def contWF : List Frag → Str → Prop
  | [], lastT => bsOK lastT = true ∧ contOK lastT
  | f :: fs, lastT => bsOK f.text = true ∧ contOK (f.text ++ ['\\']) ∧ commentsOK f.comments ∧ contWF fs lastT

theorem pv_comments (cs : List (Char × Str)) (h : commentsOK cs) (ign : Nat) (acc r : Str) :
    ∃ ign', pv .lc ign acc (renderComments cs ++ r) = pv .lc ign' acc r := by
  induction cs generalizing ign with
  | nil => exact ⟨ign, rfl⟩
  | cons p cs ih =>
    obtain ⟨m, t⟩ := p
    obtain ⟨hm, ht⟩ := h (m, t) (by simp)
    obtain ⟨ign', e⟩ := ih (fun q hq => h q (by simp [hq])) 0
    refine ⟨ign', ?_⟩
    simp only [renderComments, List.cons_append, List.append_assoc]
    rw [← List.cons_append, pv_comment m hm t ht]; exact e

theorem head_append_of_ne_nil {x y : Str} (h : x ≠ []) : (x ++ y).head? = x.head? := by
  cases x with
  | nil => exact absurd rfl h
  | cons _ _ => rfl

/-- the continued part of a value, read in line-continuation mode -/
theorem pv_cont (fs : List Frag) (lastT : Str) (wf : contWF fs lastT) (rest : Str) :
    ∀ ign acc, pv .lc ign acc (renderValue fs lastT ++ '\n' :: rest) = (acc.reverse ++ denote fs lastT, '\n' :: rest) := by
  induction fs with
  | nil =>
    intro ign acc
    obtain ⟨hb, hc⟩ := wf
    simp only [renderValue, denote]
    cases hl : lastT with
    | nil => simp [pv]
    | cons c t =>
      have h1 := hc c (by simp [hl])
      have hn : c ≠ '\n' := by
        intro e; subst e; rw [hl] at hb; unfold bsOK at hb; simp at hb
      rw [List.cons_append, pv_resume c ⟨h1.1, h1.2.1, hn, h1.2.2⟩, ← List.cons_append, ← hl, pv_raw lastT hb]
  | cons f fs ih =>
    intro ign acc
    obtain ⟨hb, hc, hcm, hwf⟩ := wf
    simp only [renderValue, denote, List.append_assoc, List.cons_append]
    -- first character of the piece
    have hres : pv .lc ign acc (f.text ++ '\\' :: (List.replicate f.spaces ' ' ++ '\n' :: (renderComments f.comments ++ (renderValue fs lastT ++ '\n' :: rest))))
        = pv .normal 0 acc (f.text ++ '\\' :: (List.replicate f.spaces ' ' ++ '\n' :: (renderComments f.comments ++ (renderValue fs lastT ++ '\n' :: rest)))) := by
      cases ht : f.text with
      | nil => simp [pv]
      | cons c t =>
        have h1 := hc c (by simp [ht])
        have hn : c ≠ '\n' := by
          intro e; subst e; rw [ht] at hb; unfold bsOK at hb; simp at hb
        rw [List.cons_append, pv_resume c ⟨h1.1, h1.2.1, hn, h1.2.2⟩]
    rw [hres, pv_frag f.text hb _ _ (by intro c hc'; simp at hc'; exact Or.inl hc'.symm), pv_continuation]
    obtain ⟨ign', e⟩ := pv_comments f.comments hcm f.spaces (' ' :: (f.text.reverse ++ acc)) (renderValue fs lastT ++ '\n' :: rest)
    rw [e, ih hwf]
    simp

/-- C03, value level: a value spelled with any continuation breaks, any number of spaces between the
    backslash and the newline and any comment lines in between parses to the fragments joined by
    single spaces -/
theorem parseValue_rendered (fs : List Frag) (lastT rest : Str)
    (wf : match fs with
          | [] => bsOK lastT = true
          | f :: fs' => bsOK f.text = true ∧ commentsOK f.comments ∧ contWF fs' lastT) :
    parseValue (renderValue fs lastT ++ '\n' :: rest) = (trimEnd (denote fs lastT), '\n' :: rest) := by
  unfold parseValue
  cases fs with
  | nil =>
    simp only [renderValue, denote]
    rw [pv_raw lastT wf]; simp
  | cons f fs' =>
    obtain ⟨hb, hcm, hwf⟩ := wf
    simp only [renderValue, denote, List.append_assoc, List.cons_append]
    rw [pv_frag f.text hb _ _ (by intro c hc'; simp at hc'; exact Or.inl hc'.symm), pv_continuation]
    obtain ⟨ign', e⟩ := pv_comments f.comments hcm f.spaces (' ' :: (f.text.reverse ++ [])) (renderValue fs' lastT ++ '\n' :: rest)
    rw [e, pv_cont fs' lastT hwf]
    simp

end Parse
