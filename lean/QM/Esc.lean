import QM.Generated.Tables
namespace P
abbrev Str := List Char

def isSep (c : Char) : Bool := c == ' ' || c == '\t' || c == '\n' || c == '\r'
def isQuote (c : Char) : Bool := c == '"' || c == '\''

def unhex (c : Char) : Option Nat :=
  if '0' ≤ c ∧ c ≤ '9' then some (c.toNat - 48)
  else if 'a' ≤ c ∧ c ≤ 'f' then some (c.toNat - 87)
  else if 'A' ≤ c ∧ c ≤ 'F' then some (c.toNat - 55)
  else none
def unoct (c : Char) : Option Nat := if '0' ≤ c ∧ c ≤ '7' then some (c.toNat - 48) else none

/-- systemd's cunescape_one single-letter escapes (frozen specification table) -/
def simpleTable : List (Char × Char) :=
  [('a','\x07'),('b','\x08'),('f','\x0c'),('n','\n'),('r','\r'),('t','\t'),('v','\x0b'),('\\','\\'),('"','"'),('\'','\''),('s',' ')]

def readDigits (dig : Char → Option Nat) (radix : Nat) : Nat → Nat → Str → Option (Nat × Str)
  | 0, v, r => some (v, r)
  | _+1, _, [] => none
  | n+1, v, c :: r => match dig c with
    | none => none
    | some d => readDigits dig radix n (v * radix + d) r

theorem readDigits_length {dig radix n v s v' r} (h : readDigits dig radix n v s = some (v', r)) :
    r.length + n = s.length := by
  induction n generalizing v s with
  | zero => simp [readDigits] at h; obtain ⟨_, rfl⟩ := h; simp
  | succ n ih =>
    cases s with
    | nil => simp [readDigits] at h
    | cons c t =>
      simp only [readDigits] at h
      split at h
      · simp at h
      · have := ih h; simp; omega

def validScalar (n : Nat) : Bool := n < 0xd800 || (0xdfff < n && n < 0x110000)

/-- numeric escape kinds: after which char, how many digits, which radix, does the first digit
    belong to the number (octal) -/
inductive NumKind | x | u | U | oct deriving DecidableEq

def numKindOf (c : Char) : Option NumKind :=
  if c == 'x' then some .x else if c == 'u' then some .u else if c == 'U' then some .U
  else if ('0' ≤ c ∧ c ≤ '7') then some .oct else none

def readNum (k : NumKind) (c : Char) (r : Str) : Option (Nat × Str) :=
  match k with
  | .x => readDigits unhex 16 2 0 r
  | .u => readDigits unhex 16 4 0 r
  | .U => readDigits unhex 16 8 0 r
  | .oct => readDigits unoct 8 3 0 (c :: r)

theorem readNum_length {k c r v r'} (h : readNum k c r = some (v, r')) : r'.length < (c :: r).length := by
  cases k <;> simp only [readNum] at h <;> have := readDigits_length h <;> simp at this ⊢ <;> omega

/-- a decoder is given by which numeric values it accepts and what it does with unknown letters -/
structure DecCfg where
  tbl : List (Char × Char)
  valid : NumKind → Nat → Bool
  unknown : Char → Option Char

def decode (cfg : DecCfg) : Str → Option (Char × Str)
  | [] => none
  | c :: r =>
    match cfg.tbl.lookup c with
    | some d => some (d, r)
    | none =>
      match numKindOf c with
      | some k =>
        match readNum k c r with
        | some (v, r') => if cfg.valid k v then some (Char.ofNat v, r') else none
        | none => none
      | none => (cfg.unknown c).map (·, r)

theorem decode_length {cfg s d r} (h : decode cfg s = some (d, r)) : r.length < s.length := by
  cases s with
  | nil => simp [decode] at h
  | cons c t =>
    simp only [decode] at h
    split at h
    · simp at h; obtain ⟨_, rfl⟩ := h; simp
    · split at h
      · split at h
        · rename_i hn; have := readNum_length hn; split at h <;> simp at h; obtain ⟨_, rfl⟩ := h; exact this
        · simp at h
      · simp [Option.map] at h; split at h <;> simp at h; obtain ⟨_, rfl⟩ := h; simp

/-- systemd's cunescape_one restricted to results representable as the same text in Rust -/
def specCfg : DecCfg where
  tbl := simpleTable
  valid k v := v != 0 && (match k with | .x | .oct => v < 128 | .u | .U => validScalar v)
  unknown _ := none

/-- Rust parse_escape_sequence (split.rs flavour); the single-letter table is the one extracted from split.rs -/
def implCfg : DecCfg where
  tbl := Gen.unescSplit
  valid _ v := v != 0 && validScalar v
  unknown c := some c

end P
