import QM.ConvFrame
/-! Key-level frame for the converters: which (section, key) pairs an operation may touch.  Everything else — every
    key the generator does not manage, in every section — has exactly the entries it had, in order. -/
namespace Cv
open MM

/-- the entries of one key in one section, in order -/
def keyEntries (u : SUnit) (S k : Str) : Entries := (entriesOf u S).filter (fun e => e.1 == k)

/-- the (section, key) pairs some converter writes: default dependencies, source path, mount / unit dependencies,
    pod wiring; environment marker, kill mode, the Exec lines, delegate, type / notify, syslog identifier, one-shot
    settings, working directory, the pod's restart policy and PID file -/
def managed : List (Str × Str) :=
  [(s "Unit", s "Wants"), (s "Unit", s "After"), (s "Unit", s "SourcePath"), (s "Unit", s "RequiresMountsFor"),
   (s "Unit", s "Requires"), (s "Unit", s "BindsTo"), (s "Unit", s "Before"),
   (s "Service", s "Environment"), (s "Service", s "KillMode"), (s "Service", s "ExecStart"), (s "Service", s "ExecStartPre"),
   (s "Service", s "ExecStop"), (s "Service", s "ExecStopPost"), (s "Service", s "Delegate"), (s "Service", s "Type"),
   (s "Service", s "NotifyAccess"), (s "Service", s "SyslogIdentifier"), (s "Service", s "RemainAfterExit"),
   (s "Service", s "WorkingDirectory"), (s "Service", s "Restart"), (s "Service", s "PIDFile")]

def KeepsOther (a b : SUnit) : Prop := ∀ S k, (S, k) ∉ managed → keyEntries b S k = keyEntries a S k

theorem KeepsOther.refl (a : SUnit) : KeepsOther a a := fun _ _ _ => rfl
theorem KeepsOther.trans {a b c : SUnit} (h1 : KeepsOther a b) (h2 : KeepsOther b c) : KeepsOther a c :=
  fun S k hk => (h2 S k hk).trans (h1 S k hk)

theorem filter_setIn_ne (es : Entries) (key raw k : Str) (h : k ≠ key) :
    (setIn es key raw).filter (fun e => e.1 == k) = es.filter (fun e => e.1 == k) := by
  unfold setIn
  have hk : (key == k) = false := by simpa using fun e => h e.symm
  simp only [List.filter_append, List.filter_filter]
  have e1 : (es.filter (fun kv => kv.1 == key)).dropLast.filter (fun e => e.1 == k) = [] := by
    apply List.filter_eq_nil_iff.mpr
    intro x hx
    have hx' := (List.dropLast_sublist _).subset hx
    have := (List.mem_filter.mp hx').2
    simp only [beq_iff_eq] at this
    simp [this, hk]
  have e2 : [(key, raw)].filter (fun e => e.1 == k) = [] := by simp [hk]
  rw [e1, e2, List.append_nil, List.append_nil]
  apply List.filter_congr
  intro x _
  by_cases hx : (x.1 == k) = true
  · have : x.1 = k := by simpa using hx
    have hne : (x.1 == key) = false := by rw [this]; simpa using h
    simp [hx, hne]
  · simp [hx]

theorem kk_addEntry (svc : SUnit) (sec key raw : Str) (h : (sec, key) ∈ managed := by decide) : KeepsOther svc (addEntry svc sec key raw) := by
  intro S k hk
  unfold keyEntries
  rw [entriesOf_addEntry]
  split
  · rename_i e
    subst e
    have : (key == k) = false := by
      simp only [beq_eq_false_iff_ne, ne_eq]
      intro e; subst e; exact hk h
    simp [List.filter_append, this]
  · rfl

theorem kk_addS (svc : SUnit) (sec key : String) (v : Str) (h : (s sec, s key) ∈ managed := by decide) : KeepsOther svc (addS svc sec key v) :=
  kk_addEntry _ _ _ _ h

theorem kk_setS (svc : SUnit) (sec key : String) (v : Str) (h : (s sec, s key) ∈ managed := by decide) : KeepsOther svc (setS svc sec key v) := by
  intro S k hk
  unfold keyEntries Cv.setS
  rw [entriesOf_setEntry]
  split
  · rename_i e
    subst e
    exact filter_setIn_ne _ _ _ _ (fun e => hk (e ▸ h))
  · rfl

theorem kk_prependS (svc : SUnit) (sec key : String) (v : Str) (h : (s sec, s key) ∈ managed := by decide) : KeepsOther svc (prependS svc sec key v) := by
  intro S k hk
  unfold keyEntries
  rw [entriesOf_prependS]
  split
  · rename_i e
    subst e
    have : (s key == k) = false := by
      simp only [beq_eq_false_iff_ne, ne_eq]
      intro e; subst e; exact hk h
    simp [List.filter_cons, this]
  · rfl

theorem kk_addRawExec (svc svc' : SUnit) (k : String) (args : List Str)
    (h : addRawExec svc k args = .ok svc') (hk : (s "Service", s k) ∈ managed := by decide) : KeepsOther svc svc' := by
  rw [addRawExec_ok _ _ _ _ h]; exact kk_addEntry _ _ _ _ hk

theorem kk_oneShot (svc : SUnit) (b : Bool) : KeepsOther svc (oneShot svc b) := by
  unfold oneShot
  simp only
  split <;> split <;> split <;>
    first
    | exact ((kk_setS _ _ _ _).trans (kk_setS _ _ _ _)).trans (kk_setS _ _ _ _)
    | exact (kk_setS _ _ _ _).trans (kk_setS _ _ _ _)
    | exact kk_setS _ _ _ _
    | exact KeepsOther.refl _

theorem kk_killMode (u svc svc' : SUnit) (h : killMode u svc = .ok svc') : KeepsOther svc svc' := by
  unfold killMode at h
  split at h
  · simp at h; subst h; exact kk_setS _ _ _ _
  · split at h
    · simp at h; subst h; exact KeepsOther.refl _
    · simp at h

theorem kk_handleImageSource (E : Env) (name : Str) (svc : SUnit) (r : Str × SUnit)
    (h : handleImageSource E name svc = .ok r) : KeepsOther svc r.2 := by
  unfold handleImageSource at h
  split at h
  · split at h
    · simp at h
    · simp at h; subst h
      exact (kk_addS _ _ _ _).trans (kk_addS _ _ _ _)
  · simp at h; subst h; exact KeepsOther.refl _

theorem kk_handleStorageSource (E : Env) (unitPath : Str) (svc : SUnit) (source : Str) (ci : Bool) (r : Str × SUnit)
    (h : handleStorageSource E unitPath svc source ci = .ok r) : KeepsOther svc r.2 := by
  unfold handleStorageSource at h
  simp only at h
  generalize (if source.head? == some '.' then absFromUnit unitPath source else source) = src at h
  split at h
  · simp at h; subst h; exact kk_addS _ _ _ _
  · split at h
    · split at h
      · simp at h
      · simp at h; subst h
        exact (kk_addS _ _ _ _).trans (kk_addS _ _ _ _)
    · simp at h; subst h; exact KeepsOther.refl _

theorem kk_foldlM {α β : Type} (f : β × SUnit → α → R (β × SUnit))
    (hf : ∀ acc a r, f acc a = .ok r → KeepsOther acc.2 r.2) :
    ∀ (l : List α) (acc r : β × SUnit), l.foldlM f acc = .ok r → KeepsOther acc.2 r.2 := by
  intro l
  induction l with
  | nil => intro acc r h; simp [List.foldlM, pure, Except.pure] at h; subst h; exact KeepsOther.refl _
  | cons a l ih =>
    intro acc r h
    simp only [List.foldlM_cons, bind_ok] at h
    obtain ⟨x, hx, hr⟩ := h
    exact (hf acc a x hx).trans (ih x r hr)

theorem kk_volumeStep (E : Env) (unitPath : Str) (acc : List Str × SUnit) (volume : Str) (r : List Str × SUnit)
    (h : volumeStep E unitPath acc volume = .ok r) : KeepsOther acc.2 r.2 := by
  unfold volumeStep at h
  simp only at h
  split at h
  · simp at h; subst h; exact KeepsOther.refl _
  · split at h
    · simp at h
    · rename_i x hx
      have := kk_handleStorageSource _ _ _ _ _ _ hx
      split at h <;> (simp at h; subst h; exact this)

theorem kk_handleVolumes (E : Env) (unitPath : Str) (u : SUnit) (sec : Str) (svc : SUnit) (r : List Str × SUnit)
    (h : handleVolumes E unitPath u sec svc = .ok r) : KeepsOther svc r.2 :=
  kk_foldlM _ (kk_volumeStep E unitPath) _ _ _ h

theorem kk_networkRef (E : Env) (name : Str) (svc : SUnit) (r : Str × SUnit)
    (h : networkRef E name svc = .ok r) : KeepsOther svc r.2 := by
  unfold networkRef at h
  split at h
  · split at h
    · simp at h
    · split at h
      · simp at h
      · simp at h; subst h; exact (kk_addS _ _ _ _).trans (kk_addS _ _ _ _)
  · simp at h; subst h; exact KeepsOther.refl _

theorem kk_networkStep (E : Env) (acc : List Str × SUnit) (network : Str) (r : List Str × SUnit)
    (h : networkStep E acc network = .ok r) : KeepsOther acc.2 r.2 := by
  unfold networkStep at h
  split at h
  · simp at h; subst h; exact KeepsOther.refl _
  · simp only at h
    split at h
    · simp at h
    · rename_i x hx
      have := kk_networkRef _ _ _ _ hx
      split at h
      · split at h
        · simp at h
        · simp at h; subst h; exact this
      · split at h <;> (simp at h; subst h; exact this)

theorem kk_handleNetworks (E : Env) (u : SUnit) (sec : Str) (svc : SUnit) (r : List Str × SUnit)
    (h : handleNetworks E u sec svc = .ok r) : KeepsOther svc r.2 :=
  kk_foldlM _ (kk_networkStep E) _ _ _ h

theorem kk_mountTokStep (E : Env) (unitPath : Str) (acc : List Str × SUnit) (t : Str) (r : List Str × SUnit)
    (h : mountTokStep E unitPath acc t = .ok r) : KeepsOther acc.2 r.2 := by
  unfold mountTokStep at h
  split at h
  · split at h
    · split at h
      · simp at h
      · rename_i x hx
        simp at h; subst h
        exact kk_handleStorageSource _ _ _ _ _ _ hx
    · simp at h; subst h; exact KeepsOther.refl _
  · simp at h; subst h; exact KeepsOther.refl _

theorem kk_resolveMount (E : Env) (unitPath : Str) (svc : SUnit) (m : Str) (r : Str × SUnit)
    (h : resolveMount E unitPath svc m = some (.ok r)) : KeepsOther svc r.2 := by
  unfold resolveMount at h
  split at h
  · simp at h
  · simp at h
  · split at h
    · simp at h; subst h; exact KeepsOther.refl _
    · simp only [Option.some.injEq] at h
      split at h
      · simp at h
      · rename_i x hx
        simp at h; subst h
        exact kk_foldlM _ (kk_mountTokStep E unitPath) _ _ _ hx

theorem kk_mountsStep (E : Env) (unitPath : Str) (acc : List Str × SUnit) (m : Str) (r : List Str × SUnit)
    (h : mountsStep E unitPath acc m = .ok r) : KeepsOther acc.2 r.2 := by
  unfold mountsStep at h
  split at h
  · rename_i x hx
    simp at h; subst h
    exact kk_resolveMount _ _ _ _ _ hx
  · simp at h
  · simp at h

theorem kk_handlePod (E : Env) (u : SUnit) (sec : Str) (svc : SUnit) (own : Str) (r : List Str × SUnit × Option (Str × Str))
    (h : handlePod E u sec svc own = .ok r) : KeepsOther svc r.2.1 := by
  unfold handlePod at h
  split at h
  · simp at h; subst h; exact KeepsOther.refl _
  · split at h
    · simp at h; subst h; exact KeepsOther.refl _
    · split at h
      · simp at h
      · split at h
        · simp at h
        · simp at h; subst h
          exact (kk_addS _ _ _ _).trans (kk_addS _ _ _ _)

theorem kk_typeAndNotify (u : SUnit) (sec : Str) (cmd : List Str) (svc : SUnit) (r : List Str × SUnit)
    (h : typeAndNotify u sec cmd svc = .ok r) : KeepsOther svc r.2 := by
  unfold typeAndNotify at h
  simp only at h
  split at h
  · split at h
    · simp at h; subst h; exact KeepsOther.refl _
    · split at h
      · simp at h; subst h; exact (kk_setS _ _ _ _).trans (kk_setS _ _ _ _)
      · simp at h
  · simp at h; subst h; exact (kk_setS _ _ _ _).trans (kk_setS _ _ _ _)

theorem kk_applyWd (svc : SUnit) (wd : Option Str) : KeepsOther svc (applyWd svc wd) := by
  unfold applyWd; split
  · exact kk_addS _ _ _ _
  · exact KeepsOther.refl _

theorem kk_handleSetWorkingDirectory (unitPath : Str) (u svc : SUnit) (sec : Str) (r : Str × SUnit)
    (h : handleSetWorkingDirectory unitPath u svc sec = .ok r) : KeepsOther svc r.2 := by
  unfold handleSetWorkingDirectory at h
  split at h
  · simp at h
  · simp at h; subst h; exact kk_applyWd _ _

theorem kk_foldl_addS2 (cs : List Str) (svc : SUnit) :
    KeepsOther svc (cs.foldl (fun svc c => addS (addS svc "Unit" "Wants" c) "Unit" "Before" c) svc) := by
  induction cs generalizing svc with
  | nil => exact KeepsOther.refl _
  | cons c cs ih => exact ((kk_addS _ _ _ _).trans (kk_addS _ _ _ _)).trans (ih _)

theorem keys_fromVolume (E : Env) (path : Str) (u svc : SUnit) (n : Str) (h : fromVolume E path u = .ok (svc, n)) :
    KeepsOther (preService path u (s "Volume") (s "X-Volume")) svc := by
  unfold fromVolume volumeOpts at h
  simp only [bind_ok] at h
  obtain ⟨_, _, _, _, x, hx, svc1, hexec, hfin⟩ := h
  simp only [pure, Except.pure, Except.ok.injEq, Prod.mk.injEq] at hfin
  obtain ⟨rfl, _⟩ := hfin
  have h0 : KeepsOther (preService path u (s "Volume") (s "X-Volume"))
      (addS (preService path u (s "Volume") (s "X-Volume")) "Unit" "RequiresMountsFor" (s "%t/containers")) :=
    id (kk_addS _ _ _ _)
  have hx' : KeepsOther (addS (preService path u (s "Volume") (s "X-Volume")) "Unit" "RequiresMountsFor" (s "%t/containers")) x.2 := by
    split at hx
    · split at hx
      · exact absurd hx (by simp [throw, throwThe, MonadExceptOf.throw])
      · simp only [bind_ok] at hx
        obtain ⟨y, hy, hx⟩ := hx
        simp only [pure, Except.pure, Except.ok.injEq] at hx
        subst hx
        exact id (kk_handleImageSource _ _ _ _ hy)
    · split at hx
      · exact absurd hx (throw_bind_ne_ok _ _ _)
      · split at hx
        · exact absurd hx (throw_bind_ne_ok _ _ _)
        · simp only [pure, Except.pure, Except.ok.injEq] at hx
          subst hx
          exact KeepsOther.refl _
  exact (h0.trans hx').trans ((id (kk_addRawExec _ _ _ _ hexec)).trans (id (kk_oneShot _ _)))

theorem keys_fromNetwork (E : Env) (path : Str) (u svc : SUnit) (n : Str) (h : fromNetwork E path u = .ok (svc, n)) :
    KeepsOther (preService path u (s "Network") (s "X-Network")) svc := by
  unfold fromNetwork at h
  simp only [bind_ok] at h
  obtain ⟨_, _, _, _, _, _, svc1, hexec, hfin⟩ := h
  simp only [pure, Except.pure, Except.ok.injEq, Prod.mk.injEq] at hfin
  obtain ⟨rfl, _⟩ := hfin
  exact (id (kk_addS _ _ _ _)).trans ((id (kk_addRawExec _ _ _ _ hexec)).trans (id (kk_oneShot _ _)))

theorem keys_fromPod (E : Env) (path : Str) (u svc : SUnit) (cs : List Str) (h : fromPod E path u cs = .ok svc) :
    KeepsOther (preService path u (s "Pod") (s "X-Pod")) svc := by
  unfold fromPod at h
  simp only [bind_ok] at h
  obtain ⟨_, _, _, _, s1, h1, s2, h2, s3, h3, _, _, x4, h4, x5, h5, s6, h6, hfin⟩ := h
  simp only [pure, Except.pure, Except.ok.injEq] at hfin
  subst hfin
  have a0 := id (kk_addS (preService path u (s "Pod") (s "X-Pod")) "Unit" "RequiresMountsFor" (s "%t/containers"))
  have a1 := id (kk_foldl_addS2 cs (addS (preService path u (s "Pod") (s "X-Pod")) "Unit" "RequiresMountsFor" (s "%t/containers")))
  refine (a0.trans a1).trans ?_
  have a2 : KeepsOther (cs.foldl (fun svc c => addS (addS svc "Unit" "Wants" c) "Unit" "Before" c)
        (addS (preService path u (s "Pod") (s "X-Pod")) "Unit" "RequiresMountsFor" (s "%t/containers")))
      (if (lookup u (s "Service") (s "SyslogIdentifier")).isNone then
        setS (cs.foldl (fun svc c => addS (addS svc "Unit" "Wants" c) "Unit" "Before" c)
          (addS (preService path u (s "Pod") (s "X-Pod")) "Unit" "RequiresMountsFor" (s "%t/containers"))) "Service" "SyslogIdentifier" (s "%N")
       else cs.foldl (fun svc c => addS (addS svc "Unit" "Wants" c) "Unit" "Before" c)
          (addS (preService path u (s "Pod") (s "X-Pod")) "Unit" "RequiresMountsFor" (s "%t/containers"))) := by
    split
    · exact id (kk_setS _ _ _ _)
    · exact KeepsOther.refl _
  refine a2.trans ?_
  refine (id (kk_addRawExec _ _ _ _ h1)).trans ?_
  refine (id (kk_addRawExec _ _ _ _ h2)).trans ?_
  refine (id (kk_addRawExec _ _ _ _ h3)).trans ?_
  refine (id (kk_handleNetworks _ _ _ _ _ h4)).trans ?_
  refine (id (kk_handleVolumes _ _ _ _ _ _ h5)).trans ?_
  refine (id (kk_addRawExec _ _ _ _ h6)).trans ?_
  exact (id (kk_addS _ _ _ _)).trans ((id (kk_addS _ _ _ _)).trans
    ((id (kk_addS _ _ _ _)).trans (id (kk_addS _ _ _ _))))

theorem keys_fromKube (E : Env) (path : Str) (u svc : SUnit) (h : fromKube E path u = .ok svc) :
    KeepsOther (preService path u (s "Kube") (s "X-Kube")) svc := by
  unfold fromKube at h
  simp only [bind_ok] at h
  obtain ⟨_, _, _, _, h⟩ := h
  split at h
  · exact absurd h (throw_bind_ne_ok _ _ _)
  · simp only [bind_ok] at h
    obtain ⟨s1, h1, s2, h2, _, _, x3, h3, s4, h4, s5, h5, x6, h6, hfin⟩ := h
    simp only [pure, Except.pure, Except.ok.injEq] at hfin
    subst hfin
    refine (id (kk_killMode _ _ _ h1)).trans ?_
    refine (id (kk_addS s1 "Service" "Environment" (s "PODMAN_SYSTEMD_UNIT=%n"))).trans ?_
    refine (id (kk_addS (addS s1 "Service" "Environment" (s "PODMAN_SYSTEMD_UNIT=%n")) "Unit" "RequiresMountsFor" (s "%t/containers"))).trans ?_
    have a2 : KeepsOther (addS (addS s1 "Service" "Environment" (s "PODMAN_SYSTEMD_UNIT=%n")) "Unit" "RequiresMountsFor" (s "%t/containers")) s2 := by
      split at h2
      · simp [pure, Except.pure] at h2; subst h2
        exact (id (kk_addS _ _ _ _)).trans (id (kk_addS _ _ _ _))
      · split at h2 <;> (simp [pure, Except.pure] at h2; subst h2)
        · exact (id (kk_addS _ _ _ _)).trans (id (kk_addS _ _ _ _))
        · exact KeepsOther.refl _
    refine a2.trans ?_
    have a3 : KeepsOther s2
        (if !hasKey u (s "Service") (s "SyslogIdentifier") then setS s2 "Service" "SyslogIdentifier" (s "%N") else s2) := by
      split
      · exact id (kk_setS _ _ _ _)
      · exact KeepsOther.refl _
    refine a3.trans ?_
    refine (id (kk_handleNetworks _ _ _ _ _ h3)).trans ?_
    refine (id (kk_addRawExec _ _ _ _ h4)).trans ?_
    refine (id (kk_addRawExec _ _ _ _ h5)).trans ?_
    exact id (kk_handleSetWorkingDirectory _ _ _ _ _ h6)

theorem keys_fromBuild (E : Env) (path : Str) (u svc : SUnit) (h : fromBuild E path u = .ok svc) :
    KeepsOther (preOf (buildStart path u) (s "Build") (s "X-Build")) svc := by
  unfold fromBuild at h
  simp only [bind_ok] at h
  obtain ⟨_, _, h⟩ := h
  split at h
  · exact absurd h (throw_bind_ne_ok _ _ _)
  · simp only [bind_ok] at h
    obtain ⟨_, _, _, _, x1, h1, x2, h2, x3, h3, _, _, _, _, s4, h4, hfin⟩ := h
    simp only [pure, Except.pure, Except.ok.injEq] at hfin
    subst hfin
    have e : (renameSection (renameSection
        (if path.isEmpty then addS (defaultDeps (mergeFrom [] u)) "Unit" "RequiresMountsFor" (s "%t/containers")
         else addS (addS (defaultDeps (mergeFrom [] u)) "Unit" "RequiresMountsFor" (s "%t/containers")) "Unit" "SourcePath" path)
        (s "Build") (s "X-Build")) (s "Quadlet") (s "X-Quadlet")) = preOf (buildStart path u) (s "Build") (s "X-Build") := rfl
    rw [e] at h1
    refine (id (kk_handleNetworks _ _ _ _ _ h1)).trans ?_
    refine (id (kk_handleVolumes _ _ _ _ _ _ h2)).trans ?_
    refine (id (kk_handleSetWorkingDirectory _ _ _ _ _ h3)).trans ?_
    exact (id (kk_addRawExec _ _ _ _ h4)).trans (id (kk_oneShot _ _))

theorem keys_fromContainer (E : Env) (path : Str) (u svc : SUnit) (link : Option (Str × Str))
    (h : fromContainer E path u = some (.ok (svc, link))) :
    KeepsOther (preService path u (s "Container") (s "X-Container")) svc := by
  unfold fromContainer at h
  simp only at h
  split at h
  · simp at h
  · simp only [Option.some.injEq, bind_ok] at h
    obtain ⟨self, _, _, _, _, _, h⟩ := h
    split at h
    · exact absurd h (throw_bind_ne_ok _ _ _)
    · split at h
      · exact absurd h (throw_bind_ne_ok _ _ _)
      · simp only [bind_ok] at h
        obtain ⟨x1, h1, s2, h2, s3, h3, s4, h4, x5, h5, x6, h6, _, _, _, _, x7, h7, _, _, x8, h8, x9, h9, s10, h10, hfin⟩ := h
        simp only [pure, Except.pure, Except.ok.injEq, Prod.mk.injEq] at hfin
        obtain ⟨rfl, _⟩ := hfin
        have e : (renameSection (renameSection
            (if path.isEmpty then defaultDeps (mergeFrom [] u) else addS (defaultDeps (mergeFrom [] u)) "Unit" "SourcePath" path)
            (s "Container") (s "X-Container")) (s "Quadlet") (s "X-Quadlet"))
            = preService path u (s "Container") (s "X-Container") := rfl
        rw [e] at h1
        have a1 : KeepsOther (preService path u (s "Container") (s "X-Container")) x1.2 := by
          split at h1
          · exact id (kk_handleImageSource _ _ _ _ h1)
          · simp [pure, Except.pure] at h1; subst h1; exact KeepsOther.refl _
        refine a1.trans ?_
        refine (id (kk_addS x1.2 "Service" "Environment" (s "PODMAN_SYSTEMD_UNIT=%n"))).trans ?_
        refine (id (kk_killMode _ _ _ h2)).trans ?_
        refine (id (kk_addS s2 "Unit" "RequiresMountsFor" (s "%t/containers"))).trans ?_
        refine (id (kk_addRawExec _ _ _ _ h3)).trans ?_
        refine (id (kk_addRawExec _ _ _ _ h4)).trans ?_
        refine (id (kk_addS s4 "Service" "Delegate" (s "yes"))).trans ?_
        refine (id (kk_handleNetworks _ _ _ _ _ h5)).trans ?_
        refine (id (kk_typeAndNotify _ _ _ _ _ h6)).trans ?_
        have a7 : KeepsOther x6.2
            (if (lookup u (s "Service") (s "SyslogIdentifier")).isNone then setS x6.2 "Service" "SyslogIdentifier" (s "%N") else x6.2) := by
          split
          · exact id (kk_setS _ _ _ _)
          · exact KeepsOther.refl _
        refine a7.trans ?_
        refine (id (kk_handleVolumes _ _ _ _ _ _ h7)).trans ?_
        refine (id (kk_foldlM _ (kk_mountsStep E path) _ _ _ h8)).trans ?_
        refine (id (kk_handlePod _ _ _ _ _ _ h9)).trans ?_
        exact id (kk_addRawExec _ _ _ _ h10)


/-! ### from the user's unit to the service -/

theorem kk_defaultDeps (svc : SUnit) : KeepsOther svc (defaultDeps svc) := by
  unfold defaultDeps
  split
  · exact (kk_prependS _ _ _ _).trans (kk_prependS _ _ _ _)
  · exact KeepsOther.refl _

theorem keyEntries_mergeFrom (u : SUnit) (hnd : (u.map Prod.fst).Nodup) (S k : Str) :
    keyEntries (mergeFrom [] u) S k = keyEntries u S k := by
  unfold keyEntries
  rw [entriesOf_mergeFrom [] u hnd]
  simp [entriesOf, List.lookup]

theorem keys_startService (path : Str) (u : SUnit) (hnd : (u.map Prod.fst).Nodup) (S k : Str) (hk : (S, k) ∉ managed) :
    keyEntries (startService path u) S k = keyEntries u S k := by
  have h1 : KeepsOther (mergeFrom [] u) (startService path u) := by
    unfold startService
    simp only
    split
    · exact kk_defaultDeps _
    · exact (kk_defaultDeps _).trans (kk_addS _ _ _ _)
  rw [h1 S k hk, keyEntries_mergeFrom u hnd]

theorem keys_buildStart (path : Str) (u : SUnit) (hnd : (u.map Prod.fst).Nodup) (S k : Str) (hk : (S, k) ∉ managed) :
    keyEntries (buildStart path u) S k = keyEntries u S k := by
  have h1 : KeepsOther (mergeFrom [] u) (buildStart path u) := by
    unfold buildStart
    split
    · exact (kk_defaultDeps _).trans (kk_addS _ _ _ _)
    · exact ((kk_defaultDeps _).trans (kk_addS _ _ _ _)).trans (kk_addS _ _ _ _)
  rw [h1 S k hk, keyEntries_mergeFrom u hnd]

theorem keyEntries_preOf (start : SUnit) (own xown S k : Str) (hx : own ≠ xown)
    (hS : S ∉ [own, xown, s "Quadlet", s "X-Quadlet"]) :
    keyEntries (preOf start own xown) S k = keyEntries start S k := by
  simp only [List.mem_cons, List.not_mem_nil, or_false, not_or] at hS
  obtain ⟨h1, h2, h3, h4⟩ := hS
  unfold keyEntries preOf
  rw [entriesOf_rename _ _ _ _ (by decide : s "Quadlet" ≠ s "X-Quadlet"), if_neg h3, if_neg h4,
    entriesOf_rename _ _ _ _ hx, if_neg h1, if_neg h2]

/-- the shape every converter result has: for a pair the generator does not manage, in a section that is not renamed,
    the service has exactly the user's entries of that key, in order -/
theorem unmanaged_of_keys (start u svc : SUnit) (own xown : Str) (hx : own ≠ xown)
    (hstart : ∀ S k, (S, k) ∉ managed → keyEntries start S k = keyEntries u S k)
    (h : KeepsOther (preOf start own xown) svc) (S k : Str) (hk : (S, k) ∉ managed)
    (hS : S ∉ [own, xown, s "Quadlet", s "X-Quadlet"]) :
    keyEntries svc S k = keyEntries u S k := by
  rw [h S k hk, keyEntries_preOf start own xown S k hx hS, hstart S k hk]

end Cv
