import QM.Proc
import QM.ConvShape
/-! The conversion loop of `process` as a *local* system in the sense of QM/Refine.lean:
    every conversion reads the name table only at the names in its static read set `readsOf`. -/
namespace Cv
open MM

abbrev Tab := Str → Option Info

def AgreeOn (L : List Str) (t₁ t₂ : Tab) : Prop := ∀ n ∈ L, t₁ n = t₂ n

theorem AgreeOn.mono {L L' : List Str} {t₁ t₂ : Tab} (h : AgreeOn L t₁ t₂) (hs : ∀ n ∈ L', n ∈ L) : AgreeOn L' t₁ t₂ :=
  fun n hn => h n (hs n hn)

theorem foldlM_congr {α β : Type} (f g : β → α → R β) (l : List α) (h : ∀ x ∈ l, ∀ acc, f acc x = g acc x) :
    ∀ init, l.foldlM f init = l.foldlM g init := by
  induction l with
  | nil => intro init; rfl
  | cons x xs ih =>
    intro init
    simp only [List.foldlM_cons]
    rw [h x (by simp) init]
    congr 1
    funext acc
    exact ih (fun y hy => h y (by simp [hy])) acc

theorem baseCmd_congr (b : Bool) (t₁ t₂ : Tab) (u : SUnit) (sec : Str) :
    baseCmd (envOf b t₁) u sec = baseCmd (envOf b t₂) u sec := rfl

theorem handleImageSource_congr (b : Bool) (t₁ t₂ : Tab) (name : Str) (svc : SUnit)
    (h : AgreeOn (imageRefs name) t₁ t₂) :
    handleImageSource (envOf b t₁) name svc = handleImageSource (envOf b t₂) name svc := by
  unfold handleImageSource
  split
  · rename_i hc
    have : t₁ name = t₂ name := h name (by simp [imageRefs, hc])
    simp only [envOf, this]
  · rfl

theorem handleStorageSource_congr (b : Bool) (t₁ t₂ : Tab) (unitPath : Str) (svc : SUnit) (source : Str) (ci : Bool)
    (h : ∀ n, storageRef unitPath source ci = some n → t₁ n = t₂ n) :
    handleStorageSource (envOf b t₁) unitPath svc source ci = handleStorageSource (envOf b t₂) unitPath svc source ci := by
  unfold handleStorageSource
  simp only
  have hr : storageRef unitPath source ci =
      (let src := if source.head? == some '.' then absFromUnit unitPath source else source
       if src.head? == some '/' then none
       else if endsWith src (s ".volume") || (ci && endsWith src (s ".image")) then some src else none) := rfl
  simp only at hr
  generalize (if source.head? == some '.' then absFromUnit unitPath source else source) = src at hr ⊢
  by_cases h1 : (src.head? == some '/') = true
  · simp only [h1, if_true]
  · by_cases h2 : (endsWith src (s ".volume") || (ci && endsWith src (s ".image"))) = true
    · have := h src (by rw [hr]; simp only [h1, h2, if_true]; simp)
      simp only [h1, h2, if_true, envOf, this]
    · simp only [h1, h2, Bool.false_eq_true, if_false]

theorem volumeStep_congr (b : Bool) (t₁ t₂ : Tab) (unitPath : Str) (acc : List Str × SUnit) (volume : Str)
    (h : ∀ n, storageRef unitPath (volSource (splitN3 volume)) false = some n → t₁ n = t₂ n) :
    volumeStep (envOf b t₁) unitPath acc volume = volumeStep (envOf b t₂) unitPath acc volume := by
  unfold volumeStep
  simp only [handleStorageSource_congr b t₁ t₂ unitPath acc.2 _ false h]

theorem handleVolumes_congr (b : Bool) (t₁ t₂ : Tab) (unitPath : Str) (u : SUnit) (sec : Str) (svc : SUnit)
    (h : AgreeOn (volumeRefs unitPath u sec) t₁ t₂) :
    handleVolumes (envOf b t₁) unitPath u sec svc = handleVolumes (envOf b t₂) unitPath u sec svc := by
  unfold handleVolumes
  apply foldlM_congr
  intro v hv acc
  apply volumeStep_congr
  intro n hn
  apply h
  simp only [volumeRefs, List.mem_filterMap]
  exact ⟨v, hv, hn⟩

theorem networkRef_congr (b : Bool) (t₁ t₂ : Tab) (name : Str) (svc : SUnit)
    (h : (endsWith name (s ".network") || endsWith name (s ".container")) = true → t₁ name = t₂ name) :
    networkRef (envOf b t₁) name svc = networkRef (envOf b t₂) name svc := by
  unfold networkRef
  split
  · rename_i hc
    simp only [envOf, h hc]
  · rfl

theorem networkStep_congr (b : Bool) (t₁ t₂ : Tab) (acc : List Str × SUnit) (nw : Str)
    (h : nw.isEmpty = false → (endsWith (netNameOf nw) (s ".network") || endsWith (netNameOf nw) (s ".container")) = true →
      t₁ (netNameOf nw) = t₂ (netNameOf nw)) :
    networkStep (envOf b t₁) acc nw = networkStep (envOf b t₂) acc nw := by
  unfold networkStep
  split
  · rfl
  · rename_i hne
    simp only [networkRef_congr b t₁ t₂ (netNameOf nw) acc.2 (h (by simpa using hne))]

theorem handleNetworks_congr (b : Bool) (t₁ t₂ : Tab) (u : SUnit) (sec : Str) (svc : SUnit)
    (h : AgreeOn (networkRefs u sec) t₁ t₂) :
    handleNetworks (envOf b t₁) u sec svc = handleNetworks (envOf b t₂) u sec svc := by
  unfold handleNetworks
  apply foldlM_congr
  intro nw hnw acc
  apply networkStep_congr
  intro hne hc
  apply h
  simp only [networkRefs, List.mem_filterMap]
  refine ⟨nw, hnw, ?_⟩
  simp only [hne, Bool.false_eq_true, if_false]
  rw [if_pos hc]

theorem mountTokStep_congr (b : Bool) (t₁ t₂ : Tab) (unitPath : Str) (acc : List Str × SUnit) (t : Str)
    (h : ∀ n, mountTokRef unitPath t = some n → t₁ n = t₂ n) :
    mountTokStep (envOf b t₁) unitPath acc t = mountTokStep (envOf b t₂) unitPath acc t := by
  unfold mountTokStep
  split
  · rename_i hc
    split
    · rename_i a v hs
      have := handleStorageSource_congr b t₁ t₂ unitPath acc.2 v true (fun n hn => h n (by simp only [mountTokRef, hc, if_true, hs]; exact hn))
      simp only [this]
    · rfl
  · rfl

theorem mountsStep_congr (b : Bool) (t₁ t₂ : Tab) (unitPath : Str) (acc : List Str × SUnit) (m : Str)
    (h : ∀ toks ty, findMountType m = some (.ok (ty, toks)) → ∀ t ∈ toks, ∀ n, mountTokRef unitPath t = some n → t₁ n = t₂ n) :
    mountsStep (envOf b t₁) unitPath acc m = mountsStep (envOf b t₂) unitPath acc m := by
  unfold mountsStep resolveMount
  cases hf : findMountType m with
  | none => rfl
  | some r =>
    cases r with
    | error e => rfl
    | ok p =>
      obtain ⟨ty, toks⟩ := p
      simp only
      rw [foldlM_congr (mountTokStep (envOf b t₁) unitPath) (mountTokStep (envOf b t₂) unitPath) toks
        (fun t ht acc => mountTokStep_congr b t₁ t₂ unitPath acc t (h toks ty hf t ht))]

theorem handleMounts_congr (b : Bool) (t₁ t₂ : Tab) (unitPath : Str) (u : SUnit) (sec : Str) (svc : SUnit)
    (h : AgreeOn (mountRefs unitPath u sec) t₁ t₂) :
    (lookupAllArgs u sec (s "Mount")).foldlM (mountsStep (envOf b t₁) unitPath) ([], svc)
      = (lookupAllArgs u sec (s "Mount")).foldlM (mountsStep (envOf b t₂) unitPath) ([], svc) := by
  apply foldlM_congr
  intro m hm acc
  apply mountsStep_congr
  intro toks ty hf t ht n hn
  apply h
  simp only [mountRefs, List.mem_flatMap]
  refine ⟨m, hm, ?_⟩
  simp only [hf, List.mem_filterMap]
  exact ⟨t, ht, hn⟩

theorem handlePod_congr (b : Bool) (t₁ t₂ : Tab) (u : SUnit) (sec : Str) (svc : SUnit) (own : Str)
    (h : AgreeOn (podRefs u sec) t₁ t₂) :
    handlePod (envOf b t₁) u sec svc own = handlePod (envOf b t₂) u sec svc own := by
  unfold handlePod
  cases hp : lookup u sec (s "Pod") with
  | none => rfl
  | some pod =>
    have : t₁ pod = t₂ pod := h pod (by simp [podRefs, hp])
    simp only [envOf, this]

end Cv

namespace Cv
open MM

theorem info_envOf (b : Bool) (t : Tab) : (envOf b t).info = t := rfl
theorem pathExists_congr (b : Bool) (t₁ t₂ : Tab) : (envOf b t₁).pathExists = (envOf b t₂).pathExists := rfl

theorem fromContainer_congr (b : Bool) (t₁ t₂ : Tab) (path : Str) (u : SUnit)
    (h : AgreeOn ([fileName path] ++ imageRefs ((lookup u (s "Container") (s "Image")).getD []) ++ networkRefs u (s "Container")
      ++ volumeRefs path u (s "Container") ++ mountRefs path u (s "Container") ++ podRefs u (s "Container")) t₁ t₂) :
    fromContainer (envOf b t₁) path u = fromContainer (envOf b t₂) path u := by
  have h0 : (envOf b t₁).info (fileName path) = (envOf b t₂).info (fileName path) := h _ (by simp)
  have h1 : ∀ svc, handleImageSource (envOf b t₁) ((lookup u (s "Container") (s "Image")).getD []) svc
      = handleImageSource (envOf b t₂) ((lookup u (s "Container") (s "Image")).getD []) svc :=
    fun svc => handleImageSource_congr b t₁ t₂ _ svc (h.mono (by intro n hn; simp [hn]))
  have h2 : ∀ svc, handleNetworks (envOf b t₁) u (s "Container") svc = handleNetworks (envOf b t₂) u (s "Container") svc :=
    fun svc => handleNetworks_congr b t₁ t₂ u _ svc (h.mono (by intro n hn; simp [hn]))
  have h3 : ∀ svc, handleVolumes (envOf b t₁) path u (s "Container") svc = handleVolumes (envOf b t₂) path u (s "Container") svc :=
    fun svc => handleVolumes_congr b t₁ t₂ path u _ svc (h.mono (by intro n hn; simp [hn]))
  have h4 : ∀ svc, (lookupAllArgs u (s "Container") (s "Mount")).foldlM (mountsStep (envOf b t₁) path) ([], svc)
      = (lookupAllArgs u (s "Container") (s "Mount")).foldlM (mountsStep (envOf b t₂) path) ([], svc) :=
    fun svc => handleMounts_congr b t₁ t₂ path u _ svc (h.mono (by intro n hn; simp [hn]))
  have h5 : ∀ svc own, handlePod (envOf b t₁) u (s "Container") svc own = handlePod (envOf b t₂) u (s "Container") svc own :=
    fun svc own => handlePod_congr b t₁ t₂ u _ svc own (h.mono (by intro n hn; simp [hn]))
  unfold fromContainer
  simp only [h0, h1, h2, h3, h4, h5, baseCmd_congr b t₁ t₂, pathExists_congr b t₁ t₂]
  rfl


theorem fromImage_congr (b : Bool) (t₁ t₂ : Tab) (path : Str) (u : SUnit) :
    fromImage (envOf b t₁) path u = fromImage (envOf b t₂) path u := rfl

theorem fromNetwork_congr (b : Bool) (t₁ t₂ : Tab) (path : Str) (u : SUnit) :
    fromNetwork (envOf b t₁) path u = fromNetwork (envOf b t₂) path u := rfl

theorem fromVolume_congr (b : Bool) (t₁ t₂ : Tab) (path : Str) (u : SUnit)
    (h : AgreeOn (match lookup u (s "Volume") (s "Image") with | some img => imageRefs img | none => []) t₁ t₂) :
    fromVolume (envOf b t₁) path u = fromVolume (envOf b t₂) path u := by
  unfold fromVolume volumeOpts
  cases hi : lookup u (s "Volume") (s "Image") with
  | none => simp only [hi, baseCmd_congr b t₁ t₂]
  | some img =>
    have h1 : ∀ svc, handleImageSource (envOf b t₁) img svc = handleImageSource (envOf b t₂) img svc :=
      fun svc => handleImageSource_congr b t₁ t₂ _ svc (by rw [hi] at h; exact h)
    simp only [hi, h1, baseCmd_congr b t₁ t₂]

theorem fromKube_congr (b : Bool) (t₁ t₂ : Tab) (path : Str) (u : SUnit)
    (h : AgreeOn (networkRefs u (s "Kube")) t₁ t₂) :
    fromKube (envOf b t₁) path u = fromKube (envOf b t₂) path u := by
  have h2 : ∀ svc, handleNetworks (envOf b t₁) u (s "Kube") svc = handleNetworks (envOf b t₂) u (s "Kube") svc :=
    fun svc => handleNetworks_congr b t₁ t₂ u _ svc h
  unfold fromKube
  simp only [h2, baseCmd_congr b t₁ t₂]

theorem fromPod_congr (b : Bool) (t₁ t₂ : Tab) (path : Str) (u : SUnit) (started : List Str)
    (h : AgreeOn (networkRefs u (s "Pod") ++ volumeRefs path u (s "Pod")) t₁ t₂) :
    fromPod (envOf b t₁) path u started = fromPod (envOf b t₂) path u started := by
  have h2 : ∀ svc, handleNetworks (envOf b t₁) u (s "Pod") svc = handleNetworks (envOf b t₂) u (s "Pod") svc :=
    fun svc => handleNetworks_congr b t₁ t₂ u _ svc (h.mono (by intro n hn; simp [hn]))
  have h3 : ∀ svc, handleVolumes (envOf b t₁) path u (s "Pod") svc = handleVolumes (envOf b t₂) path u (s "Pod") svc :=
    fun svc => handleVolumes_congr b t₁ t₂ path u _ svc (h.mono (by intro n hn; simp [hn]))
  unfold fromPod
  simp only [h2, h3, baseCmd_congr b t₁ t₂]

theorem fromBuild_congr (b : Bool) (t₁ t₂ : Tab) (path : Str) (u : SUnit)
    (h : AgreeOn ([fileName path] ++ networkRefs u (s "Build") ++ volumeRefs path u (s "Build")) t₁ t₂) :
    fromBuild (envOf b t₁) path u = fromBuild (envOf b t₂) path u := by
  have h0 : (envOf b t₁).info (fileName path) = (envOf b t₂).info (fileName path) := h _ (by simp)
  have h2 : ∀ svc, handleNetworks (envOf b t₁) u (s "Build") svc = handleNetworks (envOf b t₂) u (s "Build") svc :=
    fun svc => handleNetworks_congr b t₁ t₂ u _ svc (h.mono (by intro n hn; simp [hn]))
  have h3 : ∀ svc, handleVolumes (envOf b t₁) path u (s "Build") svc = handleVolumes (envOf b t₂) path u (s "Build") svc :=
    fun svc => handleVolumes_congr b t₁ t₂ path u _ svc (h.mono (by intro n hn; simp [hn]))
  unfold fromBuild
  simp only [h0, h2, h3, baseCmd_congr b t₁ t₂]

/-- `out_local`: a conversion reads the name table only at the names of its static read set -/
theorem convOut_congr (b : Bool) (t₁ t₂ : Tab) (started : List Str) (q : QUnit) (h : AgreeOn (readsOf q) t₁ t₂) :
    convOut b t₁ started q = convOut b t₂ started q := by
  unfold convOut
  unfold readsOf at h
  simp only at h ⊢
  by_cases c1 : (q.ty == s "image") = true
  · simp only [c1, if_true, fromImage_congr b t₁ t₂]
  by_cases c2 : (q.ty == s "volume") = true
  · simp only [c1, c2, if_true, Bool.false_eq_true, if_false, Bool.or_self] at h ⊢
    rw [fromVolume_congr b t₁ t₂ _ _ h]
  by_cases c3 : (q.ty == s "network") = true
  · simp only [c1, c2, c3, if_true, Bool.false_eq_true, if_false, fromNetwork_congr b t₁ t₂]
  by_cases c4 : (q.ty == s "build") = true
  · simp only [c1, c2, c3, c4, if_true, Bool.false_eq_true, if_false, Bool.or_self] at h ⊢
    rw [fromBuild_congr b t₁ t₂ _ _ (h.mono (by intro n hn; simpa [QUnit.name] using hn))]
  by_cases c5 : (q.ty == s "kube") = true
  · simp only [c1, c2, c3, c4, c5, if_true, Bool.false_eq_true, if_false, Bool.or_self] at h ⊢
    rw [fromKube_congr b t₁ t₂ _ _ h]
  by_cases c6 : (q.ty == s "pod") = true
  · simp only [c1, c2, c3, c4, c5, c6, if_true, Bool.false_eq_true, if_false, Bool.or_self] at h ⊢
    rw [fromPod_congr b t₁ t₂ _ _ _ h]
  · simp only [c1, c2, c3, c4, c5, c6, if_true, Bool.false_eq_true, if_false, Bool.or_self] at h ⊢
    rw [fromContainer_congr b t₁ t₂ _ _ (h.mono (by intro n hn; simpa [QUnit.name] using hn))]

/-- `link_local` -/
theorem linkOf_congr (b : Bool) (t₁ t₂ : Tab) (q : QUnit) (h : AgreeOn (readsOf q) t₁ t₂) :
    linkOf b q t₁ = linkOf b q t₂ := by
  unfold linkOf
  simp only
  split
  · rfl
  · rename_i hc
    simp only [Bool.or_eq_true, not_or] at hc
    obtain ⟨⟨⟨⟨⟨c1, c2⟩, c3⟩, c4⟩, c5⟩, c6⟩ := hc
    unfold readsOf at h
    simp only [c1, c2, c3, c4, c5, c6, Bool.false_eq_true, if_false, Bool.or_self] at h
    rw [fromContainer_congr b t₁ t₂ _ _ (h.mono (by intro n hn; simpa [QUnit.name] using hn))]

end Cv
