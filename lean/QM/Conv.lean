import QM.Lookup
import QM.Unquote
import QM.Extract
import QM.Strv
import QM.Quote
import QM.Path
import QM.Port

/-! Draft executable models of the seven converters (with the candidate repairs D1–D14 applied).
    No theorems here yet; this file exists to be compared with the binary. -/
namespace Cv
open MM

/-! ### environment and name table -/
structure Info where
  serviceName : Str
  resourceName : Str
  deriving Repr

structure Env where
  podman : Str := Gen.const_DEFAULT_PODMAN_BINARY
  isUser : Bool := false
  info : Str → Option Info          -- UnitsInfoMap, by file name
  pathExists : Str → Bool := fun _ => false

inductive Err
  | unknownKey (k : Str) | noImageOrRootfs | imageAndRootfs | invalidKillMode (v : Str) | invalidServiceType (v : Str)
  | invalidPort (v : Str) | internal (what name : Str) | resourceName (n : Str) | networkOptions | invalidGroup
  | remap (msg : Str) | sourceNotFound (n : Str) | imageNotFound (n : Str) | podNotFound (n : Str) | invalidPod (n : Str)
  | mountFormat (m : Str) | noYaml | noImageTag | noWdNorFile | relativeFile | setWd (v : Str) | unsupported (k v : Str)
  | subnet (msg : Str) | deviceType | deviceOptions | imageMandatory | noFileKey | badValue
  deriving Repr

abbrev R := Except Err

/-! ### path helpers (file names, service names) -/
def splitLast (c : Char) (x : Str) : Option (Str × Str) :=   -- split at the last occurrence of c
  match splitOnce c x.reverse with
  | none => none
  | some (a, b) => some (b.reverse, a.reverse)

def fileName (path : Str) : Str := match splitLast '/' path with | some (_, f) => f | none => path
def dirName (path : Str) : Str := match splitLast '/' path with | some (d, _) => if d.isEmpty then ['/'] else d | none => []
def fileStem (name : Str) : Str :=   -- Path::file_stem
  match splitLast '.' name with
  | some (a, _) => if a.isEmpty then name else a
  | none => name
def extension (name : Str) : Str := match splitLast '.' name with | some (a, e) => if a.isEmpty then [] else e | none => []

def serviceFileName (i : Info) : Str := fileName (i.serviceName ++ s ".service")

/-! ### podman command pieces -/
/-- `lookup_and_add_all_strings` over a table extracted from the source -/
def addAllStrings0 (u : SUnit) (sec : Str) (rows : List (Str × Str)) : List Str :=
  rows.flatMap fun (k, f) => (lookupAll u sec k).flatMap fun v => [f, v]
def moduleArgs (u : SUnit) (sec : Str) : List Str := addAllStrings0 u sec Gen.tbl_get_base_podman_command_inline_lookup_and_add_all_strings
def baseCmd (E : Env) (u : SUnit) (sec : Str) : List Str :=
  [E.podman] ++ moduleArgs u sec ++ lookupAllArgs u sec (s "GlobalArgs")

def addString (u : SUnit) (sec : Str) (rows : List (Str × Str)) : List Str :=
  rows.flatMap fun (k, f) => match lookup u sec k with
    | some v => if v.isEmpty then [] else [f, v]
    | none => []
def addAllStrings (u : SUnit) (sec : Str) (rows : List (Str × Str)) : List Str :=
  rows.flatMap fun (k, f) => (lookupAll u sec k).flatMap fun v => [f, v]
def addBool (u : SUnit) (sec : Str) (rows : List (Str × Str)) : List Str :=
  rows.flatMap fun (k, f) => match lookupBool u sec k with
    | some true => [f]
    | some false => [f ++ s "=false"]
    | none => []
def addKeys (flag : String) (kvs : List (Str × Str)) : List Str := kvs.flatMap fun (k, v) => [s flag, k ++ '=' :: v]
def podmanArgs (u : SUnit) (sec : Str) : List Str := lookupAllArgs u sec (s "PodmanArgs")

def firstUnknown (es : Entries) (supported : List Str) : Option Str :=
  (es.find? (fun kv => !supported.contains kv.1)).map Prod.fst
def checkUnknown (u : SUnit) (sec : Str) (supported : List Str) : R Unit :=
  match firstUnknown (entriesOf u sec) supported with
  | some k => .error (.unknownKey k)
  | none => .ok ()

/-! ### service-side helpers -/
def addS (svc : SUnit) (sec key : String) (v : Str) : SUnit := addEntry svc (s sec) (s key) (P.quoteValue v)
def setS (svc : SUnit) (sec key : String) (v : Str) : SUnit := setEntry svc (s sec) (s key) (P.quoteValue v)
def prependS (svc : SUnit) (sec key : String) (v : Str) : SUnit := prependEntry svc (s sec) (s key) (P.quoteValue v)
def addRawExec (svc : SUnit) (key : String) (args : List Str) : R SUnit :=
  let raw := P.quoteWords args
  match P.unquoteValue true raw with
  | some _ => .ok (addEntry svc (s "Service") (s key) raw)
  | none => .error .badValue

def defaultDeps (svc : SUnit) : SUnit :=
  if (lookupBool svc (s "Quadlet") (s "DefaultDependencies")).getD true then
    prependS (prependS svc "Unit" "After" (s "network-online.target")) "Unit" "Wants" (s "network-online.target")
  else svc

def startService (path : Str) (u : SUnit) : SUnit :=
  let svc := mergeFrom [] u
  let svc := defaultDeps svc
  if path.isEmpty then svc else addS svc "Unit" "SourcePath" path

def oneShot (svc : SUnit) (remain : Bool) : SUnit :=
  let svc := if (lookup svc (s "Service") (s "SyslogIdentifier")).isNone then setS svc "Service" "SyslogIdentifier" (s "%N") else svc
  let svc := if (lookup svc (s "Service") (s "Type")).isNone then setS svc "Service" "Type" (s "oneshot") else svc
  if remain && (lookup svc (s "Service") (s "RemainAfterExit")).isNone then setS svc "Service" "RemainAfterExit" (s "yes") else svc

def supportedQuadlet : List Str := Gen.SUPPORTED_QUADLET_KEYS

/-! ### .image -/
def supportedImage : List Str := Gen.SUPPORTED_IMAGE_KEYS

def fromImage (E : Env) (path : Str) (u : SUnit) : R (SUnit × Str) := do
  let sec := s "Image"
  let svc := startService path u
  checkUnknown u sec supportedImage
  checkUnknown u (s "Quadlet") supportedQuadlet
  let imageName := (lookup u sec (s "Image")).getD []
  if imageName.isEmpty then throw .noImageOrRootfs
  let svc := renameSection svc sec (s "X-Image")
  let svc := renameSection svc (s "Quadlet") (s "X-Quadlet")
  let svc := addS svc "Unit" "RequiresMountsFor" (s "%t/containers")
  let cmd := baseCmd E u sec ++ [s "image", s "pull"]
    ++ addString u sec Gen.tbl_from_image_unit_string_keys
    ++ addBool u sec Gen.tbl_from_image_unit_bool_keys
    ++ podmanArgs u sec ++ [imageName]
  let svc ← addRawExec svc "ExecStart" cmd
  let svc := oneShot svc true
  let res := match lookup u sec (s "ImageTag") with
    | some t => if t.isEmpty then imageName else t
    | none => imageName
  pure (svc, res)


/-! ### shared handlers -/
def endsWith (x suf : Str) : Bool := suf.isSuffixOf x
def startsWith (x pre : Str) : Bool := pre.isPrefixOf x

def isAbs (p : Str) : Bool := Pth.isAbs p
def joinPath (root p : Str) : Str := Pth.joinPath root p
def startsWithSpecifier (p : Str) : Bool := Pth.startsWithSpecifier p
/-- absolute_from_unit; the generator's working directory is only consulted for unit files given by a bare file name
    (never the case in `process`, which joins the search directory), modelled as the empty path -/
def absFromUnit (unitPath p : Str) : Str := Pth.absoluteFromUnit [] unitPath p

/-- handle_image_source -/
def handleImageSource (E : Env) (name : Str) (svc : SUnit) : R (Str × SUnit) :=
  if endsWith name (s ".build") || endsWith name (s ".image") then
    match E.info name with
    | none => .error (.imageNotFound name)
    | some i =>
      let f := serviceFileName i
      .ok (i.resourceName, addS (addS svc "Unit" "Requires" f) "Unit" "After" f)
  else .ok (name, svc)

/-- handle_storage_source -/
def handleStorageSource (E : Env) (unitPath : Str) (svc : SUnit) (source : Str) (checkImage : Bool) : R (Str × SUnit) :=
  let source := if source.head? == some '.' then absFromUnit unitPath source else source
  if source.head? == some '/' then .ok (source, addS svc "Unit" "RequiresMountsFor" source)
  else if endsWith source (s ".volume") || (checkImage && endsWith source (s ".image")) then
    match E.info source with
    | none => .error (.sourceNotFound source)
    | some i =>
      let f := serviceFileName i
      .ok (i.resourceName, addS (addS svc "Unit" "Requires" f) "Unit" "After" f)
  else .ok (source, svc)

def splitN3 (x : Str) : List Str :=
  match splitOnce ':' x with
  | none => [x]
  | some (a, r) => match splitOnce ':' r with
    | none => [a, r]
    | some (b, c) => [a, b, c]

def volSource (parts : List Str) : Str := match parts with | a :: _ :: _ => a | _ => []
def volDest (parts : List Str) : Str := match parts with | _ :: b :: _ => b | [a] => a | [] => []
def volOptions (parts : List Str) : Str := match parts with | [_, _, c] => ':' :: c | _ => []

/-- one `Volume=` value of handle_volumes (after D4) -/
def volumeStep (E : Env) (unitPath : Str) (acc : List Str × SUnit) (volume : Str) : R (List Str × SUnit) :=
  let parts := splitN3 volume
  if (volSource parts).isEmpty then .ok (acc.1 ++ [s "-v", volDest parts], acc.2)
  else match handleStorageSource E unitPath acc.2 (volSource parts) false with
    | .error e => .error e
    | .ok r =>
      if r.1.isEmpty then .ok (acc.1 ++ [s "-v", volDest parts], r.2)
      else .ok (acc.1 ++ [s "-v", r.1 ++ ':' :: volDest parts ++ volOptions parts], r.2)

/-- handle_volumes -/
def handleVolumes (E : Env) (unitPath : Str) (u : SUnit) (sec : Str) (svc : SUnit) : R (List Str × SUnit) :=
  (lookupAll u sec (s "Volume")).foldlM (volumeStep E unitPath) ([], svc)

def netNameOf (network : Str) : Str := match splitOnce ':' network with | some (n, _) => n | none => network
def netOptionsOf (network : Str) : Option Str := match splitOnce ':' network with | some (_, o) => some o | none => none

/-- the reference part of one `Network=` value: the podman name and the service with its dependencies -/
def networkRef (E : Env) (name : Str) (svc : SUnit) : R (Str × SUnit) :=
  if endsWith name (s ".network") || endsWith name (s ".container") then
    match E.info name with
    | none => .error (Err.internal (s "unit") name)
    | some i =>
      if i.resourceName.isEmpty then .error (Err.resourceName name)
      else
        let f := serviceFileName i
        .ok (i.resourceName, addS (addS svc "Unit" "Requires" f) "Unit" "After" f)
  else .ok (name, svc)

/-- one `Network=` value of handle_networks -/
def networkStep (E : Env) (acc : List Str × SUnit) (network : Str) : R (List Str × SUnit) :=
  if network.isEmpty then .ok acc else
  let name := netNameOf network
  let isCtr := endsWith name (s ".container")
  match networkRef E name acc.2 with
  | .error e => .error e
  | .ok r =>
    match netOptionsOf network with
    | some o => if isCtr then .error .networkOptions else .ok (acc.1 ++ [s "--network", r.1 ++ ':' :: o], r.2)
    | none => if isCtr then .ok (acc.1 ++ [s "--network", s "container:" ++ r.1], r.2)
              else .ok (acc.1 ++ [s "--network", r.1], r.2)

/-- handle_networks -/
def handleNetworks (E : Env) (u : SUnit) (sec : Str) (svc : SUnit) : R (List Str × SUnit) :=
  (lookupAll u sec (s "Network")).foldlM (networkStep E) ([], svc)

def publishPorts (u : SUnit) (sec : Str) : List Str := addAllStrings u sec Gen.tbl_handle_publish_ports_inline_lookup_and_add_all_strings

def commaJoin : List Str → Str
  | [] => []
  | [x] => x
  | x :: xs => x ++ ',' :: commaJoin xs

/-- handle_user_remap -/
def handleUserRemap (u : SUnit) (sec : Str) (supportManual : Bool) : R (List Str) := do
  if (lookup u sec (s "UserNS")).isSome then return []
  let uidMaps := lookupAllStrv u sec (s "RemapUid")
  let gidMaps := lookupAllStrv u sec (s "RemapGid")
  match lookup u sec (s "RemapUsers") with
  | none =>
    if !uidMaps.isEmpty then throw (.remap (s "RemapUid set without RemapUsers"))
    if !gidMaps.isEmpty then throw (.remap (s "RemapGid set without RemapUsers"))
    return []
  | some v =>
    if v == s "manual" then
      if supportManual then return (uidMaps.flatMap fun m => [s "--uidmap", m]) ++ (gidMaps.flatMap fun m => [s "--gidmap", m])
      else throw (.remap (s "RemapUsers=manual is not supported"))
    else if v == s "auto" then
      let size := ((lookup u sec (s "RemapUidSize")).map fun x => (parseU32 x).getD 0).getD 0
      let opts := uidMaps.map (s "uidmapping=" ++ ·) ++ gidMaps.map (s "gidmapping=" ++ ·)
        ++ (if size > 0 then [s "size=" ++ (toString size).toList] else [])
      if opts.isEmpty then return [s "--userns", s "auto"] else return [s "--userns", s "auto:" ++ commaJoin opts]
    else if v == s "keep-id" then
      if uidMaps.length > 1 then throw (.remap (s "keep-id uid"))
      if gidMaps.length > 1 then throw (.remap (s "keep-id gid"))
      let opts := (uidMaps.take 1).map (s "uid=" ++ ·) ++ (gidMaps.take 1).map (s "gid=" ++ ·)
      if opts.isEmpty then return [s "--userns", s "keep-id"] else return [s "--userns", s "keep-id:" ++ commaJoin opts]
    else throw (.remap (s "unsupported RemapUsers option"))

/-- handle_user_mappings -/
def handleUserMappings (u : SUnit) (sec : Str) (supportManual : Bool) : R (List Str) := do
  let nonEmpty (k : String) (f : String) : List Str := match lookup u sec (s k) with
    | some v => if v.isEmpty then [] else [s f, v]
    | none => []
  let a := nonEmpty "UserNS" "--userns"
  let b := (lookupAllStrv u sec (s "UIDMap")).flatMap fun m => [s "--uidmap", m]
  let c := (lookupAllStrv u sec (s "GIDMap")).flatMap fun m => [s "--gidmap", m]
  let d := nonEmpty "SubUIDMap" "--subuidname"
  let e := nonEmpty "SubGIDMap" "--subgidname"
  let all := a ++ b ++ c ++ d ++ e
  if !all.isEmpty then
    if (lookup u sec (s "RemapUid")).isSome || (lookup u sec (s "RemapGid")).isSome || (lookup u sec (s "RemapUsers")).isSome then
      throw (.remap (s "deprecated Remap keys are set along with explicit mapping keys"))
    return all
  handleUserRemap u sec supportManual

/-! ### .volume -/
def supportedVolume : List Str := Gen.SUPPORTED_VOLUME_KEYS

/-- the options of `volume create` that describe the volume: `--driver`, then either the image of an image-driven volume (a
    reference to an .image unit adds its dependencies to the service) or the options of a mounted device and the copy mode -/
def volumeOpts (E : Env) (u : SUnit) (svc : SUnit) : R (List Str × SUnit) :=
  let sec := s "Volume"
  let driver := (lookup u sec (s "Driver")).filter (fun d => !d.isEmpty)
  let cmd1 : List Str := (match driver with | some d => [s "--driver", d] | none => [])
  if driver == some (s "image") then do
      match lookup u sec (s "Image") with
      | none => throw Err.imageMandatory
      | some img =>
        let (n, svc) ← handleImageSource E img svc
        pure (cmd1 ++ [s "--opt", s "image=" ++ n], svc)
    else do
      let uidOpt := if hasKey u sec (s "User") then
          [s "uid=" ++ (toString (((lookup u sec (s "User")).map fun x => (parseU32 x).getD 0).getD 0)).toList] else []
      let gidOpt := if hasKey u sec (s "Group") then
          [s "gid=" ++ (toString (((lookup u sec (s "Group")).map fun x => (parseU32 x).getD 0).getD 0)).toList] else []
      let copy := match lookupBool u sec (s "Copy") with
        | some true => [s "--opt", s "copy"] | some false => [s "--opt", s "nocopy"] | none => []
      let dev := (lookup u sec (s "Device")).filter (fun d => !d.isEmpty)
      let devArgs := match dev with | some d => [s "--opt", s "device=" ++ d] | none => []
      let ty := (lookup u sec (s "Type")).filter (fun d => !d.isEmpty)
      if ty.isSome && dev.isNone then throw Err.deviceType
      let tyArgs := match ty with | some t => [s "--opt", s "type=" ++ t] | none => []
      let mo := (lookup u sec (s "Options")).filter (fun d => !d.isEmpty)
      if mo.isSome && dev.isNone then throw Err.deviceOptions
      let opts := uidOpt ++ gidOpt ++ (match mo with | some o => [o] | none => [])
      let oArgs := if opts.isEmpty then [] else [s "--opt", s "o=" ++ commaJoin opts]
      pure (cmd1 ++ copy ++ devArgs ++ tyArgs ++ oArgs, svc)

def fromVolume (E : Env) (path : Str) (u : SUnit) : R (SUnit × Str) := do
  let sec := s "Volume"
  let svc := startService path u
  checkUnknown u sec supportedVolume
  checkUnknown u (s "Quadlet") supportedQuadlet
  let svc := renameSection svc sec (s "X-Volume")
  let svc := renameSection svc (s "Quadlet") (s "X-Quadlet")
  let vn := (lookup u sec (s "VolumeName")).getD []
  let volName := if vn.isEmpty then s "systemd-" ++ fileStem (fileName path) else vn
  let svc := addS svc "Unit" "RequiresMountsFor" (s "%t/containers")
  let labels := lookupAllKeyVal u sec (s "Label")
  let cmd0 := baseCmd E u sec ++ [s "volume", s "create", s "--ignore"]
  let (opts, svc) ← volumeOpts E u svc
  let cmd := cmd0 ++ opts ++ addKeys "--label" labels ++ podmanArgs u sec ++ [volName]
  let svc ← addRawExec svc "ExecStart" cmd
  pure (oneShot svc true, volName)

/-! ### .network -/
def supportedNetwork : List Str := Gen.SUPPORTED_NETWORK_KEYS

/-- the `--subnet` / `--gateway` / `--ip-range` groups: the i-th gateway and range belong to the i-th subnet -/
def networkSubnets (u : SUnit) (sec : Str) : R (List Str) :=
  let subnets := lookupAll u sec (s "Subnet")
  let gateways := lookupAll u sec (s "Gateway")
  let ranges := lookupAll u sec (s "IPRange")
  if !subnets.isEmpty then do
      if gateways.length > subnets.length then throw (Err.subnet (s "gateways"))
      if ranges.length > subnets.length then throw (Err.subnet (s "ranges"))
      pure ((subnets.zipIdx).flatMap fun (sn, i) =>
        [s "--subnet", sn] ++ (match gateways[i]? with | some g => [s "--gateway", g] | none => [])
          ++ (match ranges[i]? with | some r => [s "--ip-range", r] | none => []))
    else if !gateways.isEmpty || !ranges.isEmpty then throw (Err.subnet (s "without subnet"))
    else pure []

/-- the podman name of the network: NetworkName=, else systemd-<file stem> -/
def networkNameOf (path : Str) (u : SUnit) : Str :=
  let nn := (lookup u (s "Network") (s "NetworkName")).getD []
  if nn.isEmpty then s "systemd-" ++ fileStem (fileName path) else nn

def fromNetwork (E : Env) (path : Str) (u : SUnit) : R (SUnit × Str) := do
  let sec := s "Network"
  let svc := startService path u
  checkUnknown u sec supportedNetwork
  checkUnknown u (s "Quadlet") supportedQuadlet
  let svc := renameSection svc sec (s "X-Network")
  let svc := renameSection svc (s "Quadlet") (s "X-Quadlet")
  let netName := networkNameOf path u
  let svc := addS svc "Unit" "RequiresMountsFor" (s "%t/containers")
  let cmd0 := baseCmd E u sec ++ [s "network", s "create", s "--ignore"]
    ++ addBool u sec Gen.tbl_from_network_unit_bool_keys
    ++ addString u sec Gen.tbl_from_network_unit_string_keys
    ++ addAllStrings u sec Gen.tbl_from_network_unit_inline_lookup_and_add_all_strings
  let subArgs ← networkSubnets u sec
  let cmd := cmd0 ++ subArgs ++ addKeys "--opt" (lookupAllKeyVal u sec (s "Options"))
    ++ addKeys "--label" (lookupAllKeyVal u sec (s "Label")) ++ podmanArgs u sec ++ [netName]
  let svc ← addRawExec svc "ExecStart" cmd
  pure (oneShot svc true, netName)

/-! ### .pod -/
def supportedPod : List Str := Gen.SUPPORTED_POD_KEYS

def fromPod (E : Env) (path : Str) (u : SUnit) (containersToStart : List Str) : R SUnit := do
  let sec := s "Pod"
  let svc := startService path u
  checkUnknown u sec supportedPod
  checkUnknown u (s "Quadlet") supportedQuadlet
  let pn := (lookup u sec (s "PodName")).getD []
  let podName := if pn.isEmpty then s "systemd-" ++ fileStem (fileName path) else pn
  let svc := renameSection svc sec (s "X-Pod")
  let svc := renameSection svc (s "Quadlet") (s "X-Quadlet")
  let svc := addS svc "Unit" "RequiresMountsFor" (s "%t/containers")
  let svc := containersToStart.foldl (fun svc c => addS (addS svc "Unit" "Wants" c) "Unit" "Before" c) svc
  let svc := if (lookup u (s "Service") (s "SyslogIdentifier")).isNone then setS svc "Service" "SyslogIdentifier" (s "%N") else svc
  let base := baseCmd E u sec
  let svc ← addRawExec svc "ExecStart" (base ++ [s "pod", s "start", s "--pod-id-file=%t/%N.pod-id"])
  let svc ← addRawExec svc "ExecStop" (base ++ [s "pod", s "stop", s "--pod-id-file=%t/%N.pod-id", s "--ignore", s "--time=10"])
  let svc ← addRawExec svc "ExecStopPost" (base ++ [s "pod", s "rm", s "--pod-id-file=%t/%N.pod-id", s "--ignore", s "--force"])
  let pre0 := base ++ [s "pod", s "create", s "--infra-conmon-pidfile=%t/%N.pid", s "--pod-id-file=%t/%N.pod-id",
    s "--exit-policy=stop", s "--replace"]
  let maps ← handleUserMappings u sec true
  let (nets, svc) ← handleNetworks E u sec svc
  let mid := addString u sec Gen.tbl_from_pod_unit_string_keys
    ++ addAllStrings u sec Gen.tbl_from_pod_unit_all_string_keys
  let (vols, svc) ← handleVolumes E path u sec svc
  let pre := pre0 ++ maps ++ publishPorts u sec ++ nets ++ mid ++ vols
    ++ [s "--infra-name", podName ++ s "-infra", s "--name", podName] ++ podmanArgs u sec
  let svc ← addRawExec svc "ExecStartPre" pre
  let svc := addS svc "Service" "Environment" (s "PODMAN_SYSTEMD_UNIT=%n")
  let svc := addS svc "Service" "Type" (s "forking")
  let svc := addS svc "Service" "Restart" (s "on-failure")
  let svc := addS svc "Service" "PIDFile" (s "%t/%N.pid")
  pure svc


/-! ### remaining handlers -/
def isInfix (pat x : Str) : Bool := (List.range (x.length + 1)).any fun i => pat.isPrefixOf (x.drop i)

/-- is_url: the pattern ^((https?|git)://|github\.com/).+$ — one of the four prefixes, then at least one character, none of them a line feed -/
def isUrl (x : Str) : Bool :=
  [s "http://", s "https://", s "git://", s "github.com/"].any fun p =>
    startsWith x p && (let rest := x.drop p.length; !rest.isEmpty && !rest.contains '\n')

def lower (x : Str) : Str := x.map fun c => if 'A' ≤ c ∧ c ≤ 'Z' then Char.ofNat (c.toNat + 32) else c

/-- which file the working directory is derived from: `(build context, path the directory is taken of)` -/
def swdTarget (unitPath : Str) (u : SUnit) (sec swd : Str) : R (Str × Str) :=
  let l := lower swd
  if l == s "yaml" then
    if sec != s "Kube" then .error (Err.setWd swd)
    else match lookup u sec (s "Yaml") with
      | some y => .ok ([], y) | none => .error Err.noYaml
  else if l == s "file" then
    if sec != s "Build" then .error (Err.setWd swd)
    else match lookup u sec (s "File") with
      | some f => .ok ([], f) | none => .error Err.noFileKey
  else if l == s "unit" then .ok ([], unitPath)
  else if sec != s "Build" then .error (Err.unsupported (s "SetWorkingDirectory") swd)
  else if !isAbs swd then .ok (swd, unitPath) else .ok (swd, [])

/-- handle_set_working_directory (after D12c) as data: the build context and, if one is to be added, the value of
    `[Service] WorkingDirectory` -/
def swdPlan (unitPath : Str) (u : SUnit) (sec : Str) : R (Str × Option Str) :=
  let swd := (lookup u sec (s "SetWorkingDirectory")).getD []
  if swd.isEmpty then .ok ([], none) else
  match swdTarget unitPath u sec swd with
  | .error e => .error e
  | .ok (context, rel) =>
    if !rel.isEmpty && !isUrl context then
      if ((lookup u (s "Service") (s "WorkingDirectory")).map fun w => !w.isEmpty).getD false then .ok ([], none)
      else
        let f := absFromUnit unitPath rel
        -- Path::parent of a cleaned path
        match splitLast '/' f with
        | none => if f.isEmpty then .error (Err.unsupported (s "SetWorkingDirectory") swd) else .ok (context, some [])
        | some (d, b) =>
          if b.isEmpty && d.isEmpty then .error (Err.unsupported (s "SetWorkingDirectory") swd)   -- "/"
          else .ok (context, some (if d.isEmpty then ['/'] else d))
    else .ok (context, none)

def applyWd (svc : SUnit) (wd : Option Str) : SUnit :=
  match wd with
  | some d => addS svc "Service" "WorkingDirectory" d
  | none => svc

def handleSetWorkingDirectory (unitPath : Str) (u : SUnit) (svc : SUnit) (sec : Str) : R (Str × SUnit) :=
  match swdPlan unitPath u sec with
  | .error e => .error e
  | .ok (context, wd) => .ok (context, applyWd svc wd)

def logDriver (u : SUnit) (sec : Str) : List Str :=
  match lookup u sec (s "LogDriver") with
  | some v => if v.isEmpty then [] else [s "--log-driver", v]
  | none => []
def logOpt (u : SUnit) (sec : Str) : List Str := (lookupAllStrv u sec (s "LogOpt")).flatMap fun o => [s "--log-opt", o]

/-! ### .kube -/
def supportedKube : List Str := Gen.SUPPORTED_KUBE_KEYS

def killMode (svcOrUnit : SUnit) (svc : SUnit) : R SUnit :=
  match lookup svcOrUnit (s "Service") (s "KillMode") with
  | none => .ok (setS svc "Service" "KillMode" (s "mixed"))
  | some v => if v == s "mixed" || v == s "control-group" then .ok svc else .error (.invalidKillMode v)

def fromKube (E : Env) (path : Str) (u : SUnit) : R SUnit := do
  let sec := s "Kube"
  let svc := startService path u
  checkUnknown u sec supportedKube
  checkUnknown u (s "Quadlet") supportedQuadlet
  let svc := renameSection svc sec (s "X-Kube")
  let svc := renameSection svc (s "Quadlet") (s "X-Quadlet")
  let yaml := (lookup u sec (s "Yaml")).getD []
  if yaml.isEmpty then throw Err.noYaml
  let yamlPath := absFromUnit path yaml
  let svc ← killMode u svc
  let svc := addS svc "Service" "Environment" (s "PODMAN_SYSTEMD_UNIT=%n")
  let svc := addS svc "Unit" "RequiresMountsFor" (s "%t/containers")
  let svc ← (match lookup svc (s "Service") (s "Type") with
    | none => pure (addS (addS svc "Service" "Type" (s "notify")) "Service" "NotifyAccess" (s "all"))
    | some t => if t != s "oneshot" then pure (addS (addS svc "Service" "Type" (s "notify")) "Service" "NotifyAccess" (s "all"))
                else pure svc : R SUnit)
  let svc := if !hasKey u (s "Service") (s "SyslogIdentifier") then setS svc "Service" "SyslogIdentifier" (s "%N") else svc
  let start0 := baseCmd E u sec ++ [s "kube", s "play", s "--replace", s "--service-container=true"]
    ++ (match lookup u sec (s "ExitCodePropagation") with
        | some e => if e.isEmpty then [] else [s "--service-exit-code-propagation=" ++ e] | none => [])
    ++ logDriver u sec ++ logOpt u sec
  let maps ← handleUserMappings u sec false
  let (nets, svc) ← handleNetworks E u sec svc
  let au := (lookupAllStrv u sec (s "AutoUpdate")).flatMap fun upd =>
    match splitOnce '/' upd with
    | some (a, t) => [s "--annotation", s "io.containers.autoupdate" ++ ('/' :: a) ++ '=' :: t]
    | none => [s "--annotation", s "io.containers.autoupdate=" ++ upd]
  let cms := (lookupAllStrv u sec (s "ConfigMap")).flatMap fun c => [s "--configmap", absFromUnit path c]
  let start := start0 ++ maps ++ nets ++ au ++ cms ++ publishPorts u sec ++ podmanArgs u sec ++ [yamlPath]
  let svc ← addRawExec svc "ExecStart" start
  let stop := baseCmd E u sec ++ [s "kube", s "down"]
    ++ (match lookupBool u sec (s "KubeDownForce") with
        | some true => [s "--force"] | some false => [s "--force=false"] | none => [])
    ++ [yamlPath]
  let svc ← addRawExec svc "ExecStopPost" stop
  let (_, svc) ← handleSetWorkingDirectory path u svc sec
  pure svc

/-! ### .build -/
def supportedBuild : List Str := Gen.SUPPORTED_BUILD_KEYS

def builtImageName (u : SUnit) : Option Str := (lookupAll u (s "Build") (s "ImageTag")).find? (fun t => !t.isEmpty)

def fromBuild (E : Env) (path : Str) (u : SUnit) : R SUnit := do
  let sec := s "Build"
  let self ← (match E.info (fileName path) with | some i => pure i | none => throw (Err.internal (s "build") (fileName path)) : R Info)
  if self.resourceName.isEmpty then throw Err.noImageTag
  let svc := mergeFrom [] u
  let svc := defaultDeps svc
  let svc := addS svc "Unit" "RequiresMountsFor" (s "%t/containers")
  let svc := if path.isEmpty then svc else addS svc "Unit" "SourcePath" path
  checkUnknown u sec supportedBuild
  checkUnknown u (s "Quadlet") supportedQuadlet
  let svc := renameSection svc sec (s "X-Build")
  let svc := renameSection svc (s "Quadlet") (s "X-Quadlet")
  let cmd0 := baseCmd E u sec ++ [s "build"]
    ++ (match lookup u sec (s "Pull") with | some p => if p.isEmpty then [] else [s "--pull=" ++ p] | none => [])
    ++ addString u sec Gen.tbl_from_build_unit_string_keys
    ++ addBool u sec Gen.tbl_from_build_unit_bool_keys
    ++ addAllStrings u sec Gen.tbl_from_build_unit_all_string_keys
    ++ addKeys "--annotation" (lookupAllKeyVal u sec (s "Annotation"))
    ++ addKeys "--env" (lookupAllKeyVal u sec (s "Environment"))
    ++ addKeys "--label" (lookupAllKeyVal u sec (s "Label"))
  let (nets, svc) ← handleNetworks E u sec svc
  let secrets := (lookupAllArgs u sec (s "Secret")).flatMap fun x => [s "--secret", x]
  let (vols, svc) ← handleVolumes E path u sec svc
  let (context, svc) ← handleSetWorkingDirectory path u svc sec
  let wd := lookup svc (s "Service") (s "WorkingDirectory")
  let fp := lookup u sec (s "File")
  let (wd, fp) ← (match wd, fp with
    | none, none => if context.isEmpty then throw Err.noWdNorFile else pure ([], [])
    | some w, none => if w.isEmpty && context.isEmpty then throw Err.noWdNorFile else pure (w, [])
    | none, some f => if f.isEmpty && context.isEmpty then throw Err.noWdNorFile else pure ([], f)
    | some w, some f => pure (w, f) : R (Str × Str))
  let fileArgs := if fp.isEmpty then [] else [s "--file", fp]
  let tail ← (if !context.isEmpty then pure [context]
    else if !isAbs fp && !isUrl fp then (if wd.isEmpty then throw Err.relativeFile else pure [wd])
    else pure [] : R (List Str))
  let cmd := cmd0 ++ nets ++ secrets ++ vols ++ fileArgs ++ podmanArgs u sec ++ tail
  let svc ← addRawExec svc "ExecStart" cmd
  pure (oneShot svc false)


/-! ### .container -/
def supportedContainer : List Str := Gen.SUPPORTED_CONTAINER_KEYS

def isTemplate (name : Str) : Bool :=
  match splitOnce '@' (fileStem name) with
  | some (b, _) => !b.isEmpty
  | none => false

def containerName (name : Str) (u : SUnit) : Str :=
  match lookup u (s "Container") (s "ContainerName") with
  | some n => n
  | none => if isTemplate name then s "systemd-%p_%i" else s "systemd-%N"

def splitOnChar (c : Char) : Str → List Str
  | [] => [[]]
  | x :: r =>
    if x == c then [] :: splitOnChar c r
    else match splitOnChar c r with
      | [] => [[x]]
      | p :: ps => (x :: p) :: ps
def splitComma (x : Str) : List Str := splitOnChar ',' x
def splitEq (x : Str) : List Str := splitOnChar '=' x

/-- find_mount_type on the CSV subset without quotes / CR / LF; none = outside the model -/
def findMountType (m : Str) : Option (R (Str × List Str)) :=
  if m.contains '"' || m.contains '\n' || m.contains '\r' then none
  else if m.isEmpty then some (.error (.mountFormat m))
  else
    let fields := splitComma m
    let (found, ty, toks) := fields.foldl (fun (acc : Bool × Str × List Str) f =>
      let kv := splitEq f
      if acc.1 || !(kv.length == 2 && kv.head? == some (s "type")) then (acc.1, acc.2.1, acc.2.2 ++ [f])
      else (true, kv[1]!, acc.2.2)) (false, [], [])
    if !found then some (.error (.mountFormat m)) else some (.ok (ty, toks))

/-- one token of a Mount= value that is being rewritten: `source=`/`src=` goes through handle_storage_source -/
def mountTokStep (E : Env) (unitPath : Str) (acc : List Str × SUnit) (t : Str) : R (List Str × SUnit) :=
  if startsWith t (s "source=") || startsWith t (s "src=") then
    match splitOnce '=' t with
    | some (_, v) =>
      match handleStorageSource E unitPath acc.2 v true with
      | .error e => .error e
      | .ok r => .ok (acc.1 ++ [s "source=" ++ r.1], r.2)
    | none => .ok acc
  else .ok (acc.1 ++ [t], acc.2)

def resolveMount (E : Env) (unitPath : Str) (svc : SUnit) (m : Str) : Option (R (Str × SUnit)) :=
  match findMountType m with
  | none => none
  | some (.error e) => some (.error e)
  | some (.ok (ty, toks)) =>
    if !(ty == s "volume" || ty == s "bind" || ty == s "glob" || ty == s "image") then some (.ok (m, svc))
    else some (match toks.foldlM (mountTokStep E unitPath) ([s "type=" ++ ty], svc) with
      | .error e => .error e
      | .ok r => .ok (commaJoin r.1, r.2))

/-- one `Mount=` word of the container converter -/
def mountsStep (E : Env) (unitPath : Str) (acc : List Str × SUnit) (m : Str) : R (List Str × SUnit) :=
  match resolveMount E unitPath acc.2 m with
  | some (.ok r) => .ok (acc.1 ++ [s "--mount", r.1], r.2)
  | some (.error e) => .error e
  | none => .error .badValue

def healthArgs (u : SUnit) (sec : Str) : List Str :=
  Gen.tbl_handle_health_key_arg_map.flatMap fun (k, a) =>
    match lookup u sec k with
    | some v => if v.isEmpty then [] else [s "--health-" ++ a, v]
    | none => []

def handleUser (u : SUnit) (sec : Str) : R (List Str) :=
  match lookup u sec (s "User"), lookup u sec (s "Group") with
  | none, none => .ok []
  | none, some g => if !g.isEmpty then .error .invalidGroup else .ok []
  | some usr, none => if !usr.isEmpty then .ok [s "--user", usr] else .ok []
  | some usr, some g => if !usr.isEmpty && !g.isEmpty then .ok [s "--user", usr ++ ':' :: g] else .ok []

/-- handle_pod: returns args, service, and (pod file name, container service file) to record -/
def handlePod (E : Env) (u : SUnit) (sec : Str) (svc : SUnit) (ownServiceFile : Str) : R (List Str × SUnit × Option (Str × Str)) :=
  match lookup u sec (s "Pod") with
  | none => .ok ([], svc, none)
  | some pod =>
    if pod.isEmpty then .ok ([], svc, none)
    else if !endsWith pod (s ".pod") then .error (.invalidPod pod)
    else match E.info pod with
      | none => .error (.podNotFound pod)
      | some i =>
        let f := serviceFileName i
        let svc := addS (addS svc "Unit" "BindsTo" f) "Unit" "After" f
        let link := if (lookupBool u sec (s "StartWithPod")).getD true then some (pod, ownServiceFile) else none
        .ok ([s "--pod-id-file", s "%t/" ++ i.serviceName ++ s ".pod-id"], svc, link)

/-- the `--sdnotify` mode: Notify=healthy, a true boolean (container), else conmon -/
def sdnotifyArg (u : SUnit) (sec : Str) : Str :=
  match lookup u sec (s "Notify") with
  | some v => if v == s "healthy" then s "--sdnotify=healthy"
              else if (lookupBool u sec (s "Notify")).getD false then s "--sdnotify=container" else s "--sdnotify=conmon"
  | none => s "--sdnotify=conmon"

/-- service Type of a container: the user's oneshot is kept (no sdnotify, no -d); otherwise Type=notify and
    NotifyAccess=all are set; any other user Type is an error -/
def typeAndNotify (u : SUnit) (sec : Str) (cmd : List Str) (svc : SUnit) : R (List Str × SUnit) :=
  let notify := (cmd ++ [sdnotifyArg u sec, s "-d"], setS (setS svc "Service" "Type" (s "notify")) "Service" "NotifyAccess" (s "all"))
  match lookup u (s "Service") (s "Type") with
  | some t =>
    if t == s "oneshot" then .ok (cmd, svc)
    else if t == s "notify" then .ok notify
    else .error (Err.invalidServiceType t)
  | none => .ok notify

/-- the head of the command: podman, global options, `run`, the name, the fixed options, the log options, the cgroups
    mode and then the three key tables in table order -/
def containerHead (E : Env) (path : Str) (u : SUnit) (sec : Str) : List Str :=
  baseCmd E u sec ++ [s "run", s "--name", containerName (fileName path) u, s "--cidfile=%t/%N.cid", s "--replace", s "--rm"]
    ++ logDriver u sec ++ logOpt u sec
    ++ [s "--cgroups", match lookup u sec (s "CgroupsMode") with | some c => if c.isEmpty then s "split" else c | none => s "split"]
    ++ addString u sec Gen.tbl_from_container_unit_string_keys
    ++ addAllStrings u sec Gen.tbl_from_container_unit_all_string_keys
    ++ addBool u sec Gen.tbl_from_container_unit_bool_keys

/-- security options, devices, capabilities, sysctls, read-only and tmpfs settings -/
def containerSecurity (E : Env) (u : SUnit) (sec : Str) : List Str :=
  let bOn (k : String) (args : List Str) : List Str := if (lookupBool u sec (s k)).getD false then args else []
  let fmt (k : String) (pre : String) : List Str := match lookup u sec (s k) with
    | some v => if v.isEmpty then [] else [s "--security-opt", s pre ++ v] | none => []
  let devs := (lookupAllStrv u sec (s "AddDevice")).flatMap fun d =>
    match d with
    | '-' :: d' =>
      let p := match splitOnce ':' d' with | some (a, _) => a | none => d'
      if E.pathExists p then [s "--device", d'] else []
    | _ => [s "--device", d]
  let sec2 := match lookup u sec (s "SeccompProfile") with
    | some v => if v.isEmpty then [] else [s "--security-opt", s "seccomp=" ++ v] | none => []
  let ro := lookupBool u sec (s "ReadOnly")
  bOn "NoNewPrivileges" [s "--security-opt=no-new-privileges"]
    ++ bOn "SecurityLabelDisable" [s "--security-opt", s "label=disable"]
    ++ bOn "SecurityLabelNested" [s "--security-opt", s "label=nested"]
    ++ fmt "SecurityLabelType" "label=type:" ++ fmt "SecurityLabelFileType" "label=filetype:" ++ fmt "SecurityLabelLevel" "label=level:"
    ++ devs ++ sec2
    ++ ((lookupAllStrv u sec (s "DropCapability")).flatMap fun c => [s "--cap-drop", lower c])
    ++ ((lookupAllStrv u sec (s "AddCapability")).flatMap fun c => [s "--cap-add", lower c])
    ++ ((lookupAllStrv u sec (s "Sysctl")).flatMap fun c => [s "--sysctl", c])
    ++ (match ro with | some true => [s "--read-only"] | some false => [s "--read-only=false"] | none => [])
    ++ (if (lookupBool u sec (s "VolatileTmp")).getD false && !(ro.getD false) then [s "--tmpfs", s "/tmp:rw,size=512M,mode=1777"] else [])

def containerAutoUpdate (u : SUnit) (sec : Str) : List Str :=
  match lookup u sec (s "AutoUpdate") with
  | some v => if v.isEmpty then [] else [s "--label", s "io.containers.autoupdate=" ++ v] | none => []

/-- the block of published ports, name=value keys and word-list keys -/
def containerMid (path : Str) (u : SUnit) (sec : Str) : List Str :=
  publishPorts u sec ++ addKeys "--env" (lookupAllKeyVal u sec (s "Environment"))
    ++ addKeys "--label" (lookupAllKeyVal u sec (s "Label")) ++ addKeys "--annotation" (lookupAllKeyVal u sec (s "Annotation"))
    ++ ((lookupAllArgs u sec (s "Mask")).flatMap fun m => [s "--security-opt", s "mask=" ++ m])
    ++ ((lookupAllArgs u sec (s "Unmask")).flatMap fun m => [s "--security-opt", s "unmask=" ++ m])
    ++ ((lookupAllArgs u sec (s "EnvironmentFile")).flatMap fun f => [s "--env-file", absFromUnit path f])
    ++ ((lookupAllArgs u sec (s "Secret")).flatMap fun x => [s "--secret", x])

/-- the image (or root file system) and, last, the words of `Exec=` -/
def containerTail (u : SUnit) (sec : Str) (image : Str) : List Str :=
  (if !image.isEmpty then [image] else [s "--rootfs", (lookup u sec (s "Rootfs")).getD []])
    ++ (match lookupLastValue u sec (s "Exec") with | some raw => splitArgs raw | none => [])

def fromContainer (E : Env) (path : Str) (u : SUnit) : Option (R (SUnit × Option (Str × Str))) :=
  let sec := s "Container"
  let name := fileName path
  -- mounts first, to find out whether the unit is inside the modelled CSV subset
  if (lookupAllArgs u sec (s "Mount")).any (fun m => (findMountType m).isNone) then none else some (do
  let svc := mergeFrom [] u
  let self ← (match E.info name with | some i => pure i | none => throw (Err.internal (s "container") name) : R Info)
  let svc := defaultDeps svc
  let svc := if path.isEmpty then svc else addS svc "Unit" "SourcePath" path
  checkUnknown u sec supportedContainer
  checkUnknown u (s "Quadlet") supportedQuadlet
  let svc := renameSection svc sec (s "X-Container")
  let svc := renameSection svc (s "Quadlet") (s "X-Quadlet")
  let image := (lookup u sec (s "Image")).getD []
  let rootfs := (lookup u sec (s "Rootfs")).getD []
  if image.isEmpty && rootfs.isEmpty then throw Err.noImageOrRootfs
  if !image.isEmpty && !rootfs.isEmpty then throw Err.imageAndRootfs
  let (image, svc) ← (if !image.isEmpty then handleImageSource E image svc else pure (image, svc) : R (Str × SUnit))
  let svc := addS svc "Service" "Environment" (s "PODMAN_SYSTEMD_UNIT=%n")
  let svc ← killMode svc svc
  let svc := addS svc "Unit" "RequiresMountsFor" (s "%t/containers")
  let stop := baseCmd E u sec ++ [s "rm", s "-v", s "-f", s "-i", s "--cidfile=%t/%N.cid"]
  let svc ← addRawExec svc "ExecStop" stop
  let svc ← addRawExec svc "ExecStopPost" (match stop with | a :: r => ('-' :: a) :: r | [] => [])
  let svc := addS svc "Service" "Delegate" (s "yes")
  let (nets, svc) ← handleNetworks E u sec svc
  let (cmd, svc) ← typeAndNotify u sec (containerHead E path u sec ++ nets) svc
  let svc := if (lookup u (s "Service") (s "SyslogIdentifier")).isNone then setS svc "Service" "SyslogIdentifier" (s "%N") else svc
  let usr ← handleUser u sec
  let maps ← handleUserMappings u sec true
  let (vols, svc) ← handleVolumes E path u sec svc
  let ports ← (lookupAll u sec (s "ExposeHostPort")).foldlM (fun (acc : List Str) p =>
    let p := trim p
    if Port.isPortRange p then pure (acc ++ [s "--expose", p]) else throw (Err.invalidPort p)) []
  let (mounts, svc) ← (lookupAllArgs u sec (s "Mount")).foldlM (mountsStep E path) ([], svc)
  let (podArgs, svc, link) ← handlePod E u sec svc (serviceFileName self)
  let cmd := cmd ++ containerSecurity E u sec ++ usr ++ maps ++ vols ++ containerAutoUpdate u sec ++ ports
    ++ containerMid path u sec ++ mounts ++ healthArgs u sec ++ podArgs ++ podmanArgs u sec ++ containerTail u sec image
  let svc ← addRawExec svc "ExecStart" cmd
  pure (svc, link))

end Cv
