import QM.ConvKeys
/-! The second key-level statement: apart from the five settings the generator *sets* (replacing the last value), the
    entries of every key in every section only grow — the user's entries of a key are a sublist (same values, same
    order) of the service's entries of that key. -/
namespace Cv
open MM

/-- the settings written with `set`: the generator replaces the last value of these -/
def setPairs : List (Str × Str) :=
  [(s "Service", s "KillMode"), (s "Service", s "Type"), (s "Service", s "NotifyAccess"),
   (s "Service", s "SyslogIdentifier"), (s "Service", s "RemainAfterExit")]

def Grows (a b : SUnit) : Prop := ∀ S k, (S, k) ∉ setPairs → (keyEntries a S k).Sublist (keyEntries b S k)

theorem Grows.refl (a : SUnit) : Grows a a := fun _ _ _ => List.Sublist.refl _
theorem Grows.trans {a b c : SUnit} (h1 : Grows a b) (h2 : Grows b c) : Grows a c :=
  fun S k hk => (h1 S k hk).trans (h2 S k hk)

theorem gr_addEntry (svc : SUnit) (sec key raw : Str) : Grows svc (addEntry svc sec key raw) := by
  intro S k _
  unfold keyEntries
  rw [entriesOf_addEntry]
  split
  · rename_i e
    subst e
    rw [List.filter_append]
    exact List.sublist_append_left _ _
  · exact List.Sublist.refl _

theorem gr_addS (svc : SUnit) (sec key : String) (v : Str) : Grows svc (addS svc sec key v) := gr_addEntry _ _ _ _

theorem gr_setS (svc : SUnit) (sec key : String) (v : Str) (h : (s sec, s key) ∈ setPairs := by decide) : Grows svc (setS svc sec key v) := by
  intro S k hk
  unfold keyEntries Cv.setS
  rw [entriesOf_setEntry]
  split
  · rename_i e
    subst e
    rw [filter_setIn_ne _ _ _ _ (fun (e : k = s key) => hk (by rw [e]; exact h))]
    exact List.Sublist.refl _
  · exact List.Sublist.refl _

theorem gr_prependS (svc : SUnit) (sec key : String) (v : Str) : Grows svc (prependS svc sec key v) := by
  intro S k _
  unfold keyEntries
  rw [entriesOf_prependS]
  split
  · rename_i e
    subst e
    rw [List.filter_cons]
    split
    · exact List.sublist_cons_self _ _
    · exact List.Sublist.refl _
  · exact List.Sublist.refl _

theorem gr_addRawExec (svc svc' : SUnit) (k : String) (args : List Str)
    (h : addRawExec svc k args = .ok svc') : Grows svc svc' := by
  rw [addRawExec_ok _ _ _ _ h]; exact gr_addEntry _ _ _ _

theorem gr_oneShot (svc : SUnit) (b : Bool) : Grows svc (oneShot svc b) := by
  unfold oneShot
  simp only
  split <;> split <;> split <;>
    first
    | exact ((gr_setS _ _ _ _).trans (gr_setS _ _ _ _)).trans (gr_setS _ _ _ _)
    | exact (gr_setS _ _ _ _).trans (gr_setS _ _ _ _)
    | exact gr_setS _ _ _ _
    | exact Grows.refl _

theorem gr_killMode (u svc svc' : SUnit) (h : killMode u svc = .ok svc') : Grows svc svc' := by
  unfold killMode at h
  split at h
  · simp at h; subst h; exact gr_setS _ _ _ _
  · split at h
    · simp at h; subst h; exact Grows.refl _
    · simp at h

theorem gr_handleImageSource (E : Env) (name : Str) (svc : SUnit) (r : Str × SUnit)
    (h : handleImageSource E name svc = .ok r) : Grows svc r.2 := by
  unfold handleImageSource at h
  split at h
  · split at h
    · simp at h
    · simp at h; subst h
      exact (gr_addS _ _ _ _).trans (gr_addS _ _ _ _)
  · simp at h; subst h; exact Grows.refl _

theorem gr_handleStorageSource (E : Env) (unitPath : Str) (svc : SUnit) (source : Str) (ci : Bool) (r : Str × SUnit)
    (h : handleStorageSource E unitPath svc source ci = .ok r) : Grows svc r.2 := by
  unfold handleStorageSource at h
  simp only at h
  generalize (if source.head? == some '.' then absFromUnit unitPath source else source) = src at h
  split at h
  · simp at h; subst h; exact gr_addS _ _ _ _
  · split at h
    · split at h
      · simp at h
      · simp at h; subst h
        exact (gr_addS _ _ _ _).trans (gr_addS _ _ _ _)
    · simp at h; subst h; exact Grows.refl _

theorem gr_foldlM {α β : Type} (f : β × SUnit → α → R (β × SUnit))
    (hf : ∀ acc a r, f acc a = .ok r → Grows acc.2 r.2) :
    ∀ (l : List α) (acc r : β × SUnit), l.foldlM f acc = .ok r → Grows acc.2 r.2 := by
  intro l
  induction l with
  | nil => intro acc r h; simp [List.foldlM, pure, Except.pure] at h; subst h; exact Grows.refl _
  | cons a l ih =>
    intro acc r h
    simp only [List.foldlM_cons, bind_ok] at h
    obtain ⟨x, hx, hr⟩ := h
    exact (hf acc a x hx).trans (ih x r hr)

theorem gr_volumeStep (E : Env) (unitPath : Str) (acc : List Str × SUnit) (volume : Str) (r : List Str × SUnit)
    (h : volumeStep E unitPath acc volume = .ok r) : Grows acc.2 r.2 := by
  unfold volumeStep at h
  simp only at h
  split at h
  · simp at h; subst h; exact Grows.refl _
  · split at h
    · simp at h
    · rename_i x hx
      have := gr_handleStorageSource _ _ _ _ _ _ hx
      split at h <;> (simp at h; subst h; exact this)

theorem gr_handleVolumes (E : Env) (unitPath : Str) (u : SUnit) (sec : Str) (svc : SUnit) (r : List Str × SUnit)
    (h : handleVolumes E unitPath u sec svc = .ok r) : Grows svc r.2 :=
  gr_foldlM _ (gr_volumeStep E unitPath) _ _ _ h

theorem gr_networkRef (E : Env) (name : Str) (svc : SUnit) (r : Str × SUnit)
    (h : networkRef E name svc = .ok r) : Grows svc r.2 := by
  unfold networkRef at h
  split at h
  · split at h
    · simp at h
    · split at h
      · simp at h
      · simp at h; subst h; exact (gr_addS _ _ _ _).trans (gr_addS _ _ _ _)
  · simp at h; subst h; exact Grows.refl _

theorem gr_networkStep (E : Env) (acc : List Str × SUnit) (network : Str) (r : List Str × SUnit)
    (h : networkStep E acc network = .ok r) : Grows acc.2 r.2 := by
  unfold networkStep at h
  split at h
  · simp at h; subst h; exact Grows.refl _
  · simp only at h
    split at h
    · simp at h
    · rename_i x hx
      have := gr_networkRef _ _ _ _ hx
      split at h
      · split at h
        · simp at h
        · simp at h; subst h; exact this
      · split at h <;> (simp at h; subst h; exact this)

theorem gr_handleNetworks (E : Env) (u : SUnit) (sec : Str) (svc : SUnit) (r : List Str × SUnit)
    (h : handleNetworks E u sec svc = .ok r) : Grows svc r.2 :=
  gr_foldlM _ (gr_networkStep E) _ _ _ h

theorem gr_mountTokStep (E : Env) (unitPath : Str) (acc : List Str × SUnit) (t : Str) (r : List Str × SUnit)
    (h : mountTokStep E unitPath acc t = .ok r) : Grows acc.2 r.2 := by
  unfold mountTokStep at h
  split at h
  · split at h
    · split at h
      · simp at h
      · rename_i x hx
        simp at h; subst h
        exact gr_handleStorageSource _ _ _ _ _ _ hx
    · simp at h; subst h; exact Grows.refl _
  · simp at h; subst h; exact Grows.refl _

theorem gr_resolveMount (E : Env) (unitPath : Str) (svc : SUnit) (m : Str) (r : Str × SUnit)
    (h : resolveMount E unitPath svc m = some (.ok r)) : Grows svc r.2 := by
  unfold resolveMount at h
  split at h
  · simp at h
  · simp at h
  · split at h
    · simp at h; subst h; exact Grows.refl _
    · simp only [Option.some.injEq] at h
      split at h
      · simp at h
      · rename_i x hx
        simp at h; subst h
        exact gr_foldlM _ (gr_mountTokStep E unitPath) _ _ _ hx

theorem gr_mountsStep (E : Env) (unitPath : Str) (acc : List Str × SUnit) (m : Str) (r : List Str × SUnit)
    (h : mountsStep E unitPath acc m = .ok r) : Grows acc.2 r.2 := by
  unfold mountsStep at h
  split at h
  · rename_i x hx
    simp at h; subst h
    exact gr_resolveMount _ _ _ _ _ hx
  · simp at h
  · simp at h

theorem gr_handlePod (E : Env) (u : SUnit) (sec : Str) (svc : SUnit) (own : Str) (r : List Str × SUnit × Option (Str × Str))
    (h : handlePod E u sec svc own = .ok r) : Grows svc r.2.1 := by
  unfold handlePod at h
  split at h
  · simp at h; subst h; exact Grows.refl _
  · split at h
    · simp at h; subst h; exact Grows.refl _
    · split at h
      · simp at h
      · split at h
        · simp at h
        · simp at h; subst h
          exact (gr_addS _ _ _ _).trans (gr_addS _ _ _ _)

theorem gr_typeAndNotify (u : SUnit) (sec : Str) (cmd : List Str) (svc : SUnit) (r : List Str × SUnit)
    (h : typeAndNotify u sec cmd svc = .ok r) : Grows svc r.2 := by
  unfold typeAndNotify at h
  simp only at h
  split at h
  · split at h
    · simp at h; subst h; exact Grows.refl _
    · split at h
      · simp at h; subst h; exact (gr_setS _ _ _ _).trans (gr_setS _ _ _ _)
      · simp at h
  · simp at h; subst h; exact (gr_setS _ _ _ _).trans (gr_setS _ _ _ _)

theorem gr_applyWd (svc : SUnit) (wd : Option Str) : Grows svc (applyWd svc wd) := by
  unfold applyWd; split
  · exact gr_addS _ _ _ _
  · exact Grows.refl _

theorem gr_handleSetWorkingDirectory (unitPath : Str) (u svc : SUnit) (sec : Str) (r : Str × SUnit)
    (h : handleSetWorkingDirectory unitPath u svc sec = .ok r) : Grows svc r.2 := by
  unfold handleSetWorkingDirectory at h
  split at h
  · simp at h
  · simp at h; subst h; exact gr_applyWd _ _

theorem gr_foldl_addS2 (cs : List Str) (svc : SUnit) :
    Grows svc (cs.foldl (fun svc c => addS (addS svc "Unit" "Wants" c) "Unit" "Before" c) svc) := by
  induction cs generalizing svc with
  | nil => exact Grows.refl _
  | cons c cs ih => exact ((gr_addS _ _ _ _).trans (gr_addS _ _ _ _)).trans (ih _)

theorem grows_fromVolume (E : Env) (path : Str) (u svc : SUnit) (n : Str) (h : fromVolume E path u = .ok (svc, n)) :
    Grows (preService path u (s "Volume") (s "X-Volume")) svc := by
  unfold fromVolume volumeOpts at h
  simp only [bind_ok] at h
  obtain ⟨_, _, _, _, x, hx, svc1, hexec, hfin⟩ := h
  simp only [pure, Except.pure, Except.ok.injEq, Prod.mk.injEq] at hfin
  obtain ⟨rfl, _⟩ := hfin
  have h0 : Grows (preService path u (s "Volume") (s "X-Volume"))
      (addS (preService path u (s "Volume") (s "X-Volume")) "Unit" "RequiresMountsFor" (s "%t/containers")) :=
    id (gr_addS _ _ _ _)
  have hx' : Grows (addS (preService path u (s "Volume") (s "X-Volume")) "Unit" "RequiresMountsFor" (s "%t/containers")) x.2 := by
    split at hx
    · split at hx
      · exact absurd hx (by simp [throw, throwThe, MonadExceptOf.throw])
      · simp only [bind_ok] at hx
        obtain ⟨y, hy, hx⟩ := hx
        simp only [pure, Except.pure, Except.ok.injEq] at hx
        subst hx
        exact id (gr_handleImageSource _ _ _ _ hy)
    · split at hx
      · exact absurd hx (throw_bind_ne_ok _ _ _)
      · split at hx
        · exact absurd hx (throw_bind_ne_ok _ _ _)
        · simp only [pure, Except.pure, Except.ok.injEq] at hx
          subst hx
          exact Grows.refl _
  exact (h0.trans hx').trans ((id (gr_addRawExec _ _ _ _ hexec)).trans (id (gr_oneShot _ _)))

theorem grows_fromNetwork (E : Env) (path : Str) (u svc : SUnit) (n : Str) (h : fromNetwork E path u = .ok (svc, n)) :
    Grows (preService path u (s "Network") (s "X-Network")) svc := by
  unfold fromNetwork at h
  simp only [bind_ok] at h
  obtain ⟨_, _, _, _, _, _, svc1, hexec, hfin⟩ := h
  simp only [pure, Except.pure, Except.ok.injEq, Prod.mk.injEq] at hfin
  obtain ⟨rfl, _⟩ := hfin
  exact (id (gr_addS _ _ _ _)).trans ((id (gr_addRawExec _ _ _ _ hexec)).trans (id (gr_oneShot _ _)))

theorem grows_fromPod (E : Env) (path : Str) (u svc : SUnit) (cs : List Str) (h : fromPod E path u cs = .ok svc) :
    Grows (preService path u (s "Pod") (s "X-Pod")) svc := by
  unfold fromPod at h
  simp only [bind_ok] at h
  obtain ⟨_, _, _, _, s1, h1, s2, h2, s3, h3, _, _, x4, h4, x5, h5, s6, h6, hfin⟩ := h
  simp only [pure, Except.pure, Except.ok.injEq] at hfin
  subst hfin
  have a0 := id (gr_addS (preService path u (s "Pod") (s "X-Pod")) "Unit" "RequiresMountsFor" (s "%t/containers"))
  have a1 := id (gr_foldl_addS2 cs (addS (preService path u (s "Pod") (s "X-Pod")) "Unit" "RequiresMountsFor" (s "%t/containers")))
  refine (a0.trans a1).trans ?_
  have a2 : Grows (cs.foldl (fun svc c => addS (addS svc "Unit" "Wants" c) "Unit" "Before" c)
        (addS (preService path u (s "Pod") (s "X-Pod")) "Unit" "RequiresMountsFor" (s "%t/containers")))
      (if (lookup u (s "Service") (s "SyslogIdentifier")).isNone then
        setS (cs.foldl (fun svc c => addS (addS svc "Unit" "Wants" c) "Unit" "Before" c)
          (addS (preService path u (s "Pod") (s "X-Pod")) "Unit" "RequiresMountsFor" (s "%t/containers"))) "Service" "SyslogIdentifier" (s "%N")
       else cs.foldl (fun svc c => addS (addS svc "Unit" "Wants" c) "Unit" "Before" c)
          (addS (preService path u (s "Pod") (s "X-Pod")) "Unit" "RequiresMountsFor" (s "%t/containers"))) := by
    split
    · exact id (gr_setS _ _ _ _)
    · exact Grows.refl _
  refine a2.trans ?_
  refine (id (gr_addRawExec _ _ _ _ h1)).trans ?_
  refine (id (gr_addRawExec _ _ _ _ h2)).trans ?_
  refine (id (gr_addRawExec _ _ _ _ h3)).trans ?_
  refine (id (gr_handleNetworks _ _ _ _ _ h4)).trans ?_
  refine (id (gr_handleVolumes _ _ _ _ _ _ h5)).trans ?_
  refine (id (gr_addRawExec _ _ _ _ h6)).trans ?_
  exact (id (gr_addS _ _ _ _)).trans ((id (gr_addS _ _ _ _)).trans
    ((id (gr_addS _ _ _ _)).trans (id (gr_addS _ _ _ _))))

theorem grows_fromKube (E : Env) (path : Str) (u svc : SUnit) (h : fromKube E path u = .ok svc) :
    Grows (preService path u (s "Kube") (s "X-Kube")) svc := by
  unfold fromKube at h
  simp only [bind_ok] at h
  obtain ⟨_, _, _, _, h⟩ := h
  split at h
  · exact absurd h (throw_bind_ne_ok _ _ _)
  · simp only [bind_ok] at h
    obtain ⟨s1, h1, s2, h2, _, _, x3, h3, s4, h4, s5, h5, x6, h6, hfin⟩ := h
    simp only [pure, Except.pure, Except.ok.injEq] at hfin
    subst hfin
    refine (id (gr_killMode _ _ _ h1)).trans ?_
    refine (id (gr_addS s1 "Service" "Environment" (s "PODMAN_SYSTEMD_UNIT=%n"))).trans ?_
    refine (id (gr_addS (addS s1 "Service" "Environment" (s "PODMAN_SYSTEMD_UNIT=%n")) "Unit" "RequiresMountsFor" (s "%t/containers"))).trans ?_
    have a2 : Grows (addS (addS s1 "Service" "Environment" (s "PODMAN_SYSTEMD_UNIT=%n")) "Unit" "RequiresMountsFor" (s "%t/containers")) s2 := by
      split at h2
      · simp [pure, Except.pure] at h2; subst h2
        exact (id (gr_addS _ _ _ _)).trans (id (gr_addS _ _ _ _))
      · split at h2 <;> (simp [pure, Except.pure] at h2; subst h2)
        · exact (id (gr_addS _ _ _ _)).trans (id (gr_addS _ _ _ _))
        · exact Grows.refl _
    refine a2.trans ?_
    have a3 : Grows s2
        (if !hasKey u (s "Service") (s "SyslogIdentifier") then setS s2 "Service" "SyslogIdentifier" (s "%N") else s2) := by
      split
      · exact id (gr_setS _ _ _ _)
      · exact Grows.refl _
    refine a3.trans ?_
    refine (id (gr_handleNetworks _ _ _ _ _ h3)).trans ?_
    refine (id (gr_addRawExec _ _ _ _ h4)).trans ?_
    refine (id (gr_addRawExec _ _ _ _ h5)).trans ?_
    exact id (gr_handleSetWorkingDirectory _ _ _ _ _ h6)

theorem grows_fromBuild (E : Env) (path : Str) (u svc : SUnit) (h : fromBuild E path u = .ok svc) :
    Grows (preOf (buildStart path u) (s "Build") (s "X-Build")) svc := by
  unfold fromBuild at h
  simp only [bind_ok] at h
  obtain ⟨_, _, h⟩ := h
  split at h
  · exact absurd h (throw_bind_ne_ok _ _ _)
  · simp only [bind_ok] at h
    obtain ⟨_, _, _, _, x1, h1, x2, h2, x3, h3, _, _, _, _, s4, h4, hfin⟩ := h
    simp only [pure, Except.pure, Except.ok.injEq] at hfin
    subst hfin
    have e : (renameSection (renameSection
        (if path.isEmpty then addS (defaultDeps (mergeFrom [] u)) "Unit" "RequiresMountsFor" (s "%t/containers")
         else addS (addS (defaultDeps (mergeFrom [] u)) "Unit" "RequiresMountsFor" (s "%t/containers")) "Unit" "SourcePath" path)
        (s "Build") (s "X-Build")) (s "Quadlet") (s "X-Quadlet")) = preOf (buildStart path u) (s "Build") (s "X-Build") := rfl
    rw [e] at h1
    refine (id (gr_handleNetworks _ _ _ _ _ h1)).trans ?_
    refine (id (gr_handleVolumes _ _ _ _ _ _ h2)).trans ?_
    refine (id (gr_handleSetWorkingDirectory _ _ _ _ _ h3)).trans ?_
    exact (id (gr_addRawExec _ _ _ _ h4)).trans (id (gr_oneShot _ _))

theorem grows_fromContainer (E : Env) (path : Str) (u svc : SUnit) (link : Option (Str × Str))
    (h : fromContainer E path u = some (.ok (svc, link))) :
    Grows (preService path u (s "Container") (s "X-Container")) svc := by
  unfold fromContainer at h
  simp only at h
  split at h
  · simp at h
  · simp only [Option.some.injEq, bind_ok] at h
    obtain ⟨self, _, _, _, _, _, h⟩ := h
    split at h
    · exact absurd h (throw_bind_ne_ok _ _ _)
    · split at h
      · exact absurd h (throw_bind_ne_ok _ _ _)
      · simp only [bind_ok] at h
        obtain ⟨x1, h1, s2, h2, s3, h3, s4, h4, x5, h5, x6, h6, _, _, _, _, x7, h7, _, _, x8, h8, x9, h9, s10, h10, hfin⟩ := h
        simp only [pure, Except.pure, Except.ok.injEq, Prod.mk.injEq] at hfin
        obtain ⟨rfl, _⟩ := hfin
        have e : (renameSection (renameSection
            (if path.isEmpty then defaultDeps (mergeFrom [] u) else addS (defaultDeps (mergeFrom [] u)) "Unit" "SourcePath" path)
            (s "Container") (s "X-Container")) (s "Quadlet") (s "X-Quadlet"))
            = preService path u (s "Container") (s "X-Container") := rfl
        rw [e] at h1
        have a1 : Grows (preService path u (s "Container") (s "X-Container")) x1.2 := by
          split at h1
          · exact id (gr_handleImageSource _ _ _ _ h1)
          · simp [pure, Except.pure] at h1; subst h1; exact Grows.refl _
        refine a1.trans ?_
        refine (id (gr_addS x1.2 "Service" "Environment" (s "PODMAN_SYSTEMD_UNIT=%n"))).trans ?_
        refine (id (gr_killMode _ _ _ h2)).trans ?_
        refine (id (gr_addS s2 "Unit" "RequiresMountsFor" (s "%t/containers"))).trans ?_
        refine (id (gr_addRawExec _ _ _ _ h3)).trans ?_
        refine (id (gr_addRawExec _ _ _ _ h4)).trans ?_
        refine (id (gr_addS s4 "Service" "Delegate" (s "yes"))).trans ?_
        refine (id (gr_handleNetworks _ _ _ _ _ h5)).trans ?_
        refine (id (gr_typeAndNotify _ _ _ _ _ h6)).trans ?_
        have a7 : Grows x6.2
            (if (lookup u (s "Service") (s "SyslogIdentifier")).isNone then setS x6.2 "Service" "SyslogIdentifier" (s "%N") else x6.2) := by
          split
          · exact id (gr_setS _ _ _ _)
          · exact Grows.refl _
        refine a7.trans ?_
        refine (id (gr_handleVolumes _ _ _ _ _ _ h7)).trans ?_
        refine (id (gr_foldlM _ (gr_mountsStep E path) _ _ _ h8)).trans ?_
        refine (id (gr_handlePod _ _ _ _ _ _ h9)).trans ?_
        exact id (gr_addRawExec _ _ _ _ h10)



/-! ### from the user's unit to the service -/

theorem gr_defaultDeps (svc : SUnit) : Grows svc (defaultDeps svc) := by
  unfold defaultDeps
  split
  · exact (gr_prependS _ _ _ _).trans (gr_prependS _ _ _ _)
  · exact Grows.refl _

theorem grows_startService (path : Str) (u : SUnit) (hnd : (u.map Prod.fst).Nodup) (S k : Str) (hk : (S, k) ∉ setPairs) :
    (keyEntries u S k).Sublist (keyEntries (startService path u) S k) := by
  have h1 : Grows (mergeFrom [] u) (startService path u) := by
    unfold startService
    simp only
    split
    · exact gr_defaultDeps _
    · exact (gr_defaultDeps _).trans (gr_addS _ _ _ _)
  rw [← keyEntries_mergeFrom u hnd]
  exact h1 S k hk

theorem grows_buildStart (path : Str) (u : SUnit) (hnd : (u.map Prod.fst).Nodup) (S k : Str) (hk : (S, k) ∉ setPairs) :
    (keyEntries u S k).Sublist (keyEntries (buildStart path u) S k) := by
  have h1 : Grows (mergeFrom [] u) (buildStart path u) := by
    unfold buildStart
    split
    · exact (gr_defaultDeps _).trans (gr_addS _ _ _ _)
    · exact ((gr_defaultDeps _).trans (gr_addS _ _ _ _)).trans (gr_addS _ _ _ _)
  rw [← keyEntries_mergeFrom u hnd]
  exact h1 S k hk

theorem grows_of (start u svc : SUnit) (own xown : Str) (hx : own ≠ xown)
    (hstart : ∀ S k, (S, k) ∉ setPairs → (keyEntries u S k).Sublist (keyEntries start S k))
    (h : Grows (preOf start own xown) svc) (S k : Str) (hk : (S, k) ∉ setPairs)
    (hS : S ∉ [own, xown, s "Quadlet", s "X-Quadlet"]) :
    (keyEntries u S k).Sublist (keyEntries svc S k) := by
  have := h S k hk
  rw [keyEntries_preOf start own xown S k hx hS] at this
  exact (hstart S k hk).trans this

end Cv
