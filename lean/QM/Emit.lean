import QM.SUnit
namespace Emit
open SU

/-- history function of one section: key ↦ raw assignments in order -/
abbrev Hist := Str → List Str

/-- how a key is turned into options (a fragment of the kinds of DESIGN §6/C02) -/
inductive Kind
  | str (flag : Str)        -- last value, unquoted, emitted when non-empty:  flag v
  | all (flag : Str)        -- every value after the last reset:              flag v₁ flag v₂ …
  | bool (flag : Str)       -- last value as bool:                            flag | flag=false
  deriving Repr

structure Row where
  key : Str
  kind : Kind

variable (unquote : Str → Str) (toBool : Str → Bool)

def effectiveList (h : List Str) : List Str := h.foldl resetStep []

def emitRow (r : Row) (h : Hist) : List Str :=
  match r.kind with
  | .str flag => match (h r.key).getLast? with
      | some raw => let v := unquote raw; if v.isEmpty then [] else [flag, v]
      | none => []
  | .all flag => (effectiveList (h r.key)).flatMap (fun raw => [flag, unquote raw])
  | .bool flag => match (h r.key).getLast? with
      | some raw => if toBool raw then [flag] else [flag ++ "=false".toList]
      | none => []

/-- key-derived part of a command: the rows of the table in source order -/
def keyOpts (rows : List Row) (h : Hist) : List Str := rows.flatMap (fun r => emitRow unquote toBool r h)

/-- C02_frame: an emitter depends only on the history of its own key -/
theorem emitRow_local (r : Row) (h h' : Hist) (e : h r.key = h' r.key) :
    emitRow unquote toBool r h = emitRow unquote toBool r h' := by
  unfold emitRow; rw [e]

/-- history after adding `key=v` -/
def addH (h : Hist) (key v : Str) : Hist := fun k => h k ++ (if k = key then [v] else [])

theorem emitRow_other (r : Row) (h : Hist) (key v : Str) (hne : r.key ≠ key) :
    emitRow unquote toBool r (addH h key v) = emitRow unquote toBool r h := by
  apply emitRow_local; simp [addH, hne]

/-- C02_add_key (table part): adding a key that was absent inserts exactly that row's options at the row's
    position and changes nothing else -/
theorem keyOpts_add (pre post : List Row) (r : Row) (h : Hist) (v : Str)
    (habs : h r.key = []) (hpre : ∀ x ∈ pre, x.key ≠ r.key) (hpost : ∀ x ∈ post, x.key ≠ r.key) :
    keyOpts unquote toBool (pre ++ r :: post) (addH h r.key v) =
      keyOpts unquote toBool pre h ++ emitRow unquote toBool r (fun _ => [v]) ++ keyOpts unquote toBool post h := by
  have hp : ∀ (l : List Row), (∀ x ∈ l, x.key ≠ r.key) →
      keyOpts unquote toBool l (addH h r.key v) = keyOpts unquote toBool l h := by
    intro l hl
    unfold keyOpts
    induction l with
    | nil => rfl
    | cons x l ih =>
      simp only [List.flatMap_cons]
      rw [emitRow_other unquote toBool x h r.key v (hl x (by simp)), ih (fun y hy => hl y (by simp [hy]))]
  have hr : emitRow unquote toBool r (addH h r.key v) = emitRow unquote toBool r (fun _ => [v]) := by
    apply emitRow_local; simp [addH, habs]
  unfold keyOpts at hp ⊢
  simp only [List.flatMap_append, List.flatMap_cons]
  rw [hp pre hpre, hp post hpost, hr]; simp

/-- and with the key absent the row contributes nothing -/
theorem emitRow_absent (r : Row) (h : Hist) (habs : h r.key = []) : emitRow unquote toBool r h = [] := by
  unfold emitRow; rw [habs]; cases r.kind <;> simp [effectiveList]

end Emit
