"""Generated directory trees for the process-level checks (C10, C13) and the tree correspondence."""
import os, re
import core, e2e, canon
from core import hx, unhx

SECS = {'container': 'Container', 'volume': 'Volume', 'network': 'Network'}
# paths (of generated trees) that are materialised as symbolic links to a regular file kept outside the search
# directories: for discovery, shadowing and drop-ins a link to a file is that file (the model sees path -> content)
LINKS = set()


def mktree(rnd, base, with_dropins=True, broken=0.08):
    """roots, files{abs path: text}; at most one copy of a name per root (readdir order is unspecified within a root)"""
    roots = [os.path.join(base, r) for r in rnd.sample(['s0', 's1', 's2', 's1-extra', 's10'], rnd.randint(1, 3))]   # (the name of one may begin with the name of another: siblings, not parent and child)
    files = {}
    used = set()
    # sub-directories of every kind of name: "recursively, in their subdirectories" has no exception for names that begin with a dot,
    # contain blanks or look like a drop-in directory of nothing
    subs = {r: [''] + rnd.sample(['sub', 'sub/deep', 'other', '.dot', '.dot/in', 'with blank', 'zz.d'], rnd.randint(0, 3)) for r in roots}
    for r in roots:
        if 'sub/deep' in subs[r] and 'sub' not in subs[r]:
            subs[r].append('sub')
        if '.dot/in' in subs[r] and '.dot' not in subs[r]:
            subs[r].append('.dot')
    nested = None
    if rnd.random() < 0.2:
        # configured directories may overlap: a sub-directory of a search directory is listed as a search directory of its own, *before* its
        # parent — it keeps that place in the search order (listed after its parent it would add nothing: everything in it was seen)
        i = rnd.randrange(len(roots))
        nested = roots[i] + '/sub'
        if 'sub' not in subs[roots[i]]:
            subs[roots[i]].append('sub')
        subs[nested] = ['']
        roots.insert(i, nested)
    names = rnd.sample(['a.container', 'b.container', 'web.container', 'tpl@.container', 'tpl@i1.container', 'tpl@i2.container', 'v.volume', 'n.network',
                        'tpl@a@b.container', 'x.y@i.container', 'tpl@i.1.container', 'vt@.volume', 'vt@x.volume'], rnd.randint(1, 5))
    for n in names:
        for r in rnd.sample(roots, rnd.randint(1, len(roots))):
            d = os.path.join(r, rnd.choice(subs[r])).rstrip('/')
            tag = d[len(base) + 1:].replace('/', '_')
            sec = SECS[n.rsplit('.', 1)[1]]
            body = '[%s]\n' % sec
            if sec == 'Container':
                body += 'Image=localhost/i\nEnvironment=ORIGIN=%s\n' % tag
            else:
                body += 'Label=origin=%s\n' % tag
            # (a directory that is reached twice is read twice: whether a file in it that cannot be loaded is reported once or twice depends on
            #  whether a loadable copy was seen in between — on readdir order, which no side models; unit files there are loadable)
            if rnd.random() < broken and not (nested and (d == nested or d.startswith(nested + '/'))):
                body = 'garbage before section\n' + body
            files[os.path.join(d, n)] = body
            if rnd.random() < 0.15:
                LINKS.add(os.path.join(d, n))
        if not with_dropins:
            continue
        dn = [n + '.d']
        stem, ext = n.rsplit('.', 1)
        if '@' in stem and stem.split('@', 1)[0] and stem.split('@', 1)[1]:
            # a template instance also takes the drop-ins of its template: <base>@.<type>.d, the base ending at the FIRST '@'
            dn.append(stem.split('@', 1)[0] + '@.' + ext + '.d')
        for ddir in dn:
            for conf in rnd.sample(['10-a.conf', '20-b.conf', '05-z.conf', 'x.conf', 'notconf.txt'], rnd.randint(0, 3)):
                for r in rnd.sample(roots, rnd.randint(1, len(roots))):
                    if (r, ddir, conf) in used:
                        continue   # the same drop-in twice within one root: readdir order would decide
                    used.add((r, ddir, conf))
                    d = os.path.join(r, rnd.choice(subs[r])).rstrip('/')
                    tag = (d[len(base) + 1:] + '/' + ddir + '/' + conf).replace('/', '_')
                    sec = SECS[n.rsplit('.', 1)[1]]
                    key = 'Environment=D%s=%s' % (conf[:2], tag) if sec == 'Container' else 'Label=d%s=%s' % (conf[:2], tag)
                    body = '[%s]\n%s\n' % (sec, key)
                    if sec == 'Container' and rnd.random() < 0.3:
                        body += 'HostName=%s\n' % tag[:20]
                    if rnd.random() < 0.05:
                        body = '[broken\n'
                    elif rnd.random() < 0.12:
                        # an empty drop-in: the usual way to mask a drop-in of the same name in a later directory — it hides it like any other
                        body = ''
                    files[os.path.join(d, ddir, conf)] = body
                    if rnd.random() < 0.1:
                        LINKS.add(os.path.join(d, ddir, conf))
    return roots, files


def canon_members(text):
    """the members of a pod register in the order in which the containers are converted, which follows the order of discovery
    (and the unstable priority sort): runs of `Wants=X` / `Before=X` pairs are sorted"""
    lines = text.split('\n')
    out, i = [], 0
    while i < len(lines):
        run = []
        while i + 1 < len(lines) and lines[i].startswith('Wants=') and lines[i + 1] == 'Before=' + lines[i][6:]:
            run.append((lines[i], lines[i + 1]))
            i += 2
        if run:
            for a, b in sorted(run):
                out += [a, b]
        else:
            out.append(lines[i])
            i += 1
    return '\n'.join(out)


def canon_text(t):
    return canon_members('\n'.join(canon.canon_exec(l) if l.startswith('Exec') else l for l in t.split('\n')))


def run_tree(roots, files, dry_run=True):
    """materialise and run the real binary; returns dict(exit, services sorted canonical texts, counts of error kinds, stderr)"""
    for r in roots:
        os.makedirs(r, exist_ok=True)
    store = os.path.join(os.path.dirname(roots[0]), 'store')
    for i, (p, c) in enumerate(files.items()):
        os.makedirs(os.path.dirname(p), exist_ok=True)
        if p in LINKS:
            os.makedirs(store, exist_ok=True)
            with open(os.path.join(store, 'f%d' % i), 'w') as f:
                f.write(c)
            os.symlink(os.path.join(store, 'f%d' % i), p)
            continue
        with open(p, 'w') as f:
            f.write(c)
    out = os.path.join(os.path.dirname(roots[0]), 'out')
    rc, so, se = e2e.run_binary((['--dry-run'] if dry_run else []) + ['--no-kmsg-log', out], ':'.join(roots))
    printed, order = e2e.split_dry_run(so)
    return dict(exit=rc, printed=printed, services=sorted(canon_text(v) for v in printed.values()),
                load_errors=len(re.findall(r'ERROR - Error loading', se)), dropin_errors=len(re.findall(r'ERROR - failed loading drop-ins', se)),
                conv_errors=len(re.findall(r'ERROR - Converting', se)), stderr=se)


def model_tree(ctx, cases):
    lines = ['tree\t%d' % len(roots) + ''.join('\t' + hx(r) for r in roots) + ''.join('\t%s\t%s' % (hx(p), hx(c)) for p, c in files.items())
             for roots, files in cases]
    res = []
    for b in ctx.model(lines):
        m = re.fullmatch(r'ok (\d+) (\d+) \[(.*)\] \[(.*)\] exit=(\d+)', b)
        if not m:
            res.append(None if b == 'out-of-model' else dict(bad=b))
            continue
        svcs = [x.split('=', 1) for x in m.group(3).split(' ') if x]
        errs = [x.split('=', 1) for x in m.group(4).split(' ') if x]
        res.append(dict(load_errors=int(m.group(1)), dropin_errors=int(m.group(2)), services=sorted(canon_text(unhx(t)) for _, t in svcs),
                        conv_errors=len(errs), by_path={unhx(p): unhx(t) for p, t in svcs}, exit=int(m.group(5))))
    return res
