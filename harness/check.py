#!/usr/bin/env python3
"""Entry point: check.py <ID> <quick|thorough> [--replay FILE]

Decides one property on /repo's current working tree:
  1. extract tables (T1), build the hooked binary and the model driver;
  2. re-check the property's theorems (lake build) and audit their axioms;
  3. correspondence: model vs implementation on generated operations (T2);
  4. oracle search: the property's specification applied to the implementation's own outputs;
  5. verdict (VIOLATION / KNOWN-FINDING lines, exit status) and evidence/<ID>.json.
"""
import importlib, json, os, random, sys

sys.path.insert(0, os.path.dirname(os.path.abspath(__file__)))
import core, canon  # noqa: E402


class Ctx:
    def __init__(self, res, tier, seed, st):
        self.res, self.tier, self.seed, self.st = res, tier, seed, st
        self.rnd = random.Random(seed)
        self.deep = False  # set when an obligation broke: search with the thorough budget
        try:
            self.tables = json.load(open(core.TABLES_JSON))
        except Exception:
            self.tables = json.load(open(os.path.join(core.VERIF, 'spec', 'tables.baseline.json')))
        self.known, self.fixed = core.load_known()
        self.known = [k for k in self.known if k['property'] == res.pid]

    @property
    def thorough(self):
        return self.tier == 'thorough' or self.deep

    def impl(self, lines, **kw):
        return core.run_impl(lines, **kw)

    def model(self, lines, **kw):
        return core.run_model(lines, **kw)

    def log(self, m):
        self.res.log(m)


def correspond(ctx, mod):
    """model vs implementation on the same op lines"""
    res = ctx.res
    ops = mod.corr_ops(ctx)
    # corpus first
    cdir = os.path.join(core.VERIF, 'corpus', res.pid)
    corpus = []
    if os.path.isdir(cdir):
        for fn in sorted(os.listdir(cdir)):
            if fn.endswith('.ops'):
                corpus += [l.rstrip('\n') for l in open(os.path.join(cdir, fn)) if l.strip() and not l.startswith('#')]
    ops = corpus + ops
    if not ops:
        return
    if not ctx.st.model_ok:
        res.log('model driver did not build: correspondence cannot run')
        return
    io = ctx.impl(ops)
    mo = ctx.model(ops)
    project = getattr(mod, 'project', lambda op, out: out)
    nontrivial = getattr(mod, 'nontrivial', lambda op, out: out.startswith('ok') and len(out) > 3)
    seen = set()
    for op, a, b in zip(ops, io, mo):
        k = op.split('\t', 1)[0]
        res.corr_by_op[k] = res.corr_by_op.get(k, 0) + 1
        oc = a.split(' ', 1)[0]
        if k == 'convert' and oc == 'ok':
            # input distribution of the converter stream: unit type x outcome (service, or the kind of error hit)
            try:
                f = op.split('\t')
                tys = [core.unhx(x).rsplit('.', 1)[-1] for x in f[3::2]]
                order = [int(x) for x in f[2].split(',')] if f[2] else [0]
                for i, r in zip(order, canon.parse_convert(a)):
                    oc2 = 'convert:' + (tys[i] if i < len(tys) else '?') + ':' + (r[0] if r[0] != 'err' else 'err ' + str(r[1]))
                    res.corr_by_outcome[oc2] = res.corr_by_outcome.get(oc2, 0) + 1
            except Exception:
                pass
        res.corr_by_outcome[oc] = res.corr_by_outcome.get(oc, 0) + 1
        if op not in seen:
            seen.add(op)
            if nontrivial(op, a):
                res.corr_nontrivial.add(op)
        if b == 'out-of-model':
            res.corr_by_outcome['out-of-model'] = res.corr_by_outcome.get('out-of-model', 0) + 1
            continue
        if a == 'skipped' or b == 'skipped':
            # the stream was cut after too many crashes / hangs of a driver: not compared
            res.corr_by_outcome['skipped'] = res.corr_by_outcome.get('skipped', 0) + 1
            continue
        pa, pb = project(op, a), project(op, b)
        if pa != pb:
            if len(res.corr_disagreements) < 50:
                res.corr_disagreements.append(dict(op=op, op_readable=core.dec_line(op), impl=core.dec_line(a), model=core.dec_line(b)))
            else:
                res.corr_disagreements.append(None)
    res.corr_disagreements = [d for d in res.corr_disagreements if d is not None] + \
        [dict(op='…', impl='', model='')] * sum(1 for d in res.corr_disagreements if d is None)
    res.corr_ops += len(ops)
    # shrink the first disagreement
    if res.corr_disagreements and res.corr_disagreements[0].get('op') not in (None, '…'):
        d = res.corr_disagreements[0]
        f = d['op'].split('\t')
        strs = [i for i, x in enumerate(f) if x.startswith('x')]

        def fails(cand):
            g = list(f)
            for i, s in zip(strs, cand):
                g[i] = core.hx(s)
            line = '\t'.join(g)
            a = ctx.impl([line])
            b = ctx.model([line])
            return bool(a and b and project(line, a[0]) != project(line, b[0]))
        try:
            small = core.shrink_strings([core.unhx(f[i]) for i in strs], fails, budget=120)
            g = list(f)
            for i, s in zip(strs, small):
                g[i] = core.hx(s)
            line = '\t'.join(g)
            d['minimised_op'] = line
            d['minimised_readable'] = core.dec_line(line)
            d['minimised_impl'] = core.dec_line(ctx.impl([line])[0])
            d['minimised_model'] = core.dec_line(ctx.model([line])[0])
        except Exception as e:  # shrinking is best effort
            d['shrink_error'] = str(e)
    for op, a in list(zip(ops, io))[:3] + list(zip(ops, io))[len(ops) // 2:len(ops) // 2 + 3]:
        res.samples.append(dict(kind='correspondence-op', op=core.dec_line(op)[:300], impl=core.dec_line(a)[:300]))
    res.log(f'correspondence: {len(ops)} ops, {len(res.corr_disagreements)} disagreements')


def run(pid, tier, seed, replay=None):
    mod = importlib.import_module('props.' + pid.lower())
    res = core.Result(pid, tier, seed)
    res.checker_cmd = f'cd /verif/lean && lake build {mod.LEAN_MODULE} && lake env lean <#print axioms for {len(mod.THEOREMS)} theorems>'
    st = core.prepare(res.log)
    res.extra_obligations.append(('T1 extraction of tables from the Rust source', st.extract_ok, st.extract_msg))
    res.extra_obligations.append(('hooked binary builds from /repo', st.cargo_ok, st.cargo_msg))
    res.extra_obligations.append(('model and driver elaborate against the regenerated tables', st.model_ok, st.model_msg))
    ctx = Ctx(res, tier, seed, st)
    if replay:
        return mod.replay(ctx, json.load(open(replay))) if hasattr(mod, 'replay') else generic_replay(ctx, mod, json.load(open(replay)))
    if not st.cargo_ok:
        res.log('the repository does not build with the hook enabled; nothing can be run')
        return core.finish(res)
    # proofs
    res.obligations, build_log = core.prove(mod.LEAN_MODULE, mod.THEOREMS, res.log)
    proved = [t for t, v in res.obligations.items() if v[0]]
    if all(v[0] for v in res.obligations.values()):
        res.audit_problems, res.axioms = core.audit(mod.LEAN_MODULE, proved, res.log)
    for t, v in res.obligations.items():
        res.samples.append(dict(kind='theorem', name=t, checked=v[0]))
    if tier == 'thorough' and all(v[0] for v in res.obligations.values()):
        rc, out, err = core.sh(['lake', 'env', 'leanchecker', mod.LEAN_MODULE], cwd=core.LEAN, timeout=3600)
        res.extra_obligations.append((f'leanchecker {mod.LEAN_MODULE}', rc == 0, (out + err)[-500:]))
    broken = (not all(v[0] for v in res.obligations.values())) or res.audit_problems or not (st.extract_ok and st.model_ok)
    # correspondence
    # (a stage of the harness that ends with an exception has shown nothing: it counts as an obligation that no longer checks — the
    #  implementation did something the harness was not written for — and the later stages still run)
    import traceback

    def stage(name, fn, *args):
        try:
            fn(*args)
        except Exception:
            tb = traceback.format_exc()
            res.log(f'{name} ended with an exception:\n{tb}')
            res.extra_obligations.append((f'harness stage ran to completion: {name}', False, tb[-700:]))
    if hasattr(mod, 'corr_ops'):
        stage('correspondence (driver stream)', correspond, ctx, mod)
    if hasattr(mod, 'correspond'):
        stage('correspondence (whole runs)', mod.correspond, ctx)
    ctx.deep = bool(broken or res.corr_disagreements)
    # oracle search on the implementation
    if hasattr(mod, 'oracle'):
        stage('oracle', mod.oracle, ctx)
        unproved = broken or res.corr_disagreements or any(not o[1] for o in res.extra_obligations)
        if unproved and not res.oracle_failures and tier == 'quick' and not ctx.deep:
            # a proof obligation, an inventory or the correspondence no longer checks and the quick search found no failing input:
            # search again with the breadth of the thorough tier and fresh random choices before reporting no-failing-input-found
            ctx.log('something no longer checks and the quick oracle found no failing input: searching with the thorough oracle')
            import random as _random
            n_extra = len(res.extra_obligations)
            ctx.deep, ctx.rnd = True, _random.Random(seed + 1000)
            for attr in [x for x in vars(ctx) if x.startswith('_c') or x == '_sets']:
                delattr(ctx, attr)
            try:
                mod.oracle(ctx)
            finally:
                del res.extra_obligations[n_extra:]
    res.assumptions += getattr(mod, 'ASSUMPTIONS', [])
    return core.finish(res)


def generic_replay(ctx, mod, rp):
    print(json.dumps(rp, indent=1)[:4000])
    ops = []
    if 'op' in rp:
        ops.append(rp['op'])
    for d in rp.get('correspondence_disagreements', []):
        if d.get('minimised_op'):
            ops.append(d['minimised_op'])
        elif d.get('op') and d['op'] != '…':
            ops.append(d['op'])
    for op in ops:
        a = ctx.impl([op])
        b = ctx.model([op]) if ctx.st.model_ok else ['(model not built)']
        print('op    :', core.dec_line(op))
        print('impl  :', core.dec_line(a[0]) if a else None)
        print('model :', core.dec_line(b[0]) if b else None)
    for b in rp.get('broken_obligations', []):
        print('obligation:', b['theorem'], '--', b['lean_error'])
    return 0


def main():
    a = sys.argv[1:]
    if len(a) < 2:
        print(__doc__)
        sys.exit(2)
    pid, tier = a[0], a[1]
    tier = os.environ.get('VERIF_TIER', tier)
    replay = a[a.index('--replay') + 1] if '--replay' in a else None
    seed = int(os.environ.get('VERIF_SEED', '1'))
    sys.exit(run(pid, tier, seed, replay))


if __name__ == '__main__':
    main()
