"""Generators shared by the checks (deterministic from the ctx's PRNG)."""
import itertools

ALPHA = ['a', ' ', '\t', '\n', '"', "'", '\\', '\x01', '\x7f', 'é', '-', ';', '%', '=', ':', ',']
ALPHA_SMALL = ['a', ' ', '"', "'", '\\', '\n', '\x7f', 'é']
ESC = ['\\', 'x', 'u', 'U', '0', '1', '7', '8', 'a', 'f', 'n', 's', '"', "'", ' ', 'g', 'e', '9', 'A', 'c', '3']
WIDE = ALPHA + ['b', 'n', 'x', '4', '1', 's', 'u', '0', '\r', '\x0b', '\x0c', '\x00', '\x80', '\x85', ' ', '–', '𝄞', '[', ']', '#', '$', '{', '}', '/', '.', '@']


def rs(rnd, maxlen=10, alpha=ALPHA):
    return ''.join(rnd.choice(alpha) for _ in range(rnd.randint(0, maxlen)))


def exhaustive(alpha, maxlen):
    for k in range(0, maxlen + 1):
        for cs in itertools.product(alpha, repeat=k):
            yield ''.join(cs)


def word_vectors(ctx, n_random):
    rnd = ctx.rnd
    out = []
    small = ['', 'a', ' ', '"', "'", '\\', '\x7f', 'é', 'a b', '\n', '\t', '-v', ';']
    for k in (1, 2):
        for ws in itertools.product(small, repeat=k):
            out.append(list(ws))
    if ctx.thorough:
        for ws in itertools.product(small[:8], repeat=3):
            out.append(list(ws))
    # every single character of the low range and some beyond, alone and embedded
    for cp in list(range(1, 0x100)) + [0x100, 0x7ff, 0x800, 0xd7ff, 0xe000, 0xffff, 0x10000, 0x10ffff, 0x2028, 0x3000]:
        out.append([chr(cp)])
        out.append(['x' + chr(cp) + 'y', 'z'])
    for w in exhaustive(ALPHA_SMALL, 3 if not ctx.thorough else 4):
        out.append([w])
    for _ in range(n_random):
        k = rnd.randint(0, 5)
        out.append([rs(rnd, rnd.choice([3, 6, 12, 40]), rnd.choice([ALPHA, WIDE[:-1] if False else [c for c in WIDE if c != '\x00']])) for _ in range(k)])
    return out
