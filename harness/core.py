"""Shared machinery of the checks: build steps, driver I/O, proof obligations, verdicts, evidence."""
import fcntl, hashlib, json, os, random, re, shutil, subprocess, sys, time

VERIF = os.path.dirname(os.path.dirname(os.path.abspath(__file__)))
REPO = os.environ.get('VERIF_REPO', '/repo')
BUILD = os.path.join(VERIF, 'build')
LEAN = os.path.join(VERIF, 'lean')
TARGET = os.path.join(BUILD, 'target')
BIN = os.path.join(TARGET, 'debug', 'quadlet-rs')
QMODEL = os.path.join(LEAN, '.lake', 'build', 'bin', 'qmodel')
TABLES_LEAN = os.path.join(LEAN, 'QM', 'Generated', 'Tables.lean')
TABLES_JSON = os.path.join(BUILD, 'tables.json')
ALLOWED_AXIOMS = {'propext', 'Classical.choice', 'Quot.sound'}
TRUSTED_BASE = [
    'Lean 4.33.0 kernel and elaborator (lake build); axioms limited to propext, Classical.choice, Quot.sound (audited with #print axioms on every run)',
    'tools/extract_tables.py (T1): copies the tables out of the Rust source into QM/Generated/Tables.lean on every run',
    'harness correspondence (T2): hand-written Lean model == Rust code on the generated inputs only (differential testing through src/verif_driver.rs and the built binary)',
    'Spec.* definitions (transcription of systemd extract_first_word/cunescape_one, filepath.Clean semantics, documented key tables, the port regular expression)',
]


def hx(s):
    return 'x' + s.encode('utf-8', 'surrogateescape').hex()


def unhx(t):
    return bytes.fromhex(t[1:]).decode('utf-8', 'replace')


def dec_line(line):
    """human readable form of a protocol line"""
    def d(tok):
        if re.fullmatch(r'[SKV]?x([0-9a-f]{2})*', tok):
            pre = tok[0] if tok[0] in 'SKV' else ''
            try:
                return pre + repr(bytes.fromhex(tok[len(pre) + 1:]).decode('utf-8', 'replace'))
            except ValueError:
                return tok
        return tok
    return ' '.join(d(t) for t in re.split(r'([\t \[\]])', line) if t not in ('',))


class Timer:
    def __init__(self):
        self.t0 = time.time()

    def s(self):
        return round(time.time() - self.t0, 2)


class BuildStatus:
    def __init__(self):
        self.extract_ok = True
        self.extract_msg = ''
        self.cargo_ok = True
        self.cargo_msg = ''
        self.model_ok = True
        self.model_msg = ''
        self.tables_sha = ''


def sh(cmd, cwd=None, env=None, timeout=None, inp=None):
    e = dict(os.environ)
    if env:
        e.update(env)
    p = subprocess.run(cmd, cwd=cwd, env=e, input=inp, capture_output=True, timeout=timeout)
    return p.returncode, p.stdout.decode('utf-8', 'replace'), p.stderr.decode('utf-8', 'replace')


def io_inventory_obligation(res, sides):
    """T1: the file-system call sites of the source (tools/io_sites.py) against the reviewed classification spec/io_sites.json;
    `sides`: which kinds of call the property at hand rests on ('read', 'write', 'metadata')"""
    import sys, json
    out = os.path.join(BUILD, 'io_sites.json')
    rc, so, se = sh([sys.executable, os.path.join(VERIF, 'tools', 'io_sites.py'), REPO, out])
    have = json.load(open(out)) if rc == 0 else []
    spec = json.load(open(os.path.join(VERIF, 'spec', 'io_sites.json')))
    key = lambda x: (x['file'], x['fn'], x['call'], x['args'], x['n'])
    side_of = {key(x): x['side'] for x in spec}
    hk, sk = {key(x) for x in have}, set(side_of)
    # a site that is new is of unknown side: it concerns every property; one that vanished concerns the properties of its side
    diff = sorted(k for k in hk - sk) + sorted(k for k in sk - hk if side_of[k] in sides)
    res.extra_obligations.append((f'file-system call-site inventory ({"/".join(sides)}) matches the reviewed classification (spec/io_sites.json)',
                                  rc == 0 and not diff, 'sites that differ: ' + '; '.join(f'{d[0]}:{d[1]}: {d[2]}{d[3][:60]}' for d in diff[:6])))
    res.notes.append(f'{len(have)} file-system call sites inventoried, {len(diff)} differ from the classification')


class Lock:
    def __init__(self, name='build'):
        os.makedirs(BUILD, exist_ok=True)
        self.path = os.path.join(BUILD, '.' + name + '.lock')

    def __enter__(self):
        self.f = open(self.path, 'w')
        fcntl.flock(self.f, fcntl.LOCK_EX)
        return self

    def __exit__(self, *a):
        fcntl.flock(self.f, fcntl.LOCK_UN)
        self.f.close()


def prepare(log):
    """T1 extraction, hooked cargo build, model driver build — all from /repo's current working tree."""
    st = BuildStatus()
    with Lock():
        rc, out, err = sh([sys.executable, os.path.join(VERIF, 'tools', 'extract_tables.py'), REPO, TABLES_LEAN, TABLES_JSON])
        log(out.strip())
        if rc != 0:
            st.extract_ok = False
            st.extract_msg = (out + err).strip()
            # keep the model buildable: fall back to the committed baseline tables if none exist yet
            if not os.path.exists(TABLES_LEAN):
                shutil.copy(os.path.join(VERIF, 'spec', 'Tables.baseline.lean'), TABLES_LEAN)
        try:
            st.tables_sha = json.load(open(TABLES_JSON)).get('_sha256', '')
        except Exception:
            pass
        env = {'RUSTFLAGS': '--cfg quadlet_rs_verif', 'CARGO_NET_OFFLINE': 'true'}
        rc, out, err = sh(['cargo', 'build', '--offline', '--quiet', '--manifest-path', os.path.join(REPO, 'Cargo.toml'),
                           '--target-dir', TARGET], env=env, timeout=1800)
        if rc != 0:
            st.cargo_ok = False
            st.cargo_msg = err[-4000:]
        rc, out, err = sh(['lake', 'build', 'qmodel'], cwd=LEAN, timeout=3600)
        if rc != 0:
            st.model_ok = False
            st.model_msg = (out + err)[-6000:]
    return st


# ---------------------------------------------------------------------------------------------
# drivers

MEM_LIMIT = 2 << 30      # address-space limit for the implementation under test (an allocation loop then aborts = `crash`)
STALL_S = 10             # no answer to one op for this long = `hang` (ops take milliseconds)
MAX_RESUMES = 15         # after this many crashes / hangs in one stream the remaining ops are answered `skipped`


def _limit_memory():
    import resource
    resource.setrlimit(resource.RLIMIT_AS, (MEM_LIMIT, MEM_LIMIT))


def _run_lines(cmd, lines, timeout, env=None, limit=False):
    """feed the op lines to a driver and collect one answer line per op; returns (answers so far, status) where status is
    the exit status, 'timeout' (whole-stream budget) or 'stall' (one op did not answer within STALL_S)"""
    import threading, selectors, time
    e = dict(os.environ)
    if env:
        e.update(env)
    p = subprocess.Popen(cmd, stdin=subprocess.PIPE, stdout=subprocess.PIPE, stderr=subprocess.DEVNULL, env=e, cwd='/',
                         preexec_fn=_limit_memory if limit else None)
    inp = ('\n'.join(lines) + '\n').encode()

    def feed():
        try:
            p.stdin.write(inp)
            p.stdin.close()
        except (BrokenPipeError, OSError):
            pass
    t = threading.Thread(target=feed, daemon=True)
    t.start()
    sel = selectors.DefaultSelector()
    sel.register(p.stdout, selectors.EVENT_READ)
    buf, outs = b'', []
    t0 = last = time.time()
    status = None
    os.set_blocking(p.stdout.fileno(), False)
    while True:
        now = time.time()
        if now - t0 > timeout:
            status = 'timeout'
            break
        if now - last > STALL_S and len(outs) < len(lines):
            status = 'stall'
            break
        ev = sel.select(timeout=1.0)
        if not ev:
            if p.poll() is not None:
                # process gone: drain what is left
                try:
                    rest = p.stdout.read() or b''
                except OSError:
                    rest = b''
                buf += rest
                break
            continue
        try:
            data = p.stdout.read()
        except OSError:
            data = b''
        if data is None:
            continue
        if data == b'':
            break
        buf += data
        if b'\n' in data:
            last = time.time()
            parts = buf.split(b'\n')
            buf = parts.pop()
            outs.extend(x.decode('utf-8', 'replace') for x in parts)
    if status is not None:
        p.kill()
    try:
        p.wait(timeout=10)
    except subprocess.TimeoutExpired:
        p.kill()
        p.wait()
    if buf:
        parts = buf.split(b'\n')
        if parts and parts[-1] == b'':
            parts.pop()
        outs.extend(x.decode('utf-8', 'replace') for x in parts if status is None)
    return outs, (status if status is not None else p.returncode)


def run_driver(cmd, lines, per_chunk=20000, timeout=600, env=None, limit=False):
    """run op lines through a line-protocol driver; an op that kills or hangs the driver is answered
    `crash` / `hang` and the stream is resumed after it (at most MAX_RESUMES times; then `skipped`)"""
    res = []
    i = 0
    resumes = 0
    while i < len(lines):
        if resumes >= MAX_RESUMES:
            res.extend(['skipped'] * (len(lines) - i))
            break
        chunk = lines[i:i + per_chunk]
        outs, rc = _run_lines(cmd, chunk, timeout, env, limit)
        if len(outs) >= len(chunk):
            res.extend(outs[:len(chunk)])
            i += len(chunk)
            continue
        # driver died or hung at op number len(outs) of this chunk
        res.extend(outs)
        res.append('hang' if rc in ('timeout', 'stall') else 'crash')
        i += len(outs) + 1
        resumes += 1
    return res


def run_impl(lines, **kw):
    return run_driver([BIN, '--verif-driver'], lines, limit=True, **kw)


def run_model(lines, **kw):
    return run_driver([QMODEL], lines, **kw)


# ---------------------------------------------------------------------------------------------
# proof obligations

TOKEN_SCAN = re.compile(r'\bsorry\b|\badmit\b|^axiom |native_decide|bv_decide|implemented_by|\bunsafe |maxHeartbeats 0', re.M)


def strip_lean_comments(src):
    src = re.sub(r'/-.*?-/', '', src, flags=re.S)
    src = re.sub(r'--[^\n]*', '', src)
    return src


def lean_module_path(mod):
    return os.path.join(LEAN, *mod.split('.')) + '.lean'


def module_imports(mod, seen=None):
    """transitive imports of a module inside the QM project"""
    seen = seen if seen is not None else set()
    if mod in seen:
        return seen
    seen.add(mod)
    p = lean_module_path(mod)
    if not os.path.exists(p):
        return seen
    for m in re.findall(r'^import (QM\.[\w.]+)', open(p).read(), re.M):
        module_imports(m, seen)
    return seen


def theorem_lines(mod):
    """(name, first line, last line) of every theorem/lemma declared in the module"""
    p = lean_module_path(mod)
    src = open(p).read().split('\n')
    decls = []
    ns = []
    for i, l in enumerate(src, 1):
        m = re.match(r'^namespace (\S+)', l)
        if m:
            ns.append(m.group(1))
        m = re.match(r'^end (\S+)', l)
        if m and ns and ns[-1] == m.group(1):
            ns.pop()
        m = re.match(r'^(?:@\[[^\]]*\]\s*)?(?:private |protected )?(?:theorem|lemma) (\S+)', l)
        if m:
            decls.append(['.'.join(ns + [m.group(1)]), i, len(src)])
    for a, b in zip(decls, decls[1:]):
        a[2] = b[1] - 1
    return decls


def prove(mod, theorems, log):
    """build the property module; return dict theorem -> (ok, message)"""
    res = {}
    t = Timer()
    with Lock():
        rc, out, err = sh(['lake', 'build', mod], cwd=LEAN, timeout=3600)
    text = out + err
    decls = theorem_lines(mod) if os.path.exists(lean_module_path(mod)) else []
    declared = {d[0]: d for d in decls}
    # theorems stated in lemma modules that the property module imports (table facts etc.)
    imported = {}
    for im in module_imports(mod):
        if im != mod and os.path.exists(lean_module_path(im)):
            for d in theorem_lines(im):
                imported[d[0]] = (im, d)
    relp = os.path.relpath(lean_module_path(mod), LEAN)
    errs_here = [(int(m.group(1)), m.group(2)) for m in re.finditer(r'error: ' + re.escape(relp) + r':(\d+):\d+: (.*)', text)]
    other_err = rc != 0 and not errs_here
    for th in theorems:
        if th not in declared and th in imported:
            im, (_, lo, hi) = imported[th]
            relim = os.path.relpath(lean_module_path(im), LEAN)
            errs_im = [(int(m.group(1)), m.group(2)) for m in re.finditer(r'error: ' + re.escape(relim) + r':(\d+):\d+: (.*)', text)]
            mine = [msg for (ln, msg) in errs_im if lo <= ln <= hi]
            if rc == 0 or not errs_im and not other_err and False:
                res[th] = (True, '')
            elif mine:
                res[th] = (False, mine[0])
            elif errs_im:
                earlier = [msg for (ln, msg) in errs_im if ln < lo]
                res[th] = (False, 'an earlier declaration of its module failed: ' + earlier[0]) if earlier else (True, '')
            else:
                # the failure is elsewhere (another module or the property module itself)
                m = re.search(r'error: (\S+\.lean):(\d+):\d+: (.*)', text)
                dep_failed = m and m.group(1) != relp and m.group(1) != relim and \
                    m.group(1)[:-5].replace('/', '.') in module_imports(im)
                res[th] = (False, f'a module it depends on no longer checks: {m.group(1)}:{m.group(2)}: {m.group(3)}') if dep_failed else (True, '')
            continue
        if th not in declared:
            res[th] = (False, f'theorem {th} is not declared in {mod} or its imports')
            continue
        if rc == 0:
            res[th] = (True, '')
            continue
        if other_err:
            m = re.search(r'error: (\S+\.lean):(\d+):\d+: (.*)', text)
            where = f'{m.group(1)}:{m.group(2)}: {m.group(3)}' if m else text[-500:]
            res[th] = (False, f'a module that {mod} depends on no longer checks: {where}')
            continue
        _, lo, hi = declared[th]
        mine = [msg for (ln, msg) in errs_here if lo <= ln <= hi]
        # an error in an earlier declaration of the file may be used by this theorem: be conservative
        earlier = [msg for (ln, msg) in errs_here if ln < lo]
        if mine:
            res[th] = (False, mine[0])
        elif earlier:
            res[th] = (False, 'an earlier declaration of the module failed: ' + earlier[0])
        else:
            res[th] = (True, '')
    log(f'prove {mod}: rc={rc} {sum(1 for v in res.values() if v[0])}/{len(theorems)} obligations in {t.s()}s')
    return res, text


def audit(mod, theorems, log):
    """#print axioms for every theorem + token scan of the module and everything it imports"""
    problems = []
    mods = sorted(module_imports(mod))
    for m in mods:
        p = lean_module_path(m)
        if not os.path.exists(p):
            continue
        src = strip_lean_comments(open(p).read())
        for hit in TOKEN_SCAN.finditer(src):
            problems.append(f'{m}: forbidden token {hit.group(0)!r}')
    if not theorems:
        return problems, {}
    os.makedirs(os.path.join(BUILD, 'audit'), exist_ok=True)
    f = os.path.join(BUILD, 'audit', mod.replace('.', '_') + '.lean')
    with open(f, 'w') as fh:
        fh.write(f'import {mod}\n' + ''.join(f'#print axioms {t}\n' for t in theorems))
    rc, out, err = sh(['lake', 'env', 'lean', f], cwd=LEAN, timeout=1800)
    axioms = {}
    cur = None
    for line in (out + err).split('\n'):
        m = re.match(r"'([^']+)' depends on axioms: \[(.*)", line)
        if m:
            cur = m.group(1)
            axioms[cur] = m.group(2)
            if ']' in line:
                cur = None
            continue
        m = re.match(r"'([^']+)' does not depend on any axioms", line)
        if m:
            axioms[m.group(1)] = ''
            cur = None
            continue
        if cur:
            axioms[cur] += ' ' + line
            if ']' in line:
                cur = None
    for t in theorems:
        if t not in axioms:
            problems.append(f'{t}: #print axioms gave no answer ({(out + err)[-300:]!r})')
            continue
        used = set(a.strip().rstrip(']').strip() for a in axioms[t].replace(']', '').split(',') if a.strip().rstrip(']').strip())
        bad = used - ALLOWED_AXIOMS
        if bad:
            problems.append(f'{t}: depends on axioms outside the allowed set: {sorted(bad)}')
        axioms[t] = sorted(used)
    log(f'audit {mod}: {len(theorems)} theorems, {len(problems)} problems')
    return problems, axioms


# ---------------------------------------------------------------------------------------------
# known findings

def load_known():
    known, fixed = [], []
    p = os.path.join(VERIF, 'known_findings.txt')
    if not os.path.exists(p):
        return known, fixed
    for line in open(p):
        line = line.strip()
        if not line or line.startswith('#'):
            continue
        if line.startswith('known:'):
            m = re.match(r'known: property=(\S+) id=(\S+) match=(\S+) example=(\S+) (.*)', line)
            if m:
                known.append(dict(property=m.group(1), id=m.group(2), match=m.group(3), example=m.group(4), what=m.group(5)))
        elif line.startswith('fixed:'):
            m = re.match(r'fixed: property=(\S+) (\S+) (.*)', line)
            if m:
                fixed.append(dict(property=m.group(1), commit=m.group(2), what=m.group(3)))
    return known, fixed


# ---------------------------------------------------------------------------------------------
# shrinking

def shrink_strings(fields, still_fails, budget=400, seconds=90):
    """greedy delta-debugging over a list of strings: drop fields' characters while the predicate holds
    (bounded by a number of trials and by wall-clock time: a trial may be a hang that costs the stall time-out)"""
    import time
    cur = list(fields)
    n = 0
    changed = True
    deadline = time.time() + seconds
    _sf = still_fails

    def still_fails(trial):
        nonlocal n
        if time.time() > deadline:
            n = budget
            return False
        return _sf(trial)
    while changed and n < budget:
        changed = False
        for i in range(len(cur)):
            s = cur[i]
            j = 0
            step = max(1, len(s) // 2)
            while step >= 1 and n < budget:
                j = 0
                while j < len(cur[i]) and n < budget:
                    cand = cur[i][:j] + cur[i][j + step:]
                    trial = cur[:i] + [cand] + cur[i + 1:]
                    n += 1
                    if still_fails(trial):
                        cur = trial
                        changed = True
                    else:
                        j += step
                step //= 2
    return cur


# ---------------------------------------------------------------------------------------------
# result of one check

class Result:
    def __init__(self, pid, tier, seed):
        self.pid, self.tier, self.seed = pid, tier, seed
        self.t = Timer()
        self.obligations = {}        # theorem -> (ok, msg)
        self.audit_problems = []
        self.axioms = {}
        self.extra_obligations = []  # (name, ok, msg): extraction, model build, ...
        self.corr_ops = 0
        self.corr_disagreements = []  # dicts
        self.corr_by_op = {}
        self.corr_by_outcome = {}
        self.corr_nontrivial = set()
        self.oracle_evals = 0
        self.oracle_failures = []    # dicts (unlisted)
        self.known_hits = {}         # id -> example
        self.fidelity_disagreements = 0
        self.samples = []
        self.notes = []
        self.assumptions = []
        self.checker_cmd = ''
        self.log_lines = []

    def log(self, msg):
        if msg:
            self.log_lines.append(msg)
            print(f'[{self.pid} {self.t.s():7.1f}s] {msg}', flush=True)


def write_replay(res, kind, payload):
    os.makedirs(os.path.join(VERIF, 'replays'), exist_ok=True)
    body = dict(property=res.pid, kind=kind, seed=res.seed, tier=res.tier,
                command=f'/verif/check {res.pid} {res.tier} --replay <this file>', **payload)
    h = hashlib.sha1(json.dumps(body, sort_keys=True, default=str).encode()).hexdigest()[:10]
    p = os.path.join(VERIF, 'replays', f'{res.pid}-{kind}-{h}.json')
    with open(p, 'w') as f:
        json.dump(body, f, indent=1, default=str)
    return p


def finish(res, level_note=''):
    """verdict + evidence; returns exit status"""
    ob_total = len(res.obligations) + len(res.extra_obligations)
    ob_ok = sum(1 for v in res.obligations.values() if v[0]) + sum(1 for (_, ok, _) in res.extra_obligations if ok)
    broken = [(k, v[1]) for k, v in res.obligations.items() if not v[0]] + [(n, m) for (n, ok, m) in res.extra_obligations if not ok]
    if res.audit_problems:
        broken.append(('axiom/token audit', '; '.join(res.audit_problems[:5])))
    violations = 0
    lines = []
    for kid, ex in sorted(res.known_hits.items()):
        lines.append(f'KNOWN-FINDING: property={res.pid} {kid} {ex}')
    if res.oracle_failures:
        f0 = res.oracle_failures[0]
        p = write_replay(res, 'oracle-failure', f0)
        lines.append(f'VIOLATION property={res.pid} replay={p}')
        violations = len(res.oracle_failures)
    elif broken or res.corr_disagreements:
        payload = {}
        if broken:
            payload['broken_obligations'] = [dict(theorem=k, lean_error=m) for k, m in broken]
        if res.corr_disagreements:
            payload['correspondence_disagreements'] = res.corr_disagreements[:10]
        payload['explanation'] = ('the property is no longer shown to hold: the named theorem(s) or the model/implementation '
                                  'correspondence no longer check; the search over the implementation with the property\'s oracle '
                                  f'({res.oracle_evals} evaluations) found no failing input')
        p = write_replay(res, 'broken-obligation' if broken else 'model-disagreement', payload)
        lines.append(f'VIOLATION property={res.pid} replay={p} no-failing-input-found')
        violations = 1
    ev = dict(
        property_id=res.pid, tier=res.tier, seed=res.seed, level='proof',
        coverage=dict(
            obligations=max(ob_total, 1), discharged=ob_ok,
            checker_cmd=res.checker_cmd,
            trusted_base=TRUSTED_BASE,
            theorems=[dict(name=k, ok=v[0], axioms=res.axioms.get(k, [])) for k, v in res.obligations.items()],
            other_obligations=[dict(name=n, ok=ok, msg=m[:300]) for (n, ok, m) in res.extra_obligations],
            audit_problems=res.audit_problems,
            correspondence=dict(ops=res.corr_ops, disagreements=len(res.corr_disagreements),
                                distinct_nontrivial=len(res.corr_nontrivial), by_op=res.corr_by_op,
                                by_outcome=res.corr_by_outcome),
            oracle=dict(evaluations=res.oracle_evals, failures=len(res.oracle_failures),
                        known_findings_hit=sorted(res.known_hits)),
            fidelity_disagreements=res.fidelity_disagreements,
            evaluations=res.corr_ops + res.oracle_evals,
            distinct_nontrivial=len(res.corr_nontrivial),
            rule='correspondence ops are generated from VERIF_SEED by the property\'s generators (bounded-exhaustive over small '
                 'adversarial alphabets, then random); an op counts as non-trivial when the implementation answered with a '
                 'non-error, non-empty result; distinct = distinct op lines',
            samples=res.samples[:12],
            notes=res.notes,
        ),
        assumptions=res.assumptions + ([level_note] if level_note else []),
        wall_s=res.t.s(), violations=violations)
    os.makedirs(os.path.join(VERIF, 'evidence'), exist_ok=True)
    p = os.path.join(VERIF, 'evidence', f'{res.pid}.json')
    with open(p + '.tmp', 'w') as f:
        json.dump(ev, f, indent=1, default=str)
    os.replace(p + '.tmp', p)
    for l in lines:
        print(l, flush=True)
    print(f'[{res.pid}] obligations {ob_ok}/{ob_total}, correspondence {res.corr_ops} ops / {len(res.corr_disagreements)} disagreements, '
          f'oracle {res.oracle_evals} evaluations / {len(res.oracle_failures)} failures, {res.t.s()}s', flush=True)
    return 1 if violations else 0
