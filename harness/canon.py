"""Canonicalisation of converter outputs: option groups whose order Rust leaves unspecified
(HashMap iteration: --env/--label/--annotation/--opt) are sorted; error messages are dropped."""
import re
from core import hx, unhx

KV = {'--label', '--env', '--annotation', '--opt'}


def toks(line):
    """split a rendered command line at unquoted spaces, keeping the quoting (no unescaping)"""
    out, cur, q, i = [], '', False, 0
    while i < len(line):
        c = line[i]
        if q:
            cur += c
            if c == '\\' and i + 1 < len(line):
                cur += line[i + 1]
                i += 1
            elif c == '"':
                q = False
        elif c == '"':
            q = True
            cur += c
        elif c == ' ':
            out.append(cur)
            cur = ''
        else:
            cur += c
        i += 1
    out.append(cur)
    return out


def canon_exec(raw):
    t = toks(raw)
    i, o = 0, []
    while i < len(t):
        if t[i] in KV and i + 1 < len(t):
            f, run = t[i], []
            while i + 1 < len(t) and t[i] == f:
                run.append(t[i + 1])
                i += 2
            for v in sorted(run):
                o += [f, v]
        else:
            o.append(t[i])
            i += 1
    return ' '.join(o)


def canon_result(out):
    """canonical form of one answer of the `convert` op (impl or model)"""
    out = re.sub(r'(err \w+) x[0-9a-f]*', r'\1', out)
    tok = out.split(' ')
    for i in range(len(tok) - 1):
        if tok[i].startswith('Kx') and unhx(tok[i][1:]).startswith('Exec') and tok[i + 1].startswith('Vx'):
            tok[i + 1] = 'V' + hx(canon_exec(unhx(tok[i + 1][1:])))
    return ' '.join(tok)


def parse_convert(out):
    """answer of `convert` -> list of ('svc', path, {section: [(key, raw)]}, [sections in order]) | ('err', variant, message) | ('loaderr', cls)"""
    res = []
    if not out.startswith('ok '):
        return [('bad', out)]
    for part in out[3:].split(' | '):
        t = part.split(' ')
        if t[0] == 'svc':
            secs, order, cur = {}, [], None
            i = 2
            while i < len(t):
                if t[i].startswith('S'):
                    cur = unhx(t[i][1:])
                    secs.setdefault(cur, [])
                    order.append(cur)
                    i += 1
                elif t[i].startswith('K'):
                    secs[cur].append((unhx(t[i][1:]), unhx(t[i + 1][1:])))
                    i += 2
                else:
                    i += 1
            res.append(('svc', unhx(t[1]), secs, order))
        elif t[0] == 'err':
            res.append(('err', t[1], unhx(t[2]) if len(t) > 2 else ''))
        else:
            res.append(tuple(t))
    return res
