"""File-level spellings of a set of units (T2b): the same units written as one file each ("plain") and written in another way
that must not change what is generated — the tail of a file moved into one or two drop-ins (same directory, the template's
drop-in directory, or the unit's drop-in directory in another search directory), or made long (comment blocks, blank lines or a
single comment line beyond 64 KiB and beyond 1 MiB).  Both trees are given to the real binary (which loads them through
load_from_path / load_dropins_from, the path the text-level driver operations do not take) and the printed services are compared.

Why the two spellings are equivalent (C03, C13, C15): drop-ins are merged after the main file in name order, whatever search
directory they come from; merging appends each section's entries to the section of the same name; a repeated header extends its
section; comments and blank lines are ignored.  So a unit whose lines L1..Ln are split at a line boundary (outside a continued
value) into a main file L1..Lk and drop-ins that re-open the current section and carry Lk+1..Ln in name order denotes the same
unit as the single file."""
import os, re, shutil
import e2e, canon

MiB = 1 << 20


def boundaries(text):
    """[(i, header)]: line indices where the file can be cut (not inside a continued value), with the section open there"""
    lines = text.split('\n')
    if lines and lines[-1] == '':
        lines = lines[:-1]
    out, cur, cont = [], None, False
    for i, l in enumerate(lines):
        if not cont and cur is not None and i > 0:
            out.append((i, cur))
        st = l.strip(' \t')
        if cont:
            if st.startswith('#') or st.startswith(';'):
                continue            # a comment inside a continued value is skipped, the value goes on
            cont = l.rstrip(' \t').endswith('\\')
            continue
        if st.startswith('#') or st.startswith(';') or st == '':
            continue
        if st.startswith('[') and st.endswith(']'):
            cur = st
            continue
        cont = l.rstrip(' \t').endswith('\\')
    return lines, out


def filler(rnd, size, kind):
    if kind == 'block':
        line = '# ' + 'filler für Notfälle ' * 3 + '\n'
        return line * (size // len(line.encode()) + 1)
    if kind == 'blank':
        return rnd.choice(['\n', '  \n', '\t\n']) * size
    return '; ' + 'x' * size + '\n'          # one long comment line


def respell(rnd, name, text, how):
    """{relative path: content} of the unit `name` spelled in the way `how`; None when that spelling does not apply"""
    lines, bs = boundaries(text)
    if not bs:
        return None
    ext = name.rsplit('.', 1)[-1]
    stem = name[:-(len(ext) + 1)]
    if how.startswith('big:'):
        _, size, kind = how.split(':')
        i, hdr = rnd.choice(bs)
        body = '\n'.join(lines[:i]) + '\n' + filler(rnd, int(size), kind) + '\n'.join(lines[i:]) + '\n'
        return {'src/' + name: body}
    if how == 'link':
        # the unit file is a symbolic link to a file of ANOTHER name kept outside the search directories: a link to a file is that
        # file, known by the link's name (its type, its service name, the name other units refer to it by)
        other_ext = 'volume' if ext != 'volume' else 'container'
        return {f'store/real-{sum(map(ord, name)) % 997}.{other_ext}': text, 'src/' + name: ('link', f'../store/real-{sum(map(ord, name)) % 997}.{other_ext}')}
    i, hdr = rnd.choice(bs[len(bs) // 3:] or bs)
    main = '\n'.join(lines[:i]) + '\n'
    rest = lines[i:]
    ddir = name + '.d'
    if how == 'template-dir':
        if '@' not in stem or stem.endswith('@') or stem.startswith('@'):
            return None
        ddir = stem.split('@', 1)[0] + '@.' + ext + '.d'
    if how in ('dropin', 'template-dir'):
        return {'src/' + name: main, f'src/{ddir}/50-tail.conf': hdr + '\n' + '\n'.join(rest) + '\n'}
    if how == 'bigdropin':
        return {'src/' + name: main, f'src/{ddir}/50-tail.conf': hdr + '\n' + filler(rnd, MiB + 4096, 'block') + '\n'.join(rest) + '\n'}
    # two drop-ins: the second one re-opens the section that is open where the first one ends
    sub_lines, sub_bs = boundaries(hdr + '\n' + '\n'.join(rest) + '\n')
    sub_bs = [b for b in sub_bs if b[0] >= 1]
    if not sub_bs:
        return None
    j, hdr2 = rnd.choice(sub_bs)
    first = '\n'.join(sub_lines[:j]) + '\n'
    second = hdr2 + '\n' + '\n'.join(sub_lines[j:]) + '\n'
    if how == 'two':
        return {'src/' + name: main, f'src/{ddir}/10-a.conf': first, f'src/{ddir}/20-b.conf': second}
    if how == 'two-dirs':
        # name order decides, not directory order: the later name sits in the directory that sorts (and is searched) first
        return {'src/' + name: main, f'src/{ddir}/10-a.conf': first, f'alt/{ddir}/20-b.conf': second}
    if how == 'two-dirs-rev':
        return {'src/' + name: main, f'alt/{ddir}/10-a.conf': first, f'src/{ddir}/20-b.conf': second}
    raise ValueError(how)


DROPIN_WAYS = ['dropin', 'dropin', 'two', 'two-dirs', 'two-dirs-rev', 'template-dir', 'link']
BIG_WAYS = [f'big:{MiB + 70000}:block', f'big:{MiB + 70000}:line', f'big:{MiB + 4096}:blank', 'big:70000:block', 'big:70000:line',
            f'big:{2 * MiB + 99}:block', 'bigdropin']


def norm(text, base):
    text = text.replace(base, '<BASE>')
    import trees
    return trees.canon_members('\n'.join(canon.canon_exec(l) if re.match(r'^Exec\w*=', l) else l for l in text.split('\n')))


def run(files):
    links = {k: v[1] for k, v in files.items() if isinstance(v, tuple)}
    files = {k: v for k, v in files.items() if not isinstance(v, tuple)}
    r = e2e.run_case(files, dirs=('src', 'alt'), dry_run=True, keep=True, symlinks=links)
    base = r['base']
    shutil.rmtree(base, ignore_errors=True)
    printed = {os.path.basename(k): norm(v, base) for k, v in r['printed'].items()}
    errs = sorted(norm(l, base) for l in e2e.error_lines(r['stderr']))
    return dict(exit=r['exit'], printed=printed, errors=errs)


def compare(ctx, sets, ways, label, parses=None):
    """sets: [{unit file name: text}] — every set is generated once as plain files and once respelled; any difference in the
    printed services, the exit status or the number of reported errors is an oracle failure"""
    res, rnd = ctx.res, ctx.rnd
    if parses is None:
        # only files the reader accepts are respelled: a file it rejects is rejected as a whole, while the same text in a drop-in
        # fails the drop-in only (the unit is then converted without it) — the two spellings are not equivalent there
        from core import hx
        texts = sorted({t for units in sets for t in units.values()})
        okay = {t for t, a in zip(texts, ctx.impl(['parse\t' + hx(t) for t in texts])) if a.startswith('ok')}
        parses = lambda t: t in okay
    jobs = []
    for units in sets:
        plain, other, hows = {}, {}, {}
        for name, text in units.items():
            plain['src/' + name] = text
            how = rnd.choice(ways)
            alt = respell(rnd, name, text, how) if (parses is None or parses(text)) else None
            if alt is None and not how.startswith('big') and (parses is None or parses(text)):
                how = 'dropin'
                alt = respell(rnd, name, text, how)
            if alt is None:
                other['src/' + name] = text
            else:
                other.update(alt)
                hows[name] = how
        if hows:
            jobs.append((plain, other, hows))
    outs = e2e.pmap(lambda j: (run(j[0]), run(j[1])), jobs)
    n = {}
    for (plain, other, hows), (a, b) in zip(jobs, outs):
        res.oracle_evals += 1
        for h in hows.values():
            n[h.split(':')[0] + (':' + h.split(':')[2] if ':' in h else '')] = n.get(h.split(':')[0] + (':' + h.split(':')[2] if ':' in h else ''), 0) + 1
        if a['exit'] == 'timeout' or b['exit'] == 'timeout':
            res.oracle_failures.append(dict(op='e2e ' + label, input=dict(files=_short(other)), impl_output='timeout', oracle_expectation='the generator ends'))
            continue
        diff = None
        if a['printed'] != b['printed']:
            k = next((k for k in sorted(set(a['printed']) | set(b['printed'])) if a['printed'].get(k) != b['printed'].get(k)))
            diff = f'service {k} differs: ' + _first_diff(a['printed'].get(k), b['printed'].get(k))
        elif (a['exit'] == 0) != (b['exit'] == 0) or len(a['errors']) != len(b['errors']):
            diff = f'exit/errors differ: {a["exit"]} {a["errors"][:2]} vs {b["exit"]} {b["errors"][:2]}'
        if diff:
            res.oracle_failures.append(dict(op='e2e ' + label, input=dict(spelled=hows, files=_short(other), plain=_short(plain)),
                                            impl_output=diff[:900],
                                            oracle_expectation='the same services as for the one-file spelling of the same units (drop-ins are merged after the main file in name order; comments and blank lines are ignored whatever their size)'))
    res.notes.append(f'file-level spellings ({label}): {len(jobs)} unit sets through the real loader, by spelling {dict(sorted(n.items()))}')


def _short(files):
    return {k: (v if isinstance(v, tuple) or len(v) < 1500 else v[:400] + f'… [{len(v)} bytes] …' + v[-400:]) for k, v in files.items()}


def _first_diff(x, y):
    if x is None or y is None:
        return 'generated in one of the two runs only'
    xl, yl = x.split('\n'), y.split('\n')
    for p, q in zip(xl, yl):
        if p != q:
            return f'plain: {p[:300]!r} | respelled: {q[:300]!r}'
    return f'{len(xl)} vs {len(yl)} lines; plain ends {xl[-3:]!r}, respelled ends {yl[-3:]!r}'
