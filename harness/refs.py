"""Independent (Python) statement of name resolution between Quadlet units, used by the C08–C10 oracles.
Units here are written by the harness with plain values (no quoting), so the effective value of a key is the text
after '=' of its last assignment."""
import gen_units as G

SUFFIX = {'container': '', 'kube': '', 'volume': '-volume', 'network': '-network', 'image': '-image', 'build': '-build', 'pod': '-pod'}


def parse_simple(text):
    secs, cur = {}, None
    for l in text.split('\n'):
        if l.startswith('[') and l.endswith(']'):
            cur = l[1:-1]
            secs.setdefault(cur, [])
        elif '=' in l and cur is not None:
            k, v = l.split('=', 1)
            secs[cur].append((k, v))
    return secs


def last(entries, k):
    v = [x for kk, x in entries if kk == k]
    return v[-1] if v else None


def all_values(entries, k):
    res = []
    for kk, v in entries:
        if kk == k:
            if v == '':
                res = []
            else:
                res.append(v)
    return res


def ty_of(name):
    return name.rsplit('.', 1)[1]


def stem_of(name):
    return name.rsplit('.', 1)[0]


def service_name(name, text):
    own = parse_simple(text).get(G.SEC[ty_of(name)], [])
    sn = last(own, 'ServiceName')
    return sn if sn is not None else stem_of(name) + SUFFIX[ty_of(name)]


def is_template(name):
    st = stem_of(name)
    return '@' in st and st.split('@', 1)[0] != ''


def object_name(name, text):
    """podman object the unit creates; None when it cannot be named (a container name that still contains '%')"""
    ty = ty_of(name)
    own = parse_simple(text).get(G.SEC[ty], [])
    if ty == 'volume':
        return last(own, 'VolumeName') or 'systemd-' + stem_of(name)
    if ty == 'network':
        return last(own, 'NetworkName') or 'systemd-' + stem_of(name)
    if ty == 'image':
        return last(own, 'ImageTag') or last(own, 'Image')
    if ty == 'build':
        tags = [t for t in all_values(own, 'ImageTag') if t]
        return tags[0] if tags else None
    if ty == 'container':
        cn = last(own, 'ContainerName')
        if cn is None:
            cn = 'systemd-%p_%i' if is_template(name) else 'systemd-%N'
        r = cn.replace('%N', service_name(name, text))
        return None if '%' in r else r
    return None
