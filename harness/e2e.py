"""End-to-end runs of the real binary on materialised trees (T2b)."""
import os, re, shutil, subprocess, hashlib, itertools, threading
from concurrent.futures import ThreadPoolExecutor
import core

E2E = os.path.join(core.BUILD, 'e2e')
_ctr = itertools.count()
_lock = threading.Lock()


def fresh_dir():
    with _lock:
        n = next(_ctr)
    d = os.path.join(E2E, f'{os.getpid()}-{n}')
    shutil.rmtree(d, ignore_errors=True)
    os.makedirs(d)
    return d


def write_tree(base, files, symlinks=None):
    """files: {relative path: str | bytes | None (= directory)}"""
    for rel, content in files.items():
        p = os.path.join(base, rel) if isinstance(rel, str) else os.path.join(base.encode(), rel)
        if content is None:
            os.makedirs(p, exist_ok=True)
            continue
        os.makedirs(os.path.dirname(p), exist_ok=True)
        with open(p, 'wb') as f:
            f.write(content.encode('utf-8', 'surrogateescape') if isinstance(content, str) else content)
    for rel, target in (symlinks or {}).items():
        p = os.path.join(base, rel)
        os.makedirs(os.path.dirname(p), exist_ok=True)
        os.symlink(target, p)


def snapshot(root):
    """{relative path: ('d',) | ('f', sha1, size) | ('l', target)} of everything below root"""
    snap = {}
    for dp, dns, fns in os.walk(root, followlinks=False):
        for n in dns + fns:
            p = os.path.join(dp, n)
            rel = os.path.relpath(p, root)
            if os.path.islink(p):
                snap[rel] = ('l', os.readlink(p))
            elif os.path.isdir(p):
                snap[rel] = ('d',)
            elif not os.path.isfile(p):
                snap[rel] = ('special', os.lstat(p).st_mode)   # a FIFO, a socket, a device: never opened (reading one may never return)
            else:
                try:
                    b = open(p, 'rb').read()
                    snap[rel] = ('f', hashlib.sha1(b).hexdigest(), len(b))
                except OSError as e:
                    snap[rel] = ('?', str(e))
    return snap


MARK = re.compile(r'^---"((?:[^"\\]|\\.)*)"---$', re.M)


def split_dry_run(stdout):
    """{service path as printed: text} from the --dry-run output"""
    res, order = {}, []
    parts = MARK.split(stdout)
    # parts: [pre, path1, text1, path2, text2, ...]
    for i in range(1, len(parts) - 1, 2):
        name = parts[i].encode().decode('unicode_escape', 'replace') if '\\' in parts[i] else parts[i]
        text = parts[i + 1]
        if text.startswith('\n'):
            text = text[1:]
        res[name] = text
        order.append((name, text))
    return res, order


PRLIMIT = shutil.which('prlimit')


def run_binary(args, env_dirs, extra_env=None, timeout=20, cwd=None, arg0=None, fsize_limit=None, as_uid=None, binary=None):
    env = {k: v for k, v in os.environ.items() if k not in ('PODMAN', 'QUADLET_UNIT_DIRS')}
    env['QUADLET_UNIT_DIRS'] = env_dirs
    if extra_env:
        env.update(extra_env)
    def pre():
        # every run of the binary under test: bounded address space (an allocation loop aborts instead of eating the host)
        import resource
        resource.setrlimit(resource.RLIMIT_AS, (core.MEM_LIMIT, core.MEM_LIMIT))
    if as_uid is not None:
        def pre():
            import resource
            resource.setrlimit(resource.RLIMIT_AS, (core.MEM_LIMIT, core.MEM_LIMIT))
            # drop privileges: permission faults (EACCES/EPERM) exist for unprivileged users only
            os.setgroups([])
            os.setgid(as_uid)
            os.setuid(as_uid)
    elif fsize_limit is not None:
        def pre():
            import resource as _r
            _r.setrlimit(_r.RLIMIT_AS, (core.MEM_LIMIT, core.MEM_LIMIT))
            # every file this process writes may grow to fsize_limit bytes only; the write that crosses the limit is
            # accepted partially and the next one fails with EFBIG (SIGXFSZ ignored): a sink with a byte budget
            import resource, signal
            signal.signal(signal.SIGXFSZ, signal.SIG_IGN)
            resource.setrlimit(resource.RLIMIT_FSIZE, (fsize_limit, fsize_limit))
    try:
        cmd = [binary or core.BIN] + args
        if as_uid is None and fsize_limit is None and PRLIMIT:
            # the common case: bound the address space with the prlimit wrapper (no preexec_fn, so Python can use the fast spawn path)
            cmd = [PRLIMIT, '--as=%d' % core.MEM_LIMIT] + cmd
            pre = None
        p = subprocess.run(cmd, env=env, capture_output=True, timeout=timeout, cwd=cwd, preexec_fn=pre)
        return p.returncode, p.stdout.decode('utf-8', 'replace'), p.stderr.decode('utf-8', 'replace')
    except subprocess.TimeoutExpired as ex:
        return 'timeout', (ex.stdout or b'').decode('utf-8', 'replace'), (ex.stderr or b'').decode('utf-8', 'replace')


def run_case(files, dirs=('src',), dry_run=False, is_user=False, symlinks=None, out_pre=None, keep=False, out_name='out', extra_args=None):
    """materialise a tree, run the generator, return a result record"""
    base = fresh_dir()
    for d in dirs:
        os.makedirs(os.path.join(base, d), exist_ok=True)
    write_tree(base, files, symlinks)
    out = os.path.join(base, out_name)
    if out_pre is not None:
        write_tree(out, out_pre.get('files', {}), out_pre.get('symlinks'))
    before = snapshot(base)
    args = (['--dry-run'] if dry_run else []) + (['--user'] if is_user else []) + ['--no-kmsg-log'] + (extra_args or []) + [out]
    rc, so, se = run_binary(args, ':'.join(os.path.join(base, d) for d in dirs))
    after = snapshot(base)
    res = dict(base=base, out=out, exit=rc, stdout=so, stderr=se, before=before, after=after)
    if dry_run:
        res['printed'], res['printed_order'] = split_dry_run(so)
    else:
        res['services'] = {}
        if os.path.isdir(out):
            for fn in os.listdir(out):
                p = os.path.join(out, fn)
                if os.path.isfile(p) and not os.path.islink(p):
                    try:
                        res['services'][fn] = open(p, 'rb').read().decode('utf-8', 'replace')
                    except OSError:
                        pass
    if not keep:
        shutil.rmtree(base, ignore_errors=True)
    return res


STALE_TAIL = '\n[X-Stale]\nLeft=over from an older, longer generation\n[Install]\nWantedBy=stale.target\n'


def make_stale(out):
    """make every regular file in the output directory longer (an older generation of the same unit that was longer):
    a run that follows must replace the files, not write over their beginning"""
    if os.path.isdir(out):
        for fn in os.listdir(out):
            p = os.path.join(out, fn)
            if os.path.isfile(p) and not os.path.islink(p):
                with open(p, 'ab') as f:
                    f.write(STALE_TAIL.encode() * 3)


def run_pair(files, dirs=('src',), is_user=False, symlinks=None, stale=False, extra_dirs=(), unpriv_default_logging=False):
    """the same materialised tree: first --dry-run (with before/after snapshot), then a normal run
    (stale: into an output directory that already holds longer files of the same names)"""
    base = fresh_dir()
    kw, nolog = {}, ['--no-kmsg-log']
    if unpriv_default_logging:
        # who runs the generator and how it logs are part of the environment: an unprivileged process (every user generator) cannot open
        # /dev/kmsg; with the default logging the normal run finds that out on its first message and must fall back to stderr
        import tempfile
        shutil.rmtree(base, ignore_errors=True)
        base = tempfile.mkdtemp(prefix='qverif-pair-', dir='/tmp')
        os.chmod(base, 0o777)
        shutil.copy(core.BIN, os.path.join(base, 'quadlet-rs'))
        kw, nolog = dict(as_uid=1001, binary=os.path.join(base, 'quadlet-rs')), []
    for d in dirs:
        os.makedirs(os.path.join(base, d), exist_ok=True)
    write_tree(base, files, symlinks)
    if unpriv_default_logging:
        subprocess.run(['chmod', '-R', 'a+rX', base])
    out = os.path.join(base, 'out')
    # extra_dirs: further entries of QUADLET_UNIT_DIRS that are not created as directories (missing, dangling links, loops, files)
    dirs_env = ':'.join(os.path.join(base, d) for d in list(dirs) + list(extra_dirs))
    before = snapshot(base)
    u = ['--user'] if is_user else []
    rc, so, se = run_binary(['--dry-run'] + u + ['--no-kmsg-log', out], dirs_env, **kw)
    after = snapshot(base)
    d = dict(exit=rc, stdout=so, stderr=se, before=before, after=after)
    d['printed'], d['printed_order'] = split_dry_run(so)
    if stale:
        run_binary(u + ['--no-kmsg-log', out], dirs_env, **kw)
        make_stale(out)
    rc, so, se = run_binary(u + nolog + [out], dirs_env, **kw)
    n = dict(exit=rc, stdout=so, stderr=se, services={}, after=snapshot(base))
    if os.path.isdir(out):
        for fn in os.listdir(out):
            p = os.path.join(out, fn)
            if os.path.isfile(p) and not os.path.islink(p):
                n['services'][fn] = open(p, 'rb').read().decode('utf-8', 'replace')
    shutil.rmtree(base, ignore_errors=True)
    return d, n


def error_lines(stderr):
    """ERROR lines without the pid prefix"""
    return sorted(l.split('ERROR - ', 1)[1] for l in stderr.split('\n') if 'ERROR - ' in l)


def pmap(fn, items, workers=16):
    with ThreadPoolExecutor(workers) as ex:
        return list(ex.map(fn, items))


def strip_header(text):
    """drop the leading '# Automatically generated by' comment line of a written service file"""
    if text.startswith('# Automatically generated by'):
        return text.split('\n', 1)[1] if '\n' in text else ''
    return text


def line_reader(text):
    """independent reader of a generated unit: one line per entry, no trimming, no continuation"""
    secs, cur, err = [], None, None
    for line in text.split('\n'):
        if line == '' or line[0] in '#;':
            continue   # blank and comment lines are not entries (a reader ignores them wherever they stand)
        if line.startswith('[') and line.endswith(']'):
            cur = (line[1:-1], [])
            secs.append(cur)
        elif '=' in line and cur is not None:
            k, v = line.split('=', 1)
            cur[1].append((k, v))
        else:
            err = f'unreadable line {line!r}'
    return secs, err
