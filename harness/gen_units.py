"""Type-directed generators of Quadlet units and unit sets (from the extracted key tables)."""
SUP = {'container': 'SUPPORTED_CONTAINER_KEYS', 'image': 'SUPPORTED_IMAGE_KEYS', 'volume': 'SUPPORTED_VOLUME_KEYS',
       'network': 'SUPPORTED_NETWORK_KEYS', 'pod': 'SUPPORTED_POD_KEYS', 'kube': 'SUPPORTED_KUBE_KEYS', 'build': 'SUPPORTED_BUILD_KEYS'}
SEC = {'container': 'Container', 'image': 'Image', 'volume': 'Volume', 'network': 'Network', 'pod': 'Pod', 'kube': 'Kube', 'build': 'Build'}
TYPES = list(SEC)
BASE = {'container': ['Image=localhost/img'], 'image': ['Image=quay.io/x/y'], 'volume': [], 'network': [], 'pod': [],
        'kube': ['Yaml=/opt/k.yaml'], 'build': ['ImageTag=localhost/t', 'File=/opt/Containerfile']}
ALT = {'container': [(['Rootfs=/var/lib/rootfs'], ('Image',)), (['Rootfs=/var/lib/r:O'], ('Image',))],
       'build': [(['ImageTag=localhost/t', 'SetWorkingDirectory=/opt/ctx'], ('File',))]}
VALS = ['k=1 k=2', 'a=1 b=2 a=3', '-/dev/null:/dev/n:rwm', '-/dev/null:/dev/n', '/dev/null:/dev/n:rwm', '-/dev/nope:/dev/n:rwm', 'x', 'a b', '"a b"', "'q'", 'yes', 'no', 'true', '0', '', 'k=v', 'k=v l=w', '"k=v w" z=1', 'a:b', 'a:b:c:d', '/abs/p', './rel/p', '../up',
        '%h/x', '10', '1-2/tcp', 'é', 'a\\nb', 'a\\x41', 'auto', 'manual', 'keep-id', 'image', 'x.volume:/d', 'type=bind,source=./s,target=/t',
        'type=tmpfs,dst=/x', 'type=glob,src=./conf/*.cfg,dst=/etc/app', 'type=image,source=./img,dst=/i', 'type=volume,src=./v,dst=/m', 'type=devpts,dst=/dev/pts', 'foo.network', 'host', 'none:opt', 'oneshot', 'notify', 'mixed', 'healthy', 'yaml', 'unit', 'file', 'registry',
        '-/dev/null', '-/dev/nope:rw', 'CAP_X y', 'a,b', 'a=b=c', '%%x', 'x y  z', '1000', 'keep-id:uid=1', 'local', 'nfs', '10.0.0.0/24',
        # the empty string in its quoted spellings, and a repeated word
        '""', "''", 'w w', 'a.yml a.yml ./a.yml']


def respell(rnd, k, v):
    """another spelling of the assignment k=v as a unit-file line: spacing around '=', trailing blanks, the value wholly
    quoted, a character written as an escape, protected white space at the ends (which changes the value: used in
    streams where model and implementation are compared on the same text, not where a Python oracle reads the text)"""
    r = rnd.random()
    if r < 0.2:
        return k + rnd.choice([' ', '  ', '\t']) + '=' + rnd.choice(['', ' ', '\t ']) + v + rnd.choice(['', ' ', ' \t'])
    if r < 0.45 and '"' not in v and '\\' not in v:
        return k + '="' + v + '"'
    if r < 0.55 and "'" not in v and '\\' not in v:
        return k + "='" + v + "'"
    if r < 0.75 and v and '\\' not in v:
        i = rnd.randrange(len(v))
        c = v[i]
        if ord(c) < 0x80 and c not in '"\'':
            return k + '=' + v[:i] + rnd.choice(['\\x%02x' % ord(c), '\\%03o' % ord(c), '\\u%04x' % ord(c)]) + v[i + 1:]
    if r < 0.9 and '"' not in v and '\\' not in v:
        return k + '="' + rnd.choice([' ', '\\t', '']) + v + rnd.choice([' ', '\\n', '\\s', '']) + '"'
    return k + '=' + v


def unit(rnd, tables, ty, nkeys=10, near_miss=0.03, extras=True):
    keys = tables['supported'][SUP[ty]]
    base, excl = list(BASE[ty]), ()
    if ty in ALT and rnd.random() < 0.25:
        # the other object a unit of this type can be about (a valid unit names exactly one of them)
        base, excl = rnd.choice(ALT[ty])
    if excl and rnd.random() < 0.9:
        keys = [k for k in keys if k not in excl] or keys
    lines = ['[' + SEC[ty] + ']'] + list(base)
    for _ in range(rnd.randint(0, nkeys)):
        k = rnd.choice(keys)
        if rnd.random() < near_miss:
            k = k.lower()
        v = rnd.choice(VALS)
        lines.append(respell(rnd, k, v) if rnd.random() < 0.2 else k + '=' + v)
    extra = []
    if extras:
        if rnd.random() < 0.4:
            extra += ['[Service]'] + [rnd.choice(['KillMode=control-group', 'KillMode=none', 'KillMode=mixed', 'Type=oneshot', 'Type=notify', 'Type=simple',
                                                  'SyslogIdentifier=me', 'RemainAfterExit=no', 'WorkingDirectory=/w', 'WorkingDirectory=', 'Restart=always',
                                                  'NotifyAccess=main', 'Environment=A=1', 'ExecStartPre=/bin/true'])
                                      for _ in range(rnd.randint(1, 3))]
        if rnd.random() < 0.4:
            extra += ['[Unit]'] + [rnd.choice(['After=x.service', 'After=', 'Wants=y.target', 'Description=d e', 'Requires=z.service'])
                                   for _ in range(rnd.randint(1, 2))]
        if rnd.random() < 0.2:
            extra += ['[Quadlet]', rnd.choice(['DefaultDependencies=no', 'DefaultDependencies=yes', 'DefaultDependencies=', 'Bogus=1'])]
        if rnd.random() < 0.2:
            extra += ['[X-' + SEC[ty] + ']', 'Mine=1']
        if rnd.random() < 0.2:
            extra += ['[Install]', 'WantedBy=default.target']
        if rnd.random() < 0.1:
            extra += ['[My Section]', 'Foo=bar', 'Foo=']
    lines = lines + extra if rnd.random() < 0.5 else extra + lines
    return '\n'.join(lines) + '\n'


def file_name(rnd, ty):
    return rnd.choice(['a', 'web-1', 'tpl@', 'tpl@inst', 'x.y', 'my app', 'é']) + '.' + ty


def unit_set(rnd):
    """a set of 1-6 units with a random reference graph (incl. dangling references)"""
    n = rnd.randint(1, 6)
    stems = rnd.sample(['a', 'b', 'web', 'db', 'net1', 'vol-x', 'img', 'p1', 'p2', 'k', 'bld', 'tpl@', 'c.d'], n)
    units = [(st, rnd.choice(TYPES)) for st in stems]
    member_of = {}
    if n >= 2 and rnd.random() < 0.25:
        # a pod with members: state carried from the containers to the pod (converted last) is a frequent case, not a rare one
        units[0] = (units[0][0], 'pod')
        for i in range(1, rnd.randint(2, min(n, 3))):
            units[i] = (units[i][0], 'container')
            member_of[units[i][0]] = units[0][0] + '.pod'
    names = [st + '.' + ty for st, ty in units]

    FALLBACK = {'image': 'localhost/i', 'build': 'localhost/b', 'network': 'mynet', 'container': 'host', 'volume': 'named', 'pod': ''}

    def ref(ext, missing=0.06):
        """a reference to a unit of the set with that extension; when there is none, mostly a plain (non-reference) value,
        so that most units still convert — dangling references are a small, deliberate share"""
        c = [x for x in names if x.endswith('.' + ext)]
        r = rnd.random()
        gone = rnd.choice(['missing.', 'missing.', 'not.there.', 'app.v2.', 'reg:5000.', 'a-b_c.']) + ext
        if r < missing:
            return gone
        if c:
            return rnd.choice(c)
        return FALLBACK[ext] if r < 0.9 else gone
    files = {}

    def named(k, v, allow_empty=True):
        """the lines that give naming key k the value v — in one of the forms an assignment history can take (the value a
        referrer sees must be the one the unit itself uses: last assignment / list with resets)"""
        alt = 'stale-' + k.lower()   # must not contain v (the oracles look for v in the command line)
        r = rnd.random()
        if r < 0.5:
            return [f'{k}={v}']
        if r < 0.62:
            return [f'{k}={alt}', f'{k}={v}']
        if r < 0.74:
            return [f'{k}={alt}', f'{k}=', f'{k}={v}']
        if r < 0.82 and allow_empty:
            return [f'{k}={v}', f'{k}=']
        if r < 0.88 and allow_empty:
            return [f'{k}=']
        if r < 0.94:
            return [f'{k}={v}', f'{k}={alt}']
        return [f'{k}=', f'{k}={v}', f'{k}={alt}']
    def like(v):
        """a fifth of the object names end like a Quadlet file of some type: the name a unit resolves to is a podman name, not a reference"""
        return v + rnd.choice(['.image', '.build', '.volume', '.network', '.container', '.pod']) if rnd.random() < 0.2 else v
    for st, ty in units:
        L = ['[' + SEC[ty] + ']']
        if rnd.random() < 0.3:
            L += named('ServiceName', rnd.choice(['svc-' + st.replace('@', ''), 'my svc']), allow_empty=False)
        if ty == 'container':
            L.append('Image=' + rnd.choice(['localhost/i', ref('image'), ref('build')]))
            if rnd.random() < 0.3:
                L += named('ContainerName', rnd.choice([like('cn-' + st), '%p-x']))
            if st in member_of and rnd.random() < 0.85:
                L.append('Pod=' + member_of[st])
            elif rnd.random() < 0.5:
                L.append('Pod=' + rnd.choice([ref('pod'), ref('pod'), 'notapod', '', rnd.choice(names)]))
            if rnd.random() < 0.4:
                L.append('StartWithPod=' + rnd.choice(['no', 'yes', '', 'x']))
            for _ in range(rnd.randint(0, 2)):
                L.append('Network=' + rnd.choice([ref('network'), ref('container'), ref('network') + ':ip=1.2.3.4', 'host', ref('container') + ':x',
                                                  ref('network') + ':mac=92:d0:c6:0a:29:33', ref('network') + ':ip6=fd00::5,alias=a:b', 'bridge:ip=10.0.0.2:x']))
            if rnd.random() < 0.12:
                # a named volume whose name ends like a unit file of another type: Volume= looks only *.volume up
                L.append('Volume=' + rnd.choice(['lookalike.image:/la', 'lookalike.network:/la', 'lookalike.build:/la:ro', 'lookalike.pod:/la']))
            others = [x for x in names if x.endswith('.container') and x != st + '.container']
            if others and rnd.random() < 0.2:
                L.append('Network=' + rnd.choice(others))      # (joining another container's network: the one reference that needs a *container's* name)
            if rnd.random() < 0.25:
                # the same unit referenced more than once in one unit, and next to a hand-written dependency on its service
                v = ref('volume')
                # (the fields of a Mount= are a set: type= may stand anywhere)
                L += [f'Volume={v}:/first', rnd.choice([f'Volume={v}:/second:ro', f'Mount=type=volume,source={v},dst=/m2', f'Mount=source={v},dst=/m2,type=volume',
                                                        f'Mount=dst=/m2,type=volume,src={v}'])]
            if rnd.random() < 0.1:
                im = ref('image')
                L += [rnd.choice([f'Mount=type=image,source={im},dst=/i1', f'Mount=source={im},type=image,dst=/i1']), f'Mount=type=image,src={im},dst=/i2']
            for _ in range(rnd.randint(0, 2)):
                L.append('Volume=' + rnd.choice([ref('volume') + ':/data', ref('volume') + ':/d:ro', '/host:/c', 'named:/n', ref('volume') + ':/d:ro:z,U',
                                                 ref('volume'), '/only-dest', ref('volume') + ':/d:']))
            if rnd.random() < 0.3:
                L.append('Mount=type=' + rnd.choice(['volume,source=' + ref('volume') + ',dst=/m', 'image,src=' + ref('image') + ',dst=/i',
                                                     'bind,source=./x,target=/y', 'tmpfs,dst=/t']))
            if rnd.random() < 0.1:
                L.append('ExposeHostPort=' + rnd.choice(['80', 'bad']))
        elif ty == 'volume':
            if rnd.random() < 0.3:
                L += named('VolumeName', like('vn-' + st))
            if rnd.random() < 0.3:
                L += ['Driver=image', 'Image=' + rnd.choice([ref('image'), ref('build'), 'localhost/x'])]
            if rnd.random() < 0.1:
                L.append('Bogus=1')
            if rnd.random() < 0.1:
                L.append('Type=ext4')
        elif ty == 'network':
            if rnd.random() < 0.3:
                L += named('NetworkName', like('nn-' + st))
            if rnd.random() < 0.15:
                L.append('Gateway=10.0.0.1')
        elif ty == 'image':
            L.append('Image=' + rnd.choice(['quay.io/x/' + st.replace('@', ''), '']))
            if rnd.random() < 0.3:
                L += named('ImageTag', like('localhost/tag-' + st.replace('@', '')))
        elif ty == 'build':
            if rnd.random() < 0.85:
                L += named('ImageTag', like('localhost/built-' + st.replace('@', '')))
            L.append('File=/opt/Containerfile')
            if rnd.random() < 0.4:
                L.append('Volume=' + ref('volume') + ':/b')
            if rnd.random() < 0.4:
                L.append('Network=' + ref('network') + rnd.choice(['', '', ':ip=10.1.1.1', ':mac=92:d0:c6:0a:29:33']))
            if rnd.random() < 0.15:
                L.append('Network=' + ref('container'))     # (every unit type with a Network= key may join a container's network)
        elif ty == 'kube':
            L.append('Yaml=/opt/k.yaml')
            if rnd.random() < 0.5:
                L.append('Network=' + ref('network') + rnd.choice(['', '', ':ip6=fd00::5']))
            if rnd.random() < 0.2:
                L.append('Network=' + ref('container'))
        elif ty == 'pod':
            if rnd.random() < 0.3:
                L += named('PodName', 'pn-' + st)
            if rnd.random() < 0.4:
                L.append('Network=' + ref('network') + rnd.choice(['', '', ':mac=92:d0:c6:0a:29:33,ip=1.2.3.4']))
            if rnd.random() < 0.2:
                L.append('Network=' + ref('container'))
            if rnd.random() < 0.4:
                L.append('Volume=' + ref('volume') + rnd.choice([':/p', ':/p:ro:z']))
        files[st + '.' + ty] = '\n'.join(L) + '\n'
    return files


PRIO = {'image': 1, 'network': 2, 'volume': 2, 'build': 3, 'container': 4, 'kube': 4, 'pod': 5}


def sorted_order(rnd, names, tables=None):
    """one of the orders the (unstable) priority sort may produce: shuffle, then stable sort by priority"""
    pr = (tables or {}).get('sorting_priority', PRIO)
    idx = list(range(len(names)))
    rnd.shuffle(idx)
    idx.sort(key=lambda i: pr.get(names[i].rsplit('.', 1)[1], 10 ** 6))
    return idx


# ---------------------------------------------------------------------------------------------------------------
# handler-group stream: decision logic over *combinations* of keys.  The groups are read off the source on every run
# (tables['convert'][fn]['lookups'], from tools/extract_tables.py): all keys one handler function looks at.  For every
# group and every unit type that supports some of its keys, every subset of the keys is generated (presence/absence
# is what the handlers branch on), with values drawn from the string literals the handler compares against plus a
# small general domain.

GENERAL = ['', 'x', 'yes', 'no', '0', '10', 'a b', '/abs/p', 'rel/p', '~', '-/opt/o', '%h/x', 'a:b', '1:2:3', 'k=v']


def fn_literals(repo, fn):
    """short string literals in the body of fn in convert.rs (candidate values the function compares against)"""
    import re, os
    try:
        src = open(os.path.join(repo, 'src', 'quadlet', 'convert.rs'), encoding='utf-8').read()
    except OSError:
        return []
    m = re.search(r'\bfn\s+' + re.escape(fn) + r'\b', src)
    if not m:
        return []
    n = re.search(r'\n(?:pub(?:\([a-z]+\))?\s+)?fn\s', src[m.end():])
    body = src[m.end(): m.end() + n.start()] if n else src[m.end():]
    lits = re.findall(r'"((?:[^"\\]|\\.){1,24})"', body)
    return sorted({l for l in lits if '{' not in l and not l.startswith('--') and ' ' not in l and not re.match(r'^[A-Z][A-Za-z]+$', l)})


def handler_groups(tables, repo):
    out = []
    for fn, info in tables['convert'].items():
        keys = []
        for kind, sec, key in info.get('lookups', []):
            if (sec, key) not in [(a, b) for a, b, _ in keys]:
                keys.append((sec, key, kind))
        for tname, rows in info.get('tables', {}).items():
            pass
        if keys:
            out.append((fn, keys, fn_literals(repo, fn)))
    return out


def group_units(rnd, tables, repo, reps=1, max_subsets=96):
    """list of (type, text, group function name)"""
    units = []
    groups = handler_groups(tables, repo)
    # a key looked at by several functions (a handler and the handler it delegates to) gets the literals of all of them
    key_lits = {}
    for fn, keys, lits in groups:
        for _, k, _ in keys:
            key_lits.setdefault(k, set()).update(lits)
    for fn, keys, lits in groups:
        m = __import__('re').match(r'from_(\w+)_unit$', fn)
        for ty in TYPES:
            if m and m.group(1) != ty:
                continue
            sup = set(tables['supported'][SUP[ty]])
            own = [(k, kind) for sec, k, kind in keys if sec not in ('SERVICE_SECTION', 'UNIT_SECTION', 'INSTALL_SECTION', 'QUADLET_SECTION') and k in sup]
            other = [(sec, k, kind) for sec, k, kind in keys if sec in ('SERVICE_SECTION', 'UNIT_SECTION', 'QUADLET_SECTION')]
            if not own:
                continue
            allk = [('own', k, kind) for k, kind in own] + other
            if len(allk) > 12:
                allk = rnd.sample(allk, 12)
            n = len(allk)
            if 2 ** n <= max_subsets:
                subsets = list(range(2 ** n))
            else:
                subsets = [rnd.getrandbits(n) for _ in range(max_subsets)] + [0, 2 ** n - 1] + [1 << i for i in range(n)] + [(2 ** n - 1) ^ (1 << i) for i in range(n)]
            gkeys = {k for _, k, _ in allk}
            base = [b for b in BASE[ty] if b.split('=')[0] not in gkeys]
            for sub in subsets:
                for _ in range(max(reps, min(16, 128 // 2 ** n))):
                    L = {'own': [], 'SERVICE_SECTION': [], 'UNIT_SECTION': [], 'QUADLET_SECTION': []}
                    for i, (sec, k, kind) in enumerate(allk):
                        if not (sub >> i) & 1:
                            continue
                        kl = sorted(key_lits.get(k, ()))
                        dom = (kl if kl and rnd.random() < 0.5 else GENERAL)
                        if kind == 'lookup_bool' and rnd.random() < 0.6:
                            dom = ['yes', 'no', 'true', 'false', '']
                        v = rnd.choice(dom)
                        L[sec].append(f'{k}={v}')
                        if kind.startswith('lookup_all') and rnd.random() < 0.3:
                            L[sec].append(f'{k}={rnd.choice(dom)}')
                    text = ['[' + SEC[ty] + ']'] + base + L['own']
                    for sec, hdr in (('SERVICE_SECTION', '[Service]'), ('UNIT_SECTION', '[Unit]'), ('QUADLET_SECTION', '[Quadlet]')):
                        if L[sec]:
                            text += [hdr] + L[sec]
                    units.append((ty, '\n'.join(text) + '\n', fn))
    return units
