"""Type-directed generators of Quadlet units and unit sets (from the extracted key tables)."""
SUP = {'container': 'SUPPORTED_CONTAINER_KEYS', 'image': 'SUPPORTED_IMAGE_KEYS', 'volume': 'SUPPORTED_VOLUME_KEYS',
       'network': 'SUPPORTED_NETWORK_KEYS', 'pod': 'SUPPORTED_POD_KEYS', 'kube': 'SUPPORTED_KUBE_KEYS', 'build': 'SUPPORTED_BUILD_KEYS'}
SEC = {'container': 'Container', 'image': 'Image', 'volume': 'Volume', 'network': 'Network', 'pod': 'Pod', 'kube': 'Kube', 'build': 'Build'}
TYPES = list(SEC)
BASE = {'container': ['Image=localhost/img'], 'image': ['Image=quay.io/x/y'], 'volume': [], 'network': [], 'pod': [],
        'kube': ['Yaml=/opt/k.yaml'], 'build': ['ImageTag=localhost/t', 'File=/opt/Containerfile']}
VALS = ['x', 'a b', '"a b"', "'q'", 'yes', 'no', 'true', '0', '', 'k=v', 'k=v l=w', '"k=v w" z=1', 'a:b', 'a:b:c:d', '/abs/p', './rel/p', '../up',
        '%h/x', '10', '1-2/tcp', 'é', 'a\\nb', 'a\\x41', 'auto', 'manual', 'keep-id', 'image', 'x.volume:/d', 'type=bind,source=./s,target=/t',
        'type=tmpfs,dst=/x', 'foo.network', 'host', 'none:opt', 'oneshot', 'notify', 'mixed', 'healthy', 'yaml', 'unit', 'file', 'registry',
        '-/dev/null', '-/dev/nope:rw', 'CAP_X y', 'a,b', 'a=b=c', '%%x', 'x y  z', '1000', 'keep-id:uid=1', 'local', 'nfs', '10.0.0.0/24']


def unit(rnd, tables, ty, nkeys=10, near_miss=0.03, extras=True):
    keys = tables['supported'][SUP[ty]]
    lines = ['[' + SEC[ty] + ']'] + list(BASE[ty])
    for _ in range(rnd.randint(0, nkeys)):
        k = rnd.choice(keys)
        if rnd.random() < near_miss:
            k = k.lower()
        lines.append(k + '=' + rnd.choice(VALS))
    extra = []
    if extras:
        if rnd.random() < 0.4:
            extra += ['[Service]'] + [rnd.choice(['KillMode=control-group', 'KillMode=none', 'KillMode=mixed', 'Type=oneshot', 'Type=notify', 'Type=simple',
                                                  'SyslogIdentifier=me', 'RemainAfterExit=no', 'WorkingDirectory=/w', 'WorkingDirectory=', 'Restart=always',
                                                  'NotifyAccess=main', 'Environment=A=1', 'ExecStartPre=/bin/true'])
                                      for _ in range(rnd.randint(1, 3))]
        if rnd.random() < 0.4:
            extra += ['[Unit]'] + [rnd.choice(['After=x.service', 'After=', 'Wants=y.target', 'Description=d e', 'Requires=z.service'])
                                   for _ in range(rnd.randint(1, 2))]
        if rnd.random() < 0.2:
            extra += ['[Quadlet]', rnd.choice(['DefaultDependencies=no', 'DefaultDependencies=yes', 'DefaultDependencies=', 'Bogus=1'])]
        if rnd.random() < 0.2:
            extra += ['[X-' + SEC[ty] + ']', 'Mine=1']
        if rnd.random() < 0.2:
            extra += ['[Install]', 'WantedBy=default.target']
        if rnd.random() < 0.1:
            extra += ['[My Section]', 'Foo=bar', 'Foo=']
    lines = lines + extra if rnd.random() < 0.5 else extra + lines
    return '\n'.join(lines) + '\n'


def file_name(rnd, ty):
    return rnd.choice(['a', 'web-1', 'tpl@', 'tpl@inst', 'x.y', 'my app', 'é']) + '.' + ty


def unit_set(rnd):
    """a set of 1-6 units with a random reference graph (incl. dangling references)"""
    n = rnd.randint(1, 6)
    stems = rnd.sample(['a', 'b', 'web', 'db', 'net1', 'vol-x', 'img', 'p1', 'p2', 'k', 'bld', 'tpl@', 'c.d'], n)
    units = [(st, rnd.choice(TYPES)) for st in stems]
    names = [st + '.' + ty for st, ty in units]

    def ref(ext, missing=0.15):
        c = [x for x in names if x.endswith('.' + ext)]
        if c and rnd.random() > missing:
            return rnd.choice(c)
        return 'missing.' + ext
    files = {}
    for st, ty in units:
        L = ['[' + SEC[ty] + ']']
        if rnd.random() < 0.3:
            L.append('ServiceName=' + rnd.choice(['svc-' + st.replace('@', ''), 'my svc']))
        if ty == 'container':
            L.append('Image=' + rnd.choice(['localhost/i', ref('image'), ref('build')]))
            if rnd.random() < 0.3:
                L.append('ContainerName=' + rnd.choice(['cn-' + st, '%p-x']))
            if rnd.random() < 0.5:
                L.append('Pod=' + rnd.choice([ref('pod'), 'notapod', '']))
            if rnd.random() < 0.4:
                L.append('StartWithPod=' + rnd.choice(['no', 'yes', '', 'x']))
            for _ in range(rnd.randint(0, 2)):
                L.append('Network=' + rnd.choice([ref('network'), ref('container'), ref('network') + ':ip=1.2.3.4', 'host', ref('container') + ':x',
                                                  ref('network') + ':mac=92:d0:c6:0a:29:33', ref('network') + ':ip6=fd00::5,alias=a:b', 'bridge:ip=10.0.0.2:x']))
            for _ in range(rnd.randint(0, 2)):
                L.append('Volume=' + rnd.choice([ref('volume') + ':/data', ref('volume') + ':/d:ro', '/host:/c', 'named:/n', ref('volume') + ':/d:ro:z,U',
                                                 ref('volume'), '/only-dest', ref('volume') + ':/d:']))
            if rnd.random() < 0.3:
                L.append('Mount=type=' + rnd.choice(['volume,source=' + ref('volume') + ',dst=/m', 'image,src=' + ref('image') + ',dst=/i',
                                                     'bind,source=./x,target=/y', 'tmpfs,dst=/t']))
            if rnd.random() < 0.1:
                L.append('ExposeHostPort=' + rnd.choice(['80', 'bad']))
        elif ty == 'volume':
            if rnd.random() < 0.3:
                L.append('VolumeName=' + rnd.choice(['vn-' + st, '']))
            if rnd.random() < 0.3:
                L += ['Driver=image', 'Image=' + rnd.choice([ref('image'), ref('build'), 'localhost/x'])]
            if rnd.random() < 0.1:
                L.append('Bogus=1')
            if rnd.random() < 0.1:
                L.append('Type=ext4')
        elif ty == 'network':
            if rnd.random() < 0.3:
                L.append('NetworkName=nn-' + st)
            if rnd.random() < 0.15:
                L.append('Gateway=10.0.0.1')
        elif ty == 'image':
            L.append('Image=' + rnd.choice(['quay.io/x/' + st.replace('@', ''), '']))
            if rnd.random() < 0.3:
                L.append('ImageTag=localhost/tag-' + st.replace('@', ''))
        elif ty == 'build':
            if rnd.random() < 0.85:
                L.append('ImageTag=localhost/built-' + st.replace('@', ''))
            L.append('File=/opt/Containerfile')
            if rnd.random() < 0.4:
                L.append('Volume=' + ref('volume') + ':/b')
            if rnd.random() < 0.4:
                L.append('Network=' + ref('network') + rnd.choice(['', '', ':ip=10.1.1.1', ':mac=92:d0:c6:0a:29:33']))
        elif ty == 'kube':
            L.append('Yaml=/opt/k.yaml')
            if rnd.random() < 0.5:
                L.append('Network=' + ref('network') + rnd.choice(['', '', ':ip6=fd00::5']))
        elif ty == 'pod':
            if rnd.random() < 0.3:
                L.append('PodName=pn-' + st)
            if rnd.random() < 0.4:
                L.append('Network=' + ref('network') + rnd.choice(['', '', ':mac=92:d0:c6:0a:29:33,ip=1.2.3.4']))
            if rnd.random() < 0.4:
                L.append('Volume=' + ref('volume') + rnd.choice([':/p', ':/p:ro:z']))
        files[st + '.' + ty] = '\n'.join(L) + '\n'
    return files


PRIO = {'image': 1, 'network': 2, 'volume': 2, 'build': 3, 'container': 4, 'kube': 4, 'pod': 5}


def sorted_order(rnd, names, tables=None):
    """one of the orders the (unstable) priority sort may produce: shuffle, then stable sort by priority"""
    pr = (tables or {}).get('sorting_priority', PRIO)
    idx = list(range(len(names)))
    rnd.shuffle(idx)
    idx.sort(key=lambda i: pr.get(names[i].rsplit('.', 1)[1], 10 ** 6))
    return idx
