"""C10 — files are converted independently; exit status reflects failures"""
import os, re, shutil, json
import core, gen, gen_units as G, canon, refs, e2e, trees
from core import hx, unhx
import props.c08 as c08

LEAN_MODULE = 'QM.Props.C10Exit'
THEOREMS = ['Cv.C10_exit_zero_iff', 'Cv.C10_exit_is_0_or_1', 'Cv.C10_exit_one_of_any_failure', 'Refine.C08_process_refines', 'Refine.C10_independent', 'Cv.C08_process_concrete', 'Cv.C10_independent_concrete', 'Cv.C08_order_irrelevant', 'Cv.sys_local', 'Cv.convOut_congr', 'Refine.C09_members_order_free', 'Cv.C08_priorities']
ASSUMPTIONS = c08.ASSUMPTIONS + [
    'discovery, the per-file error policy (continue) and the logged paths are runtime behaviour of main.rs; the model of the whole run (Cv.runTree, QM/Fs.lean: search dirs, first-seen-wins, drop-ins, priority sort, loop; exit status = 1 iff some load, drop-in or conversion error, C10_exit_zero_iff) is compared with real --dry-run runs of the binary on generated trees — services, error counts and exit status — and the property is checked on pairs of real runs',
    'known finding KF-C10-1: two units whose generated service file names coincide overwrite each other on disk; statements are per unit (what --dry-run prints)',
]
LEVEL_TEXT = ('Proof (abstract) + paired real runs: by C08_process_refines the result of a unit is its declarative result, which by C10_independent does not '
              'change when units it neither reads nor is linked from are added, for every sorted processing order. The run-level claims are partial with '
              'respect to the runtime and are checked on the real binary: (i) the services printed for a set of files are unchanged when unrelated '
              'valid, malformed or failing files are added, when the files are redistributed over search directories and sub-directories, and when '
              'they are created in another order; (ii) the exit status is 1 exactly when some file fails to load or convert (as established per file '
              'through the hook) and every failure is logged with the file\'s path; the whole-run model is compared with the binary too.')
LEVEL_NOTE = c08.LEVEL_NOTE + ' Exit status, logging and directory enumeration are observed on real runs only.'
TECHNIQUE = 'Lean 4 refinement/independence proof + whole-run model correspondence + paired real runs (added files, redistributed directories, creation order)'


def correspond(ctx):
    """whole-run model vs real --dry-run on generated trees"""
    res = ctx.res
    rnd = ctx.rnd
    n = 600 if ctx.thorough else 150
    cases = []
    for _ in range(n):
        base = e2e.fresh_dir()
        cases.append(trees.mktree(rnd, base))
    impl = e2e.pmap(lambda c: trees.run_tree(*c), cases)
    mo = trees.model_tree(ctx, cases)
    for (roots, files), a, b in zip(cases, impl, mo):
        res.corr_ops += 1
        res.corr_by_op['tree'] = res.corr_by_op.get('tree', 0) + 1
        if b is None:
            continue
        if a['services']:
            res.corr_nontrivial.add(str(sorted(files)))
        if 'bad' in b or any(a[k] != b[k] for k in ('services', 'load_errors', 'dropin_errors', 'conv_errors', 'exit')):
            if len(res.corr_disagreements) < 10:
                res.corr_disagreements.append(dict(op='tree', op_readable=dict(roots=roots, files=files),
                                                   impl={k: a[k] for k in ('exit', 'load_errors', 'dropin_errors', 'conv_errors', 'services')},
                                                   model={k: b.get(k) for k in ('exit', 'load_errors', 'dropin_errors', 'conv_errors', 'services', 'bad')}))
        shutil.rmtree(os.path.dirname(roots[0]), ignore_errors=True)
    res.samples.append(dict(kind='correspondence-tree', files=cases[0][1]))
    ctx.log(f'correspondence (whole-run model vs --dry-run): {n} trees, {len(res.corr_disagreements)} disagreements')


EXTRA = [('zz-valid.container', '[Container]\nImage=localhost/extra\n'), ('zz-broken.container', '[Container\nImage=x\n'),
         ('zz-unknown.volume', '[Volume]\nBogus=1\n'), ('zz-noimage.container', '[Container]\nExec=true\n'),
         ('zz-dangling.container', '[Container]\nImage=nothere.image\n'), ('zz-net.network', '[Network]\n'), ('zz-img.image', '[Image]\nImage=quay.io/zz\n'),
         ('zz-pod.pod', '[Pod]\n'), ('zz-nosection.kube', 'Yaml=x\n'), ('zz-empty.build', '')]


DROPINS = ['[Unit]\nDescription=from the drop-in\n', '[Service]\nEnvironment=FROM_DROPIN=yes\n', '[Install]\nWantedBy=dropin.target\n',
           '[Unit]\nAfter=dropin.service\n[Service]\nRestart=always\n']


def run_set(placement, order=None, respell_dirs=False):
    """placement: {relative path: text}; returns (exit, {unit file name: canonical printed text}, stderr, base)"""
    base = e2e.fresh_dir()
    items = list(placement.items())
    if order:
        items = [items[i] for i in order]
    dirs = sorted({p.split('/')[0] for p, _ in items})
    for d in dirs:
        os.makedirs(os.path.join(base, d), exist_ok=True)
    for p, t in items:
        if isinstance(t, tuple):   # ('link', target): a symbolic link
            os.makedirs(os.path.dirname(os.path.join(base, p)), exist_ok=True)
            os.symlink(t[1], os.path.join(base, p))
        else:
            e2e.write_tree(base, {p: t})
    env_dirs = [os.path.join(base, d) for d in dirs]
    if respell_dirs:
        # the same search path spelled differently: a trailing slash, a doubled slash, a directory listed twice (the second
        # listing finds nothing new), a directory that does not exist
        env_dirs = [env_dirs[0] + '/'] + [d.replace(base, base + '/', 1) if i % 2 else d for i, d in enumerate(env_dirs[1:])] + [env_dirs[0], os.path.join(base, 'no-such-dir')]
    rc, so, se = e2e.run_binary(['--dry-run', '--no-kmsg-log', os.path.join(base, 'out')], ':'.join(env_dirs))
    _, plist = e2e.split_dry_run(so)
    shutil.rmtree(base, ignore_errors=True)
    return rc, plist, se, base


def by_source(printed, base=None):
    """key the printed services by their SourcePath file name; the unit's own directory (which relative paths are
    resolved against, and which differs between sandboxes and placements) is replaced by a placeholder"""
    out = {}
    for path, text in printed:
        m = re.search(r'^SourcePath=(.*)$', text, re.M)
        src = os.path.basename(m.group(1)) if m else path
        t = trees.canon_text(text)
        if m:
            unitdir = os.path.dirname(m.group(1))
            t = t.replace(m.group(1), '<unit>').replace(unitdir + '/', '<unitdir>/').replace(unitdir, '<unitdir>')
            # paths resolved against the unit's directory are normalised (C17); SourcePath keeps the spelling it was found under
            nd = os.path.normpath(unitdir)
            if nd != unitdir:
                t = t.replace(nd + '/', '<unitdir>/').replace(nd, '<unitdir>')
        if base:
            t = t.replace(base, '<sandbox>')
        out[src] = t
    return out


def oracle(ctx):
    res = ctx.res
    # (T1) control flow of main.rs (continue / break / return / exit / `?` / dry-run guards / error pushes): inventory regenerated
    # from the source vs the reviewed one — the loop policy the run-level models assume
    import sys as _sys, json as _json
    _rc, _o, _e = core.sh([_sys.executable, os.path.join(core.VERIF, 'tools', 'flow_sites.py'), core.REPO, os.path.join(core.BUILD, 'flow_sites.json')])
    _have = {(x['fn'], x['kind'], x['stmt'], x['n']) for x in (_json.load(open(os.path.join(core.BUILD, 'flow_sites.json'))) if _rc == 0 else [])}
    _spec = {(x['fn'], x['kind'], x['stmt'], x['n']) for x in _json.load(open(os.path.join(core.VERIF, 'spec', 'flow_sites.json')))}
    _diff = sorted(_have ^ _spec)
    res.extra_obligations.append(('control-flow inventory of main.rs matches the reviewed one (spec/flow_sites.json)', _rc == 0 and not _diff,
                                  'statements that differ: ' + '; '.join(f'{d[0]}: {d[2][:70]}' for d in _diff[:6])))
    rnd = ctx.rnd
    n = 400 if ctx.thorough else 100
    cases = []
    for _ in range(n):
        fs = G.unit_set(rnd)
        if rnd.random() < 0.3:
            k = rnd.choice(list(fs))
            fs[k] = rnd.choice(['[Oops\n', 'Key=before section\n']) + fs[k]
        cases.append(fs)

    def variants(fs):
        names = list(fs)
        # some of the units have a (valid) drop-in of their own, present in every variant
        drop = {n: rnd.choice(DROPINS) for n in names if rnd.random() < 0.35 and not fs[n].startswith(('[Oops', 'Key=before'))}
        base = {'d0/' + n: fs[n] for n in names}
        base.update({'d0/' + n + '.d/10-own.conf': t for n, t in drop.items()})
        extra = dict(base)
        # (unrelated units whose file names are what some Volume= of the set calls a *volume*: nothing refers to them)
        extra.update({'d0/lookalike.image': '[Image]\nImage=quay.io/x/la\n', 'd0/lookalike.network': '[Network]\n', 'd0/lookalike.pod': '[Pod]\n',
                      'd0/lookalike.build': '[Build]\nImageTag=localhost/la\nFile=/opt/Containerfile\n'})
        for n, t in rnd.sample(EXTRA, rnd.randint(1, 4)):
            extra['d0/' + n] = t
        # a file that fails conversion may *name* a unit of the set (a container naming a pod): the pod does not reference it, and a
        # container that was never generated is no member — the pod's service stays what it was
        for i, pod in enumerate(n for n in names if n.endswith('.pod')):
            extra[f'd0/zz-failing-member{i}.container'] = rnd.choice([f'[Container]\nPod={pod}\nExec=true\n', f'[Container]\nImage=localhost/i\nPod={pod}\nBogusKey=1\n',
                                                                      f'[Container]\nImage=localhost/i\nPod={pod}\nExposeHostPort=notaport\n'])
        # unrelated units whose drop-ins fail to load, one found early and one late in a sorted listing
        for n in ('00-baddrop.container', 'zz-baddrop.container'):
            extra['d0/' + n] = '[Container]\nImage=localhost/baddrop\n'
            extra['d0/' + n + '.d/bad.conf'] = rnd.choice(['no equals sign\n', '[Unterminated\n', 'Key=before any section\n'])
            # … and around it drop-ins that load: one that sorts before it, one that sorts after it
            if rnd.random() < 0.7:
                extra['d0/' + n + '.d/zz-after.conf'] = '[Container]\nLabel=after=1\n'
            if rnd.random() < 0.5:
                extra['d0/' + n + '.d/00-before.conf'] = '[Container]\nLabel=before=1\n'
        # files that cannot be read at all: a dangling symbolic link and a directory named like a unit
        if rnd.random() < 0.5:
            extra['d0/zz-ghost.container'] = ('link', 'no-such-target')
        else:
            extra['d0/zz-isdir.volume'] = None
        spread = {}
        for n in names:
            d = rnd.choice(['d0/', 'd1/', 'd0/sub/', 'd2/deep/er/', 'd0-more/', 'd1x/sub/'])   # (siblings whose names begin alike are different directories)
            spread[d + n] = fs[n]
            if n in drop:
                spread[d + n + '.d/10-own.conf'] = drop[n]
        order = list(range(len(base)))
        rnd.shuffle(order)
        # a malformed file with the *same file name* as one of the units, in a search directory that is read earlier
        shadow = dict(base)
        victim = rnd.choice(names)
        shadow['c0/' + victim] = rnd.choice(['[Broken\n', 'Key=before any section\n', '[' + 'X' + ']\nno equals sign\n'])
        return base, extra, spread, order, shadow
    vs = [variants(fs) for fs in cases]

    def run4(v):
        base, extra, spread, order, shadow = v
        return run_set(base), run_set(extra), run_set(spread), run_set(base, order), run_set(shadow), run_set(spread, respell_dirs=True)
    outs = e2e.pmap(run4, vs)
    # per-file verdicts through the hook (which files fail to load or convert)
    ops = []
    for fs in cases:
        names = list(fs)
        ops.append(c08.op_of(names, fs, G.sorted_order(rnd, names, ctx.tables)))
    verdicts = ctx.impl(ops)
    for fs, v, (r0, r1, r2, r3, r4, r5), op, verdict in zip(cases, vs, outs, ops, verdicts):
        res.oracle_evals += 1
        fails = []
        s0 = by_source(r0[1], r0[3])
        for label, r in (('with unrelated files added', r1), ('redistributed over search directories', r2), ('created in another order', r3),
                         ('with a malformed file of the same name in an earlier search directory', r4),
                         ('with the search path spelled differently (trailing / doubled slashes, a directory listed twice, a missing directory)', r5)):
            s = by_source(r[1], r[3])
            for name in fs:
                if name.endswith('.pod'):
                    pass
                if s0.get(name) != s.get(name):
                    fails.append(f'{name}: the service differs {label}:\n{s0.get(name)}\nvs\n{s.get(name)}')
        # exit status iff some file fails; every failure logged with the path
        rs = canon.parse_convert(verdict)
        bad = [n for n, r in zip([list(fs)[i] for i in [int(x) for x in op.split('\t')[2].split(',')]], rs) if r[0] != 'svc']
        if (r0[0] == 1) != bool(bad) or r0[0] not in (0, 1):
            fails.append(f'exit status {r0[0]} but failing files are {bad}')
        for b in bad:
            if not any('ERROR' in l and b in l for l in r0[2].split('\n')):
                fails.append(f'the failure of {b} is not logged with its path: {e2e.error_lines(r0[2])}')
        if r1[0] != 1:
            fails.append(f'exit status {r1[0]} although units with malformed drop-ins were added')
        for nb in ('00-baddrop.container', 'zz-baddrop.container'):
            if not any('ERROR' in l and nb in l for l in r1[2].split('\n')):
                fails.append(f'the drop-in of {nb} that cannot be loaded is not reported (it has a loadable drop-in that sorts after it: every file counts): {e2e.error_lines(r1[2])[:6]}')
        for ghost in ('zz-ghost.container', 'zz-isdir.volume'):
            if 'd0/' + ghost in v[1] and not any('ERROR' in l and ghost in l for l in r1[2].split('\n')):
                fails.append(f'{ghost} cannot be read but no error names it: {e2e.error_lines(r1[2])[:6]}')
        if r1[0] != 1 and any(n in ('zz-broken.container', 'zz-unknown.volume', 'zz-noimage.container', 'zz-dangling.container', 'zz-nosection.kube') for n in [os.path.basename(p) for p in v[1]]):
            fails.append(f'exit status {r1[0]} although a failing file was added')
        if r4[0] != 1:
            fails.append(f'exit status {r4[0]} although a malformed file was added')
        for f in fails:
            res.oracle_failures.append(dict(op='e2e', input=dict(files=fs, extra=[p for p in v[1] if p not in v[0]], spread=sorted(v[2]), shadow=[p for p in v[4] if p not in v[0]]), impl_output=dict(exit=r0[0], stderr=e2e.error_lines(r0[2])[:6]), oracle_expectation=f[:1500]))
    # every unit type, every way a single file can be unusable (stated here, not taken from the converters): next to a valid unit,
    # the run exits 1, an error names the file, no service is generated for it, and the valid unit is generated
    BREAK = [('unknown key in the own section', lambda ty, t: t + 'Bogus=1\n'), ('unknown key in [Quadlet]', lambda ty, t: t + '[Quadlet]\nBogus=1\n'),
             ('unterminated header', lambda ty, t: '[Oops\n' + t), ('line without =', lambda ty, t: t + 'NoEqualsSign\n'),
             ('key before any section', lambda ty, t: 'K=1\n' + t), ('invalid escape in a value', lambda ty, t: t + '[Unit]\nDescription=\\q\n'),
             ('NUL byte in a value of the own section', lambda ty, t: t + 'PodmanArgs=a\x00b\n'), ('NUL byte in a value of [Quadlet]', lambda ty, t: t + '[Quadlet]\nDefaultDependencies=n\x00o\n'),
             ('NUL byte in a value of [Unit]', lambda ty, t: t + '[Unit]\nDescription=a\x00b\n')]
    singles = []
    for ty in G.TYPES:
        good = '[' + G.SEC[ty] + ']\n' + ''.join(b + '\n' for b in G.BASE[ty])
        for why, f in BREAK:
            # where the file lies is part of the input: directly in the search directory, or some levels down so that its path is
            # about 0.4, 1.1, 2.5 KiB long — "logged with the path of the offending file" means the whole path, however long
            deep = 'd0/' + ''.join(('p%d' % i + 'x' * 200 + '/') for i in range([0, 2, 5, 12][len(singles) % 4]))
            singles.append((ty, why, {deep + 'bad.' + ty: f(ty, good), 'd0/ok.container': '[Container]\nImage=localhost/ok\n'}))
    for (ty, why, files), r in zip(singles, e2e.pmap(lambda x: run_set(x[2]), singles)):
        res.oracle_evals += 1
        srcs = by_source(r[1], r[3])
        fails = []
        if r[0] != 1:
            fails.append(f'exit status {r[0]} although bad.{ty} cannot be used ({why})')
        if not any('ERROR' in l and 'bad.' + ty in l for l in r[2].split('\n')):
            fails.append(f'no error names bad.{ty} ({why}): {e2e.error_lines(r[2])[:4]}')
        full = os.path.join(r[3], next(p for p in files if '/bad.' in p or p.startswith('bad.')))
        if not any('ERROR' in l and full in l for l in r[2].split('\n')):
            fails.append(f'no error carries the complete path of bad.{ty} ({len(full)} bytes; {why}): {[x[:80] + " … " + x[-60:] for x in e2e.error_lines(r[2])[:4]]}')
        if 'bad.' + ty in srcs:
            fails.append(f'a service was generated for bad.{ty} ({why})')
        if 'ok.container' not in srcs:
            fails.append(f'the valid unit beside bad.{ty} was not generated')
        for f in fails:
            res.oracle_failures.append(dict(op='e2e', input=files, impl_output=dict(exit=r[0], stderr=e2e.error_lines(r[2])[:4]), oracle_expectation=f))
    # many failing files in one run: each one is logged with its path, whether it is the first or the fortieth failure
    for n_load, n_conv in ((12, 0), (0, 12), (5, 6), (20, 20)):
        res.oracle_evals += 1
        many = {f'd0/l{i}.container': '[Container\nImage=x\n' for i in range(n_load)}
        many.update({f'd0/c{i}.' + G.TYPES[i % len(G.TYPES)]: '[' + G.SEC[G.TYPES[i % len(G.TYPES)]] + ']\nBogusKey=1\n' for i in range(n_conv)})
        many['d0/ok.container'] = '[Container]\nImage=localhost/ok\n'
        r = run_set(many)
        elines = [l for l in r[2].split('\n') if 'ERROR' in l]
        unnamed = [p for p in many if p != 'd0/ok.container' and not any('/' + os.path.basename(p) + '"' in l for l in elines)]
        if unnamed or r[0] != 1 or 'ok.container' not in by_source(r[1], r[3]):
            res.oracle_failures.append(dict(op='e2e', input=dict(files_failing_to_load=n_load, files_failing_to_convert=n_conv), impl_output=dict(exit=r[0], error_lines=len(elines), last=elines[-2:]),
                                            oracle_expectation=f'exit status 1, the valid unit generated, and every one of the {n_load + n_conv} failing files named in an error line; not named: {unnamed[:8]}'))
    # references between units of the *same* priority (a container joining another container's network): the result must
    # not depend on which of the two is discovered first
    for a, b in (('web', 'db'), ('a', 'z'), ('z', 'a'), ('front', 'back')):
        for svcname in ('', 'ServiceName=renamed\n'):
            res.oracle_evals += 1
            ta = f'[Container]\nImage=localhost/i\nNetwork={b}.container\n'
            tb = '[Container]\nImage=localhost/j\n' + svcname
            r1 = run_set({f'c0/{a}.container': ta, f'd0/{b}.container': tb})
            r2 = run_set({f'c0/{b}.container': tb, f'd0/{a}.container': ta})
            s1, s2 = by_source(r1[1], r1[3]), by_source(r2[1], r2[3])
            if r1[0] != 0 or r2[0] != 0 or s1 != s2 or len(s1) != 2:
                res.oracle_failures.append(dict(op='e2e', input={f'{a}.container': ta, f'{b}.container': tb},
                                                impl_output=dict(referrer_first=dict(exit=r1[0], services=sorted(s1), stderr=e2e.error_lines(r1[2])[:3]),
                                                                 referenced_first=dict(exit=r2[0], services=sorted(s2), stderr=e2e.error_lines(r2[2])[:3])),
                                                oracle_expectation='both placements give the same two services and exit status 0 (the referenced container is found whichever is discovered first)'))
    # known finding KF-C10-1
    for k in ctx.known:
        ex = json.load(open(os.path.join(core.VERIF, 'known_findings.d', k['example'])))
        r = e2e.run_case({'src/' + n: t for n, t in ex['files'].items()}, dry_run=False)
        if sorted(r['services']) == ex['services_written_deviating']:
            res.known_hits[k['id']] = k['what']
    res.samples.append(dict(kind='e2e-case', files=cases[0]))
    ctx.log(f'oracle: {res.oracle_evals} evaluations, {len(res.oracle_failures)} failures')
