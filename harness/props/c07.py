"""C07 — user sections pass through unchanged; the Quadlet section is kept as X-<name>"""
import json, os
import core, gen, gen_units as G, canon
from core import hx, unhx

LEAN_MODULE = 'QM.Props.C07'
THEOREMS = ['Cv.C07_container_keys', 'Cv.C07_pod_keys', 'Cv.C07_volume_keys', 'Cv.C07_network_keys', 'Cv.C07_kube_keys', 'Cv.C07_build_keys', 'Cv.C07_image_keys',
            'Cv.keys_fromContainer', 'Cv.unmanaged_of_keys', 'Cv.keys_startService', 'Cv.C07_managed_conforms',
            'Cv.C07_container_grows', 'Cv.C07_pod_grows', 'Cv.C07_volume_grows', 'Cv.C07_network_grows', 'Cv.C07_kube_grows', 'Cv.C07_build_grows', 'Cv.grows_of',
            'Cv.C07_container_sections', 'Cv.C07_pod_sections', 'Cv.C07_volume_sections', 'Cv.C07_network_sections', 'Cv.C07_kube_sections', 'Cv.C07_build_sections',
            'Cv.frame_fromContainer', 'Cv.frame_fromPod', 'Cv.frame_fromVolume', 'Cv.frame_fromNetwork', 'Cv.frame_fromKube', 'Cv.frame_fromBuild', 'Cv.sections_of_frame',
            'Cv.C07_start_passthrough', 'Cv.C07_unit_defaults_first', 'Cv.C07_oneshot_keeps_user_choice', 'Cv.C07_killmode_kept',
            'Cv.C07_image_passthrough', 'Cv.C07_image_xsection']
ASSUMPTIONS = [
    'MM.SUnit models the ordered multimap; merge_from / rename_section / prepend / set / add are modelled operation by operation and tied by the unit-script correspondence',
    'the statement about sections (every foreign section verbatim and in order; own section and [Quadlet] kept as X-…; neither remains) is proved for all seven converter models; inside [Unit] and [Service] every key that no converter manages (Cv.managed: 7 pairs in [Unit], 14 in [Service]) is proved to keep exactly the user\'s entries (C07_<type>_keys); for the managed keys (user values kept, only NotifyAccess replaceable, managed settings) is proved for the shared helpers (default dependencies first, one-shot settings, KillMode) and otherwise checked on real conversions by the oracle',
    '[Service] Type of a non-oneshot container is re-set by the generator to the same value (its spelling is normalised); the oracle compares unquoted values there',
]
LEVEL_TEXT = ('Proof (sections: all seven converters) + oracle (inside [Unit]/[Service]): Lean theorems C07_<type>_sections — for every unit and every '
              'successful conversion by the model of each converter, every section other than the unit\'s own, [Quadlet], their X- counterparts, [Unit] and '
              '[Service] has exactly the user\'s entries in order, the own section is kept verbatim under X-<name> after whatever the user already had '
              'there (likewise [Quadlet]), and no section of the old names remains. Proved by a frame calculus: every handler (image / storage / volume / '
              'network / mount / pod references, KillMode, Type/Notify, working directory, Exec lines, one-shot settings), including the monadic folds, '
              'writes only to [Unit] or [Service]. Inside [Unit] and [Service] (and every foreign section), for every (section, key) pair that no converter '
              'manages (Cv.managed lists the 21 managed pairs) the service has exactly the user\'s entries of that key, values and order '
              '(C07_<type>_keys, a key-level frame calculus over add / set / prepend / add_raw, all handlers, folds and converters); for the '
              'managed keys other than the five settings written with set, the user\'s entries of the key are a sublist — same values, same order — '
              'of the service\'s (C07_<type>_grows: the generator only adds). Also proved: default dependencies are prepended, one-shot settings and KillMode=mixed|control-group '
              'are kept when the user set them. The per-key claims inside [Unit]/[Service] are checked on the real converters with user values — '
              'including empty assignments — for every key the converters themselves read or write.')
LEVEL_NOTE = 'Trusted: Lean kernel; correspondence of the multimap and converter models; the Python statement of the pass-through rule used by the oracle.'
TECHNIQUE = 'Lean 4 proofs over the multimap algebra (merge/rename/prepend/set) and the .image converter + pass-through oracle on the real converters'

USER_SECS = {
    'Unit': ['After=dev-disk-by\\x2dlabel-data.device', 'ConditionPathExists=/mnt/my\\sdata', 'Description="Data" container', 'Description=a\tb', "Description='q' \\\"r",
             'Description=d e', 'After=x.service', 'After=', 'After=y.service z.service', 'Wants=w.target', 'Requires=r.service', 'Documentation=man:foo(1)', 'SourcePath=/mine',
             # the user's reset of a dependency list (alone, and followed by a new value), for every list the generator adds to
             'Wants=', 'Wants=', 'Wants=foo.service', 'Requires=', 'Before=', 'BindsTo=', 'RequiresMountsFor=', 'RequiresMountsFor=/mnt/x',
             # the user's own entries may say what the generator is about to say as well (a host path it mounts, the runtime directory, the
             # network target): they stay where they are, each of them, whatever is added after them
             'RequiresMountsFor=/srv/data', 'RequiresMountsFor=/srv/data', 'RequiresMountsFor=%t/containers', 'After=network-online.target', 'Wants=network-online.target',
             'RequiresMountsFor=/srv/other', 'After=late.target'],
    'Service': ['Environment="A=a b" B=\\x41', 'ExecStartPre=/bin/sh -c "echo \\"x\\" \\\\ y"', 'ExecReload=/bin/kill -HUP $MAINPID', 'Restart=always', 'Environment=A=1', 'Environment=', 'Environment=B=2', 'ExecStartPre=/bin/true', 'ExecStartPre=', 'TimeoutStartSec=900', 'KillMode=mixed',
                'KillMode=control-group', 'Type=oneshot', 'Type=notify', 'SyslogIdentifier=me', 'RemainAfterExit=no', 'WorkingDirectory=/w', 'NotifyAccess=main', 'ExecStart=/bin/mine',
                'Delegate=no'],
    'Install': ['WantedBy=default.target', 'WantedBy=', 'WantedBy=a.target b.target', 'Alias=x.service'],
    'My Section': ['Foo=bar', 'Foo=', 'Foo="q r"', 'Baz=1'],
}


def managed_keys():
    """keys the generator itself writes into [Unit]/[Service] (read off convert.rs), so that user values for exactly these keys are generated"""
    import re, os
    out = {'Unit': set(), 'Service': set()}
    try:
        src = open(os.path.join(core.REPO, 'src', 'quadlet', 'convert.rs')).read()
        for sec, key in re.findall(r'\.(?:set|add|prepend|add_raw|lookup|lookup_last|lookup_bool|has_key)\(\s*(SERVICE_SECTION|UNIT_SECTION),\s*"(\w+)"', src):
            out['Service' if sec.startswith('SERVICE') else 'Unit'].add(key)
    except OSError:
        pass
    return out


def gen_unit(ctx, ty):
    rnd = ctx.rnd
    if not hasattr(ctx, '_managed'):
        ctx._managed = managed_keys()
        for sec in ('Unit', 'Service'):
            for k in sorted(ctx._managed[sec]):
                # every managed key with an ordinary value, with an empty assignment, and with a value followed by an empty one
                USER_SECS[sec] += [f'{k}=', f'{k}=x', f'{k}=yes', f'{k}=no']
    own = ['[' + G.SEC[ty] + ']'] + list(G.BASE[ty])
    if ty in ('container', 'pod', 'build') and rnd.random() < 0.4:
        own.append('Volume=/srv/data:/data')     # (a host path: the generator adds RequiresMountsFor=/srv/data)
    for _ in range(rnd.randint(0, 3)):
        k = rnd.choice(ctx.tables['supported'][G.SUP[ty]])
        own.append(k + '=' + rnd.choice(['x', 'yes', '', 'a b', '10']))
    blocks = [own]
    for sec, pool in USER_SECS.items():
        if rnd.random() < 0.6:
            blocks.append(['[' + sec + ']'] + [rnd.choice(pool) for _ in range(rnd.randint(1, 4))])
    if rnd.random() < 0.2:
        # the user's own choice of service type, made twice (as a drop-in would): the last one is the effective one
        blocks.append(['[Service]'] + rnd.choice([['Type=notify', 'NotifyAccess=main', 'Type=oneshot'], ['Type=oneshot', 'Type=notify'], ['Type=notify', 'Type=', 'Type=oneshot'],
                                                  ['Type=simple', 'NotifyAccess=exec', 'Type=oneshot'], ['KillMode=none', 'KillMode=mixed']]))
    if rnd.random() < 0.25:
        # "any other section": also one that carries the name of ANOTHER unit type's section (or of its X- counterpart), a name that
        # differs from the own section's in case only, and one that merely starts with it — all of them foreign here, kept as they are
        other = rnd.choice([t for t in G.TYPES if t != ty])
        nm = rnd.choice([G.SEC[other], 'X-' + G.SEC[other], G.SEC[ty].lower(), G.SEC[ty].upper(), G.SEC[ty] + 's', G.SEC[ty] + ' ', 'quadlet', 'Quadlet2', 'X-' + G.SEC[ty] + '-old'])
        blocks.append(['[' + nm + ']', 'Foreign=1', 'Image=elsewhere', 'Foreign='])
    if rnd.random() < 0.3:
        blocks.append(['[X-' + G.SEC[ty] + ']', 'Mine=1', 'Image=other'])
    if rnd.random() < 0.3:
        blocks.append(['[Quadlet]', rnd.choice(['DefaultDependencies=no', 'DefaultDependencies=yes', 'DefaultDependencies='])])
    if rnd.random() < 0.2:
        blocks.append(['[X-Quadlet]', 'Old=1'])
    if rnd.random() < 0.2:   # repeated own section
        blocks.append(['[' + G.SEC[ty] + ']', 'PodmanArgs=--later'])
    rnd.shuffle(blocks)
    return '\n'.join(l for b in blocks for l in b) + '\n'


def corr_ops(ctx):
    rnd = ctx.rnd
    ctx._c07 = []
    ops = []
    for _ in range(5000 if ctx.thorough else 1200):
        ty = rnd.choice(G.TYPES)
        text = gen_unit(ctx, ty)
        name = '/q/' + G.file_name(rnd, ty)
        ctx._c07.append((ty, name, text))
        ops.append(f'convert\t{rnd.choice("01")}\t0\t{hx(name)}\t{hx(text)}')
    # combinations of the keys each handler function looks at (incl. the [Service]/[Unit] keys it consults), groups read off the source
    for ty, text, fn in G.group_units(rnd, ctx.tables, core.REPO, reps=2 if ctx.thorough else 1):
        if '[Service]' in text or '[Unit]' in text or rnd.random() < 0.2:
            ctx._c07.append((ty, '/q/g.' + ty, text))
            ops.append(f'convert\t0\t0\t{hx("/q/g." + ty)}\t{hx(text)}')
    ctx._c07_ops = ops
    return ops


def project(op, out):
    return canon.canon_result(out)


def nontrivial(op, out):
    return out.startswith('ok svc')


def is_subseq(a, b):
    it = iter(b)
    return all(x in it for x in a)


def oracle(ctx):
    res = ctx.res
    units = getattr(ctx, '_c07', None)
    ops = getattr(ctx, '_c07_ops', None)
    if units is None:
        rnd = ctx.rnd
        units = [(ty, '/q/a.' + ty, gen_unit(ctx, ty)) for ty in [rnd.choice(G.TYPES) for _ in range(1200)]]
        ops = [f'convert\t0\t0\t{hx(n)}\t{hx(t)}' for _, n, t in units]
    io = ctx.impl(ops)
    po = ctx.impl(['parse\t' + hx(t) for _, _, t in units])
    for (ty, name, text), op, a, p in zip(units, ops, io, po):
        r = canon.parse_convert(a)[0]
        if r[0] != 'svc' or not p.startswith('ok'):
            continue
        res.oracle_evals += 1
        u = canon.parse_convert('ok svc x ' + p[3:])[0]
        usecs, ssecs = u[2], r[2]
        own = G.SEC[ty]
        fails = []
        service_type = [v for k, v in usecs.get('Service', []) if k == 'Type']
        oneshot = bool(service_type) and service_type[-1] == 'oneshot'
        for sec, entries in usecs.items():
            if sec in (own, 'Quadlet'):
                continue
            target = ssecs.get(sec, [])
            for key in sorted({k for k, _ in entries}):
                uv = [v for k, v in entries if k == key]
                sv = [v for k, v in target if k == key]
                if sec == 'X-' + own or sec == 'X-Quadlet':
                    continue  # checked below together with the renamed section
                if (sec, key) == ('Service', 'NotifyAccess') and ty == 'container' and not oneshot:
                    if not is_subseq(uv[:-1], sv):
                        fails.append(f'[Service] NotifyAccess: only the last user value may be replaced: {uv} vs {sv}')
                    continue
                if (sec, key) == ('Service', 'Type') and ty in ('container', 'kube'):
                    # the generator may re-set Type to the same value with normalised spelling
                    if not is_subseq(uv[:-1], sv) or (uv and (not sv or sv[-1].strip('"') != uv[-1].strip('"')) and uv[-1] in ('oneshot', 'notify', 'forking') and ty == 'container'):
                        if not (ty == 'container' and uv[-1] not in ('oneshot', 'notify', 'forking')):
                            fails.append(f'[Service] Type: {uv} vs {sv}')
                    continue
                if not is_subseq(uv, sv):
                    fails.append(f'[{sec}] {key}: user values {uv} are not a subsequence of the service\'s {sv}')
        # X-sections
        for frm, to in ((own, 'X-' + own), ('Quadlet', 'X-Quadlet')):
            want = usecs.get(to, []) + usecs.get(frm, [])
            if ssecs.get(to, []) != want and (want or to in ssecs):
                fails.append(f'[{to}] must be the old [{to}] entries followed by [{frm}] verbatim: {ssecs.get(to)} vs {want}')
            if frm in ssecs:
                fails.append(f'section [{frm}] must not remain in the service')
        # default dependencies first in [Unit], then the user's entries, then what the generator adds
        unit = ssecs.get('Unit', [])
        uu = usecs.get('Unit', [])
        dd = [v for k, v in usecs.get('Quadlet', []) if k == 'DefaultDependencies']
        enabled = not dd or dd[-1].strip() == '' or dd[-1] in ('yes', 'true', '1', 'on')
        deps = [('Wants', 'network-online.target'), ('After', 'network-online.target')] if enabled else []
        if unit[:len(deps)] != deps or unit[len(deps):len(deps) + len(uu)] != uu:
            fails.append(f'[Unit] must be the default dependencies {deps}, then the user\'s entries {uu}, then generated entries: {unit}')
        # … and ONLY there: what follows the user's entries must not bring a default dependency back (the user's reset keeps the last word)
        late = [e for e in unit[len(deps) + len(uu):] if e in (('Wants', 'network-online.target'), ('After', 'network-online.target'))]
        if late:
            fails.append(f'[Unit]: a default dependency is added again after the user\'s entries {uu}: {late} in {unit}')
        # managed settings keep the user's permitted choice
        svc = ssecs.get('Service', [])

        def last(entries, k):
            v = [x for kk, x in entries if kk == k]
            return v[-1] if v else None
        us = usecs.get('Service', [])
        if ty in ('container', 'kube') and last(us, 'KillMode') in ('mixed', 'control-group') and last(svc, 'KillMode') != last(us, 'KillMode'):
            fails.append(f'KillMode={last(us, "KillMode")} was overwritten: {last(svc, "KillMode")}')
        for k in ('SyslogIdentifier', 'RemainAfterExit'):
            if last(us, k) is not None and last(svc, k) != last(us, k):
                fails.append(f'{k}={last(us, k)} was overwritten: {last(svc, k)}')
        if ty in ('container', 'kube') and last(us, 'Type') == 'oneshot' and last(svc, 'Type') != 'oneshot':
            fails.append(f'Type=oneshot was overwritten: {last(svc, "Type")}')
        if ty in ('container', 'kube') and last(us, 'Type') == 'oneshot' and last(us, 'NotifyAccess') not in (None, '') and last(svc, 'NotifyAccess') != last(us, 'NotifyAccess'):
            fails.append(f'NotifyAccess={last(us, "NotifyAccess")} of a oneshot service was overwritten: {last(svc, "NotifyAccess")}')
        if last(us, 'WorkingDirectory') not in (None, '') and last(svc, 'WorkingDirectory') != last(us, 'WorkingDirectory'):
            fails.append(f'WorkingDirectory={last(us, "WorkingDirectory")} was overwritten: {last(svc, "WorkingDirectory")}')
        for f in fails:
            res.oracle_failures.append(dict(op=op, input=text, impl_output=core.dec_line(a)[:900], oracle_expectation=f))
    # the user's sections may come from drop-ins as well: the same units with their tails ([Unit], [Service], [Install], X- sections,
    # the own section) moved into drop-ins generate the same services — through the real loader
    import filespell, os as _os
    filespell.compare(ctx, [{_os.path.basename(name): text} for ty, name, text in units[:(400 if ctx.thorough else 100)]],
                      filespell.DROPIN_WAYS, 'C07 user sections in drop-ins')
    res.samples.append(dict(kind='oracle-case', unit=units[0][2]))
    ctx.log(f'oracle: {res.oracle_evals} evaluations, {len(res.oracle_failures)} failures')
